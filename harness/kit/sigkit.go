package kit

// sigkit: certificates, chains and signature envelopes for the drivers that
// exercise the real verifier. Everything is minted per run with EC P-256
// keys (fast); ground truth about envelopes is always asked from
// notation-core-go itself, never assumed from construction.

import (
	"crypto"
	"crypto/ecdsa"
	"crypto/elliptic"
	"crypto/rand"
	"crypto/x509"
	"crypto/x509/pkix"
	"encoding/asn1"
	"encoding/json"
	"fmt"
	"math/big"
	"sync/atomic"
	"time"

	"github.com/notaryproject/notation-core-go/signature"
	"github.com/notaryproject/notation-core-go/signature/cose"
	"github.com/notaryproject/notation-core-go/signature/jws"
	ocispec "github.com/opencontainers/image-spec/specs-go/v1"
)

const (
	MtJWS     = jws.MediaTypeEnvelope
	MtCOSE    = cose.MediaTypeEnvelope
	MtPayload = "application/vnd.cncf.notary.payload.v1+json"
)

var serialCounter int64 = 1000

// Cert is a certificate with its private key.
type Cert struct {
	C   *x509.Certificate
	Key crypto.Signer
}

// CertSpec describes a certificate to mint.
type CertSpec struct {
	Subject    pkix.Name
	RawSubject []byte // if set, used verbatim (DER RDNSequence)
	NotBefore  time.Time
	NotAfter   time.Time
	IsCA       bool
	Leaf       bool // code-signing leaf (digitalSignature + EKU codeSigning)
	TSA        bool // timestamping leaf (critical EKU timeStamping)
	NoEKU      bool
	Key        crypto.Signer // optional: reuse key
}

func NewECKey() crypto.Signer {
	k, err := ecdsa.GenerateKey(elliptic.P256(), rand.Reader)
	if err != nil {
		panic(err)
	}
	return k
}

// Mint issues a certificate for spec signed by parent (nil = self-signed).
func Mint(spec CertSpec, parent *Cert) *Cert {
	key := spec.Key
	if key == nil {
		key = NewECKey()
	}
	nb, na := spec.NotBefore, spec.NotAfter
	if nb.IsZero() {
		nb = time.Now().Add(-24 * time.Hour)
	}
	if na.IsZero() {
		na = time.Now().Add(24 * time.Hour)
	}
	tpl := &x509.Certificate{
		SerialNumber:          big.NewInt(atomic.AddInt64(&serialCounter, 1)),
		Subject:               spec.Subject,
		RawSubject:            spec.RawSubject,
		NotBefore:             nb,
		NotAfter:              na,
		BasicConstraintsValid: true,
	}
	switch {
	case spec.IsCA:
		tpl.IsCA = true
		tpl.KeyUsage = x509.KeyUsageCertSign
	case spec.TSA:
		tpl.KeyUsage = x509.KeyUsageDigitalSignature
		if !spec.NoEKU {
			// critical EKU timeStamping
			eku, _ := asn1.Marshal([]asn1.ObjectIdentifier{{1, 3, 6, 1, 5, 5, 7, 3, 8}})
			tpl.ExtraExtensions = append(tpl.ExtraExtensions, pkix.Extension{Id: asn1.ObjectIdentifier{2, 5, 29, 37}, Critical: true, Value: eku})
		}
	default:
		tpl.KeyUsage = x509.KeyUsageDigitalSignature
		if !spec.NoEKU {
			tpl.ExtKeyUsage = []x509.ExtKeyUsage{x509.ExtKeyUsageCodeSigning}
		}
	}
	signer := key
	parentTpl := tpl
	if parent != nil {
		signer = parent.Key
		parentTpl = parent.C
	}
	der, err := x509.CreateCertificate(rand.Reader, tpl, parentTpl, key.Public(), signer)
	if err != nil {
		panic(fmt.Sprintf("mint %v: %v", spec.Subject, err))
	}
	c, err := x509.ParseCertificate(der)
	if err != nil {
		panic(err)
	}
	return &Cert{C: c, Key: key}
}

func Name(cn string) pkix.Name {
	return pkix.Name{CommonName: cn, Organization: []string{"Verif"}, Country: []string{"US"}, Province: []string{"WA"}}
}

// Chain is leaf-first: [leaf, intermediates..., root].
type Chain []*Cert

func (c Chain) Certs() []*x509.Certificate {
	out := make([]*x509.Certificate, len(c))
	for i, x := range c {
		out[i] = x.C
	}
	return out
}

// NewChain mints a chain of n certificates (n >= 1; n == 1 is a self-signed
// leaf) with the given common-name prefix; all valid in [nb, na].
func NewChain(prefix string, n int, nb, na time.Time) Chain {
	if n == 1 {
		return Chain{Mint(CertSpec{Subject: Name(prefix + " leaf"), NotBefore: nb, NotAfter: na, Leaf: true}, nil)}
	}
	chain := make(Chain, n)
	chain[n-1] = Mint(CertSpec{Subject: Name(prefix + " root"), NotBefore: nb, NotAfter: na, IsCA: true}, nil)
	for i := n - 2; i >= 1; i-- {
		chain[i] = Mint(CertSpec{Subject: Name(fmt.Sprintf("%s inter%d", prefix, i)), NotBefore: nb, NotAfter: na, IsCA: true}, chain[i+1])
	}
	chain[0] = Mint(CertSpec{Subject: Name(prefix + " leaf"), NotBefore: nb, NotAfter: na, Leaf: true}, chain[1])
	return chain
}

// EnvSpec describes an envelope to sign with notation-core-go.
type EnvSpec struct {
	Format      string // MtJWS | mtCOSE
	Chain       Chain
	Payload     []byte
	ContentType string
	Scheme      signature.SigningScheme
	SigningTime time.Time
	Expiry      time.Time
	ExtAttrs    []signature.Attribute
	Agent       string
}

// SignEnvelope signs with notation-core-go and returns the envelope bytes.
func SignEnvelope(s EnvSpec) ([]byte, error) {
	signer, err := signature.NewLocalSigner(s.Chain.Certs(), s.Chain[0].Key)
	if err != nil {
		return nil, err
	}
	env, err := signature.NewEnvelope(s.Format)
	if err != nil {
		return nil, err
	}
	ct := s.ContentType
	if ct == "" {
		ct = MtPayload
	}
	scheme := s.Scheme
	if scheme == "" {
		scheme = signature.SigningSchemeX509
	}
	st := s.SigningTime
	if st.IsZero() {
		st = time.Now().Add(-time.Hour)
	}
	req := &signature.SignRequest{
		Payload:                  signature.Payload{ContentType: ct, Content: s.Payload},
		Signer:                   signer,
		SigningTime:              st,
		Expiry:                   s.Expiry,
		ExtendedSignedAttributes: s.ExtAttrs,
		SigningAgent:             s.Agent,
		SigningScheme:            scheme,
	}
	return env.Sign(req)
}

// PayloadFor builds the Notary payload JSON for a descriptor.
func PayloadFor(d ocispec.Descriptor) []byte {
	b, err := json.Marshal(map[string]any{"targetArtifact": d})
	if err != nil {
		panic(err)
	}
	return b
}

// CoreVerify asks notation-core-go whether the envelope parses and verifies
// (the integrity oracle). Returns the content on success.
func CoreVerify(mediaType string, env []byte) (*signature.EnvelopeContent, error) {
	e, err := signature.ParseEnvelope(mediaType, env)
	if err != nil {
		return nil, err
	}
	return e.Verify()
}
