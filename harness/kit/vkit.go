package kit

// vkit: injected components for driving the real verifier: an instrumented
// trust store, revocation validators of both interfaces, policy builders and
// canonicalisation of outcomes.

import (
	"context"
	"crypto/x509"
	"errors"
	"fmt"
	"os"
	"regexp"
	"strconv"
	"strings"
	"sync"
	"time"

	"github.com/notaryproject/notation-core-go/revocation"
	revresult "github.com/notaryproject/notation-core-go/revocation/result"
	"github.com/notaryproject/notation-go"
	"github.com/notaryproject/notation-go/verifier/trustpolicy"
	"github.com/notaryproject/notation-go/verifier/truststore"
	pluginfw "github.com/notaryproject/notation-plugin-framework-go/plugin"
)

// ---- trust store ----

type StoreKey struct {
	Type truststore.Type
	Name string
}

// MockStore is an instrumented truststore.X509TrustStore.
type MockStore struct {
	mu    sync.Mutex
	Certs map[StoreKey][]*x509.Certificate
	Fail  map[StoreKey]bool
	Calls []StoreKey
}

func NewMockStore() *MockStore {
	return &MockStore{Certs: map[StoreKey][]*x509.Certificate{}, Fail: map[StoreKey]bool{}}
}

func (m *MockStore) Put(t truststore.Type, name string, certs ...*x509.Certificate) {
	k := StoreKey{t, name}
	m.Certs[k] = append(m.Certs[k], certs...)
}

func (m *MockStore) GetCertificates(ctx context.Context, storeType truststore.Type, namedStore string) ([]*x509.Certificate, error) {
	m.mu.Lock()
	defer m.mu.Unlock()
	k := StoreKey{storeType, namedStore}
	m.Calls = append(m.Calls, k)
	if m.Fail[k] {
		return nil, truststore.TrustStoreError{Msg: fmt.Sprintf("mock: cannot load store %s:%s", storeType, namedStore)}
	}
	c, ok := m.Certs[k]
	if !ok {
		return nil, truststore.TrustStoreError{Msg: fmt.Sprintf("mock: store %s:%s does not exist", storeType, namedStore)}
	}
	return c, nil
}

// ---- revocation validators ----

type RevCall struct {
	Which   int // 1 ValidateContext, 2 deprecated Validate
	Chain   []*x509.Certificate
	TimeSet bool
	Time    time.Time
}

// RevScript is the scripted answer of a validator.
type RevScript struct {
	Err     error
	Results []*revresult.CertRevocationResult
	calls   *[]RevCall
	mu      *sync.Mutex
}

type mockValidator struct{ s *RevScript }
type mockRevClient struct{ s *RevScript }

func (m mockValidator) ValidateContext(ctx context.Context, o revocation.ValidateContextOptions) ([]*revresult.CertRevocationResult, error) {
	m.s.mu.Lock()
	*m.s.calls = append(*m.s.calls, RevCall{1, o.CertChain, !o.AuthenticSigningTime.IsZero(), o.AuthenticSigningTime})
	m.s.mu.Unlock()
	return m.s.Results, m.s.Err
}

func (m mockRevClient) Validate(chain []*x509.Certificate, t time.Time) ([]*revresult.CertRevocationResult, error) {
	m.s.mu.Lock()
	*m.s.calls = append(*m.s.calls, RevCall{2, chain, !t.IsZero(), t})
	m.s.mu.Unlock()
	return m.s.Results, m.s.Err
}

func NewRevScript(results []*revresult.CertRevocationResult, err error) (*RevScript, *[]RevCall) {
	calls := &[]RevCall{}
	return &RevScript{Err: err, Results: results, calls: calls, mu: &sync.Mutex{}}, calls
}

func (s *RevScript) Validator() revocation.Validator { return mockValidator{s} }
func (s *RevScript) Client() revocation.Revocation   { return mockRevClient{s} }

// ---- policies ----

const TestScope = "reg.example/repo"
const TestRef = "reg.example/repo@sha256:9834876dcfb05cb167a5c24953eba58c4ac89b1adf57f28f2f9d09af107ee8f0"

// OCIPolicy builds a one-statement OCI policy document.
func OCIPolicy(level string, override map[trustpolicy.ValidationType]trustpolicy.ValidationAction, stores, identities []string, verifyTimestamp trustpolicy.TimestampOption) *trustpolicy.OCIDocument {
	return &trustpolicy.OCIDocument{
		Version: "1.0",
		TrustPolicies: []trustpolicy.OCITrustPolicy{{
			Name:           "p",
			RegistryScopes: []string{TestScope},
			SignatureVerification: trustpolicy.SignatureVerification{
				VerificationLevel: level, Override: override, VerifyTimestamp: verifyTimestamp,
			},
			TrustStores:       stores,
			TrustedIdentities: identities,
		}},
	}
}

// ---- canonicalisation ----

var quotedRe = regexp.MustCompile(`"(?:[^"\\]|\\.)*"`)

// firstQuoted returns the first Go-quoted string of msg, unquoted.
func FirstQuoted(msg string) (string, bool) {
	q := quotedRe.FindString(msg)
	if q == "" {
		return "", false
	}
	s, err := strconv.Unquote(q)
	if err != nil {
		return "", false
	}
	return s, true
}

// FindResult returns the validation result of the given type (nil if absent)
// and how many entries of that type exist.
func FindResult(o *notation.VerificationOutcome, t trustpolicy.ValidationType) (*notation.ValidationResult, int) {
	var r *notation.ValidationResult
	n := 0
	if o == nil {
		return nil, 0
	}
	for _, x := range o.VerificationResults {
		if x != nil && x.Type == t {
			if r == nil {
				r = x
			}
			n++
		}
	}
	return r, n
}

// ErrClass maps an error returned by the verifier to a small enum.
func ErrClass(err error) string {
	if err == nil {
		return "none"
	}
	var e1 notation.ErrorVerificationInconclusive
	var e2 notation.ErrorNoApplicableTrustPolicy
	var e3 notation.ErrorSignatureRetrievalFailed
	var e4 notation.ErrorVerificationFailed
	var e5 notation.ErrorUserMetadataVerificationFailed
	var e6 truststore.TrustStoreError
	switch {
	case errors.As(err, &e1):
		return "inconclusive"
	case errors.As(err, &e2):
		return "nopolicy"
	case errors.As(err, &e3):
		return "retrieval"
	case errors.As(err, &e4):
		return "failed"
	case errors.As(err, &e5):
		return "metadata"
	case errors.As(err, &e6):
		return "truststore"
	}
	return "other"
}

func Subjects(chain []*x509.Certificate) []string {
	out := make([]string, len(chain))
	for i, c := range chain {
		out[i] = c.Subject.String()
	}
	return out
}

func Short(s string, n int) string {
	if len(s) > n {
		return s[:n] + "..."
	}
	return s
}

var _ = strings.Contains

// ---- plugin manager / plugin ----

// MockPlugin is a scripted plugin (all plugin interfaces).
type MockPlugin struct {
	Meta      *pluginfw.GetMetadataResponse
	MetaErr   error
	VerifyErr error
	Resp      *pluginfw.VerifySignatureResponse
	VerifyReq []*pluginfw.VerifySignatureRequest
	MetaCalls int
}

func (p *MockPlugin) GetMetadata(ctx context.Context, req *pluginfw.GetMetadataRequest) (*pluginfw.GetMetadataResponse, error) {
	p.MetaCalls++
	return p.Meta, p.MetaErr
}
func (p *MockPlugin) VerifySignature(ctx context.Context, req *pluginfw.VerifySignatureRequest) (*pluginfw.VerifySignatureResponse, error) {
	p.VerifyReq = append(p.VerifyReq, req)
	return p.Resp, p.VerifyErr
}
func (p *MockPlugin) DescribeKey(ctx context.Context, req *pluginfw.DescribeKeyRequest) (*pluginfw.DescribeKeyResponse, error) {
	return nil, errors.New("mock: not a signing plugin")
}
func (p *MockPlugin) GenerateSignature(ctx context.Context, req *pluginfw.GenerateSignatureRequest) (*pluginfw.GenerateSignatureResponse, error) {
	return nil, errors.New("mock: not a signing plugin")
}
func (p *MockPlugin) GenerateEnvelope(ctx context.Context, req *pluginfw.GenerateEnvelopeRequest) (*pluginfw.GenerateEnvelopeResponse, error) {
	return nil, errors.New("mock: not a signing plugin")
}

// MockManager is an instrumented plugin.Manager.
type MockManager struct {
	Plugins map[string]*MockPlugin
	Gets    []string
}

func (m *MockManager) Get(ctx context.Context, name string) (pluginfw.Plugin, error) {
	m.Gets = append(m.Gets, name)
	p, ok := m.Plugins[name]
	if !ok {
		return nil, fmt.Errorf("mock: plugin %q not installed: %w", name, os.ErrNotExist)
	}
	return p, nil
}

func (m *MockManager) List(ctx context.Context) ([]string, error) {
	var out []string
	for k := range m.Plugins {
		out = append(out, k)
	}
	return out, nil
}
