// Package kit is the shared part of the Go side of the notation-go
// verification framework: argument handling, the PRNG, Gallina printing and
// the case writer, certificate/envelope minting and injected components.
// Each property has its own command harness/cmd/vh-cXX that calls kit.Main.
package kit

import (
	"flag"
	"fmt"
	"os"
)

// Args are the common arguments of every property driver.
type Args struct {
	Tier   string // quick | thorough
	Seed   uint64
	Out    string // output directory for cases_*.v, stats.json, cases.jsonl
	Only   int64  // when >= 0, run only this case id (replay)
	Corpus string // corpus directory of this property (may not exist)
	Repo   string // path of the notation-go tree
	Extra  []string
}

// Main parses the common arguments and runs the driver.
func Main(name string, f func(a *Args) error) {
	fs := flag.NewFlagSet(name, flag.ExitOnError)
	a := &Args{}
	fs.StringVar(&a.Tier, "tier", "quick", "quick|thorough")
	fs.Uint64Var(&a.Seed, "seed", 1, "PRNG seed")
	fs.StringVar(&a.Out, "out", "", "output directory")
	fs.Int64Var(&a.Only, "only", -1, "run only this case id")
	fs.StringVar(&a.Corpus, "corpus", "", "corpus directory")
	fs.StringVar(&a.Repo, "repo", "/repo", "path of the notation-go tree (gen-constants)")
	fs.Parse(os.Args[1:])
	a.Extra = fs.Args()
	if a.Out != "" {
		if err := os.MkdirAll(a.Out, 0o755); err != nil {
			fmt.Fprintln(os.Stderr, err)
			os.Exit(2)
		}
	}
	if err := f(a); err != nil {
		fmt.Fprintln(os.Stderr, name, "error:", err)
		os.Exit(2)
	}
}
