module vh

go 1.23.0

require (
	github.com/fxamacker/cbor/v2 v2.8.0
	github.com/go-ldap/ldap/v3 v3.4.10
	github.com/golang-jwt/jwt/v4 v4.5.2
	github.com/notaryproject/notation-core-go v1.3.0
	github.com/notaryproject/notation-go v0.0.0
	github.com/notaryproject/notation-plugin-framework-go v1.0.0
	github.com/notaryproject/tspclient-go v1.0.0
	github.com/opencontainers/go-digest v1.0.0
	github.com/opencontainers/image-spec v1.1.1
	github.com/veraison/go-cose v1.3.0
	golang.org/x/crypto v0.37.0
	golang.org/x/mod v0.24.0
	golang.org/x/tools v0.29.0
	oras.land/oras-go/v2 v2.5.0
)

require (
	github.com/Azure/go-ntlmssp v0.0.0-20221128193559-754e69321358 // indirect
	github.com/go-asn1-ber/asn1-ber v1.5.7 // indirect
	github.com/google/uuid v1.6.0 // indirect
	github.com/x448/float16 v0.8.4 // indirect
	golang.org/x/sync v0.10.0 // indirect
)

replace github.com/notaryproject/notation-go => /repo
