package main

import (
	"bufio"
	"fmt"
	"os"
	"strconv"

	"github.com/notaryproject/notation-go/verifbridge"
)

func main() {
	sc := bufio.NewScanner(os.Stdin)
	for sc.Scan() {
		line := sc.Text()
		s, err := strconv.Unquote(line)
		if err != nil {
			fmt.Println("bad quote:", line)
			continue
		}
		m, err := verifbridge.ParseDistinguishedName(s)
		fmt.Printf("%q -> %q err=%v\n", s, m, err)
	}
}
