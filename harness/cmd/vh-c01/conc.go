package main

// Concurrency family (HOWTO lesson 7): K goroutines share ONE verifier (one
// process, hence also the package-level state of notation-go). Every goroutine
// owns a target descriptor, annotations, blob content and envelopes of its
// own, and makes a few hundred calls of verifier.Verify, verifier.VerifyBlob
// and notation.VerifyBlob whose correct results differ from call to call and
// from goroutine to goroutine; the trust store, the revocation validator and
// the context logger yield inside the window of a call. Every call is judged
// against its own input: against the result of the same call made alone on a
// fresh verifier before the goroutines start (which in turn must be the
// result expected by construction), and one call per (goroutine, scenario) is
// handed back and evaluated in Coq against the model like any other case.
// The family runs in a re-executed child process: a fatal runtime error
// ("concurrent map writes"), a non-zero exit or a timeout is recorded with
// ImplViolation instead of killing the driver.

import (
	"bufio"
	"bytes"
	"context"
	"crypto/x509"
	"encoding/json"
	"fmt"
	"os"
	"os/exec"
	"path/filepath"
	"runtime"
	"strings"
	"sync"
	"time"
	. "vh/kit"

	"github.com/notaryproject/notation-core-go/revocation"
	revresult "github.com/notaryproject/notation-core-go/revocation/result"
	"github.com/notaryproject/notation-go"
	nlog "github.com/notaryproject/notation-go/log"
	"github.com/notaryproject/notation-go/verifier"
	"github.com/notaryproject/notation-go/verifier/truststore"
	"github.com/opencontainers/go-digest"
	ocispec "github.com/opencontainers/image-spec/specs-go/v1"
)

const (
	concEnv        = "VH_C01_CONCURRENCY_CHILD"
	concGoroutines = 12
	concCalls      = 300
	concVariants   = 24 // distinct targets / payloads / signatures per goroutine and envelope kind
)

// callToken is carried by the context of one call: the scripted components
// mark it when they are consulted, so that "touched" is per call although the
// verifier is shared.
type callToken struct{ touched bool }
type tokenKey struct{}

func mark(ctx context.Context) {
	if t, ok := ctx.Value(tokenKey{}).(*callToken); ok {
		t.touched = true
	}
}

type yieldStore struct{ inner truststore.X509TrustStore }

func (y yieldStore) GetCertificates(ctx context.Context, t truststore.Type, n string) ([]*x509.Certificate, error) {
	mark(ctx)
	runtime.Gosched()
	c, err := y.inner.GetCertificates(ctx, t, n)
	runtime.Gosched()
	return c, err
}

type yieldRev struct{}

func (yieldRev) ValidateContext(ctx context.Context, o revocation.ValidateContextOptions) ([]*revresult.CertRevocationResult, error) {
	mark(ctx)
	runtime.Gosched()
	out := make([]*revresult.CertRevocationResult, len(o.CertChain))
	for i := range out {
		out[i] = &revresult.CertRevocationResult{Result: revresult.ResultOK}
	}
	return out, nil
}

// yieldLogger lets another goroutine run wherever the verifier logs.
type yieldLogger struct{}

func (yieldLogger) Debug(args ...interface{})                 { runtime.Gosched() }
func (yieldLogger) Debugf(format string, args ...interface{}) { runtime.Gosched() }
func (yieldLogger) Debugln(args ...interface{})               { runtime.Gosched() }
func (yieldLogger) Info(args ...interface{})                  { runtime.Gosched() }
func (yieldLogger) Infof(format string, args ...interface{})  { runtime.Gosched() }
func (yieldLogger) Infoln(args ...interface{})                { runtime.Gosched() }
func (yieldLogger) Warn(args ...interface{})                  { runtime.Gosched() }
func (yieldLogger) Warnf(format string, args ...interface{})  { runtime.Gosched() }
func (yieldLogger) Warnln(args ...interface{})                { runtime.Gosched() }
func (yieldLogger) Error(args ...interface{})                 { runtime.Gosched() }
func (yieldLogger) Errorf(format string, args ...interface{}) { runtime.Gosched() }
func (yieldLogger) Errorln(args ...interface{})               { runtime.Gosched() }

var concCfg = cfg{Level: "strict", Store: 1}

// concScenario is one kind of call a goroutine makes with its own objects.
type concScenario struct {
	Name string
	Want string // error class expected by construction
	mk   func(o *concOwner) *kase
}

// concVar is one set of objects of a goroutine: a target of its own (and the
// corresponding one of the next goroutine), blob content, and envelopes whose
// payloads and signatures occur nowhere else — so that anything keyed by
// signature, payload, descriptor or content is new in most calls.
type concVar struct {
	target, next                 tgt
	content, nextContent         []byte
	good, noann, other, tampered *envelope
	empty, blobEnv               *envelope
}

// concOwner holds what belongs to one goroutine.
type concOwner struct {
	g    int
	ann  map[string]string
	vars []*concVar
	cur  *concVar // the variant of the call being made
}

func concScenarios() []concScenario {
	oci := func(e *envelope, d tgt, md map[string]string, what string) *kase {
		dd := tgt{MT: d.MT, Dg: d.Dg, Sz: d.Sz}
		return &kase{Env: e, Kind: "oci", Md: md, What: what, Desc: &dd}
	}
	blob := func(e *envelope, d tgt, md map[string]string, what string) *kase {
		t := tgt{MT: "", Dg: d.Dg, Sz: d.Sz}
		return &kase{Env: e, Kind: "blob", Md: md, What: what, Gen: &[3]*tgt{&t, &t, &t}}
	}
	top := func(e *envelope, c []byte, md map[string]string, what string) *kase {
		return &kase{Env: e, Kind: "top", Md: md, What: what, Blob: &blobSpec{What: what, MT: "text/plain", content: c}}
	}
	own := func(o *concOwner) map[string]string { return map[string]string{"owner": o.ann["owner"]} }
	foreign := func(o *concOwner) map[string]string {
		return map[string]string{"owner": fmt.Sprintf("goroutine-%d", (o.g+1)%concGoroutines)}
	}
	return []concScenario{
		{"own-target/own-metadata", "ENone", func(o *concOwner) *kase { return oci(o.cur.good, o.cur.target, own(o), "equal") }},
		{"own-target/no-metadata", "ENone", func(o *concOwner) *kase { return oci(o.cur.good, o.cur.target, nil, "equal") }},
		{"own-target/metadata-of-next-goroutine", "EMetadata", func(o *concOwner) *kase { return oci(o.cur.good, o.cur.target, foreign(o), "equal") }},
		{"signature-without-annotations/own-metadata", "EMetadata", func(o *concOwner) *kase { return oci(o.cur.noann, o.cur.target, own(o), "equal") }},
		{"own-signature/target-of-next-goroutine", "EMismatch", func(o *concOwner) *kase { return oci(o.cur.good, o.cur.next, own(o), "all") }},
		{"signature-for-next-target/own-target", "EMismatch", func(o *concOwner) *kase { return oci(o.cur.other, o.cur.target, nil, "all") }},
		{"payload-without-members/own-target", "EMismatch", func(o *concOwner) *kase { return oci(o.cur.empty, o.cur.target, nil, "all") }},
		{"tampered/own-target", "(EIntegrity ISig)", func(o *concOwner) *kase { return oci(o.cur.tampered, o.cur.target, nil, "equal") }},
		{"blob/own-target/own-metadata", "ENone", func(o *concOwner) *kase { return blob(o.cur.good, o.cur.target, own(o), "equal") }},
		{"blob/signature-without-annotations/own-metadata", "EMetadata", func(o *concOwner) *kase { return blob(o.cur.noann, o.cur.target, own(o), "equal") }},
		{"blob/own-signature/target-of-next-goroutine", "EMismatch", func(o *concOwner) *kase { return blob(o.cur.good, o.cur.next, nil, "digest+size") }},
		{"blob-content/own-content", "ENone", func(o *concOwner) *kase { return top(o.cur.blobEnv, o.cur.content, own(o), "equal") }},
		{"blob-content/content-of-next-goroutine", "EMismatch", func(o *concOwner) *kase { return top(o.cur.blobEnv, o.cur.nextContent, nil, "content-modified") }},
	}
}

type concLine struct {
	Kind       string          `json:"kind"` // case | violation
	ID         int64           `json:"id,omitempty"`
	Term       string          `json:"term,omitempty"`
	Desc       json.RawMessage `json:"desc,omitempty"`
	Key        string          `json:"key,omitempty"`
	Nontrivial bool            `json:"nontrivial,omitempty"`
	Msg        string          `json:"msg,omitempty"`
}

type concObs struct {
	pre   *preObs
	class string // class of the returned error / outcome / descriptor, for comparison with the baseline
}

// concCall makes the call of k on v and returns what exec needs to print it.
func concCall(ctx context.Context, v bothVerifier, k *kase) *concObs {
	tok := &callToken{}
	ctx = context.WithValue(ctx, tokenKey{}, tok)
	e := k.Env
	md := copyMap(k.Md)
	pcfg := map[string]string{"c01-config": "value"}
	p := &preObs{}
	var cls string
	switch k.Kind {
	case "oci":
		d := ocispec.Descriptor{MediaType: k.Desc.MT, Digest: digest.Digest(k.Desc.Dg), Size: k.Desc.Sz}
		p.out, p.err = v.Verify(ctx, d, e.bytes, notation.VerifierVerifyOptions{ArtifactReference: TestRef, SignatureMediaType: e.Format, UserMetadata: md, PluginConfig: pcfg})
		cls = classify(p.err, p.out)
	case "blob":
		p.out, p.err = v.VerifyBlob(ctx, genFunc(*k.Gen), e.bytes, notation.BlobVerifierVerifyOptions{SignatureMediaType: e.Format, UserMetadata: md, PluginConfig: pcfg, TrustPolicyName: blobPolicyName})
		cls = classify(p.err, p.out)
	case "top":
		rec := &recVerifier{v: v}
		p.d, p.out, p.err = notation.VerifyBlob(ctx, rec, bytes.NewReader(k.Blob.content), e.bytes, notation.VerifyBlobOptions{
			BlobVerifierVerifyOptions: notation.BlobVerifierVerifyOptions{SignatureMediaType: e.Format, UserMetadata: md, PluginConfig: pcfg, TrustPolicyName: blobPolicyName},
			ContentMediaType:          k.Blob.MT})
		p.recCalled, p.recOut, p.recErr = rec.called, rec.out, rec.err
		switch {
		case p.err == nil:
			cls = "ENone"
		case !rec.called:
			cls = "EArg"
		default:
			cls = classify(p.err, rec.out)
		}
		cls += fmt.Sprintf("|desc=%s/%s/%d/%v", p.d.MediaType, p.d.Digest, p.d.Size, p.d.Annotations)
	}
	p.touched = tok.touched
	if p.out != nil {
		c := *p.out
		p.out = &c
		o, _, _ := outcomeTerm(p.out, e.facts)
		cls += "|" + o
		if !bytes.Equal(p.out.RawSignature, e.bytes) {
			cls += "|outcome carries another call's signature"
		}
	}
	if !sameMap(md, k.Md) || len(pcfg) != 1 {
		cls += "|caller's maps changed"
	}
	return &concObs{pre: p, class: cls + fmt.Sprintf("|touched=%v", p.touched)}
}

// concChild is the body of the child process.
func concChild(spec string) {
	parts := strings.SplitN(spec, "|", 3) // seed | first case id | output file
	var seed uint64
	var first int64
	fmt.Sscan(parts[0], &seed)
	fmt.Sscan(parts[1], &first)
	out, err := os.Create(parts[2])
	if err != nil {
		fmt.Fprintln(os.Stderr, err)
		os.Exit(3)
	}
	bw := bufio.NewWriterSize(out, 1<<20)
	var mu sync.Mutex
	emit := func(l concLine) {
		b, _ := json.Marshal(l)
		mu.Lock()
		bw.Write(b)
		bw.WriteByte('\n')
		mu.Unlock()
	}
	w := newWorld(keyKinds[:1])
	scen := concScenarios()
	// what belongs to each goroutine: concVariants sets of objects, every payload and signature unique
	withNonce := func(t tgt, nonce string) []byte {
		var m map[string]any
		json.Unmarshal(payloadJSON(t), &m)
		m["c01nonce"] = nonce
		b, _ := json.Marshal(m)
		return b
	}
	owners := make([]*concOwner, concGoroutines)
	for g := range owners {
		o := &concOwner{g: g, ann: map[string]string{"owner": fmt.Sprintf("goroutine-%d", g), fmt.Sprintf("k%d", g): "v"}}
		for j := 0; j < concVariants; j++ {
			c := &concVar{content: []byte(fmt.Sprintf("c01 concurrency blob %d of goroutine %d\n%s", j, g, strings.Repeat("x", g+j)))}
			c.target = tgt{MT: fmt.Sprintf("application/vnd.c01.goroutine%d+json", g), Dg: digests(c.content)[0], Sz: int64(1000 + 100*j + g)}
			o.vars = append(o.vars, c)
		}
		owners[g] = o
	}
	for g, o := range owners {
		n := owners[(g+1)%concGoroutines]
		format := []string{MtJWS, MtCOSE}[g%2]
		for j, c := range o.vars {
			c.next, c.nextContent = n.vars[j].target, n.vars[j].content
			nonce := fmt.Sprintf("%d-%d", g, j)
			withAnn := c.target
			withAnn.Ann = o.ann
			nextAnn := c.next
			nextAnn.Ann = n.ann
			id := fmt.Sprintf("goroutine %d set %d: ", g, j)
			c.good = w.sign(format, "ec256", withNonce(withAnn, nonce), "", false, id+"own target, own annotations")
			c.noann = w.sign(format, "ec256", withNonce(c.target, nonce), "", false, id+"own target, no annotations")
			c.other = w.sign(format, "ec256", withNonce(nextAnn, nonce), "", false, id+"target and annotations of the next goroutine")
			c.empty = w.sign(format, "ec256", []byte(fmt.Sprintf(`{"c01nonce":%q,"targetArtifact":{}}`, nonce)), "", false, id+"payload without members")
			c.empty.sibling = c.good
			c.tampered = newEnvelope(id+"own envelope with the payload of the next goroutine's target", format, "ec256", false, reassemble(c.good, c.other, [4]bool{false, false, true, false}))
			bt := tgt{MT: "text/plain", Dg: digests(c.content)[0], Sz: int64(len(c.content)), Ann: o.ann}
			c.blobEnv = w.sign(format, "ec256", withNonce(bt, nonce), "", false, id+"own blob")
		}
	}
	mkVerifier := func() bothVerifier {
		ms := NewMockStore()
		ms.Put(truststore.TypeCA, "s", w.rootA.C, w.rootB.C)
		v, err := verifier.NewVerifierWithOptions(yieldStore{ms}, verifier.VerifierOptions{
			OCITrustPolicy:                 OCIPolicy("strict", nil, []string{"ca:s"}, []string{"*"}, ""),
			BlobTrustPolicy:                blobDoc("strict", nil, []string{"ca:s"}, []string{"*"}),
			RevocationCodeSigningValidator: yieldRev{},
		})
		if err != nil {
			fmt.Fprintln(os.Stderr, "construct:", err)
			os.Exit(3)
		}
		return v
	}
	ctx := nlog.WithLogger(context.Background(), yieldLogger{})
	// the plan of every goroutine: (scenario, variant) per call; variants advance so that most calls bring new objects
	type planned struct{ si, vi int }
	plans := make([][]planned, concGoroutines)
	for g := range plans {
		rng := NewRng(seed*7919 + uint64(g))
		seen := make([]int, len(scen))
		for i := 0; i < concCalls; i++ {
			si := (i + g) % len(scen)
			if i >= 2*len(scen) && rng.Chance(1, 2) {
				si = rng.Intn(len(scen))
			}
			plans[g] = append(plans[g], planned{si, seen[si] % concVariants})
			seen[si]++
		}
	}
	// baseline: every planned call alone, on a verifier that is not the shared one
	base := make([]map[planned]string, concGoroutines)
	{
		v0 := mkVerifier()
		for g, o := range owners {
			base[g] = map[planned]string{}
			for _, pl := range plans[g] {
				if _, done := base[g][pl]; done {
					continue
				}
				o.cur = o.vars[pl.vi]
				k := scen[pl.si].mk(o)
				ob := concCall(ctx, v0, k)
				base[g][pl] = ob.class
				if !strings.HasPrefix(ob.class, scen[pl.si].Want+"|") {
					d, _ := json.Marshal(k)
					emit(concLine{Kind: "violation", Desc: d, Msg: fmt.Sprintf("goroutine %d scenario %s set %d alone: got %s, expected %s", g, scen[pl.si].Name, pl.vi, ob.class, scen[pl.si].Want)})
				}
			}
		}
	}
	shared := mkVerifier()
	samples := make([][]*concObs, concGoroutines)
	sampleVar := make([][]int, concGoroutines)
	var viols int64
	var wg sync.WaitGroup
	// all goroutines start every call together, so that they pass through the same places at about the same time
	var bar struct {
		sync.Mutex
		*sync.Cond
		n, gen int
	}
	bar.Cond = sync.NewCond(&bar.Mutex)
	barrier := func() {
		bar.Lock()
		gen := bar.gen
		bar.n++
		if bar.n == concGoroutines {
			bar.n = 0
			bar.gen++
			bar.Broadcast()
		} else {
			for gen == bar.gen {
				bar.Wait()
			}
		}
		bar.Unlock()
	}
	for g := 0; g < concGoroutines; g++ {
		samples[g] = make([]*concObs, len(scen))
		sampleVar[g] = make([]int, len(scen))
		wg.Add(1)
		go func(g int) {
			defer wg.Done()
			o := owners[g]
			for i, pl := range plans[g] {
				o.cur = o.vars[pl.vi]
				k := scen[pl.si].mk(o)
				if i%3 != 2 {
					barrier()
				}
				var ob *concObs
				func() {
					defer func() {
						if p := recover(); p != nil {
							ob = &concObs{class: fmt.Sprintf("panic: %v", p)}
						}
					}()
					ob = concCall(ctx, shared, k)
				}()
				if ob.class != base[g][pl] {
					mu.Lock()
					viols++
					n := viols
					mu.Unlock()
					if n <= 40 {
						k.Family, k.Cfg, k.Facts = "concurrency", concCfg, k.Env.facts
						k.History = fmt.Sprintf("goroutine %d of %d on one verifier, call %d, scenario %s", g, concGoroutines, i, scen[pl.si].Name)
						d, _ := json.Marshal(k)
						emit(concLine{Kind: "violation", Desc: d, Msg: fmt.Sprintf("goroutine %d call %d scenario %s: concurrently got %s, alone %s", g, i, scen[pl.si].Name, ob.class, base[g][pl])})
					}
				}
				// the sample handed to Coq: the last call of every scenario
				if ob.pre != nil {
					samples[g][pl.si], sampleVar[g][pl.si] = ob, pl.vi
				}
			}
		}(g)
	}
	wg.Wait()
	// print the sample as ordinary cases (single-threaded from here on)
	tmp, _ := os.MkdirTemp(filepath.Dir(parts[2]), "conc_child_")
	a := &Args{Out: tmp, Only: -1}
	r := &runner{w: w, cw: NewCaseWriter(a, "C01", "", "case", "run"), rng: NewRng(seed), restMem: map[string][2]bool{}}
	r.sink = func(id int64, term string, k *kase, key string, nontrivial bool) {
		d, _ := json.Marshal(k)
		emit(concLine{Kind: "case", ID: id, Term: term, Desc: d, Key: key, Nontrivial: nontrivial})
	}
	for g, o := range owners {
		for si, sc := range scen {
			r.id = first + int64(g*len(scen)+si)
			ob := samples[g][si]
			if ob == nil {
				continue
			}
			o.cur = o.vars[sampleVar[g][si]]
			k := sc.mk(o)
			k.Family, k.Cfg, k.pre = "concurrency", concCfg, ob.pre
			k.History = fmt.Sprintf("goroutine %d of %d sharing one verifier, scenario %s", g, concGoroutines, sc.Name)
			r.exec(k, nil)
		}
	}
	bw.Flush()
	out.Close()
	os.RemoveAll(tmp)
	os.Exit(0)
}

// runConcurrency re-executes the harness binary as child, records crashes and
// deviating calls and emits the sampled calls as ordinary cases.
func runConcurrency(a *Args, r *runner) {
	cw := r.cw
	nScen := len(concScenarios())
	my := r.id
	r.id++
	first := r.id
	r.id += int64(concGoroutines * nScen)
	if a.Only >= 0 && !(a.Only >= my && a.Only < r.id) {
		return
	}
	self, err := os.Executable()
	if err != nil {
		panic(err)
	}
	outFile := filepath.Join(a.Out, "concurrency.jsonl")
	cmd := exec.Command(self)
	cmd.Env = append(os.Environ(), fmt.Sprintf("%s=%d|%d|%s", concEnv, a.Seed, first, outFile), "GOMAXPROCS=16")
	var stderr bytes.Buffer
	cmd.Stderr = &stderr
	if err := cmd.Start(); err != nil {
		panic(err)
	}
	done := make(chan error, 1)
	go func() { done <- cmd.Wait() }()
	var werr error
	select {
	case werr = <-done:
	case <-time.After(120 * time.Second):
		cmd.Process.Kill()
		werr = fmt.Errorf("no exit within 120s (deadlock?)")
	}
	desc := map[string]any{"family": "concurrency", "goroutines": concGoroutines, "calls_each": concCalls,
		"verifier": "one verifier (strict OCI and blob statements) shared by all goroutines; trust store, revocation validator and context logger call runtime.Gosched()"}
	crashes, viols, cases := 0, 0, 0
	if werr != nil {
		crashes++
		msg := stderr.String()
		head := msg
		if i := strings.Index(head, "\n\n"); i > 0 {
			head = head[:i]
		}
		desc["exit"] = werr.Error()
		desc["stderr_head"] = Short(head, 1500)
		if cw.Want(my) {
			cw.ImplViolation(my, "concurrent use of one verifier killed the process: "+Short(strings.SplitN(msg, "\n", 2)[0], 200), desc, "")
		}
	}
	if f, err := os.Open(outFile); err == nil {
		sc := bufio.NewScanner(f)
		sc.Buffer(make([]byte, 1<<20), 1<<26)
		for sc.Scan() {
			var l concLine
			if json.Unmarshal(sc.Bytes(), &l) != nil {
				continue
			}
			switch l.Kind {
			case "violation":
				viols++
				if viols <= 20 && cw.Want(my) {
					var d any
					json.Unmarshal(l.Desc, &d)
					cw.ImplViolation(my, "concurrent calls on one verifier, each with inputs of its own: "+l.Msg, d, "")
				}
			case "case":
				if !cw.Want(l.ID) {
					continue
				}
				var k kase
				json.Unmarshal(l.Desc, &k)
				cw.Add(l.ID, l.Term, &k, l.Key, l.Nontrivial)
				cw.Count("family", "concurrency")
				cw.Count("kind", k.Kind)
				cw.Count("obs_err", k.ObsErr)
				cases++
			}
		}
		f.Close()
		os.Remove(outFile)
	}
	cw.Set("concurrency", fmt.Sprintf("1 child process: %d goroutines x %d calls (Verify / VerifyBlob / notation.VerifyBlob; %d scenarios per goroutine over the goroutine's own target, annotations, blob and envelopes) on ONE verifier with yielding trust store, revocation validator and context logger; every call compared with the same call made alone; %d sampled calls evaluated in Coq", concGoroutines, concCalls, nScen, cases))
	cw.Set("concurrency_calls", concGoroutines*concCalls)
	cw.Set("concurrency_process_crashes", crashes)
	cw.Set("concurrency_deviating_calls", viols)
}
