package main

// Envelopes for the C01 driver: keys of every signature algorithm, fresh
// envelopes, re-assembly of JWS/COSE envelopes from parts of other valid
// envelopes, byte mutation, and the envelope facts asked from
// notation-core-go / encoding/json (never assumed from construction).

import (
	"crypto"
	"crypto/ecdsa"
	"crypto/elliptic"
	"crypto/rand"
	"crypto/rsa"
	"crypto/sha256"
	"encoding/base64"
	"encoding/json"
	"fmt"
	"sort"
	"time"
	. "vh/kit"

	"github.com/fxamacker/cbor/v2"
	"github.com/notaryproject/notation-core-go/signature"
	ocispec "github.com/opencontainers/image-spec/specs-go/v1"
)

// tgt is the part of an ocispec.Descriptor the verifier reads.
type tgt struct {
	MT  string            `json:"mediaType"`
	Dg  string            `json:"digest"`
	Sz  int64             `json:"size"`
	Ann map[string]string `json:"annotations,omitempty"`
}

func (t tgt) coq() string {
	return CApp("mk_t", CStr(t.MT), CStr(t.Dg), CZ(t.Sz), CMap(t.Ann))
}

func tgtOf(d ocispec.Descriptor) tgt {
	return tgt{MT: d.MediaType, Dg: string(d.Digest), Sz: d.Size, Ann: d.Annotations}
}

// c01Payload is the documented shape of a Notary payload (the harness's own
// copy: independent of internal/envelope.Payload).
type c01Payload struct {
	TargetArtifact ocispec.Descriptor `json:"targetArtifact"`
}

// facts are the envelope facts handed to the model.
type facts struct {
	Parse   bool   `json:"parse_ok"`
	Verify  int    `json:"verify"` // 0 ok, 1 typed integrity error, 2 other error
	CType   string `json:"content_type"`
	Decode  *tgt   `json:"decoded_target"`
	Hash    int    `json:"hash"` // 256 384 512, 0 none
	Content bool   `json:"content_readable"`
	payload []byte
}

func (f *facts) intact() bool { return f.Parse && f.Verify == 0 && f.CType == MtPayload }

func (f *facts) coq() string {
	v := []string{"VOk", "VSig", "VOther"}[f.Verify]
	dec := "None"
	if f.Decode != nil {
		dec = CSome(f.Decode.coq())
	}
	h := map[int]string{256: "H256", 384: "H384", 512: "H512", 0: "HNone"}[f.Hash]
	return CApp("mk_e", CBool(f.Parse), v, CStr(f.CType), dec, h)
}

// getFacts asks notation-core-go about the envelope bytes. When the
// signature does not verify but the envelope content is still readable, the
// (unverified) content type, payload and algorithm are reported too, so that
// the oracle sees "everything matches except the signature".
func getFacts(mt string, env []byte) *facts {
	f := &facts{}
	e, err := signature.ParseEnvelope(mt, env)
	if err != nil {
		return f
	}
	f.Parse = true
	c, err := e.Verify()
	if err != nil {
		// verifyIntegrity uses a type switch on the error itself
		switch err.(type) {
		case *signature.SignatureEnvelopeNotFoundError, *signature.InvalidSignatureError, *signature.SignatureIntegrityError:
			f.Verify = 1
		default:
			f.Verify = 2
		}
		c, err = e.Content()
		if err != nil || c == nil {
			return f
		}
	}
	f.Content = true
	f.CType = c.Payload.ContentType
	f.payload = c.Payload.Content
	var p c01Payload
	if json.Unmarshal(c.Payload.Content, &p) == nil {
		t := tgtOf(p.TargetArtifact)
		f.Decode = &t
	}
	switch c.SignerInfo.SignatureAlgorithm.Hash() {
	case crypto.SHA256:
		f.Hash = 256
	case crypto.SHA384:
		f.Hash = 384
	case crypto.SHA512:
		f.Hash = 512
	}
	return f
}

// ---- keys and chains ----

type keyKind struct {
	Name string
	Hash int
	mk   func() crypto.Signer
}

func ecKey(c elliptic.Curve) func() crypto.Signer {
	return func() crypto.Signer {
		k, err := ecdsa.GenerateKey(c, rand.Reader)
		if err != nil {
			panic(err)
		}
		return k
	}
}

func rsaKey(bits int) func() crypto.Signer {
	return func() crypto.Signer {
		k, err := rsa.GenerateKey(rand.Reader, bits)
		if err != nil {
			panic(err)
		}
		return k
	}
}

var keyKinds = []keyKind{
	{"ec256", 256, ecKey(elliptic.P256())},
	{"ec384", 384, ecKey(elliptic.P384())},
	{"ec521", 512, ecKey(elliptic.P521())},
	{"rsa2048", 256, rsaKey(2048)},
	{"rsa3072", 384, rsaKey(3072)},
	{"rsa4096", 512, rsaKey(4096)},
}

// world holds the certificates of one run.
type world struct {
	now    time.Time
	rootA  *Cert
	rootB  *Cert
	chains map[string]Chain // by name
}

func newWorld(kinds []keyKind) *world {
	w := &world{now: time.Now(), chains: map[string]Chain{}}
	nb, na := w.now.Add(-48*time.Hour), w.now.Add(48*time.Hour)
	w.rootA = Mint(CertSpec{Subject: Name("c01 rootA"), NotBefore: nb, NotAfter: na, IsCA: true}, nil)
	w.rootB = Mint(CertSpec{Subject: Name("c01 rootB"), NotBefore: nb, NotAfter: na, IsCA: true}, nil)
	for _, k := range kinds {
		key := k.mk()
		leaf := Mint(CertSpec{Subject: Name("c01 leaf " + k.Name), NotBefore: nb, NotAfter: na, Leaf: true, Key: key}, w.rootA)
		w.chains[k.Name] = Chain{leaf, w.rootA}
		if k.Name == "ec256" {
			// the same key certified a second time, under the other root
			leaf2 := Mint(CertSpec{Subject: Name("c01 leaf ec256 twin"), NotBefore: nb, NotAfter: na, Leaf: true, Key: key}, w.rootB)
			w.chains["ec256twin"] = Chain{leaf2, w.rootB}
			// an unrelated signer
			other := Mint(CertSpec{Subject: Name("c01 other"), NotBefore: nb, NotAfter: na, Leaf: true}, w.rootB)
			w.chains["other"] = Chain{other, w.rootB}
			// a three-certificate chain
			inter := Mint(CertSpec{Subject: Name("c01 inter"), NotBefore: nb, NotAfter: na, IsCA: true}, w.rootA)
			leaf3 := Mint(CertSpec{Subject: Name("c01 leaf deep"), NotBefore: nb, NotAfter: na, Leaf: true}, inter)
			w.chains["deep"] = Chain{leaf3, inter, w.rootA}
		}
	}
	return w
}

// ---- envelopes ----

type envelope struct {
	Desc    string `json:"envelope"` // how it was made
	Format  string `json:"format"`
	Chain   string `json:"chain"`
	Plugin  bool   `json:"plugin_attr"`
	bytes   []byte
	facts   *facts
	id      int
	sibling *envelope // same signer and attributes, decodable payload (for the control run)
}

const pluginName = "c01plug"

var envCounter int

func (w *world) sign(format, chain string, payload []byte, ctype string, plugin bool, desc string) *envelope {
	e, err := w.trySign(format, chain, payload, ctype, plugin, desc)
	if err != nil {
		panic(fmt.Sprintf("c01: sign %s: %v", desc, err))
	}
	return e
}

func (w *world) trySign(format, chain string, payload []byte, ctype string, plugin bool, desc string) (*envelope, error) {
	spec := EnvSpec{Format: format, Chain: w.chains[chain], Payload: payload, ContentType: ctype, SigningTime: w.now.Add(-time.Hour), Agent: "c01/" + chain}
	if plugin {
		spec.ExtAttrs = []signature.Attribute{{Key: "io.cncf.notary.verificationPlugin", Critical: true, Value: pluginName}}
	}
	b, err := SignEnvelope(spec)
	if err != nil && format == MtJWS {
		// the JWS signer of notation-core-go only accepts JSON objects as
		// payload: sign such an envelope by hand (ES256 over protected.payload)
		b, err = w.handJWS(chain, payload, ctype, plugin)
		desc += " [JWS signed by hand]"
	}
	if err != nil {
		return nil, err
	}
	return newEnvelope(desc, format, chain, plugin, b), nil
}

// signRaw signs an envelope whose payload is exactly the given bytes (the JWS
// signer of notation-core-go re-serialises JSON objects, losing duplicate
// members, escapes and member order: JWS is signed by hand here).
func (w *world) signRaw(format, chain string, payload []byte, desc string) *envelope {
	if format == MtJWS {
		b, err := w.handJWS(chain, payload, "", false)
		if err != nil {
			panic(fmt.Sprintf("c01: signRaw %s: %v", desc, err))
		}
		return newEnvelope(desc+" [JWS signed by hand]", format, chain, false, b)
	}
	return w.sign(format, chain, payload, "", false, desc)
}

// handJWS signs a JWS envelope whose payload is arbitrary bytes: the
// protected header and the unprotected header are those of an envelope
// signed by notation-core-go for the same chain; the signature is computed
// here with the leaf key (P-256 only).
func (w *world) handJWS(chain string, payload []byte, ctype string, plugin bool) ([]byte, error) {
	key, ok := w.chains[chain][0].Key.(*ecdsa.PrivateKey)
	if !ok || key.Curve != elliptic.P256() {
		return nil, fmt.Errorf("handJWS: chain %s has no P-256 key", chain)
	}
	tpl := w.sign(MtJWS, chain, []byte(`{"targetArtifact":{}}`), ctype, plugin, "template")
	parts := jwsParts(tpl.bytes)
	var prot string
	if err := json.Unmarshal(parts["protected"], &prot); err != nil {
		return nil, err
	}
	pl := base64.RawURLEncoding.EncodeToString(payload)
	h := sha256.Sum256([]byte(prot + "." + pl))
	r, s, err := ecdsa.Sign(rand.Reader, key, h[:])
	if err != nil {
		return nil, err
	}
	sig := make([]byte, 64)
	r.FillBytes(sig[:32])
	s.FillBytes(sig[32:])
	parts["payload"], _ = json.Marshal(pl)
	parts["signature"], _ = json.Marshal(base64.RawURLEncoding.EncodeToString(sig))
	return jwsJoin(parts), nil
}

func newEnvelope(desc, format, chain string, plugin bool, b []byte) *envelope {
	envCounter++
	return &envelope{Desc: desc, Format: format, Chain: chain, Plugin: plugin, bytes: b, facts: getFacts(format, b), id: envCounter}
}

func payloadJSON(t tgt) []byte {
	m := map[string]any{"mediaType": t.MT, "digest": t.Dg, "size": t.Sz}
	if len(t.Ann) > 0 {
		m["annotations"] = t.Ann
	}
	b, err := json.Marshal(map[string]any{"targetArtifact": m})
	if err != nil {
		panic(err)
	}
	return b
}

// ---- re-assembly ----

// jwsParts splits a JWS JSON envelope into its four members.
func jwsParts(b []byte) map[string]json.RawMessage {
	m := map[string]json.RawMessage{}
	if err := json.Unmarshal(b, &m); err != nil {
		panic(err)
	}
	return m
}

func jwsJoin(m map[string]json.RawMessage) []byte {
	keys := make([]string, 0, len(m))
	for k := range m {
		keys = append(keys, k)
	}
	sort.Strings(keys)
	out := []byte("{")
	for i, k := range keys {
		if i > 0 {
			out = append(out, ',')
		}
		kb, _ := json.Marshal(k)
		out = append(out, kb...)
		out = append(out, ':')
		out = append(out, m[k]...)
	}
	return append(out, '}')
}

// coseParts splits a COSE_Sign1 envelope: tag number and
// [protected, unprotected, payload, signature].
func coseParts(b []byte) (uint64, []cbor.RawMessage) {
	var tag cbor.RawTag
	if err := cbor.Unmarshal(b, &tag); err != nil {
		panic(err)
	}
	var arr []cbor.RawMessage
	if err := cbor.Unmarshal(tag.Content, &arr); err != nil {
		panic(err)
	}
	if len(arr) != 4 {
		panic("c01: COSE_Sign1 with other than 4 members")
	}
	return tag.Number, arr
}

func coseJoin(num uint64, arr []cbor.RawMessage) []byte {
	content, err := cbor.Marshal(arr)
	if err != nil {
		panic(err)
	}
	out, err := cbor.Marshal(cbor.RawTag{Number: num, Content: content})
	if err != nil {
		panic(err)
	}
	return out
}

// recipes: which members are taken from B instead of A.
// members: 0 protected, 1 unprotected header, 2 payload, 3 signature
var recipes = []struct {
	Name string
	From [4]bool
}{
	{"payloadB", [4]bool{false, false, true, false}},
	{"signatureB", [4]bool{false, false, false, true}},
	{"protectedB", [4]bool{true, false, false, false}},
	{"headerB", [4]bool{false, true, false, false}},
	{"protected+signatureB", [4]bool{true, false, false, true}},
	{"payload+signatureB", [4]bool{false, false, true, true}},
	{"header+signatureB", [4]bool{false, true, false, true}},
	{"protected+header+signatureB", [4]bool{true, true, false, true}},
	{"payload+protectedB", [4]bool{true, false, true, false}},
	{"payload+protected+signatureB", [4]bool{true, false, true, true}},
}

var jwsMembers = [4]string{"protected", "header", "payload", "signature"}

func reassemble(a, b *envelope, from [4]bool) []byte {
	if a.Format == MtJWS {
		pa, pb := jwsParts(a.bytes), jwsParts(b.bytes)
		for i, name := range jwsMembers {
			if from[i] {
				pa[name] = pb[name]
			}
		}
		return jwsJoin(pa)
	}
	na, pa := coseParts(a.bytes)
	_, pb := coseParts(b.bytes)
	for i := range from {
		if from[i] {
			pa[i] = pb[i]
		}
	}
	return coseJoin(na, pa)
}

// ---- byte mutation ----

// mutateJWS returns variants of a JWS envelope with one character of one
// member changed (staying inside the base64url alphabet), a character
// outside the alphabet, a member dropped, and truncations.
func mutateJWS(rng *Rng, b []byte) (out [][]byte, names []string) {
	parts := jwsParts(b)
	for _, name := range []string{"payload", "protected", "signature"} {
		raw := parts[name]
		if len(raw) < 6 {
			continue
		}
		for k := 0; k < 3; k++ {
			m := map[string]json.RawMessage{}
			for kk, v := range parts {
				m[kk] = v
			}
			mut := append([]byte(nil), raw...)
			pos := 1 + rng.Intn(len(mut)-2)
			switch k {
			case 0, 1:
				c := mut[pos]
				n := byte('A')
				if c == 'A' {
					n = 'B'
				}
				if k == 1 && c != 'z' {
					n = 'z'
				}
				mut[pos] = n
			case 2:
				mut[pos] = '!'
			}
			m[name] = mut
			out = append(out, jwsJoin(m))
			names = append(names, fmt.Sprintf("jws:%s:char%d", name, k))
		}
		m := map[string]json.RawMessage{}
		for kk, v := range parts {
			if kk != name {
				m[kk] = v
			}
		}
		out = append(out, jwsJoin(m))
		names = append(names, "jws:drop:"+name)
	}
	// the certificate chain inside the unprotected header
	var hdr map[string]json.RawMessage
	if json.Unmarshal(parts["header"], &hdr) == nil {
		var x5c []string
		if json.Unmarshal(hdr["x5c"], &x5c) == nil && len(x5c) > 0 {
			for k := 0; k < 3; k++ {
				c := append([]string(nil), x5c...)
				bs := []byte(c[0])
				pos := 40 + rng.Intn(len(bs)-80)
				if bs[pos] == 'A' {
					bs[pos] = 'B'
				} else {
					bs[pos] = 'A'
				}
				c[0] = string(bs)
				h2 := map[string]json.RawMessage{}
				for kk, v := range hdr {
					h2[kk] = v
				}
				h2["x5c"], _ = json.Marshal(c)
				hb, _ := json.Marshal(h2)
				m := map[string]json.RawMessage{}
				for kk, v := range parts {
					m[kk] = v
				}
				m["header"] = hb
				out = append(out, jwsJoin(m))
				names = append(names, "jws:x5c:leafchar")
			}
			// chain emptied
			h2 := map[string]json.RawMessage{}
			for kk, v := range hdr {
				h2[kk] = v
			}
			h2["x5c"] = json.RawMessage("[]")
			hb, _ := json.Marshal(h2)
			m := map[string]json.RawMessage{}
			for kk, v := range parts {
				m[kk] = v
			}
			m["header"] = hb
			out = append(out, jwsJoin(m))
			names = append(names, "jws:x5c:empty")
		}
	}
	for _, n := range []int{0, 1, len(b) / 2, len(b) - 1} {
		out = append(out, append([]byte(nil), b[:n]...))
		names = append(names, "jws:truncated")
	}
	return
}

// mutateBytes flips one bit at n positions spread over the envelope.
func mutateBytes(rng *Rng, b []byte, n int) (out [][]byte, names []string) {
	for k := 0; k < n; k++ {
		pos := (k*len(b))/n + rng.Intn(max(1, len(b)/n))
		if pos >= len(b) {
			pos = len(b) - 1
		}
		m := append([]byte(nil), b...)
		m[pos] ^= 1 << uint(rng.Intn(8))
		out = append(out, m)
		names = append(names, "bitflip")
	}
	for _, n := range []int{0, 1, len(b) / 2, len(b) - 1} {
		out = append(out, append([]byte(nil), b[:n]...))
		names = append(names, "truncated")
	}
	return
}
