package main

// Family "blob-reader": notation.VerifyBlob reads the blob through an io.Reader
// it does not control. The io.Reader contract allows a reader to return its
// final bytes TOGETHER with io.EOF, to return fewer bytes than asked for, to
// return (0, nil), and to return bytes together with an error. Whatever the
// shape of the reader, the property says: success only if digest and size of
// the WHOLE presented blob (every byte the reader delivers before io.EOF) are
// the signed ones; a reader that fails must make the call fail, not verify a
// prefix. The model's input is computed from the whole content (b_size,
// b_d256/384/512) and from whether a reference read (io.ReadAll on a second
// instance of the same shape) ends with an error (b_read_ok).

import (
	"bytes"
	"errors"
	"fmt"
	"io"
	"testing/iotest"
)

// readerShapes, in the order they are generated.
var readerShapes = []string{
	"plain",                    // bytes.Reader (io.WriterTo: io.Copy never calls Read)
	"plain-no-writerto",        // the same behind a wrapper: Read is called with io.Copy's 32 KiB buffer
	"data+eof",                 // iotest.DataErrReader: the last bytes come together with io.EOF
	"one-byte",                 // iotest.OneByteReader
	"one-byte,data+eof",        // ... and the last byte comes with io.EOF
	"half",                     // iotest.HalfReader
	"half,data+eof",            //
	"zero-reads",               // (0, nil) on every other call
	"zero-reads,data+eof",      //
	"chunk-32k",                // pieces of exactly 32 KiB, io.EOF on its own
	"chunk-32k,data+eof",       // ... the last piece with io.EOF
	"chunk-4k,data+eof",        //
	"chunk-32k+1,data+eof",     // pieces that straddle a 32 KiB buffer
	"timeout",                  // iotest.TimeoutReader: the second Read fails
	"error-after-half",         // half of the blob, then an error on its own
	"data+error",               // the second half comes together with an error that is not io.EOF
	"error-instead-of-eof",     // everything delivered, then an error where io.EOF is due
	"all-but-last-chunk,error", // every 32 KiB piece but the last, then an error
}

type hideWriterTo struct{ io.Reader }

// chunkReader delivers pieces of at most size bytes; with eofWithLast the last
// piece is returned together with io.EOF; zeroEvery > 0: every zeroEvery-th call
// returns (0, nil) first; failAt >= 0: at offset failAt an error is returned
// (with the bytes before it in the same call when failWithData is set).
type chunkReader struct {
	data         []byte
	size         int
	eofWithLast  bool
	zeroEvery    int
	failAt       int
	failWithData bool
	off, calls   int
}

var errShape = errors.New("c01: the reader failed")

func (r *chunkReader) Read(p []byte) (int, error) {
	r.calls++
	if len(p) == 0 {
		return 0, nil
	}
	if r.zeroEvery > 0 && r.calls%r.zeroEvery == 0 {
		return 0, nil
	}
	end := len(r.data)
	if r.failAt >= 0 && r.failAt < end {
		end = r.failAt
	}
	if r.off >= end {
		if r.failAt >= 0 {
			return 0, errShape
		}
		return 0, io.EOF
	}
	n := end - r.off
	if n > r.size {
		n = r.size
	}
	if n > len(p) {
		n = len(p)
	}
	copy(p, r.data[r.off:r.off+n])
	r.off += n
	if r.off == end {
		if r.failAt >= 0 && r.failWithData {
			return n, errShape
		}
		if r.failAt < 0 && r.eofWithLast {
			return n, io.EOF
		}
	}
	return n, nil
}

// shapeReader returns a fresh reader of the given shape over content.
func shapeReader(shape string, content []byte) io.Reader {
	plain := func() io.Reader { return hideWriterTo{bytes.NewReader(content)} }
	all := len(content) + 1
	switch shape {
	case "plain":
		return bytes.NewReader(content)
	case "plain-no-writerto":
		return plain()
	case "data+eof":
		return iotest.DataErrReader(plain())
	case "one-byte":
		return iotest.OneByteReader(plain())
	case "one-byte,data+eof":
		return iotest.DataErrReader(iotest.OneByteReader(plain()))
	case "half":
		return iotest.HalfReader(plain())
	case "half,data+eof":
		return iotest.DataErrReader(iotest.HalfReader(plain()))
	case "zero-reads":
		return &chunkReader{data: content, size: all, zeroEvery: 2, failAt: -1}
	case "zero-reads,data+eof":
		return &chunkReader{data: content, size: all, zeroEvery: 2, eofWithLast: true, failAt: -1}
	case "chunk-32k":
		return &chunkReader{data: content, size: 32768, failAt: -1}
	case "chunk-32k,data+eof":
		return &chunkReader{data: content, size: 32768, eofWithLast: true, failAt: -1}
	case "chunk-4k,data+eof":
		return &chunkReader{data: content, size: 4096, eofWithLast: true, failAt: -1}
	case "chunk-32k+1,data+eof":
		return &chunkReader{data: content, size: 32769, eofWithLast: true, failAt: -1}
	case "timeout":
		return iotest.TimeoutReader(plain())
	case "error-after-half":
		return &chunkReader{data: content, size: all, failAt: len(content) / 2}
	case "data+error":
		return &chunkReader{data: content, size: 32768, failAt: len(content), failWithData: true}
	case "error-instead-of-eof":
		return &chunkReader{data: content, size: 32768, failAt: len(content)}
	case "all-but-last-chunk,error":
		return &chunkReader{data: content, size: 32768, failAt: lastChunkStart(len(content), 32768)}
	}
	panic("unknown reader shape " + shape)
}

// lastChunkStart: offset of the last piece when n bytes are delivered in pieces of c.
func lastChunkStart(n, c int) int {
	if n == 0 {
		return 0
	}
	return (n - 1) / c * c
}

// shapeFails: a reference read of the shape ends with an error. For a shape
// that does not fail the bytes delivered must be the content (check of the
// shapes themselves).
func shapeFails(shape string, content []byte) bool {
	got, err := io.ReadAll(shapeReader(shape, content))
	if err != nil {
		return true
	}
	if !bytes.Equal(got, content) {
		panic(fmt.Sprintf("reader shape %s does not deliver its content (%d of %d bytes)", shape, len(got), len(content)))
	}
	return false
}

// blobOfSize: deterministic content (no two sizes share a prefix relation by accident:
// every blob is a prefix of the same stream, so "a prefix of the blob" is a real prefix).
func blobOfSize(n int) []byte {
	b := make([]byte, n)
	x := uint32(0x9e3779b9)
	for i := range b {
		x ^= x << 13
		x ^= x >> 17
		x ^= x << 5
		b[i] = byte(x >> 11)
	}
	return b
}

type signedFor struct {
	what    string
	content []byte
}

// signedVariants: what the signature presented with the blob was made for.
func signedVariants(blob []byte) []signedFor {
	n := len(blob)
	cands := []signedFor{
		{"the-blob", blob},
		{"the-empty-blob", nil},
		{"blob-minus-last-32k-chunk", blob[:lastChunkStart(n, 32768)]},
		{"blob-minus-last-4k-chunk", blob[:lastChunkStart(n, 4096)]},
		{"blob-minus-last-byte", blob[:lastChunkStart(n, 1)]},
		{"first-half", blob[:n/2]},
		{"blob-minus-last-32k+1-chunk", blob[:lastChunkStart(n, 32769)]},
	}
	var out []signedFor
	seen := map[int]bool{}
	for _, c := range cands {
		if seen[len(c.content)] {
			continue
		}
		seen[len(c.content)] = true
		out = append(out, c)
	}
	return out
}
