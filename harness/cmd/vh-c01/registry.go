package main

// C01 driver, family "registry-call": ONE notation.Verify call as ONE case of
// the model's notation_verify (mk_rcase): the real verifier behind a recorder,
// a scripted repository that lists the signatures page by page and may fail
// to fetch one or to resolve the reference. The accepted signature stands
// first / in the middle / last, before and after tampered envelopes,
// signatures for another artifact and signatures lacking the required
// metadata, across page boundaries, inside and outside the attempt limit.

import (
	"context"
	"errors"
	"fmt"
	"strings"
	. "vh/kit"

	"github.com/notaryproject/notation-go"
	"github.com/notaryproject/notation-go/verifier/trustpolicy"
	"github.com/opencontainers/go-digest"
	ocispec "github.com/opencontainers/image-spec/specs-go/v1"
)

// listed is one signature of a listing.
type listed struct {
	Name      string `json:"signature"`
	FetchFail bool   `json:"fetch_fails,omitempty"`
	e         *envelope
}

// c01PagedRepo lists its signatures page by page.
type c01PagedRepo struct {
	desc    ocispec.Descriptor
	resolve string // "" ok, "error", "other-digest"
	pages   [][]listed
	flat    []listed
	fetches int
}

func (m *c01PagedRepo) Resolve(ctx context.Context, reference string) (ocispec.Descriptor, error) {
	switch m.resolve {
	case "error":
		return ocispec.Descriptor{}, errors.New("c01: resolve failure")
	case "other-digest":
		d := m.desc
		d.Digest = digest.Digest(flipHex(string(d.Digest)))
		return d, nil
	}
	return m.desc, nil
}

func (m *c01PagedRepo) ListSignatures(ctx context.Context, desc ocispec.Descriptor, fn func([]ocispec.Descriptor) error) error {
	pos := 0
	for _, p := range m.pages {
		var ms []ocispec.Descriptor
		for range p {
			ms = append(ms, ocispec.Descriptor{MediaType: mtManifest, Digest: digest.FromString(fmt.Sprint("c01 listed signature manifest ", pos)), Size: int64(pos)})
			pos++
		}
		if err := fn(ms); err != nil {
			return err
		}
	}
	return nil
}

func (m *c01PagedRepo) FetchSignatureBlob(ctx context.Context, desc ocispec.Descriptor) ([]byte, ocispec.Descriptor, error) {
	m.fetches++
	i := int(desc.Size)
	if i < 0 || i >= len(m.flat) {
		return nil, ocispec.Descriptor{}, errors.New("c01: no such signature")
	}
	if m.flat[i].FetchFail {
		return nil, ocispec.Descriptor{}, errors.New("c01: fetch failure")
	}
	e := m.flat[i].e
	return e.bytes, ocispec.Descriptor{MediaType: e.Format, Digest: digest.FromBytes(e.bytes), Size: int64(len(e.bytes))}, nil
}

func (m *c01PagedRepo) PushSignature(ctx context.Context, mediaType string, blob []byte, subject ocispec.Descriptor, annotations map[string]string) (ocispec.Descriptor, ocispec.Descriptor, error) {
	return ocispec.Descriptor{}, ocispec.Descriptor{}, errors.New("c01: read-only repository")
}

type skipVerifier interface {
	SkipVerify(ctx context.Context, opts notation.VerifierVerifyOptions) (bool, *trustpolicy.VerificationLevel, error)
}

// recReg hands every call through to the real verifier (SkipVerify included)
// and records, at the time of the call, the class of the returned error and the
// outcome object.
type recReg struct {
	v        bothVerifier
	sigs     [][]byte
	descs    []ocispec.Descriptor
	mds      []map[string]string
	verdicts []string
	outs     []*notation.VerificationOutcome
}

func (r *recReg) SkipVerify(ctx context.Context, opts notation.VerifierVerifyOptions) (bool, *trustpolicy.VerificationLevel, error) {
	return r.v.(skipVerifier).SkipVerify(ctx, opts)
}

func (r *recReg) Verify(ctx context.Context, desc ocispec.Descriptor, sig []byte, o notation.VerifierVerifyOptions) (*notation.VerificationOutcome, error) {
	out, err := r.v.Verify(ctx, desc, sig, o)
	r.sigs = append(r.sigs, sig)
	r.descs = append(r.descs, desc)
	r.mds = append(r.mds, copyMap(o.UserMetadata))
	r.verdicts = append(r.verdicts, classify(err, out))
	r.outs = append(r.outs, out)
	return out, err
}

// regCase describes one notation.Verify call (JSON for replay files).
type regCase struct {
	Family   string            `json:"family"`
	Name     string            `json:"listing"`
	Cfg      cfg               `json:"config"`
	Md       map[string]string `json:"required_metadata,omitempty"`
	Max      int               `json:"max_signature_attempts"`
	Resolve  string            `json:"resolve,omitempty"`
	Ref      string            `json:"artifact_reference"`
	Pages    [][]listed        `json:"pages"`
	ObsErr   string            `json:"obs_err"`
	ObsMsg   string            `json:"obs_error_text,omitempty"`
	ObsDesc  *tgt              `json:"obs_descriptor,omitempty"`
	Verdicts []string          `json:"obs_verdicts"`
	ObsOuts  string            `json:"obs_outcomes"`
}

// registryCall makes ONE notation.Verify call and emits it as one mk_rcase.
func (r *runner) registryCall(name string, c cfg, md map[string]string, max int, resolve, ref string, pages [][]listed) {
	my := r.id
	r.id++
	if !r.cw.Want(my) {
		return
	}
	k := &regCase{Family: "registry-call", Name: name, Cfg: c, Md: md, Max: max, Resolve: resolve, Ref: ref, Pages: pages}
	base := ocispec.Descriptor{MediaType: baseTarget.MT, Digest: digest.Digest(baseTarget.Dg), Size: baseTarget.Sz}
	repo := &c01PagedRepo{desc: base, resolve: resolve, pages: pages}
	for _, p := range pages {
		repo.flat = append(repo.flat, p...)
	}
	// input term: per listed signature its facts and (for intact envelopes) the control run of the rest
	levelLegal := true
	v, _, berr := r.w.build(c, 2)
	if berr != nil {
		levelLegal = false
	}
	var pageTerms []string
	for _, p := range pages {
		var items []string
		for _, l := range p {
			f := l.e.facts
			restOK, restTouch := false, false
			if levelLegal && c.Level != "skip" && f.intact() {
				src := l.e
				if f.Decode == nil && l.e.sibling != nil {
					src = l.e.sibling
				}
				ok, touched, avail := r.rest(src, c, false)
				if !avail {
					r.skipped++
					return
				}
				restOK, restTouch = ok, touched
			}
			items = append(items, CApp("mk_s", CBool(!l.FetchFail), f.coq(), CBool(restOK), CBool(restTouch)))
		}
		pageTerms = append(pageTerms, CList(items))
	}
	resolved := "None"
	// (the verifier's SkipVerify only finds a statement for digest references: tag references are not used here)
	if resolve == "" && ref == TestRef {
		resolved = CSome(baseTarget.coq())
	}
	in1 := CApp("mk_ri", CStr(c.Level), CMap(c.Override), CMap(md), CZ(int64(max)), resolved, CList(pageTerms))

	// observation
	errTerm, descTerm, outsTerm := "RPolicy", "None", "RONil"
	var verdicts []string
	k.ObsOuts = "none"
	if berr != nil {
		k.ObsErr, k.ObsMsg = "RPolicy", Short(berr.Error(), 160)
	} else {
		rec := &recReg{v: v}
		obj := copyMap(md)
		pcfg := map[string]string{"c01-config": "value"}
		fr := &frame{}
		fr.add("UserMetadata", obj)
		fr.add("PluginConfig", pcfg)
		got, outs, verr := notation.Verify(context.Background(), rec, repo, notation.VerifyOptions{ArtifactReference: ref, MaxSignatureAttempts: max, UserMetadata: obj, PluginConfig: pcfg})
		if ch := fr.changed(); len(ch) > 0 {
			r.cw.ImplViolation(my, "a map owned by the caller was changed by notation.Verify: "+strings.Join(ch, "; "), k, "")
		}
		var retr notation.ErrorSignatureRetrievalFailed
		var vf notation.ErrorVerificationFailed
		switch {
		case verr == nil:
			errTerm = "RNone"
			t := tgtOf(got)
			k.ObsDesc = &t
			descTerm = CSome(t.coq())
		case errors.As(verr, &retr) && strings.HasPrefix(retr.Msg, "verifyOptions.MaxSignatureAttempts expects a positive number"):
			errTerm = "RArg"
		case errors.As(verr, &retr):
			errTerm = "RRetrieval"
		default:
			if e, ok := verr.(notation.ErrorVerificationFailed); ok && strings.HasPrefix(e.Msg, "signature evaluation stopped") {
				errTerm = "RLimit"
			} else if errors.As(verr, &vf) {
				errTerm = "RFailed"
			} else {
				errTerm = "RFailed"
				r.cw.ImplViolation(my, "notation.Verify returned an error of no documented class: "+Short(verr.Error(), 200), k, "")
			}
		}
		if verr != nil {
			k.ObsMsg = Short(verr.Error(), 200)
		}
		verdicts = rec.verdicts
		// every call must have received the listed signature at its position, the resolved descriptor and the caller's metadata
		for j := range rec.sigs {
			if j >= len(repo.flat) || string(rec.sigs[j]) != string(repo.flat[j].e.bytes) {
				r.cw.ImplViolation(my, fmt.Sprintf("verifier.Verify call %d did not receive listed signature %d", j, j), k, "")
			}
			d := rec.descs[j]
			if !(d.Digest == base.Digest && d.Size == base.Size && d.MediaType == base.MediaType) {
				r.cw.ImplViolation(my, fmt.Sprintf("verifier.Verify call %d did not receive the resolved descriptor", j), k, "")
			}
			if len(rec.mds[j]) != len(md) || (len(md) > 0 && !sameMap(rec.mds[j], md)) {
				r.cw.ImplViolation(my, fmt.Sprintf("verifier.Verify call %d did not receive the caller's required metadata", j), k, "")
			}
		}
		switch {
		case len(outs) == 0:
			outsTerm, k.ObsOuts = "RONil", "none"
		case len(outs) == 1:
			outsTerm, k.ObsOuts = "ROOther", "other"
			if outs[0] != nil && outs[0].EnvelopeContent == nil && len(outs[0].VerificationResults) == 0 && outs[0].Error == nil && len(outs[0].RawSignature) == 0 {
				outsTerm, k.ObsOuts = "ROSkip", "level-only"
			}
			for j, o := range rec.outs {
				if o != nil && o == outs[0] {
					outsTerm, k.ObsOuts = CApp("ROSig", CN(int64(j))), fmt.Sprintf("outcome of call %d", j)
				}
			}
		default:
			outsTerm, k.ObsOuts = "ROOther", fmt.Sprintf("%d outcomes", len(outs))
		}
	}
	k.ObsErr, k.Verdicts = errTerm, verdicts
	obs := CApp("mk_ro", errTerm, descTerm, CList(verdicts), outsTerm)
	term := CApp("mk_rcase", CN(my), in1, obs)
	nontrivial := levelLegal && c.Level != "skip" && len(repo.flat) > 0
	key := fmt.Sprintf("registry|%s|%s|%v|%d|%s|%s|%s", name, c.key(), md, max, resolve, ref, in1)
	r.cw.Add(my, term, k, key, nontrivial)
	r.cw.Count("family", k.Family)
	r.cw.Count("kind", "registry")
	r.cw.Count("registry_err", errTerm)
	r.cw.Count("registry_calls", fmt.Sprint(len(verdicts)))
	r.cw.Count("registry_outcomes", strings.SplitN(k.ObsOuts, " ", 2)[0])
}
