package main

// C01 driver: runs the real verifier.Verify, verifier.VerifyBlob and
// notation.VerifyBlob on fresh, re-assembled and byte-mutated JWS and COSE
// envelopes, against equal / differing descriptors and blobs, required
// metadata, every non-skip enforcement map and several trust-store /
// identity / revocation / plugin situations, and prints (input, observation)
// cases for C01_Model; and notation.Verify over scripted repositories
// (registry.go), one case of the model's notation_verify per call.

import (
	"bytes"
	"context"
	"crypto/sha256"
	"crypto/sha512"
	"encoding/hex"
	"encoding/json"
	"errors"
	"fmt"
	"io"
	"mime"
	"os"
	"sort"
	"strings"
	. "vh/kit"

	"github.com/notaryproject/notation-core-go/revocation"
	revresult "github.com/notaryproject/notation-core-go/revocation/result"
	"github.com/notaryproject/notation-core-go/signature"
	"github.com/notaryproject/notation-go"
	"github.com/notaryproject/notation-go/verifier"
	"github.com/notaryproject/notation-go/verifier/trustpolicy"
	"github.com/notaryproject/notation-go/verifier/truststore"
	pluginfw "github.com/notaryproject/notation-plugin-framework-go/plugin"
	"github.com/opencontainers/go-digest"
	ocispec "github.com/opencontainers/image-spec/specs-go/v1"
)

func main() {
	if spec := os.Getenv(concEnv); spec != "" {
		concChild(spec) // the re-executed child of the concurrency family
		return
	}
	Main("c01", runC01)
}

func blobDoc(level string, ov map[trustpolicy.ValidationType]trustpolicy.ValidationAction, stores, ids []string) *trustpolicy.BlobDocument {
	return &trustpolicy.BlobDocument{Version: "1.0", TrustPolicies: []trustpolicy.BlobTrustPolicy{{
		Name:                  blobPolicyName,
		SignatureVerification: trustpolicy.SignatureVerification{VerificationLevel: level, Override: ov},
		TrustStores:           stores, TrustedIdentities: ids,
	}}}
}

// ---- configuration of the verifier (everything the "rest" depends on) ----

type cfg struct {
	Level    string            `json:"level"`
	Override map[string]string `json:"override,omitempty"`
	Store    int               `json:"store"`      // 0 rootA, 1 rootA+rootB, 2 empty, 3 failing
	Ident    int               `json:"identity"`   // 0 "*", 1 an identity nobody has
	Rev      int               `json:"revocation"` // 0 ok, 1 validator error
	PM       int               `json:"plugins"`    // 0 no manager, 1 plugin not installed, 2 plugin approves, 3 plugin rejects
}

func (c cfg) key() string {
	b, _ := json.Marshal(c)
	return string(b)
}

type c01Rev struct {
	calls int
	fail  bool
}

func (r *c01Rev) ValidateContext(ctx context.Context, o revocation.ValidateContextOptions) ([]*revresult.CertRevocationResult, error) {
	r.calls++
	if r.fail {
		return nil, errors.New("c01: revocation validator failure")
	}
	out := make([]*revresult.CertRevocationResult, len(o.CertChain))
	for i := range out {
		out[i] = &revresult.CertRevocationResult{Result: revresult.ResultOK}
	}
	return out, nil
}

type instr struct {
	store *MockStore
	rev   *c01Rev
	pm    *MockManager
}

func (in *instr) count() int {
	n := len(in.store.Calls) + in.rev.calls
	if in.pm != nil {
		n += len(in.pm.Gets)
	}
	return n
}

func (in *instr) touched() bool { return in.count() > 0 }

// shared is ONE long-lived verifier on which a history of calls is made.
type shared struct {
	v  bothVerifier
	in *instr
}

const blobPolicyName = "p"

type bothVerifier interface {
	notation.Verifier
	notation.BlobVerifier
}

// build constructs a verifier with an OCI policy (mode 0), a blob policy
// (mode 1) or both (mode 2: the long-lived verifier of a history).
func (w *world) build(c cfg, mode int) (bothVerifier, *instr, error) {
	var oci []cfg
	var blob *cfg
	if mode >= 1 {
		blob = &c
	}
	if mode != 1 {
		oci = []cfg{c}
	}
	return w.buildNS(oci, blob)
}

const (
	secondScope = "reg.example/other"
	secondRef   = "reg.example/other@sha256:9834876dcfb05cb167a5c24953eba58c4ac89b1adf57f28f2f9d09af107ee8f0"
)

// stmtParts: the content of a policy statement for configuration c.
func stmtParts(c cfg) (ov map[trustpolicy.ValidationType]trustpolicy.ValidationAction, stores, ids []string) {
	ids = []string{"*"}
	if c.Ident == 1 {
		ids = []string{"x509.subject: CN=nobody,O=Nowhere,C=US,ST=WA"}
	}
	stores = []string{"ca:s"}
	if c.Level == "skip" {
		ids, stores = nil, nil
	}
	if len(c.Override) > 0 {
		ov = map[trustpolicy.ValidationType]trustpolicy.ValidationAction{}
		for k, v := range c.Override {
			ov[trustpolicy.ValidationType(k)] = trustpolicy.ValidationAction(v)
		}
	}
	return
}

// buildNS constructs ONE verifier whose OCI document has one statement per
// element of oci (the first named "p" for TestScope, the second named "q" for
// secondScope) and whose blob document, if any, has a statement that is ALSO
// named "p" but has the content of *blob. Trust store content, revocation
// validator and plugin manager (properties of the verifier, not of a
// statement) are taken from the first configuration given.
func (w *world) buildNS(oci []cfg, blob *cfg) (bothVerifier, *instr, error) {
	var c cfg
	if len(oci) > 0 {
		c = oci[0]
	} else {
		c = *blob
	}
	in := &instr{store: NewMockStore(), rev: &c01Rev{fail: c.Rev == 1}}
	k := StoreKey{Type: truststore.TypeCA, Name: "s"}
	switch c.Store {
	case 0:
		in.store.Put(truststore.TypeCA, "s", w.rootA.C)
	case 1:
		in.store.Put(truststore.TypeCA, "s", w.rootA.C, w.rootB.C)
	case 2:
		in.store.Certs[k] = nil
	case 3:
		in.store.Fail[k] = true
	}
	opts := verifier.VerifierOptions{RevocationCodeSigningValidator: in.rev}
	if blob != nil {
		ov, stores, ids := stmtParts(*blob)
		opts.BlobTrustPolicy = blobDoc(blob.Level, ov, stores, ids)
	}
	if len(oci) > 0 {
		ov, stores, ids := stmtParts(oci[0])
		doc := OCIPolicy(oci[0].Level, ov, stores, ids, "")
		if len(oci) > 1 {
			ov, stores, ids := stmtParts(oci[1])
			doc.TrustPolicies = append(doc.TrustPolicies, trustpolicy.OCITrustPolicy{
				Name: "q", RegistryScopes: []string{secondScope},
				SignatureVerification: trustpolicy.SignatureVerification{VerificationLevel: oci[1].Level, Override: ov},
				TrustStores:           stores, TrustedIdentities: ids,
			})
		}
		opts.OCITrustPolicy = doc
	}
	if c.PM != 0 {
		in.pm = &MockManager{Plugins: map[string]*MockPlugin{}}
		if c.PM >= 2 {
			ok := c.PM == 2
			in.pm.Plugins[pluginName] = &MockPlugin{
				Meta: &pluginfw.GetMetadataResponse{Name: pluginName, Version: "1.0.0", SupportedContractVersions: []string{"1.0"},
					Capabilities: []pluginfw.Capability{pluginfw.CapabilityTrustedIdentityVerifier, pluginfw.CapabilityRevocationCheckVerifier}},
				Resp: &pluginfw.VerifySignatureResponse{VerificationResults: map[pluginfw.Capability]*pluginfw.VerificationResult{
					pluginfw.CapabilityTrustedIdentityVerifier: {Success: ok, Reason: "c01"},
					pluginfw.CapabilityRevocationCheckVerifier: {Success: true},
				}},
			}
		}
		opts.PluginManager = in.pm
	}
	v, err := verifier.NewVerifierWithOptions(in.store, opts)
	if err != nil {
		return nil, in, err
	}
	return v, in, nil
}

// ---- a case ----

type blobSpec struct {
	What     string `json:"what"`
	MT       string `json:"content_media_type"`
	SigEmpty bool   `json:"signature_empty,omitempty"`
	SigMT    string `json:"signature_media_type,omitempty"` // "" = the envelope's format
	ReadFail bool   `json:"reader_fails,omitempty"`
	Len      int    `json:"content_len"`
	// family blob-reader (reader.go): the shape of the io.Reader the blob is read through ("" = bytes.Reader)
	// and what the presented signature was made for
	Shape     string `json:"reader_shape,omitempty"`
	SignedFor string `json:"signed_for,omitempty"`
	content   []byte
}

// preObs is what one verifier.Verify call made by notation.Verify returned.
type preObs struct {
	out     *notation.VerificationOutcome
	err     error
	touched bool
	// notation.VerifyBlob only: returned descriptor, and what the verifier inside returned
	d         ocispec.Descriptor
	recCalled bool
	recOut    *notation.VerificationOutcome
	recErr    error
}

func copyMap(m map[string]string) map[string]string {
	if m == nil {
		return nil
	}
	c := make(map[string]string, len(m))
	for k, v := range m {
		c[k] = v
	}
	return c
}

func sameMap(a, b map[string]string) bool {
	if (a == nil) != (b == nil) || len(a) != len(b) {
		return false
	}
	for k, v := range a {
		if w, ok := b[k]; !ok || w != v {
			return false
		}
	}
	return true
}

// frame is a deep snapshot of the caller-owned maps handed to a call.
type frame struct {
	names []string
	objs  []map[string]string
	snaps []map[string]string
}

func (f *frame) add(name string, m map[string]string) {
	f.names = append(f.names, name)
	f.objs = append(f.objs, m)
	f.snaps = append(f.snaps, copyMap(m))
}

// changed names the maps the call changed.
func (f *frame) changed() []string {
	var out []string
	for i := range f.objs {
		if !sameMap(f.objs[i], f.snaps[i]) {
			out = append(out, fmt.Sprintf("%s: %v -> %v", f.names[i], f.snaps[i], f.objs[i]))
		}
	}
	return out
}

type kase struct {
	Family  string            `json:"family"`
	History string            `json:"history,omitempty"` // calls made on one long-lived verifier, in this order
	Env     *envelope         `json:"env"`
	Facts   *facts            `json:"facts"`
	Kind    string            `json:"kind"` // oci | blob | top
	Cfg     cfg               `json:"config"`
	Md      map[string]string `json:"required_metadata,omitempty"`
	What    string            `json:"presented"` // how the presented artifact relates to the signed one
	Desc    *tgt              `json:"descriptor,omitempty"`
	Gen     *[3]*tgt          `json:"descgen,omitempty"` // per sha256/384/512; nil = the generator fails
	Blob    *blobSpec         `json:"blob,omitempty"`
	Rest    string            `json:"rest"`
	// observation
	ObsErr     string `json:"obs_err"`
	ObsOut     string `json:"obs_outcome"`
	ObsIAct    string `json:"obs_integrity_action"`
	ObsDesc    *tgt   `json:"obs_descriptor,omitempty"`
	ObsTouched bool   `json:"obs_touched"`
	ObsMsg     string `json:"obs_error_text,omitempty"`
	SharedMd   bool   `json:"metadata_map_shared_with_earlier_calls,omitempty"`
	Ref        string `json:"artifact_reference,omitempty"` // "" = TestRef
	Via        string `json:"via,omitempty"`

	mdObj map[string]string // the caller's map object handed to the call (Md = what the caller put into it)
	pre   *preObs           // the call was made by notation.Verify; this is what it returned
}

type runner struct {
	// sink, when set, receives the finished cases instead of the case writer (child process of the concurrency family)
	sink    func(id int64, term string, k *kase, key string, nontrivial bool)
	w       *world
	cw      *CaseWriter
	rng     *Rng
	id      int64
	restMem map[string][2]bool
	skipped int
}

// sameErr: is a the very error value b (or wraps it)?
func sameErr(a, b error) (eq bool) {
	defer func() {
		if recover() != nil {
			eq = false
		}
	}()
	if a == nil || b == nil {
		return false
	}
	return a == b || errors.Is(a, b)
}

// classify maps a returned error to the model's [err] constructors, using the
// outcome the verifier produced (the integrity result is the first result).
func classify(err error, out *notation.VerificationOutcome) string {
	if err == nil {
		return "ENone"
	}
	msg := err.Error()
	if out != nil && len(out.VerificationResults) > 0 {
		r0 := out.VerificationResults[0]
		if r0 != nil && r0.Type == trustpolicy.TypeIntegrity && r0.Error != nil && sameErr(err, r0.Error) {
			var inc notation.ErrorVerificationInconclusive
			switch err.(type) {
			case *signature.SignatureEnvelopeNotFoundError, *signature.InvalidSignatureError, *signature.SignatureIntegrityError:
				return "(EIntegrity ISig)"
			}
			switch {
			case strings.HasPrefix(msg, "unable to parse the digital signature"):
				return "(EIntegrity IParse)"
			case strings.HasPrefix(msg, "payload content type"):
				return "(EIntegrity ICType)"
			case errors.As(err, &inc):
				return "(EIntegrity IInconclusive)"
			}
			return "(EIntegrity IInconclusive)"
		}
	}
	var md notation.ErrorUserMetadataVerificationFailed
	var j1 *json.SyntaxError
	var j2 *json.UnmarshalTypeError
	switch {
	case errors.As(err, &md):
		return "EMetadata"
	case msg == "content descriptor mismatch", msg == "integrity check failed. signature does not match the given blob":
		return "EMismatch"
	case errors.As(err, &j1), errors.As(err, &j2), strings.Contains(msg, "unexpected end of JSON input"):
		return "EJson"
	case strings.HasPrefix(msg, "unsupported hashing algorithm"):
		return "EHash"
	case strings.HasPrefix(msg, "failed to generate descriptor for given artifact"):
		return "EDescGen"
	}
	return "ERest"
}

func outcomeTerm(out *notation.VerificationOutcome, f *facts) (term, text, iact string) {
	if out == nil {
		return "None", "nil", ""
	}
	cls := classify(out.Error, out)
	state := 0
	if out.EnvelopeContent != nil {
		state = 2
		if f.Content && out.EnvelopeContent.Payload.ContentType == f.CType && bytes.Equal(out.EnvelopeContent.Payload.Content, f.payload) {
			state = 1
		}
	}
	if len(out.VerificationResults) > 0 && out.VerificationResults[0] != nil && out.VerificationResults[0].Type == trustpolicy.TypeIntegrity {
		iact = string(out.VerificationResults[0].Action)
	}
	return CSome(CPair(cls, CN(int64(state)))), fmt.Sprintf("%s/content=%d", cls, state), iact
}

type failReader struct{ n int }

func (r *failReader) Read(p []byte) (int, error) {
	if r.n == 0 {
		r.n++
		if len(p) > 0 {
			p[0] = 'x'
			return 1, nil
		}
	}
	return 0, errors.New("c01: read failure")
}

// recVerifier records what the real BlobVerifier returned to notation.VerifyBlob.
type recVerifier struct {
	v      notation.BlobVerifier
	called bool
	out    *notation.VerificationOutcome
	err    error
}

func (r *recVerifier) VerifyBlob(ctx context.Context, g notation.BlobDescriptorGenerator, sig []byte, o notation.BlobVerifierVerifyOptions) (*notation.VerificationOutcome, error) {
	r.called = true
	r.out, r.err = r.v.VerifyBlob(ctx, g, sig, o)
	return r.out, r.err
}

func genFunc(g [3]*tgt) notation.BlobDescriptorGenerator {
	return func(a digest.Algorithm) (ocispec.Descriptor, error) {
		var t *tgt
		switch a {
		case digest.SHA256:
			t = g[0]
		case digest.SHA384:
			t = g[1]
		case digest.SHA512:
			t = g[2]
		}
		if t == nil {
			return ocispec.Descriptor{}, errors.New("c01: descriptor generator failure")
		}
		return ocispec.Descriptor{MediaType: t.MT, Digest: digest.Digest(t.Dg), Size: t.Sz, Annotations: t.Ann}, nil
	}
}

// rest determines what the part of processSignature after the integrity block
// does for this envelope under this configuration, by a control run of the
// real verifier in which the checks that follow processSignature pass
// trivially (the envelope's own target is presented, no metadata required).
func (r *runner) rest(e *envelope, c cfg, blob bool) (ok, touched, avail bool) {
	if e.facts.Decode == nil {
		return false, false, false
	}
	key := fmt.Sprintf("%d|%s|%v", e.id, c.key(), blob)
	if m, hit := r.restMem[key]; hit {
		return m[0], m[1], true
	}
	mode := 0
	if blob {
		mode = 1
	}
	v, in, err := r.w.build(c, mode)
	if err != nil {
		return false, false, false
	}
	t := *e.facts.Decode
	if blob {
		d := &tgt{MT: "", Dg: t.Dg, Sz: t.Sz}
		_, err = v.VerifyBlob(context.Background(), genFunc([3]*tgt{d, d, d}), e.bytes, notation.BlobVerifierVerifyOptions{SignatureMediaType: e.Format, TrustPolicyName: blobPolicyName})
	} else {
		_, err = v.Verify(context.Background(), ocispec.Descriptor{MediaType: t.MT, Digest: digest.Digest(t.Dg), Size: t.Sz}, e.bytes, notation.VerifierVerifyOptions{ArtifactReference: TestRef, SignatureMediaType: e.Format})
	}
	r.restMem[key] = [2]bool{err == nil, in.touched()}
	return err == nil, in.touched(), true
}

func digests(b []byte) [3]string {
	h1 := sha256.Sum256(b)
	h2 := sha512.Sum384(b)
	h3 := sha512.Sum512(b)
	return [3]string{"sha256:" + hex.EncodeToString(h1[:]), "sha384:" + hex.EncodeToString(h2[:]), "sha512:" + hex.EncodeToString(h3[:])}
}

func (r *runner) run(k *kase) { r.exec(k, nil) }

// history makes the calls of steps one after the other on ONE verifier
// (constructed once, with both an OCI and a blob policy of configuration c).
// Every step is a case of its own, judged on its own input. The control runs
// that measure the rest of processSignature are all made before the first
// step, so that nothing else happens in the process between two steps. In a
// replay of one step the steps before it are executed too.
func (r *runner) history(name string, c cfg, steps []*kase) {
	for _, k := range steps {
		k.Cfg = c
	}
	r.historyOn(name, func() (bothVerifier, *instr, error) { return r.w.build(c, 2) }, steps)
}

// historyNS: as history, on ONE verifier that holds an OCI statement "p" (and
// possibly "q" for a second scope) and a blob statement that is also named "p"
// but differs in content. A step is judged on the statement that applies to
// its own entry point and reference.
func (r *runner) historyNS(name string, oci []cfg, blob *cfg, steps []*kase) {
	for _, k := range steps {
		switch {
		case k.Kind != "oci":
			k.Cfg = *blob
		case k.Ref == secondRef:
			k.Cfg = oci[1]
		default:
			k.Cfg = oci[0]
		}
	}
	r.historyOn(name, func() (bothVerifier, *instr, error) { return r.w.buildNS(oci, blob) }, steps)
}

func (r *runner) historyOn(name string, mk func() (bothVerifier, *instr, error), steps []*kase) {
	first := r.id
	want := false
	for j := range steps {
		if r.cw.Want(first + int64(j)) {
			want = true
		}
	}
	if !want {
		for range steps {
			r.id++
			r.rng.Bool()
			r.rng.Bool()
		}
		return
	}
	v, in, err := mk()
	if err != nil {
		panic(fmt.Sprintf("c01: history %s: %v", name, err))
	}
	for j, k := range steps {
		c := k.Cfg
		k.Family = "history"
		k.History = fmt.Sprintf("%s step %d/%d", name, j+1, len(steps))
		if k.Env.facts.intact() {
			src := k.Env
			if src.facts.Decode == nil && src.sibling != nil {
				src = src.sibling
			}
			r.rest(src, c, k.Kind != "oci")
		}
	}
	sh := &shared{v: v, in: in}
	for _, k := range steps {
		r.exec(k, sh)
	}
	r.cw.Count("history", name)
}

// ---- notation.Verify over a scripted repository ----

type c01Repo struct {
	desc ocispec.Descriptor
	sigs []*envelope
}

func (m *c01Repo) Resolve(ctx context.Context, reference string) (ocispec.Descriptor, error) {
	return m.desc, nil
}

func (m *c01Repo) ListSignatures(ctx context.Context, desc ocispec.Descriptor, fn func([]ocispec.Descriptor) error) error {
	var ms []ocispec.Descriptor
	for i := range m.sigs {
		ms = append(ms, ocispec.Descriptor{MediaType: mtManifest, Digest: digest.FromString(fmt.Sprint("c01 signature manifest ", i)), Size: int64(i)})
	}
	return fn(ms)
}

func (m *c01Repo) FetchSignatureBlob(ctx context.Context, desc ocispec.Descriptor) ([]byte, ocispec.Descriptor, error) {
	i := int(desc.Size)
	if i < 0 || i >= len(m.sigs) {
		return nil, ocispec.Descriptor{}, errors.New("c01: no such signature")
	}
	e := m.sigs[i]
	return e.bytes, ocispec.Descriptor{MediaType: e.Format, Digest: digest.FromBytes(e.bytes), Size: int64(len(e.bytes))}, nil
}

func (m *c01Repo) PushSignature(ctx context.Context, mediaType string, blob []byte, subject ocispec.Descriptor, annotations map[string]string) (ocispec.Descriptor, ocispec.Descriptor, error) {
	return ocispec.Descriptor{}, ocispec.Descriptor{}, errors.New("c01: read-only repository")
}

// recOCI records what the real Verifier returned for every signature
// notation.Verify handed to it (the outcome is copied at once: notation.Verify
// rewrites outcome.Error afterwards).
type recOCI struct {
	v     notation.Verifier
	in    *instr
	sigs  [][]byte
	descs []ocispec.Descriptor
	obs   []*preObs
}

func (r *recOCI) Verify(ctx context.Context, desc ocispec.Descriptor, sig []byte, o notation.VerifierVerifyOptions) (*notation.VerificationOutcome, error) {
	before := r.in.count()
	out, err := r.v.Verify(ctx, desc, sig, o)
	var cp *notation.VerificationOutcome
	if out != nil {
		c := *out
		cp = &c
	}
	r.sigs = append(r.sigs, sig)
	r.descs = append(r.descs, desc)
	r.obs = append(r.obs, &preObs{out: cp, err: err, touched: r.in.count() > before})
	return out, err
}

// listing runs ONE notation.Verify call over a repository that lists the
// given signatures for the base artifact, with required metadata md (one map
// object for the whole call, as notation.Verify hands it on). Every
// verifier.Verify call it makes is a case of its own (kind oci, judged on the
// metadata the caller required); that notation.Verify succeeds exactly when
// one of them did, and leaves the caller's maps alone, is checked here.
func (r *runner) listing(name string, c cfg, envs []*envelope, md map[string]string) {
	first := r.id
	want := false
	for j := range envs {
		if r.cw.Want(first + int64(j)) {
			want = true
		}
	}
	if !want {
		for range envs {
			r.id++
			r.rng.Bool()
			r.rng.Bool()
		}
		return
	}
	v, in, err := r.w.build(c, 2)
	if err != nil {
		panic(fmt.Sprintf("c01: listing %s: %v", name, err))
	}
	base := ocispec.Descriptor{MediaType: baseTarget.MT, Digest: digest.Digest(baseTarget.Dg), Size: baseTarget.Sz}
	repo := &c01Repo{desc: base, sigs: envs}
	rec := &recOCI{v: v, in: in}
	obj := copyMap(md)
	pcfg := map[string]string{"c01-config": "value"}
	fr := &frame{}
	fr.add("UserMetadata", obj)
	fr.add("PluginConfig", pcfg)
	got, _, verr := notation.Verify(context.Background(), rec, repo, notation.VerifyOptions{ArtifactReference: TestRef, MaxSignatureAttempts: 50, UserMetadata: obj, PluginConfig: pcfg})
	anyOK := false
	for _, o := range rec.obs {
		if o.err == nil {
			anyOK = true
		}
	}
	what := fmt.Sprintf("notation.Verify over [%s]", name)
	for j, e := range envs {
		if j >= len(rec.obs) {
			// not reached (an earlier signature verified)
			r.id++
			r.rng.Bool()
			r.rng.Bool()
			continue
		}
		if !bytes.Equal(rec.sigs[j], e.bytes) {
			panic("c01: listing: signatures verified out of listing order")
		}
		d := tgtOf(rec.descs[j])
		k := &kase{Family: "repository", History: fmt.Sprintf("%s signature %d/%d", what, j+1, len(envs)), Env: e, Kind: "oci", Cfg: c, Md: copyMap(md),
			What: "listed-for-base-artifact", Desc: &d, Via: "notation.Verify", SharedMd: true, pre: rec.obs[j]}
		my := r.id
		r.exec(k, &shared{v: v, in: in})
		if j == 0 && r.cw.Want(my) {
			if ch := fr.changed(); len(ch) > 0 {
				r.cw.ImplViolation(my, "a map owned by the caller was changed by notation.Verify: "+strings.Join(ch, "; "), k, "")
			}
			if (verr == nil) != anyOK {
				r.cw.ImplViolation(my, fmt.Sprintf("%s returned error %v although the signatures verified individually: %v", what, verr, anyOK), k, "")
			}
			if verr == nil && !(got.Digest == base.Digest && got.Size == base.Size && got.MediaType == base.MediaType) {
				r.cw.ImplViolation(my, what+" succeeded with a descriptor other than the resolved one", k, "")
			}
		}
	}
	r.cw.Count("history", "repository/"+name)
}

func (r *runner) exec(k *kase, sh *shared) {
	my := r.id
	r.id++
	// drawn before the replay filter so that the random stream is the same in a replay
	restOK, restTouch := r.rng.Bool(), r.rng.Bool()
	wanted := r.cw.Want(my)
	if !wanted && sh == nil {
		return
	}
	e := k.Env
	f := e.facts
	k.Facts = f
	blob := k.Kind != "oci"
	levelValid := true
	var v bothVerifier
	var in *instr
	var berr error
	if sh != nil {
		v, in = sh.v, sh.in
	} else {
		mode := 0
		if blob {
			mode = 1
		}
		v, in, berr = r.w.build(k.Cfg, mode)
	}
	if berr != nil {
		levelValid = false
	}
	before := in.count()
	fr := &frame{}
	// the abstracted rest
	k.Rest = "irrelevant"
	if levelValid && k.Cfg.Level != "skip" && f.intact() {
		src := e
		if f.Decode == nil && e.sibling != nil {
			src = e.sibling
		}
		ok, touched, avail := r.rest(src, k.Cfg, blob)
		if !avail {
			r.skipped++
			return
		}
		restOK, restTouch = ok, touched
		k.Rest = fmt.Sprintf("ok=%v touched=%v", ok, touched)
	}
	// observation
	var errTerm, outTerm, descTerm string
	descTerm = "None"
	if berr != nil {
		errTerm, outTerm = "EPolicy", "None"
		k.ObsErr, k.ObsOut, k.ObsMsg = "EPolicy", "nil", Short(berr.Error(), 160)
	} else {
		var out *notation.VerificationOutcome
		var err error
		ctx := context.Background()
		// the caller's maps: the required metadata (one object possibly shared with
		// earlier calls of a history), the plugin configuration, the descriptor's annotations
		passMd := copyMap(k.Md)
		if k.mdObj != nil {
			passMd = k.mdObj
			k.SharedMd = true
		}
		pcfg := map[string]string{"c01-config": "value"}
		fr.add("UserMetadata", passMd)
		fr.add("PluginConfig", pcfg)
		switch k.Kind {
		case "oci":
			if k.pre != nil {
				out, err = k.pre.out, k.pre.err
			} else {
				annObj := copyMap(k.Desc.Ann)
				fr.add("descriptor annotations", annObj)
				d := ocispec.Descriptor{MediaType: k.Desc.MT, Digest: digest.Digest(k.Desc.Dg), Size: k.Desc.Sz, Annotations: annObj}
				ref := TestRef
				if k.Ref != "" {
					ref = k.Ref
				}
				out, err = v.Verify(ctx, d, e.bytes, notation.VerifierVerifyOptions{ArtifactReference: ref, SignatureMediaType: e.Format, UserMetadata: passMd, PluginConfig: pcfg})
			}
			errTerm = classify(err, out)
		case "blob":
			if k.pre != nil {
				out, err = k.pre.out, k.pre.err
			} else {
				out, err = v.VerifyBlob(ctx, genFunc(*k.Gen), e.bytes, notation.BlobVerifierVerifyOptions{SignatureMediaType: e.Format, UserMetadata: passMd, PluginConfig: pcfg, TrustPolicyName: blobPolicyName})
			}
			errTerm = classify(err, out)
		case "top":
			b := k.Blob
			var rd io.Reader = bytes.NewReader(b.content)
			if b.Shape != "" {
				rd = shapeReader(b.Shape, b.content)
			} else if b.ReadFail {
				rd = &failReader{}
			}
			sig := e.bytes
			if b.SigEmpty {
				sig = nil
			}
			smt := e.Format
			if b.SigMT != "" {
				smt = b.SigMT
			}
			rec := &recVerifier{v: v}
			var d ocispec.Descriptor
			if k.pre != nil {
				d, out, err = k.pre.d, k.pre.out, k.pre.err
				rec.called, rec.out, rec.err = k.pre.recCalled, k.pre.recOut, k.pre.recErr
			} else {
				d, out, err = notation.VerifyBlob(ctx, rec, rd, sig, notation.VerifyBlobOptions{
					BlobVerifierVerifyOptions: notation.BlobVerifierVerifyOptions{SignatureMediaType: smt, UserMetadata: passMd, PluginConfig: pcfg, TrustPolicyName: blobPolicyName},
					ContentMediaType:          b.MT})
			}
			switch {
			case err == nil:
				errTerm = "ENone"
			case !rec.called:
				errTerm = "EArg"
			case sameErr(err, rec.err):
				errTerm = classify(err, rec.out)
			default:
				errTerm = classify(err, nil)
			}
			zero := d.MediaType == "" && d.Digest == "" && d.Size == 0 && len(d.Annotations) == 0
			if err == nil || !zero {
				t := tgtOf(d)
				k.ObsDesc = &t
				descTerm = CSome(t.coq())
			}
		}
		var text string
		outTerm, text, k.ObsIAct = outcomeTerm(out, f)
		k.ObsErr, k.ObsOut = errTerm, text
		if err != nil {
			k.ObsMsg = Short(err.Error(), 160)
		}
	}
	k.ObsTouched = in.count() > before
	if k.pre != nil {
		k.ObsTouched = k.pre.touched
	}
	if !wanted {
		return
	}
	if ch := fr.changed(); len(ch) > 0 {
		r.cw.ImplViolation(my, "a map owned by the caller was changed by the verification call: "+strings.Join(ch, "; "), k, "")
	}
	// input term
	var call string
	presentedDiffers := false
	switch k.Kind {
	case "oci":
		call = CApp("COCI", k.Desc.coq())
		presentedDiffers = f.Decode != nil && (f.Decode.Dg != k.Desc.Dg || f.Decode.Sz != k.Desc.Sz || f.Decode.MT != k.Desc.MT)
	case "blob":
		items := make([]string, 3)
		for i, t := range k.Gen {
			if t == nil {
				items[i] = "None"
			} else {
				items[i] = CSome(t.coq())
			}
		}
		call = CApp("CBlob", CApp("mk_g", items...))
		presentedDiffers = k.What != "equal"
	case "top":
		b := k.Blob
		b.Len = len(b.content)
		ds := digests(b.content)
		_, _, perr := mime.ParseMediaType(b.MT)
		smt := e.Format
		if b.SigMT != "" {
			smt = b.SigMT
		}
		size := int64(len(b.content))
		call = CApp("CTop", CApp("mk_b", CBool(b.SigEmpty), CStr(b.MT), CBool(perr == nil), CStr(smt), CBool(!b.ReadFail), CZ(size), CStr(ds[0]), CStr(ds[1]), CStr(ds[2])))
		presentedDiffers = k.What != "equal"
	}
	in1 := CApp("mk_in", CStr(k.Cfg.Level), CMap(k.Cfg.Override), f.coq(), CBool(restOK), CBool(restTouch), CMap(k.Md), call)
	obs := CApp("mk_o", errTerm, outTerm, CStr(k.ObsIAct), descTerm, CBool(k.ObsTouched))
	term := CApp("mk_case", CN(my), in1, obs)
	nontrivial := levelValid && k.Cfg.Level != "skip" &&
		((f.intact() && (presentedDiffers || len(k.Md) > 0)) || (!f.intact() && f.Content))
	key := fmt.Sprintf("%s|%s|%s|%s|%v|%s|%s", e.Desc, e.Format, k.Kind, k.Cfg.key(), k.Md, call, f.coq())
	if k.Blob != nil && k.Blob.Shape != "" {
		key += "|" + k.Blob.Shape
	}
	if r.sink != nil {
		r.sink(my, term, k, key, nontrivial)
		return
	}
	r.cw.Add(my, term, k, key, nontrivial)
	r.cw.Count("family", k.Family)
	r.cw.Count("kind", k.Kind)
	r.cw.Count("format", e.Format)
	r.cw.Count("obs_err", k.ObsErr)
	r.cw.Count("intact", fmt.Sprint(f.intact()))
	r.cw.Count("level", k.Cfg.Level+overrideText(k.Cfg.Override))
	r.cw.Count("presented", k.Kind+":"+k.What)
	r.cw.Count("metadata", mdText(k.Md, f))
	if f.intact() {
		r.cw.Count("rest", k.Rest)
	}
	if f.Parse {
		r.cw.Count("verify", []string{"ok", "integrity-error", "other-error"}[f.Verify])
	} else {
		r.cw.Count("verify", "unparsable")
	}
	r.cw.Count("hash", fmt.Sprint(f.Hash))
}

func overrideText(m map[string]string) string {
	if len(m) == 0 {
		return ""
	}
	keys := make([]string, 0, len(m))
	for k := range m {
		keys = append(keys, k)
	}
	sort.Strings(keys)
	s := ""
	for _, k := range keys {
		s += "+" + k[:4] + ":" + m[k]
	}
	return s
}

func mdText(md map[string]string, f *facts) string {
	if len(md) == 0 {
		return "none"
	}
	if f.Decode == nil {
		return "required/no-target"
	}
	sat, miss := 0, 0
	for k, v := range md {
		if got, ok := f.Decode.Ann[k]; ok && got == v {
			sat++
		} else {
			miss++
		}
	}
	switch {
	case miss == 0:
		return "all-present"
	case sat == 0:
		return "none-present"
	}
	return "some-present"
}

// ---- generators ----

const mtManifest = "application/vnd.oci.image.manifest.v1+json"

var baseTarget = tgt{MT: mtManifest, Dg: "sha256:9834876dcfb05cb167a5c24953eba58c4ac89b1adf57f28f2f9d09af107ee8f0", Sz: 528}

var annSets = []map[string]string{nil, {"k1": "v1"}, {"k1": "v1", "k2": "v2"}}

var mdSets = []map[string]string{
	nil,
	{"k1": "v1"},
	{"k1": "v1", "k2": "v2"},
	{"k3": "v3"},
	{"k1": "v2"},
	{"k1": "v1", "k3": "v3"},
	{"k3": ""},
	{"k1": ""},
	{"K1": "v1"},
	{"k2": "v1", "k1": "v2"},
}

type named struct {
	What string
	T    tgt
}

func flipHex(s string) string {
	b := []byte(s)
	i := len(b) - 1
	if b[i] == '0' {
		b[i] = '1'
	} else {
		b[i] = '0'
	}
	return string(b)
}

// descVariants: the presented descriptor relative to the signed target t.
func descVariants(t tgt) []named {
	dg2 := flipHex(t.Dg)
	mt2 := "application/vnd.oci.image.index.v1+json"
	return []named{
		{"equal", tgt{MT: t.MT, Dg: t.Dg, Sz: t.Sz}},
		{"digest", tgt{MT: t.MT, Dg: dg2, Sz: t.Sz}},
		{"size+1", tgt{MT: t.MT, Dg: t.Dg, Sz: t.Sz + 1}},
		{"size-1", tgt{MT: t.MT, Dg: t.Dg, Sz: t.Sz - 1}},
		{"mediatype", tgt{MT: mt2, Dg: t.Dg, Sz: t.Sz}},
		{"mediatype-empty", tgt{MT: "", Dg: t.Dg, Sz: t.Sz}},
		{"digest+size", tgt{MT: t.MT, Dg: dg2, Sz: t.Sz + 7}},
		{"digest+mediatype", tgt{MT: mt2, Dg: dg2, Sz: t.Sz}},
		{"size+mediatype", tgt{MT: mt2, Dg: t.Dg, Sz: 0}},
		{"all", tgt{MT: mt2, Dg: dg2, Sz: t.Sz * 2}},
		{"zero", tgt{}},
		{"equal+annotations", tgt{MT: t.MT, Dg: t.Dg, Sz: t.Sz, Ann: map[string]string{"k1": "v1", "k3": "v3"}}},
	}
}

var baseLevels = map[string]*trustpolicy.VerificationLevel{
	"strict": trustpolicy.LevelStrict, "permissive": trustpolicy.LevelPermissive, "audit": trustpolicy.LevelAudit,
}
var baseNames = []string{"strict", "permissive", "audit"}

// levelFor realises enforcement map number idx (0..23: authenticity x
// authenticTimestamp x expiry in {enforce, log}, revocation in {enforce, log,
// skip}) from a random base level plus the overrides that are needed (and
// sometimes redundant ones).
func levelFor(rng *Rng, idx int) (string, map[string]string) {
	acts := []string{"enforce", "log", "skip"}
	want := map[string]string{
		"authenticity":       acts[idx&1],
		"authenticTimestamp": acts[(idx>>1)&1],
		"expiry":             acts[(idx>>2)&1],
		"revocation":         acts[(idx>>3)%3],
	}
	base := Pick(rng, baseNames)
	ov := map[string]string{}
	for t, a := range want {
		if string(baseLevels[base].Enforcement[trustpolicy.ValidationType(t)]) != a || rng.Chance(1, 6) {
			ov[t] = a
		}
	}
	if len(ov) == 0 {
		ov = nil
	}
	return base, ov
}

func goodCfg(rng *Rng, idx int) cfg {
	l, ov := levelFor(rng, idx)
	return cfg{Level: l, Override: ov, Store: 1, Ident: 0, Rev: 0, PM: 0}
}

// anyCfg: any enforcement map with a random trust store / identity /
// revocation / plugin situation.
func anyCfg(rng *Rng) cfg {
	l, ov := levelFor(rng, rng.Intn(24))
	c := cfg{Level: l, Override: ov, Store: 1}
	if rng.Chance(1, 3) {
		c.Store = rng.Intn(4)
	}
	if rng.Chance(1, 5) {
		c.Ident = 1
	}
	if rng.Chance(1, 5) {
		c.Rev = 1
	}
	if rng.Chance(1, 3) {
		c.PM = rng.Intn(4)
	}
	return c
}

// laxCfg: the most permissive legal configuration (everything logged or
// skipped) — the one most likely to let a bad envelope through.
func laxCfg(rng *Rng) cfg {
	c := cfg{Level: "audit", Store: 1, PM: 2}
	switch rng.Intn(3) {
	case 0:
		c.Override = map[string]string{"revocation": "skip"}
	case 1:
		c.Override = map[string]string{"revocation": "skip", "expiry": "log", "authenticTimestamp": "log", "authenticity": "log"}
	}
	return c
}

func runC01(a *Args) error {
	rng := NewRng(a.Seed)
	thorough := a.Tier == "thorough"
	prelude := "From NV Require Import Base C01_Model.\nOpen Scope string_scope.\n"
	cw := NewCaseWriter(a, "C01", prelude, "case", "run")
	cw.ShardSize = 1200
	cw.Rule = "JWS and COSE envelopes signed with notation-core-go under ES256/384/512 and PS256/384(/512) keys: fresh; re-assembled member-wise (protected header, unprotected header incl. certificate chain, payload, signature) from two valid envelopes, incl. the same key certified under another root; byte-mutated (one character per JWS member, dropped members, bit flips across COSE, truncations, wrong envelope format); payloads with other content types and non-payload JSON. Each verified by the real verifier.Verify against descriptors differing from the signed target in each subset of {digest,size,mediaType}, by verifier.VerifyBlob with tabulated descriptor generators (right/wrong algorithm, media type stated/empty/different, failure) and by notation.VerifyBlob on blob contents (equal/modified/truncated, digest in payload under right/wrong algorithm, content type stated/empty/different/invalid, failing reader), crossed with required metadata present/missing/differing/partly present and with all 24 non-skip enforcement maps (base level + overrides), trust store / identity / revocation / plugin situations, level skip and illegal overrides. Envelope facts come from notation-core-go (ParseEnvelope, Verify, Content) and encoding/json; the outcome of the rest of processSignature comes from a control run of the real verifier on the envelope's own target. non-trivial = (envelope intact and (presented artifact differs from the signed target or metadata required)) or (envelope not intact but its content readable); distinct = distinct (envelope, kind, configuration, metadata, presented artifact, facts)"
	cw.Assumptions = []string{
		"cryptographic validity (ParseEnvelope/Verify of notation-core-go), json.Unmarshal into the payload struct, go-digest hashing and mime.ParseMediaType are inputs of the model (asked from those libraries by the harness)",
		"the part of processSignature after the integrity block is one input (returns nil or an error; consults store/validators/plugins or not), measured by a control run of the real verifier with the envelope's own target and no required metadata",
		"error classes are recognised by Go type (errors.As), by identity with the Error of the integrity result of the outcome, and by the fixed message prefixes of verifier.go",
		"the policy statement applies to the artifact reference / policy name used (scope selection is another property)",
	}
	kinds := keyKinds[:5]
	if thorough {
		kinds = keyKinds
	}
	w := newWorld(kinds)
	r := &runner{w: w, cw: cw, rng: rng, restMem: map[string][2]bool{}}
	formats := []string{MtJWS, MtCOSE}
	chainNames := []string{"ec256", "ec384", "ec521", "rsa2048", "rsa3072"}
	if thorough {
		chainNames = append(chainNames, "rsa4096")
	}
	hashOf := map[string]int{"ec256": 256, "ec384": 384, "ec521": 512, "rsa2048": 256, "rsa3072": 384, "rsa4096": 512, "ec256twin": 256, "other": 256, "deep": 256}

	// fresh envelopes for the base target, by (format, chain, annotation set, plugin)
	fresh := map[string]*envelope{}
	getFresh := func(format, chain string, ann int, plugin bool) *envelope {
		k := fmt.Sprintf("%s|%s|%d|%v", format, chain, ann, plugin)
		if e, ok := fresh[k]; ok {
			return e
		}
		t := baseTarget
		t.Ann = annSets[ann]
		e := w.sign(format, chain, payloadJSON(t), "", plugin, fmt.Sprintf("fresh(ann=%d)", ann))
		fresh[k] = e
		return e
	}
	mult := 1
	if thorough {
		mult = 4
	}

	// ---- family 1: OCI, fresh envelope x presented descriptor x required metadata x enforcement map ----
	{
		variants := descVariants(baseTarget)
		lv := 0
		for rep := 0; rep < mult; rep++ {
			for _, format := range formats {
				for vi, dv := range variants {
					for mi, md := range mdSets {
						n := 3
						if thorough {
							n = 24
						}
						for j := 0; j < n; j++ {
							if !thorough && (vi+mi+j)%3 != 0 && vi > 5 && mi > 5 {
								continue
							}
							chain := chainNames[(vi+mi+j+rep)%len(chainNames)]
							ann := 2
							if (mi+vi+j)%5 == 0 {
								ann = rng.Intn(3)
							}
							d := dv.T
							c := goodCfg(rng, lv%24)
							lv++
							if rng.Chance(1, 8) {
								c = anyCfg(rng)
							}
							r.run(&kase{Family: "oci-fresh", Env: getFresh(format, chain, ann, false), Kind: "oci", Cfg: c, Md: md, What: dv.What, Desc: &d})
						}
					}
				}
			}
			if thorough {
				break
			}
		}
	}

	// ---- family 2: verifier.VerifyBlob with tabulated descriptor generators ----
	{
		type gv struct {
			What string
			mk   func(t tgt, h int) [3]*tgt
		}
		at := func(h int) int { return map[int]int{256: 0, 384: 1, 512: 2}[h] }
		only := func(i int, d *tgt, other *tgt) [3]*tgt {
			g := [3]*tgt{other, other, other}
			g[i] = d
			return g
		}
		gvs := []gv{
			{"equal", func(t tgt, h int) [3]*tgt {
				d, o := &tgt{MT: t.MT, Dg: t.Dg, Sz: t.Sz}, &tgt{MT: t.MT, Dg: flipHex(t.Dg), Sz: t.Sz}
				return only(at(h), d, o)
			}},
			{"equal", func(t tgt, h int) [3]*tgt { d := &tgt{MT: "", Dg: t.Dg, Sz: t.Sz}; return only(at(h), d, nil) }},
			{"wrong-algorithm-only", func(t tgt, h int) [3]*tgt {
				d, o := &tgt{MT: t.MT, Dg: flipHex(t.Dg), Sz: t.Sz}, &tgt{MT: t.MT, Dg: t.Dg, Sz: t.Sz}
				return only(at(h), d, o)
			}},
			{"generator-fails", func(t tgt, h int) [3]*tgt { o := &tgt{MT: t.MT, Dg: t.Dg, Sz: t.Sz}; return only(at(h), nil, o) }},
			{"digest", func(t tgt, h int) [3]*tgt { d := &tgt{MT: t.MT, Dg: flipHex(t.Dg), Sz: t.Sz}; return [3]*tgt{d, d, d} }},
			{"size", func(t tgt, h int) [3]*tgt { d := &tgt{MT: t.MT, Dg: t.Dg, Sz: t.Sz + 1}; return [3]*tgt{d, d, d} }},
			{"mediatype", func(t tgt, h int) [3]*tgt { d := &tgt{MT: "text/plain", Dg: t.Dg, Sz: t.Sz}; return [3]*tgt{d, d, d} }},
			{"digest+mediatype-empty", func(t tgt, h int) [3]*tgt { d := &tgt{MT: "", Dg: flipHex(t.Dg), Sz: t.Sz}; return [3]*tgt{d, d, d} }},
			{"size+mediatype-empty", func(t tgt, h int) [3]*tgt { d := &tgt{MT: "", Dg: t.Dg, Sz: t.Sz - 1}; return [3]*tgt{d, d, d} }},
			{"all", func(t tgt, h int) [3]*tgt {
				d := &tgt{MT: "text/plain", Dg: flipHex(t.Dg), Sz: 1}
				return [3]*tgt{d, d, d}
			}},
		}
		mds := []map[string]string{nil, {"k1": "v1"}, {"k3": "v3"}, {"k1": "v1", "k3": "v3"}, {"k3": ""}}
		lv := 0
		for rep := 0; rep < mult; rep++ {
			for _, format := range formats {
				for _, chain := range chainNames {
					for gi, g := range gvs {
						for mi, md := range mds {
							if !thorough && (gi+mi)%2 == 1 && mi > 1 {
								continue
							}
							e := getFresh(format, chain, 2, false)
							gen := g.mk(baseTarget, hashOf[chain])
							c := goodCfg(rng, lv%24)
							lv++
							if rng.Chance(1, 8) {
								c = anyCfg(rng)
							}
							r.run(&kase{Family: "blob-generator", Env: e, Kind: "blob", Cfg: c, Md: md, What: g.What, Gen: &gen})
						}
					}
				}
			}
		}
	}

	// ---- family 3: notation.VerifyBlob on blob contents ----
	{
		content := []byte("c01 blob content: the quick brown fox jumps over the lazy dog\n")
		ds := digests(content)
		algIdx := map[int]int{256: 0, 384: 1, 512: 2}
		blobEnv := map[string]*envelope{}
		// payload variants: digest under the key's algorithm or another one, size right or wrong, media type
		getBlobEnv := func(format, chain string, alg int, size int64, mt string, ann int) *envelope {
			k := fmt.Sprintf("%s|%s|%d|%d|%s|%d", format, chain, alg, size, mt, ann)
			if e, ok := blobEnv[k]; ok {
				return e
			}
			t := tgt{MT: mt, Dg: ds[alg], Sz: size, Ann: annSets[ann]}
			e := w.sign(format, chain, payloadJSON(t), "", false, fmt.Sprintf("blob-payload(alg=%d,size=%d,mt=%q,ann=%d)", alg, size, mt, ann))
			blobEnv[k] = e
			return e
		}
		modified := append([]byte(nil), content...)
		modified[10] ^= 0x20
		type bv struct {
			What    string
			content []byte
		}
		contents := []bv{{"equal", content}, {"content-modified", modified}, {"content-appended", append(append([]byte(nil), content...), 'x')},
			{"content-truncated", content[:len(content)-1]}, {"content-empty", nil}}
		cmts := []struct{ what, signed, stated string }{
			{"", "text/plain", "text/plain"}, {"", "text/plain", ""}, {"mediatype", "text/plain", "application/octet-stream"},
			{"", "", ""}, {"mediatype", "", "text/plain"}, {"", "text/plain; charset=utf-8", "text/plain; charset=utf-8"},
			{"mediatype", "text/plain", "text/plain; charset=utf-8"}, {"invalid-mediatype", "text/plain", "text/"},
		}
		mds := []map[string]string{nil, {"k1": "v1"}, {"k3": "v3"}, {"io.cncf.notary.x": "y"}, {"k1": "v1", "io.cncf.notary.x": "y"}}
		lv := 0
		for rep := 0; rep < mult; rep++ {
			for _, format := range formats {
				for ci, chain := range chainNames {
					right := algIdx[hashOf[chain]]
					for bi, b := range contents {
						for ti, cm := range cmts {
							for mi, md := range mds {
								if !thorough && (bi+ti+mi+ci)%4 != 0 && !(bi == 0 && ti < 3 && mi < 3) {
									continue
								}
								what := b.What
								if cm.what != "" {
									if what == "equal" {
										what = cm.what
									} else {
										what += "+" + cm.what
									}
								}
								alg := right
								if (bi+ti+mi+rep)%5 == 4 {
									alg = (right + 1 + rng.Intn(2)) % 3
									if what == "equal" {
										what = "digest-under-other-algorithm"
									}
								}
								e := getBlobEnv(format, chain, alg, int64(len(content)), cm.signed, 1)
								c := goodCfg(rng, lv%24)
								lv++
								if rng.Chance(1, 10) {
									c = anyCfg(rng)
								}
								r.run(&kase{Family: "blob-content", Env: e, Kind: "top", Cfg: c, Md: md, What: what,
									Blob: &blobSpec{What: b.What, MT: cm.stated, content: b.content}})
							}
						}
					}
					// signed size wrong, argument errors, failing reader
					e := getBlobEnv(format, chain, right, int64(len(content))+1, "text/plain", 1)
					r.run(&kase{Family: "blob-content", Env: e, Kind: "top", Cfg: goodCfg(rng, rng.Intn(24)), What: "size", Blob: &blobSpec{What: "equal", MT: "text/plain", content: content}})
					e = getBlobEnv(format, chain, right, int64(len(content)), "text/plain", 1)
					r.run(&kase{Family: "blob-content", Env: e, Kind: "top", Cfg: goodCfg(rng, rng.Intn(24)), What: "reader-fails", Blob: &blobSpec{What: "reader-fails", MT: "text/plain", ReadFail: true, content: content}})
					r.run(&kase{Family: "blob-content", Env: e, Kind: "top", Cfg: goodCfg(rng, rng.Intn(24)), What: "equal", Blob: &blobSpec{What: "signature-empty", MT: "text/plain", SigEmpty: true, content: content}})
					r.run(&kase{Family: "blob-content", Env: e, Kind: "top", Cfg: goodCfg(rng, rng.Intn(24)), What: "equal", Blob: &blobSpec{What: "signature-media-type-invalid", MT: "text/plain", SigMT: "application/json", content: content}})
					r.run(&kase{Family: "blob-content", Env: e, Kind: "top", Cfg: cfg{Level: "skip"}, What: "content-modified", Blob: &blobSpec{What: "content-modified", MT: "text/plain", content: modified}})
				}
			}
		}
	}

	// ---- family 4: payloads that are not Notary payloads ----
	{
		good := payloadJSON(tgt{MT: baseTarget.MT, Dg: baseTarget.Dg, Sz: baseTarget.Sz, Ann: annSets[2]})
		ctypes := []string{"application/json", "application/vnd.cncf.notary.payload.v2+json", "application/vnd.cncf.notary.payload.v1+JSON",
			"application/vnd.cncf.notary.payload.v1+json ", "application/vnd.cncf.notary.payload.v1", "text/plain"}
		bodies := []struct {
			what string
			b    []byte
		}{
			{"not-json", []byte("this is not json")},
			{"empty", []byte{}},
			{"json-null", []byte("null")},
			{"json-array", []byte("[]")},
			{"json-empty-object", []byte("{}")},
			{"target-is-string", []byte(`{"targetArtifact":"sha256:abc"}`)},
			{"size-is-string", []byte(fmt.Sprintf(`{"targetArtifact":{"mediaType":%q,"digest":%q,"size":"528"}}`, baseTarget.MT, baseTarget.Dg))},
			{"key-other-case", []byte(fmt.Sprintf(`{"TargetArtifact":{"mediaType":%q,"digest":%q,"size":528}}`, baseTarget.MT, baseTarget.Dg))},
			{"duplicate-target", []byte(fmt.Sprintf(`{"targetArtifact":{"mediaType":%q,"digest":%q,"size":528},"targetArtifact":{"mediaType":%q,"digest":%q,"size":528}}`, baseTarget.MT, flipHex(baseTarget.Dg), baseTarget.MT, baseTarget.Dg))},
			{"annotations-not-strings", []byte(fmt.Sprintf(`{"targetArtifact":{"mediaType":%q,"digest":%q,"size":528,"annotations":{"k1":1}}}`, baseTarget.MT, baseTarget.Dg))},
			{"truncated-json", good[:len(good)-2]},
			{"trailing-garbage", append(append([]byte(nil), good...), []byte(" x")...)},
			{"extra-fields", []byte(fmt.Sprintf(`{"other":1,"targetArtifact":{"mediaType":%q,"digest":%q,"size":528,"urls":["x"],"annotations":{"k1":"v1"}}}`, baseTarget.MT, baseTarget.Dg))},
		}
		descs := []named{{"equal", tgt{MT: baseTarget.MT, Dg: baseTarget.Dg, Sz: baseTarget.Sz}}, {"zero", tgt{}}, {"digest", tgt{MT: baseTarget.MT, Dg: flipHex(baseTarget.Dg), Sz: baseTarget.Sz}}}
		mds := []map[string]string{nil, {"k1": "v1"}, {"k3": ""}}
		for _, format := range formats {
			sib := getFresh(format, "ec256", 2, false)
			var envs []*envelope
			for _, ct := range ctypes {
				if e, err := w.trySign(format, "ec256", good, ct, false, fmt.Sprintf("content-type %q", ct)); err == nil {
					envs = append(envs, e)
				}
			}
			for _, b := range bodies {
				e, err := w.trySign(format, "ec256", b.b, "", false, "payload "+b.what)
				if err != nil {
					continue
				}
				e.sibling = sib
				envs = append(envs, e)
			}
			for _, e := range envs {
				for di, d := range descs {
					for mi, md := range mds {
						if !thorough && (di+mi)%2 == 1 {
							continue
						}
						dd := d.T
						c := laxCfg(rng)
						if rng.Chance(1, 2) {
							c = goodCfg(rng, rng.Intn(24))
						}
						if rng.Chance(1, 6) {
							c = anyCfg(rng)
						}
						r.run(&kase{Family: "payload-kind", Env: e, Kind: "oci", Cfg: c, Md: md, What: d.What, Desc: &dd})
						if (di+mi)%2 == 0 {
							t := tgt{MT: "", Dg: d.T.Dg, Sz: d.T.Sz}
							gen := [3]*tgt{&t, &t, &t}
							r.run(&kase{Family: "payload-kind", Env: e, Kind: "blob", Cfg: c, Md: md, What: d.What, Gen: &gen})
						}
					}
				}
			}
		}
	}

	// ---- family 5: re-assembled envelopes ----
	{
		other := tgt{MT: baseTarget.MT, Dg: flipHex(baseTarget.Dg), Sz: baseTarget.Sz + 100, Ann: map[string]string{"k1": "other", "k3": "v3"}}
		for _, format := range formats {
			a := getFresh(format, "ec256", 2, false)
			partners := []struct {
				what string
				e    *envelope
			}{
				{"same signer, other target", w.sign(format, "ec256", payloadJSON(other), "", false, "fresh(other target)")},
				{"same signer, same target, signed again", w.sign(format, "ec256", payloadJSON(tgt{MT: baseTarget.MT, Dg: baseTarget.Dg, Sz: baseTarget.Sz, Ann: annSets[2]}), "", false, "fresh(again)")},
				{"other signer, same target", getFresh(format, "other", 2, false)},
				{"other signer, other target", w.sign(format, "other", payloadJSON(other), "", false, "fresh(other signer, other target)")},
				{"same key certified under another root, same target", getFresh(format, "ec256twin", 2, false)},
				{"other algorithm, same target", getFresh(format, "ec384", 2, false)},
				{"rsa signer, same target", getFresh(format, "rsa2048", 2, false)},
				{"same signer, other content type", w.sign(format, "ec256", payloadJSON(tgt{MT: baseTarget.MT, Dg: baseTarget.Dg, Sz: baseTarget.Sz, Ann: annSets[2]}), "application/json", false, "fresh(content type json)")},
				{"same signer, plugin attribute", getFresh(format, "ec256", 2, true)},
			}
			descs := []named{{"equal", tgt{MT: baseTarget.MT, Dg: baseTarget.Dg, Sz: baseTarget.Sz}}, {"equal-to-B", tgt{MT: other.MT, Dg: other.Dg, Sz: other.Sz}}}
			mds := []map[string]string{nil, {"k1": "v1"}, {"k3": "v3"}}
			for _, p := range partners {
				for _, rc := range recipes {
					for dir := 0; dir < 2; dir++ {
						x, y := a, p.e
						if dir == 1 {
							x, y = p.e, a
						}
						eb := reassemble(x, y, rc.From)
						chain := x.Chain
						if rc.From[1] {
							chain = y.Chain
						}
						plugin := x.Plugin
						if rc.From[0] {
							plugin = y.Plugin
						}
						e := newEnvelope(fmt.Sprintf("reassembled(%s; %s; dir=%d)", p.what, rc.Name, dir), format, chain, plugin, eb)
						n := 2
						if thorough {
							n = 6
						}
						for j := 0; j < n; j++ {
							d := descs[j%2].T
							md := mds[(j/2+dir)%3]
							c := laxCfg(rng)
							if j%3 == 2 {
								c = anyCfg(rng)
							}
							kind := "oci"
							var gen *[3]*tgt
							if j%4 == 3 {
								kind = "blob"
								t := tgt{MT: "", Dg: d.Dg, Sz: d.Sz}
								gen = &[3]*tgt{&t, &t, &t}
							}
							what := descs[j%2].What
							r.run(&kase{Family: "reassembled", Env: e, Kind: kind, Cfg: c, Md: md, What: what, Desc: &d, Gen: gen})
						}
					}
				}
			}
		}
	}

	// ---- family 6: byte-mutated envelopes and wrong envelope format ----
	{
		eq := tgt{MT: baseTarget.MT, Dg: baseTarget.Dg, Sz: baseTarget.Sz}
		for _, chain := range []string{"ec256", "rsa2048", "deep"} {
			for _, format := range formats {
				src := getFresh(format, chain, 2, false)
				var muts [][]byte
				var names []string
				if format == MtJWS {
					muts, names = mutateJWS(rng, src.bytes)
					n := 12
					if thorough {
						n = 200
					}
					m2, n2 := mutateBytes(rng, src.bytes, n)
					muts, names = append(muts, m2...), append(names, n2...)
				} else {
					n := 40
					if thorough {
						n = 600
					}
					muts, names = mutateBytes(rng, src.bytes, n)
				}
				muts = append(muts, []byte("garbage"), []byte("{}"), []byte{0xd2, 0x84, 0x40, 0xa0, 0x40, 0x40})
				names = append(names, "garbage", "empty-json-object", "cose-skeleton")
				for i, mb := range muts {
					e := newEnvelope(fmt.Sprintf("mutated(%s of fresh %s)", names[i], chain), format, chain, false, mb)
					c := laxCfg(rng)
					if i%4 == 3 {
						c = anyCfg(rng)
					}
					md := mdSets[(i%3)%2]
					d := eq
					if len(mb) == 0 {
						// notation.VerifyBlob refuses an empty signature; the verifier methods parse it
						r.run(&kase{Family: "mutated", Env: e, Kind: "top", Cfg: c, What: "equal", Blob: &blobSpec{What: "signature-empty", MT: "", SigEmpty: true, content: []byte("x")}})
					}
					r.run(&kase{Family: "mutated", Env: e, Kind: "oci", Cfg: c, Md: md, What: "equal", Desc: &d})
					if i%5 == 0 {
						t := tgt{MT: "", Dg: eq.Dg, Sz: eq.Sz}
						gen := [3]*tgt{&t, &t, &t}
						r.run(&kase{Family: "mutated", Env: e, Kind: "blob", Cfg: c, Md: md, What: "equal", Gen: &gen})
					}
				}
				// the other envelope format announced
				otherFmt := MtCOSE
				if format == MtCOSE {
					otherFmt = MtJWS
				}
				e := newEnvelope("fresh bytes announced as the other format", otherFmt, chain, false, src.bytes)
				d := eq
				r.run(&kase{Family: "mutated", Env: e, Kind: "oci", Cfg: laxCfg(rng), What: "equal", Desc: &d})
				e2 := newEnvelope("fresh bytes announced with an unknown media type", "application/x-unknown", chain, false, src.bytes)
				r.run(&kase{Family: "mutated", Env: e2, Kind: "oci", Cfg: laxCfg(rng), What: "equal", Desc: &d})
			}
		}
	}

	// ---- family 7: configurations: all 24 maps x store/identity/revocation/plugin x mismatch/metadata; skip; illegal overrides ----
	{
		eq := tgt{MT: baseTarget.MT, Dg: baseTarget.Dg, Sz: baseTarget.Sz}
		bad := tgt{MT: baseTarget.MT, Dg: flipHex(baseTarget.Dg), Sz: baseTarget.Sz}
		situations := []cfg{
			{Store: 0}, {Store: 1}, {Store: 2}, {Store: 3}, {Store: 1, Ident: 1}, {Store: 1, Rev: 1},
			{Store: 1, PM: 1}, {Store: 1, PM: 2}, {Store: 1, PM: 3}, {Store: 2, PM: 2, Rev: 1, Ident: 1},
		}
		for idx := 0; idx < 24; idx++ {
			for si, s := range situations {
				if !thorough && (idx+si)%2 == 1 {
					continue
				}
				for j := 0; j < 4; j++ {
					if !thorough && (idx+si+j)%2 == 1 {
						continue
					}
					format := formats[(idx+si+j/2)%2]
					chain := []string{"ec256", "ec256twin", "deep", "ec256"}[(idx+si)%4]
					plugin := s.PM != 0 && (idx+j)%2 == 0
					e := getFresh(format, chain, 2, plugin)
					c := s
					c.Level, c.Override = levelFor(rng, idx)
					d := eq
					what := "equal"
					if j%2 == 1 {
						d, what = bad, "digest"
					}
					var md map[string]string
					if j >= 2 {
						md = map[string]string{"k1": "v1"}
						if (idx+si)%3 == 0 {
							md = map[string]string{"k3": "v3"}
						}
					}
					r.run(&kase{Family: "configuration", Env: e, Kind: "oci", Cfg: c, Md: md, What: what, Desc: &d})
				}
			}
		}
		// level skip and statements that are not legal
		illegal := []cfg{
			{Level: "skip"},
			{Level: "skip", Override: map[string]string{"revocation": "log"}},
			{Level: "strict", Override: map[string]string{"integrity": "log"}},
			{Level: "audit", Override: map[string]string{"integrity": "skip"}},
			{Level: "permissive", Override: map[string]string{"integrity": "enforce"}},
			{Level: "strict", Override: map[string]string{"authenticity": "skip"}},
			{Level: "strict", Override: map[string]string{"expiry": "skip"}},
			{Level: "strict", Override: map[string]string{"revocation": "ignore"}},
			{Level: "strict", Override: map[string]string{"everything": "log"}},
			{Level: "lenient"},
			{Level: ""},
		}
		tampered := newEnvelope("mutated(payload swapped) for skip/illegal levels", MtJWS, "ec256", false,
			reassemble(getFresh(MtJWS, "ec256", 2, false), getFresh(MtJWS, "other", 0, false), [4]bool{false, false, true, false}))
		for _, c := range illegal {
			c.Store = 1
			for j, e := range []*envelope{getFresh(MtJWS, "ec256", 2, false), getFresh(MtCOSE, "ec256", 2, false), tampered} {
				d := eq
				if j == 1 {
					d = bad
				}
				r.run(&kase{Family: "level-skip-or-illegal", Env: e, Kind: "oci", Cfg: c, Md: map[string]string{"k3": "v3"}, What: []string{"equal", "digest", "equal"}[j], Desc: &d})
				t := tgt{MT: "", Dg: d.Dg, Sz: d.Sz}
				gen := [3]*tgt{&t, &t, &t}
				r.run(&kase{Family: "level-skip-or-illegal", Env: e, Kind: "blob", Cfg: c, What: []string{"equal", "digest", "equal"}[j], Gen: &gen})
			}
		}
	}

	eqD := tgt{MT: baseTarget.MT, Dg: baseTarget.Dg, Sz: baseTarget.Sz}
	q := func(s string) string { b, _ := json.Marshal(s); return string(b) }
	mtq, dgq := q(baseTarget.MT), q(baseTarget.Dg)
	// payloads that omit members, spell them unusually, or carry empty values
	type rawPayload struct {
		what string
		body string
	}
	omit := []rawPayload{
		{"target-empty-object", `{"targetArtifact":{}}`},
		{"no-digest", `{"targetArtifact":{"mediaType":` + mtq + `,"size":528}}`},
		{"no-size", `{"targetArtifact":{"mediaType":` + mtq + `,"digest":` + dgq + `}}`},
		{"no-mediatype", `{"targetArtifact":{"digest":` + dgq + `,"size":528}}`},
		{"only-annotations", `{"targetArtifact":{"annotations":{"k9":"v9"}}}`},
		{"size-zero", `{"targetArtifact":{"mediaType":` + mtq + `,"digest":` + dgq + `,"size":0}}`},
		{"mediatype-empty", `{"targetArtifact":{"mediaType":"","digest":` + dgq + `,"size":528}}`},
		{"digest-empty", `{"targetArtifact":{"mediaType":` + mtq + `,"digest":"","size":528}}`},
		{"annotations-null", `{"targetArtifact":{"mediaType":` + mtq + `,"digest":` + dgq + `,"size":528,"annotations":null}}`},
		{"annotations-empty", `{"targetArtifact":{"mediaType":` + mtq + `,"digest":` + dgq + `,"size":528,"annotations":{}}}`},
		{"annotations-other-key", `{"targetArtifact":{"mediaType":` + mtq + `,"digest":` + dgq + `,"size":528,"annotations":{"k5":"v5"}}}`},
		{"annotation-empty-value", `{"targetArtifact":{"mediaType":` + mtq + `,"digest":` + dgq + `,"size":528,"annotations":{"k4":"","k1":""}}}`},
		{"no-target", `{"other":{"mediaType":` + mtq + `,"digest":` + dgq + `,"size":528}}`},
		{"target-null", `{"targetArtifact":null}`},
	}
	syntax := []rawPayload{
		{"keys-other-case", `{"TARGETARTIFACT":{"MediaType":` + mtq + `,"DIGEST":` + dgq + `,"Size":528,"Annotations":{"k1":"v1"}}}`},
		{"key-escaped", `{"\u0074argetArtifact":{"mediaType":` + mtq + `,"digest":` + dgq + `,"size":528}}`},
		{"duplicate-digest-last-bad", `{"targetArtifact":{"mediaType":` + mtq + `,"digest":` + dgq + `,"size":528,"digest":` + q(flipHex(baseTarget.Dg)) + `}}`},
		{"duplicate-digest-last-good", `{"targetArtifact":{"mediaType":` + mtq + `,"digest":` + q(flipHex(baseTarget.Dg)) + `,"size":528,"digest":` + dgq + `}}`},
		{"duplicate-size", `{"targetArtifact":{"size":528,"mediaType":` + mtq + `,"digest":` + dgq + `,"size":529}}`},
		{"duplicate-annotation-key", `{"targetArtifact":{"mediaType":` + mtq + `,"digest":` + dgq + `,"size":528,"annotations":{"k1":"x","k1":"v1"}}}`},
		{"duplicate-annotations-member", `{"targetArtifact":{"mediaType":` + mtq + `,"digest":` + dgq + `,"size":528,"annotations":{"k1":"v1"},"annotations":{"k2":"v2"}}}`},
		{"annotation-key-other-case", `{"targetArtifact":{"mediaType":` + mtq + `,"digest":` + dgq + `,"size":528,"annotations":{"K1":"v1","k2":"V2"}}}`},
		{"annotation-value-spaces", `{"targetArtifact":{"mediaType":` + mtq + `,"digest":` + dgq + `,"size":528,"annotations":{"k1":" v1","k2":"v2 "}}}`},
		{"digest-is-number", `{"targetArtifact":{"mediaType":` + mtq + `,"digest":528,"size":528}}`},
		{"digest-is-array", `{"targetArtifact":{"mediaType":` + mtq + `,"digest":[` + dgq + `],"size":528}}`},
		{"mediatype-is-object", `{"targetArtifact":{"mediaType":{"v":` + mtq + `},"digest":` + dgq + `,"size":528}}`},
		{"size-float", `{"targetArtifact":{"mediaType":` + mtq + `,"digest":` + dgq + `,"size":528.0}}`},
		{"size-exponent", `{"targetArtifact":{"mediaType":` + mtq + `,"digest":` + dgq + `,"size":5.28e2}}`},
		{"size-overflow", `{"targetArtifact":{"mediaType":` + mtq + `,"digest":` + dgq + `,"size":99999999999999999999}}`},
		{"size-negative", `{"targetArtifact":{"mediaType":` + mtq + `,"digest":` + dgq + `,"size":-528}}`},
		{"digest-uppercase-hex", `{"targetArtifact":{"mediaType":` + mtq + `,"digest":` + q("sha256:"+strings.ToUpper(strings.TrimPrefix(baseTarget.Dg, "sha256:"))) + `,"size":528}}`},
		{"mediatype-other-case", `{"targetArtifact":{"mediaType":` + q(strings.ToUpper(baseTarget.MT)) + `,"digest":` + dgq + `,"size":528}}`},
		{"leading-whitespace", " \n\t" + `{"targetArtifact":{"mediaType":` + mtq + `,"digest":` + dgq + `,"size":528}}` + "\n"},
		{"byte-order-mark", "\xef\xbb\xbf" + `{"targetArtifact":{"mediaType":` + mtq + `,"digest":` + dgq + `,"size":528}}`},
		{"annotations-is-array", `{"targetArtifact":{"mediaType":` + mtq + `,"digest":` + dgq + `,"size":528,"annotations":["k1","v1"]}}`},
	}
	rawEnv := map[string]*envelope{}
	getRaw := func(format string, p rawPayload) *envelope {
		k := format + "|" + p.what
		if e, ok := rawEnv[k]; ok {
			return e
		}
		e := w.signRaw(format, "ec256", []byte(p.body), "payload "+p.what)
		e.sibling = getFresh(format, "ec256", 2, false)
		rawEnv[k] = e
		return e
	}
	blobGenOf := func(d tgt) *[3]*tgt {
		t := tgt{MT: d.MT, Dg: d.Dg, Sz: d.Sz}
		return &[3]*tgt{&t, &t, &t}
	}

	// ---- family 8: payloads omitting members / unusual but legal JSON, each on its own ----
	{
		descs := []named{{"equal", eqD}, {"zero", tgt{}}, {"mediatype-empty", tgt{MT: "", Dg: eqD.Dg, Sz: eqD.Sz}}, {"size-zero", tgt{MT: eqD.MT, Dg: eqD.Dg, Sz: 0}}, {"size-negative", tgt{MT: eqD.MT, Dg: eqD.Dg, Sz: -528}}}
		mds := []map[string]string{nil, {}, {"k1": "v1"}, {"k4": ""}, {"k1": ""}, {"k2": "v2"}}
		all := append(append([]rawPayload(nil), omit...), syntax...)
		for _, format := range formats {
			for pi, p := range all {
				e := getRaw(format, p)
				for di, d := range descs {
					for mi, md := range mds {
						if !thorough && (pi+di+mi)%3 != 0 && !(di == 0 && mi == 2) {
							continue
						}
						dd := d.T
						c := goodCfg(rng, rng.Intn(24))
						if (di+mi)%2 == 0 {
							r.run(&kase{Family: "payload-syntax", Env: e, Kind: "oci", Cfg: c, Md: md, What: d.What, Desc: &dd})
						} else {
							what := d.What
							if dd.MT == "" && what == "mediatype-empty" {
								what = "equal"
							}
							r.run(&kase{Family: "payload-syntax", Env: e, Kind: "blob", Cfg: c, Md: md, What: what, Gen: blobGenOf(dd)})
						}
					}
				}
			}
		}
	}

	// ---- family 9: comparisons that must be exact: case, spaces, algorithm prefix; the odd metadata pair at every position ----
	{
		hexpart := strings.TrimPrefix(baseTarget.Dg, "sha256:")
		descs := []named{
			{"digest-uppercase-hex", tgt{MT: eqD.MT, Dg: "sha256:" + strings.ToUpper(hexpart), Sz: eqD.Sz}},
			{"digest-algorithm-uppercase", tgt{MT: eqD.MT, Dg: "SHA256:" + hexpart, Sz: eqD.Sz}},
			{"digest-other-algorithm-same-hex", tgt{MT: eqD.MT, Dg: "sha512:" + hexpart, Sz: eqD.Sz}},
			{"digest-without-algorithm", tgt{MT: eqD.MT, Dg: hexpart, Sz: eqD.Sz}},
			{"digest-trailing-space", tgt{MT: eqD.MT, Dg: eqD.Dg + " ", Sz: eqD.Sz}},
			{"digest-prefix-only", tgt{MT: eqD.MT, Dg: eqD.Dg[:len(eqD.Dg)-1], Sz: eqD.Sz}},
			{"digest-extended", tgt{MT: eqD.MT, Dg: eqD.Dg + "0", Sz: eqD.Sz}},
			{"mediatype-other-case", tgt{MT: strings.ToUpper(eqD.MT), Dg: eqD.Dg, Sz: eqD.Sz}},
			{"mediatype-trailing-space", tgt{MT: eqD.MT + " ", Dg: eqD.Dg, Sz: eqD.Sz}},
			{"mediatype-with-parameter", tgt{MT: eqD.MT + "; charset=utf-8", Dg: eqD.Dg, Sz: eqD.Sz}},
			{"mediatype-prefix-only", tgt{MT: "application/vnd.oci.image.manifest.v1", Dg: eqD.Dg, Sz: eqD.Sz}},
			{"size-zero", tgt{MT: eqD.MT, Dg: eqD.Dg, Sz: 0}},
			{"size-negative", tgt{MT: eqD.MT, Dg: eqD.Dg, Sz: -eqD.Sz}},
			{"size-plus-2^32", tgt{MT: eqD.MT, Dg: eqD.Dg, Sz: eqD.Sz + (1 << 32)}},
		}
		mds := []map[string]string{nil, {"k1": "v1"}}
		for _, format := range formats {
			e := getFresh(format, "ec256", 2, false)
			for _, d := range descs {
				for _, md := range mds {
					dd := d.T
					r.run(&kase{Family: "exact-comparison", Env: e, Kind: "oci", Cfg: goodCfg(rng, rng.Intn(24)), Md: md, What: d.What, Desc: &dd})
					r.run(&kase{Family: "exact-comparison", Env: e, Kind: "blob", Cfg: goodCfg(rng, rng.Intn(24)), Md: md, What: d.What, Gen: blobGenOf(dd)})
				}
			}
			// required metadata that differs from the signed annotations only by case / spaces / emptiness
			mdx := []map[string]string{
				{"k1": "V1"}, {"k1": "v1 "}, {"k1": " v1"}, {"k1 ": "v1"}, {" k1": "v1"}, {"K1": "v1", "k2": "v2"}, {"k1": "v1", "k2": ""},
				{"k1": "v1", "": ""}, {"": "v1"}, {"k1": "v"}, {"k1": "v11"}, {"k": "v1"}, {"k1k2": "v1v2"},
			}
			for _, md := range mdx {
				d := eqD
				r.run(&kase{Family: "exact-comparison", Env: e, Kind: "oci", Cfg: goodCfg(rng, rng.Intn(24)), Md: md, What: "equal", Desc: &d})
				r.run(&kase{Family: "exact-comparison", Env: e, Kind: "blob", Cfg: goodCfg(rng, rng.Intn(24)), Md: md, What: "equal", Gen: blobGenOf(tgt{Dg: eqD.Dg, Sz: eqD.Sz})})
			}
			// annotations a..e signed; five pairs required with the odd one (missing key / other value /
			// empty value) at every position of the sorted keys; repeated because Go iterates maps in random order
			five := tgt{MT: eqD.MT, Dg: eqD.Dg, Sz: eqD.Sz, Ann: map[string]string{"a": "1", "b": "2", "c": "3", "d": "4", "e": "5"}}
			e5 := w.sign(format, "ec256", payloadJSON(five), "", false, "fresh(five annotations)")
			keys := []string{"a", "b", "c", "d", "e"}
			reps := 3
			if thorough {
				reps = 12
			}
			for pos := range keys {
				for odd := 0; odd < 3; odd++ {
					for rep := 0; rep < reps; rep++ {
						md := map[string]string{}
						for i, k := range keys {
							md[k] = fmt.Sprint(i + 1)
						}
						switch odd {
						case 0:
							delete(md, keys[pos])
							md[keys[pos]+"x"] = fmt.Sprint(pos + 1)
						case 1:
							md[keys[pos]] = "9"
						case 2:
							md[keys[pos]] = ""
						}
						d := eqD
						if rep%2 == 0 {
							r.run(&kase{Family: "metadata-position", Env: e5, Kind: "oci", Cfg: goodCfg(rng, rng.Intn(24)), Md: md, What: "equal", Desc: &d})
						} else {
							r.run(&kase{Family: "metadata-position", Env: e5, Kind: "blob", Cfg: goodCfg(rng, rng.Intn(24)), Md: md, What: "equal", Gen: blobGenOf(tgt{Dg: eqD.Dg, Sz: eqD.Sz})})
						}
					}
				}
			}
			all5 := map[string]string{"a": "1", "b": "2", "c": "3", "d": "4", "e": "5"}
			d := eqD
			r.run(&kase{Family: "metadata-position", Env: e5, Kind: "oci", Cfg: goodCfg(rng, rng.Intn(24)), Md: all5, What: "equal", Desc: &d})
		}
	}

	// ---- family 10: histories on ONE long-lived verifier ----
	{
		content := []byte("c01 history blob: pack my box with five dozen liquor jugs\n")
		modified := append([]byte(nil), content...)
		modified[4] ^= 0x01
		ds := digests(content)
		step := func(e *envelope, kind string, what string, d tgt, md map[string]string) *kase {
			k := &kase{Env: e, Kind: kind, Md: md, What: what}
			switch kind {
			case "oci":
				dd := d
				k.Desc = &dd
			case "blob":
				k.Gen = blobGenOf(tgt{MT: "", Dg: d.Dg, Sz: d.Sz})
			}
			return k
		}
		badD := tgt{MT: eqD.MT, Dg: flipHex(eqD.Dg), Sz: eqD.Sz}
		hi := 0
		for _, format := range formats {
			A := getFresh(format, "ec256", 2, false)  // annotations k1=v1, k2=v2
			A1 := getFresh(format, "ec256", 1, false) // annotation k1=v1
			B := getFresh(format, "ec256", 0, false)  // no annotations
			otherT := tgt{MT: eqD.MT, Dg: flipHex(eqD.Dg), Sz: eqD.Sz + 100, Ann: map[string]string{"k1": "other", "k3": "v3"}}
			O := w.sign(format, "ec256", payloadJSON(otherT), "", false, "fresh(other target, k1=other, k3=v3)")
			otherD := tgt{MT: otherT.MT, Dg: otherT.Dg, Sz: otherT.Sz}
			X := getFresh(format, "other", 2, false) // a signer the store (rootA only) does not know
			T := newEnvelope("reassembled(payload of other target into A)", format, "ec256", false, reassemble(A, O, [4]bool{false, false, true, false}))
			CT := w.sign(format, "ec256", payloadJSON(tgt{MT: eqD.MT, Dg: eqD.Dg, Sz: eqD.Sz, Ann: annSets[2]}), "application/json", false, "fresh(content type json)")
			blobT := tgt{MT: "text/plain", Dg: ds[0], Sz: int64(len(content)), Ann: annSets[1]}
			BL := w.sign(format, "ec256", payloadJSON(blobT), "", false, "fresh(blob payload)")
			blobT0 := tgt{MT: "text/plain", Dg: ds[0], Sz: int64(len(content))}
			BL0 := w.sign(format, "ec256", payloadJSON(blobT0), "", false, "fresh(blob payload, no annotations)")
			top := func(e *envelope, what string, c []byte, mt string, md map[string]string) *kase {
				bw := "equal"
				if what != "equal" {
					bw = what
				}
				return &kase{Env: e, Kind: "top", Md: md, What: what, Blob: &blobSpec{What: bw, MT: mt, content: c}}
			}
			k1 := map[string]string{"k1": "v1"}
			k12 := map[string]string{"k1": "v1", "k2": "v2"}
			k3 := map[string]string{"k3": "v3"}
			for _, kind := range []string{"oci", "blob"} {
				other := map[string]string{"oci": "blob", "blob": "oci"}[kind]
				nextCfg := func() cfg { hi++; return goodCfg(rng, hi%24) }
				// an annotation of an earlier signature must not satisfy a later requirement
				r.history("annotation-leftover/"+kind, nextCfg(), []*kase{
					step(A, kind, "equal", eqD, k12), step(B, kind, "equal", eqD, k1), step(A, kind, "equal", eqD, k1),
					step(B, kind, "equal", eqD, nil), step(A1, kind, "equal", eqD, k12), step(B, kind, "equal", eqD, k12)})
				r.history("annotation-leftover-after-failure/"+kind, nextCfg(), []*kase{
					step(A, kind, "digest", badD, k1), step(B, kind, "equal", eqD, k1),
					step(O, kind, "equal", otherD, k3), step(A, kind, "equal", eqD, k3), step(B, kind, "equal", eqD, k3)})
				r.history("annotation-leftover-across-entry-points/"+kind, nextCfg(), []*kase{
					step(A, kind, "equal", eqD, k1), step(B, other, "equal", eqD, k1), step(A, other, "equal", eqD, nil), step(B, kind, "equal", eqD, k12)})
				// members of an earlier payload must not fill in members a later payload omits
				for oi, p := range omit {
					if !thorough && kind == "blob" && oi%2 == 1 {
						continue
					}
					e := getRaw(format, p)
					r.history("member-leftover/"+p.what+"/"+kind, nextCfg(), []*kase{
						step(A, kind, "equal", eqD, nil), step(e, kind, "equal", eqD, nil), step(A, kind, "equal", eqD, k1), step(e, kind, "equal", eqD, k1)})
				}
				// the verdict follows the presented descriptor and the required metadata, call by call
				r.history("verdict-flips/"+kind, nextCfg(), []*kase{
					step(A, kind, "equal", eqD, nil), step(A, kind, "digest", badD, nil), step(A, kind, "equal", eqD, nil),
					step(A, kind, "equal", eqD, k3), step(A, kind, "equal", eqD, k1), step(A, kind, "size+1", tgt{MT: eqD.MT, Dg: eqD.Dg, Sz: eqD.Sz + 1}, k1),
					step(A, kind, "equal", eqD, k12)})
				r.history("fail-then-pass/"+kind, nextCfg(), []*kase{
					step(A, kind, "digest", badD, nil), step(A, kind, "equal", eqD, nil), step(O, kind, "equal-to-A", eqD, nil), step(O, kind, "equal", otherD, nil), step(A, kind, "equal-to-O", otherD, nil)})
				// a tampered or foreign envelope after a good one for the same descriptor, and back
				r.history("tampered-after-good/"+kind, nextCfg(), []*kase{
					step(A, kind, "equal", eqD, nil), step(T, kind, "equal", eqD, nil), step(T, kind, "equal-to-payload", otherD, nil),
					step(A, kind, "equal", eqD, nil), step(CT, kind, "equal", eqD, nil), step(A, kind, "equal", eqD, k1)})
				strictA := cfg{Level: "strict", Store: 0}
				r.history("untrusted-after-trusted/"+kind, strictA, []*kase{
					step(A, kind, "equal", eqD, nil), step(X, kind, "equal", eqD, nil), step(A, kind, "equal", eqD, nil), step(X, kind, "equal", eqD, k1)})
			}
			// ONE required-metadata map object used for several calls: the library must not edit it
			A2 := w.sign(format, "ec256", payloadJSON(tgt{MT: eqD.MT, Dg: eqD.Dg, Sz: eqD.Sz, Ann: map[string]string{"k2": "v2"}}), "", false, "fresh(annotation k2 only)")
			OM := w.sign(format, "ec256", payloadJSON(tgt{MT: eqD.MT, Dg: flipHex(eqD.Dg), Sz: eqD.Sz + 100, Ann: annSets[2]}), "", false, "fresh(other target, k1=v1, k2=v2)")
			omD := tgt{MT: eqD.MT, Dg: flipHex(eqD.Dg), Sz: eqD.Sz + 100}
			sh := func(obj map[string]string, ks ...*kase) []*kase {
				for _, k := range ks {
					k.Md = copyMap(obj)
					k.mdObj = obj
				}
				return ks
			}
			for _, kind := range []string{"oci", "blob"} {
				nextCfg := func() cfg { hi++; return goodCfg(rng, hi%24) }
				r.history("shared-metadata-map/carried-then-lacking/"+kind, nextCfg(), sh(map[string]string{"k1": "v1"},
					step(A, kind, "equal", eqD, nil), step(B, kind, "equal", eqD, nil), step(A1, kind, "equal", eqD, nil), step(A2, kind, "equal", eqD, nil)))
				r.history("shared-metadata-map/two-pairs-carried-then-lacking/"+kind, nextCfg(), sh(map[string]string{"k1": "v1", "k2": "v2"},
					step(A, kind, "equal", eqD, nil), step(B, kind, "equal", eqD, nil), step(A, kind, "equal", eqD, nil)))
				r.history("shared-metadata-map/partial-k1-then-k2/"+kind, nextCfg(), sh(map[string]string{"k1": "v1", "k2": "v2"},
					step(A1, kind, "equal", eqD, nil), step(A2, kind, "equal", eqD, nil), step(B, kind, "equal", eqD, nil), step(A, kind, "equal", eqD, nil)))
				r.history("shared-metadata-map/partial-k2-then-k1/"+kind, nextCfg(), sh(map[string]string{"k1": "v1", "k2": "v2"},
					step(A2, kind, "equal", eqD, nil), step(A1, kind, "equal", eqD, nil), step(B, kind, "equal", eqD, nil)))
				r.history("shared-metadata-map/other-artifact-then-lacking/"+kind, nextCfg(), sh(map[string]string{"k1": "v1"},
					step(OM, kind, "equal-to-A", eqD, nil), step(B, kind, "equal", eqD, nil), step(OM, kind, "equal", omD, nil), step(B, kind, "equal", eqD, nil)))
				r.history("shared-metadata-map/failing-then-lacking/"+kind, nextCfg(), sh(map[string]string{"k1": "v1", "k3": "v3"},
					step(A, kind, "equal", eqD, nil), step(O, kind, "equal", otherD, nil), step(B, kind, "equal", eqD, nil)))
			}
			hi++
			r.history("shared-metadata-map/blob-content", goodCfg(rng, hi%24), sh(map[string]string{"k1": "v1"},
				top(BL, "equal", content, "text/plain", nil), top(BL0, "equal", content, "text/plain", nil), top(BL, "equal", content, "", nil), top(BL0, "equal", content, "", nil)))
			// one notation.Verify call over a repository listing several signatures
			lists := []struct {
				name string
				envs []*envelope
				md   map[string]string
			}{
				{"other-artifact-with-metadata, this-artifact-without", []*envelope{OM, B}, k1},
				{"this-artifact-without, other-artifact-with-metadata", []*envelope{B, OM}, k1},
				{"other-artifact-with-metadata, this-artifact-without (two pairs)", []*envelope{OM, B}, k12},
				{"k1-only, k2-only", []*envelope{A1, A2}, k12},
				{"k2-only, k1-only", []*envelope{A2, A1}, k12},
				{"k1-only, k2-only, without", []*envelope{A1, A2, B}, k12},
				{"other-artifact-with-metadata, k1-only, without, both", []*envelope{OM, A1, B, A}, k12},
				{"other-artifact-with-metadata, without, both", []*envelope{OM, B, A}, k1},
				{"tampered, other-artifact, without", []*envelope{T, O, B}, k3},
				{"other-artifact-with-k3, without, both", []*envelope{O, B, A}, k3},
				{"without, both (no metadata required)", []*envelope{OM, B, A}, nil},
				{"both, without", []*envelope{A, B}, k1},
				{"wrong-content-type, k1-only, without", []*envelope{CT, A1, B}, k12},
			}
			for _, l := range lists {
				hi++
				r.listing(l.name, goodCfg(rng, hi%24), l.envs, l.md)
			}
			// the same statement NAME in two namespaces (OCI document / blob document) or two OCI
			// statements, with different levels, identities or overrides; entry points alternate
			{
				strict := cfg{Level: "strict", Store: 1}
				skip := cfg{Level: "skip", Store: 1}
				lax := cfg{Level: "audit", Override: map[string]string{"revocation": "skip"}, Store: 1}
				nobody := cfg{Level: "strict", Store: 1, Ident: 1}
				permNobody := cfg{Level: "permissive", Override: map[string]string{"authenticity": "log"}, Store: 1, Ident: 1}
				pairs := []struct {
					name string
					a, b cfg
				}{
					{"strict|skip", strict, skip}, {"skip|strict", skip, strict}, {"audit-revocation-skipped|strict", lax, strict},
					{"strict|identity-nobody", strict, nobody}, {"identity-nobody|strict", nobody, strict},
					{"identity-nobody-logged|identity-nobody", permNobody, nobody}, {"skip|identity-nobody", skip, nobody},
				}
				inputs := []struct {
					name string
					e    *envelope
					d    tgt
					md   map[string]string
					what string
				}{
					{"tampered", T, eqD, nil, "equal"},
					{"lacks-required-metadata", B, eqD, k1, "equal"},
					{"other-artifact", A, badD, nil, "digest"},
					{"good", A, eqD, k1, "equal"},
				}
				patterns := [][]int{{0, 1}, {1, 0}, {0, 1, 0}, {1, 0, 1}}
				for pi, p := range pairs {
					for ii, in := range inputs {
						for qi, pat := range patterns {
							if !thorough && (pi+ii+qi)%2 == 1 && ii != 0 {
								continue
							}
							// namespaces: 0 = Verify under OCI statement "p", 1 = VerifyBlob under blob statement "p"
							var ns, two []*kase
							for _, side := range pat {
								ns = append(ns, step(in.e, []string{"oci", "blob"}[side], in.what, in.d, in.md))
								k := step(in.e, "oci", in.what, in.d, in.md)
								if side == 1 {
									k.Ref = secondRef
								}
								two = append(two, k)
							}
							tag := fmt.Sprintf("%s/%s/%v", p.name, in.name, pat)
							pb := p.b
							r.historyNS("same-name-oci-and-blob/"+tag, []cfg{p.a}, &pb, ns)
							if qi%2 == ii%2 {
								r.historyNS("two-oci-statements/"+tag, []cfg{p.a, p.b}, nil, two)
							}
						}
					}
				}
			}
			// notation.VerifyBlob: the blob decides, call by call
			hi++
			r.history("blob-content-flips", goodCfg(rng, hi%24), []*kase{
				top(BL, "equal", content, "text/plain", nil), top(BL, "content-modified", modified, "text/plain", nil), top(BL, "equal", content, "", k1),
				top(BL0, "equal", content, "text/plain", k1), top(BL, "mediatype", content, "application/json", nil), top(BL, "equal", content, "text/plain", k1),
				top(BL0, "content-truncated", content[:10], "", nil), top(BL0, "equal", content, "", nil)})
		}
	}
	// ---- family 11: concurrent use of ONE verifier (child process) ----
	runConcurrency(a, r)

	// ---- family 12: ONE notation.Verify call as ONE case (model: notation_verify) ----
	{
		k1 := map[string]string{"k1": "v1"}
		k12 := map[string]string{"k1": "v1", "k2": "v2"}
		k3 := map[string]string{"k3": "v3"}
		hi := 0
		for _, format := range formats {
			A := getFresh(format, "ec256", 2, false)   // annotations k1=v1, k2=v2
			A1 := getFresh(format, "ec384", 1, false)  // annotation k1=v1
			B := getFresh(format, "rsa2048", 0, false) // no annotations
			X := getFresh(format, "other", 2, false)   // a signer only rootB knows
			OM := w.sign(format, "ec256", payloadJSON(tgt{MT: eqD.MT, Dg: flipHex(eqD.Dg), Sz: eqD.Sz + 100, Ann: annSets[2]}), "", false, "fresh(other target, k1=v1, k2=v2)")
			SZ := w.sign(format, "ec256", payloadJSON(tgt{MT: eqD.MT, Dg: eqD.Dg, Sz: eqD.Sz + 1, Ann: annSets[2]}), "", false, "fresh(size+1, k1=v1, k2=v2)")
			MT := w.sign(format, "ec256", payloadJSON(tgt{MT: "application/vnd.oci.image.index.v1+json", Dg: eqD.Dg, Sz: eqD.Sz, Ann: annSets[2]}), "", false, "fresh(other media type, k1=v1, k2=v2)")
			T := newEnvelope("reassembled(payload of A into other-target envelope)", format, "ec256", false, reassemble(OM, A, [4]bool{false, false, true, false}))
			CT := w.sign(format, "ec256", payloadJSON(tgt{MT: eqD.MT, Dg: eqD.Dg, Sz: eqD.Sz, Ann: annSets[2]}), "application/json", false, "fresh(content type json)")
			NJ := getRaw(format, omit[13]) // target-null: intact, payload decodes to the zero target
			G := []byte("garbage")
			GB := newEnvelope("mutated(garbage)", format, "ec256", false, G)
			L := func(name string, e *envelope) listed { return listed{Name: name, e: e} }
			lA, lA1, lB, lX, lOM, lSZ, lMT, lT, lCT, lNJ, lGB := L("good(k1,k2)", A), L("good(k1)", A1), L("good(no metadata)", B), L("other-signer", X),
				L("other-artifact(k1,k2)", OM), L("size+1(k1,k2)", SZ), L("other-media-type(k1,k2)", MT), L("tampered", T), L("wrong-content-type", CT), L("target-null", NJ), L("garbage", GB)
			ff := func(l listed) listed { l.FetchFail = true; l.Name += " [fetch fails]"; return l }
			bad := []listed{lOM, lT, lSZ, lMT, lCT, lNJ, lGB, lB}
			nextCfg := func() cfg { hi++; return goodCfg(rng, (hi*5)%24) }
			one := func(ls ...listed) [][]listed { return [][]listed{ls} }
			each := func(ls ...listed) [][]listed {
				var out [][]listed
				for _, l := range ls {
					out = append(out, []listed{l})
				}
				return out
			}
			// the accepted signature at every position among five, rejected ones around it; one page / one per page / split
			for pos := 0; pos < 5; pos++ {
				for shape := 0; shape < 3; shape++ {
					if !thorough && (pos+shape)%2 == 1 && pos != 4 {
						continue
					}
					var ls []listed
					for j := 0; j < 5; j++ {
						if j == pos {
							ls = append(ls, lA)
						} else {
							ls = append(ls, bad[(j+pos+shape)%len(bad)])
						}
					}
					pages := one(ls...)
					switch shape {
					case 1:
						pages = each(ls...)
					case 2:
						pages = [][]listed{ls[:2], {}, ls[2:]}
					}
					name := fmt.Sprintf("good at %d of 5, shape %d", pos, shape)
					r.registryCall(name, nextCfg(), k1, 50, "", TestRef, pages)
					// the limit just reaches / just misses the good signature
					r.registryCall(name+", limit reaches it", nextCfg(), k12, pos+1, "", TestRef, pages)
					if pos > 0 {
						r.registryCall(name+", limit misses it", nextCfg(), k1, pos, "", TestRef, pages)
					}
				}
			}
			// nothing acceptable: parts of the requirement spread over several signatures
			r.registryCall("artifact and metadata on different signatures", nextCfg(), k1, 50, "", TestRef, one(lOM, lB))
			r.registryCall("k1 and k2 on different signatures", nextCfg(), k12, 50, "", TestRef, one(lA1, L("good(k2)", w.sign(format, "ec256", payloadJSON(tgt{MT: eqD.MT, Dg: eqD.Dg, Sz: eqD.Sz, Ann: map[string]string{"k2": "v2"}}), "", false, "fresh(annotation k2 only)")), lB))
			r.registryCall("digest, size, media type each right on two of three", nextCfg(), nil, 50, "", TestRef, each(lOM, lSZ, lMT))
			r.registryCall("all bad", nextCfg(), k3, 50, "", TestRef, [][]listed{bad[:4], bad[4:]})
			r.registryCall("all bad, limit equals their number", nextCfg(), nil, len(bad)-1, "", TestRef, one(bad[:len(bad)-1]...))
			r.registryCall("good without metadata requirement after bad ones", nextCfg(), nil, 50, "", TestRef, one(lT, lOM, lB, lA))
			r.registryCall("empty metadata map", nextCfg(), map[string]string{}, 50, "", TestRef, one(lOM, lB))
			// nothing listed; empty pages
			r.registryCall("nothing listed", nextCfg(), k1, 50, "", TestRef, nil)
			r.registryCall("only empty pages", nextCfg(), nil, 3, "", TestRef, [][]listed{{}, {}})
			// fetch failures before / after / instead of the good signature
			r.registryCall("fetch fails before good", nextCfg(), k1, 50, "", TestRef, one(lOM, ff(lB), lA))
			r.registryCall("fetch fails after good", nextCfg(), k1, 50, "", TestRef, one(lOM, lA, ff(lB)))
			r.registryCall("good cannot be fetched", nextCfg(), k1, 50, "", TestRef, each(lOM, ff(lA), lB))
			r.registryCall("fetch fails first", nextCfg(), nil, 50, "", TestRef, one(ff(lA), lA))
			r.registryCall("fetch failure beyond the limit", nextCfg(), nil, 2, "", TestRef, one(lOM, lT, ff(lA)))
			// limits
			r.registryCall("limit zero", nextCfg(), nil, 0, "", TestRef, one(lA))
			r.registryCall("limit negative", nextCfg(), k1, -1, "", TestRef, one(lA))
			r.registryCall("limit one, good first", nextCfg(), k1, 1, "", TestRef, one(lA, lOM))
			r.registryCall("limit one, good second", nextCfg(), k1, 1, "", TestRef, one(lOM, lA))
			r.registryCall("limit equals page length, good on next page", nextCfg(), k1, 2, "", TestRef, [][]listed{{lOM, lT}, {lA}})
			// resolution
			r.registryCall("resolve fails", nextCfg(), nil, 50, "error", TestRef, one(lA))
			r.registryCall("resolved digest differs from the digest reference", nextCfg(), nil, 50, "other-digest", TestRef, one(lA))
			// trust store / identity / revocation / plugin situations; skip; illegal statement
			r.registryCall("signer the store does not know, then good", cfg{Level: "strict", Store: 0}, k1, 50, "", TestRef, one(lX, lOM, lA))
			r.registryCall("only a signer the store does not know", cfg{Level: "strict", Store: 0}, nil, 50, "", TestRef, one(lX))
			r.registryCall("untrusted signer logged, other artifact", cfg{Level: "audit", Store: 0}, nil, 50, "", TestRef, one(lOM, lX))
			r.registryCall("identity nobody has", cfg{Level: "permissive", Store: 1, Ident: 1}, nil, 50, "", TestRef, one(lA, lB))
			r.registryCall("empty store, audit", cfg{Level: "audit", Override: map[string]string{"revocation": "skip"}, Store: 2, PM: 2}, k1, 50, "", TestRef, one(lT, lOM, lB, lA))
			r.registryCall("skip level", cfg{Level: "skip", Store: 1}, k3, 50, "", TestRef, one(lT, lOM))
			r.registryCall("skip level, nothing listed, resolve fails", cfg{Level: "skip", Store: 1}, nil, 1, "error", TestRef, nil)
			r.registryCall("skip level, limit zero", cfg{Level: "skip", Store: 1}, nil, 0, "", TestRef, one(lA))
			r.registryCall("illegal statement", cfg{Level: "strict", Override: map[string]string{"integrity": "log"}, Store: 1}, nil, 50, "", TestRef, one(lA))
			// the rest of processSignature fails before anything is consulted (plugin attribute, no plugin manager)
			{
				pe := getFresh(format, "ec256", 2, true)
				d1, d2 := eqD, tgt{MT: eqD.MT, Dg: flipHex(eqD.Dg), Sz: eqD.Sz}
				r.run(&kase{Family: "configuration", Env: pe, Kind: "oci", Cfg: cfg{Level: "strict", Store: 1, PM: 0}, Md: k1, What: "equal", Desc: &d1})
				r.run(&kase{Family: "configuration", Env: pe, Kind: "oci", Cfg: cfg{Level: "audit", Store: 1, PM: 0}, What: "digest", Desc: &d2})
				r.run(&kase{Family: "configuration", Env: pe, Kind: "blob", Cfg: cfg{Level: "permissive", Store: 1, PM: 0}, Md: k3, What: "equal", Gen: blobGenOf(tgt{Dg: eqD.Dg, Sz: eqD.Sz})})
			}
			r.registryCall("illegal statement: skip with override", cfg{Level: "skip", Override: map[string]string{"revocation": "log"}, Store: 1}, nil, 50, "", TestRef, one(lA))
		}
	}

	// ---- family 13: notation.VerifyBlob through readers of every shape the io.Reader contract allows (reader.go) ----
	{
		k1 := map[string]string{"k1": "v1"}
		sizes := []int{1, 62, 4097, 32768, 32769, 49185, 65536}
		chainOf := map[string]string{MtJWS: "ec256", MtCOSE: "ec384"}
		algIdx := map[int]int{256: 0, 384: 1, 512: 2}
		lv := 0
		for zi, n := range sizes {
			blob := blobOfSize(n)
			variants := signedVariants(blob)
			envs := map[string]*envelope{}
			for si, shape := range readerShapes {
				fails := shapeFails(shape, blob)
				for vi, sv := range variants {
					for fi, format := range formats {
						if !thorough && (zi+si+vi+fi)%2 == 1 {
							continue
						}
						ek := fmt.Sprintf("%s|%d", format, vi)
						e := envs[ek]
						if e == nil {
							chain := chainOf[format]
							t := tgt{MT: "text/plain", Dg: digests(sv.content)[algIdx[hashOf[chain]]], Sz: int64(len(sv.content)), Ann: annSets[1]}
							e = w.sign(format, chain, payloadJSON(t), "", false, fmt.Sprintf("blob-payload(%s of the %d byte blob)", sv.what, n))
							envs[ek] = e
						}
						what := "equal"
						switch {
						case fails:
							what = "reader-fails"
						case vi != 0:
							what = "signed-for-" + sv.what
						}
						var md map[string]string
						if (si+vi)%3 == 0 {
							md = k1
						}
						mt := "text/plain"
						if (si+zi)%4 == 3 {
							mt = ""
						}
						lv++
						r.run(&kase{Family: "blob-reader", Env: e, Kind: "top", Cfg: goodCfg(rng, lv%24), Md: md, What: what,
							Blob: &blobSpec{What: what, MT: mt, ReadFail: fails, Shape: shape, SignedFor: sv.what, content: blob}})
					}
				}
			}
		}
	}

	cw.Set("skipped_no_control_run", r.skipped)
	cw.Set("envelopes", envCounter)
	return cw.Close()
}
