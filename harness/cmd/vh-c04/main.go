package main

// C04 driver: identity pinning. Two levels of correspondence with C04_Model:
//   bridge level  pkix.ParseDistinguishedName / pkix.IsSubsetDN (through
//                 verifbridge) on generated names, renderings of abstract DNs
//                 and pairs of maps;
//   API level     verifier.NewVerifierWithOptions + Verify on real envelopes
//                 whose certificates carry generated subjects, under policies
//                 with generated trusted identities.

import (
	"fmt"
	"sort"
	"strconv"
	"strings"
	"unicode/utf8"

	. "vh/kit"

	"github.com/notaryproject/notation-go/verifbridge"
)

func main() { Main("c04", runC04) }

type c04Case struct {
	Family string `json:"family"`
	// parse / render
	Name  string   `json:"name,omitempty"`
	Edit  string   `json:"edit,omitempty"`
	DN    []attr   `json:"abstract_dn,omitempty"`
	Style []aStyle `json:"style,omitempty"`
	// subset
	A map[string]string `json:"a,omitempty"`
	B map[string]string `json:"b,omitempty"`
	// verify
	Late       bool     `json:"identities_set_after_construction,omitempty"`
	Log        bool     `json:"level_audit,omitempty"`
	Identities []string `json:"trusted_identities,omitempty"`
	Chain      []string `json:"chain_subjects,omitempty"`
	Kind       string   `json:"kind,omitempty"`
	Plugin     string   `json:"verification_plugin,omitempty"`
	History    string   `json:"history,omitempty"`
	// observation
	Obs string `json:"obs"`
}

// asciiize keeps a text that is valid UTF-8 (the input contract of the model)
// and hex-escapes the bytes >= 0x80 of any other text.
func asciiize(s string) string {
	if utf8.ValidString(s) {
		return s
	}
	var sb strings.Builder
	for i := 0; i < len(s); i++ {
		if s[i] >= 128 {
			sb.WriteString(hexEscape(false, s[i]))
		} else {
			sb.WriteByte(s[i])
		}
	}
	return sb.String()
}

// classifyDNErr maps an error of pkix.ParseDistinguishedName to the Coq
// constructor of dnerr, by the fixed parts of its message.
func classifyDNErr(msg string) (string, string) {
	switch {
	case strings.HasPrefix(msg, "unsupported distinguished name (DN) "):
		return "EHash", "EHash"
	case strings.HasPrefix(msg, "parsing distinguished name (DN) "):
		return "ESyntax", "ESyntax"
	case strings.HasPrefix(msg, "distinguished name (DN) "):
		rest := msg[len("distinguished name (DN) "):]
		q, err := strconv.QuotedPrefix(rest)
		if err != nil {
			break
		}
		rest = rest[len(q):]
		key := func(prefix string) (string, bool) {
			if !strings.HasPrefix(rest, prefix) {
				return "", false
			}
			kq, err := strconv.QuotedPrefix(rest[len(prefix):])
			if err != nil {
				return "", false
			}
			k, err := strconv.Unquote(kq)
			return k, err == nil
		}
		if strings.HasPrefix(rest, " has multi-valued RDN attributes") {
			return "EMulti", "EMulti"
		}
		if k, ok := key(" has duplicate RDN attribute for "); ok {
			return CApp("EDup", CStr(k)), "EDup:" + k
		}
		if k, ok := key(" has no mandatory RDN attribute for "); ok {
			return CApp("EMissing", CStr(k)), "EMissing:" + k
		}
	}
	// unknown message: a term that matches no model output
	return CApp("EDup", CStr("<unclassified: "+Short(msg, 60)+">")), "unclassified"
}

func parseObs(name string) (term, label string, ok bool, m map[string]string) {
	m, err := verifbridge.ParseDistinguishedName(name)
	if err != nil {
		t, l := classifyDNErr(err.Error())
		return CApp("OParse", CApp("DErr", t)), l, false, nil
	}
	return CApp("OParse", CApp("DOk", CMap(m))), "ok", true, m
}

func mapKey(m map[string]string) string {
	keys := make([]string, 0, len(m))
	for k := range m {
		keys = append(keys, k)
	}
	sort.Strings(keys)
	var sb strings.Builder
	for _, k := range keys {
		fmt.Fprintf(&sb, "%q=%q,", k, m[k])
	}
	return sb.String()
}

func runC04(a *Args) error {
	rng := NewRng(a.Seed)
	prelude := "From NV Require Import Base C04_DN C04_Model.\nOpen Scope string_scope.\n"
	w := NewCaseWriter(a, "C04", prelude, "case", "run")
	w.Rule = "bridge level: (parse) names rendered from abstract DNs over {C,ST,S,O,OU,CN,L,STREET,DC,OIDs,...} with free spacing/escaping/alias and one edit operator per parser rule (26 operators) plus a malformed token stream; (render) well-formed abstract DNs x permutations x random styles rendered by the renderer of the round-trip theorem; (subset) pairs of maps: equal, strict subset, superset, empty value vs absent key, one-character / case / space near misses. API level: real envelopes (JWS, COSE) signed by chains of 1-3 certificates whose RawSubject is a generated RDN sequence (order, multi-valued, duplicate and unknown attributes, special characters), under one-statement policies whose trusted identities are permutations, subsets, supersets, near misses, alias/space/escape variants of the leaf subject, the subject of an intermediate or root, unknown prefixes, prefixes that extend / truncate / pad x509.subject in front of a matching value, malformed identities and wildcards; identities are given at construction (validated by NewVerifier) or placed in the document afterwards; per chain additionally 12 of 67 systematic list shapes (rotating) of 1-4 identities: foreign-prefix identities at every position (first, middle, last, one or several) mixed with matching / non-matching / near-miss / CA-subject x509.subject identities, identities with an empty-valued attribute written first / in the middle / last, duplicated identities, invalid identities at every position; histories on ONE verifier holding an OCI document with two statements (p, q; different scopes) and a blob document with one statement named p / q / bp: identities of the statements same / disjoint / subset / superset / wildcard / near miss relative to each other, sequences Verify->VerifyBlob, VerifyBlob->Verify, V->VB->V, VB->V->VB, alternating OCI statements, with envelopes of two chains (leaf matching one / the other / both / neither statement), every step judged alone on its own statement's identities; two cases per chain name a verification plugin (mock) that advertises the trusted-identity capability or only the revocation capability and reports success or failure; two cases per chain present the envelope to a verifier whose trust store ca:s holds a foreign root instead of the chain's (matching / wildcard / subset / near-miss / CA-subject / foreign / invalid identities, mostly at level audit where the identity check runs after the trust-store failure): authenticity must not pass. Values and texts are ASCII or other valid UTF-8 (multi-byte characters raw or hex-escaped as a whole, Unicode white space, U+00A0 at the edges of values); identity kind dup-empty-first writes an empty-valued attribute before / after the same type of a matching identity. non-trivial = parse: at least three '='; render: all; subset: both maps non-empty; verify: no wildcard, the leaf subject parses and some x509.subject identity parses. distinct = distinct inputs"
	w.Set("frame_check", "every case: deep snapshot before / comparison after each library call of all caller-owned objects passed by reference: the trust policy document (statements, trustedIdentities / trustStores / registryScopes slices, override map), the caller's identities slice, the envelope bytes, the descriptor, the trust store's certificate slices, the PluginConfig and UserMetadata maps (the same map objects for all calls of a run), the two maps given to IsSubsetDN; ParseDistinguishedName takes a string only. Half of the verify cases repeat Verify with the same verifier / document / envelope / option objects and compare the authenticity result.")
	w.Assumptions = []string{
		"names, subjects and identities are valid UTF-8 (go-ldap converts segments to []rune and back: the identity on valid UTF-8; the model treats bytes as characters; a text that is not valid UTF-8 is outside the model: Go replaces each offending byte by U+FFFD); hex escapes may produce any byte",
		"the subject strings of the chain are the Subject.String() values crypto/x509 reports for the certificates notation-core-go returns for the envelope",
		"error classes are recognised from the fixed parts of the error messages of pkix.ParseDistinguishedName, validateTrustedIdentities and verifyX509TrustedIdentities",
		"an envelope carries at least one certificate (notation-core-go)",
	}
	var id int64
	next := func() (int64, bool) {
		my := id
		id++
		return my, w.Want(my)
	}

	// ---------- family 1: parse ----------
	parseCase := func(name, edit string, sub *Rng) {
		my, want := next()
		if !want {
			return
		}
		name = asciiize(name)
		obsT, label, _, _ := parseObs(name)
		c := &c04Case{Family: "parse", Name: name, Edit: edit, Obs: label}
		term := CApp("mk_case", CN(my), CApp("IParse", CStr(name)), obsT)
		w.Add(my, term, c, "P|"+name, strings.Count(name, "=") >= 3)
		w.Count("family", "parse")
		w.Count("parse_edit", edit)
		w.Count("parse_result", strings.SplitN(label, ":", 2)[0])
	}
	nParse, nMal, nRender, nSubset, nAPI := 2600, 900, 1500, 700, 1500
	if a.Tier == "thorough" {
		nParse, nMal, nRender, nSubset, nAPI = 40000, 15000, 25000, 8000, 12000
	}
	// fixed regression names first (F10 context, go-ldap corner cases)
	for _, s := range []string{
		"C=US,ST=WA,O=x", "C=US,S=WA,O=x", "CN=,C=US,ST=WA,O=x", "CN=,CN=a,C=US,ST=WA,O=x", "CN=a,CN=,C=US,ST=WA,O=x",
		"C=US,S=WA,ST=WA,O=x", "C=US;S=WA;O=x", "C=US, ST = WA ,O=x", "C=US,ST=WA,O=x,", "C=US,ST=WA,O=x+CN=a",
		"C=US,ST=WA,O=x=y", "C=US,ST=WA,O=x,=y", "C=US,ST=WA,O=x,==y", "=,C=US,ST=WA,O=x", "  ", "\t", "",
		"C=US,ST=WA,O=\\41\\4a", "C=US,ST=WA,O=\\4", "C=US,ST=WA,O=\\zz", "C=US,ST=WA,O=x\\", "C=US,ST=WA,O=x\\,y",
		"C\\=D=US,ST=WA,O=x", "C=US,ST=WA,O=x #y", "C=US,ST=WA,O= #y", "C=US,ST=WA,O=#0c0141", "c=US,ST=WA,O=x",
		"C=US,ST=WA,O=x\\ ", "C=US,ST=WA,O=x\\  ", "C=US,ST=WA,O=\\ x", "C=US,ST=WA,O=x,\\ =y", "C=US,ST=WA,O=x\\\\  \\ ",
		"CN=a\\\\ ,C=US,ST=WA,O=x", "CN=a\\\\,C=US,ST=WA,O=x", "C=US,ST=WA,O=\\e9", "C=US,ST=WA,O=x,CN=a=#b", "C=U,ST=\\#x,O=x",
		// valid UTF-8 (audit): raw and hex-escaped multi-byte characters, Unicode white space only (TrimSpace),
		// white space that go-ldap does not trim, a backslash before / after a multi-byte character
		"C=CH,ST=Z\u00fcrich,O=\u682a\u5f0f\u4f1a\u793e", "C=CH,ST=Z\\c3\\bcrich,O=x", "C=CH,S=Z\\C3\u00bcrich,O=x", "\u00a0", "\u0085\u2003", "\u3000 ", "\u200b",
		"\u00a0C=US,ST=WA,O=x", "C=US,ST=WA,O=x\u00a0", "C\u00a0=US,ST=WA,O=x", "C=US,ST=WA,O=x\\\u00fc", "C=US,ST=WA,O=\\4\u00fc", "C=US,ST=WA,O=\u00fc\\",
		"C=US,ST=WA,O=\u00fc\\ ", "CN=,CN=alice,C=US,ST=WA,O=Notary", "C=US,ST=WA,O=\U0001f511,CN=\U0001f511",
	} {
		parseCase(s, "fixed", rng)
	}
	for k := 0; k < nParse; k++ {
		sub := rng.Fork(uint64(k))
		d := randDN(sub)
		op := "none"
		if sub.Chance(3, 4) {
			op = editNames[1+sub.Intn(len(editNames)-1)]
		}
		parseCase(editDN(sub, d, op), op, sub)
	}
	for k := 0; k < nMal; k++ {
		sub := rng.Fork(uint64(1_000_000 + k))
		parseCase(malformed(sub), "malformed", sub)
	}

	// ---------- family 2: render (round trip, order / alias / spacing) ----------
	for k := 0; k < nRender; {
		sub := rng.Fork(uint64(2_000_000 + k))
		d := randDN(sub)
		perms := 1 + sub.Intn(3)
		for p := 0; p < perms && k < nRender; p++ {
			k++
			my, want := next()
			if p > 0 {
				Shuffle(sub, d)
			}
			quirkFree := !sub.Chance(1, 25)
			st := make([]aStyle, len(d))
			for i := range d {
				st[i] = randStyle(sub, d[i].V, quirkFree)
			}
			if !want {
				continue
			}
			name := renderCoq(d, st)
			obsT, label, _, _ := parseObs(name)
			dd := append([]attr(nil), d...)
			c := &c04Case{Family: "render", Name: name, DN: dd, Style: st, Obs: label}
			term := CApp("mk_case", CN(my), CApp("IRender", renderInputTerm(d, st), CStr(name)), obsT)
			w.Add(my, term, c, "R|"+name+"|"+fmt.Sprint(dd), true)
			w.Count("family", "render")
			w.Count("render_result", strings.SplitN(label, ":", 2)[0])
			w.Count("render_attrs", fmt.Sprint(len(d)))
		}
	}

	// ---------- family 3: subset ----------
	subsetCase := func(A, B map[string]string, kind string) {
		my, want := next()
		if !want {
			return
		}
		a0, b0 := strMap(A), strMap(B)
		r := verifbridge.IsSubsetDN(A, B)
		if strMap(A) != a0 || strMap(B) != b0 {
			w.ImplViolation(my, "library mutated caller-owned map passed to IsSubsetDN", &c04Case{Family: "subset", A: A, B: B, Kind: kind, Obs: "maps after the call differ from the maps before"}, "")
		}
		c := &c04Case{Family: "subset", A: A, B: B, Kind: kind, Obs: fmt.Sprint(r)}
		term := CApp("mk_case", CN(my), CApp("ISubset", CMap(A), CMap(B)), CApp("OBool", CBool(r)))
		w.Add(my, term, c, "S|"+mapKey(A)+"|"+mapKey(B), len(A) > 0 && len(B) > 0)
		w.Count("family", "subset")
		w.Count("subset_kind", kind)
		w.Count("subset_result", fmt.Sprint(r))
	}
	subsetCase(map[string]string{"CN": "", "C": "US", "ST": "WA", "O": "x"}, map[string]string{"C": "US", "ST": "WA", "O": "x"}, "empty-vs-absent")
	subsetCase(map[string]string{"C": "US", "ST": "WA", "O": "x"}, map[string]string{"CN": "", "C": "US", "ST": "WA", "O": "x"}, "strict-subset")
	for k := 0; k < nSubset; k++ {
		sub := rng.Fork(uint64(3_000_000 + k))
		d := randDN(sub)
		B := map[string]string{}
		for _, x := range d {
			B[x.T] = x.V
		}
		A := map[string]string{}
		kinds := []string{"equal", "strict-subset", "superset", "near-miss", "empty-vs-absent", "empty-both", "empty-a", "disjoint", "swapped-values"}
		kind := Pick(sub, kinds)
		for kk, v := range B {
			A[kk] = v
		}
		keys := make([]string, 0, len(B))
		for kk := range B {
			keys = append(keys, kk)
		}
		sort.Strings(keys)
		switch kind {
		case "strict-subset":
			delete(A, Pick(sub, keys))
			if sub.Bool() && len(A) > 0 {
				delete(A, Pick(sub, keys))
			}
		case "superset":
			A["X"+Pick(sub, optTypes)] = randValue(sub)
		case "near-miss":
			kk := Pick(sub, keys)
			A[kk] = nearMiss(sub, B[kk])
		case "empty-vs-absent":
			A["X"+Pick(sub, optTypes)] = ""
		case "empty-both":
			kk := Pick(sub, keys)
			A[kk] = ""
			if sub.Bool() {
				B[kk] = ""
			}
		case "empty-a":
			A = map[string]string{}
		case "disjoint":
			A = map[string]string{"Q": "q"}
		case "swapped-values":
			if len(keys) >= 2 {
				A[keys[0]], A[keys[1]] = B[keys[1]], B[keys[0]]
			}
		}
		if sub.Chance(1, 6) {
			A, B = B, A
			kind += "-reversed"
		}
		subsetCase(A, B, kind)
	}

	// ---------- family 4: API ----------
	if err := runAPI(a, w, rng, nAPI, next); err != nil {
		return err
	}
	return w.Close()
}
