package main

// History family of the C04 driver: several verifications on ONE verifier that
// holds an OCI trust policy document with two statements and a blob trust
// policy document. The model is stateless: every step is a case of its own,
// judged on the identities of the statement that applies to it.

import (
	"context"
	"errors"
	"fmt"
	"strings"

	. "vh/kit"

	"github.com/notaryproject/notation-go"
	"github.com/notaryproject/notation-go/verifier"
	"github.com/notaryproject/notation-go/verifier/trustpolicy"
	"github.com/notaryproject/notation-go/verifier/truststore"
	"github.com/opencontainers/go-digest"
	ocispec "github.com/opencontainers/image-spec/specs-go/v1"
)

const histScope2 = "reg.example/other"

var histRef2 = histScope2 + "@" + strings.TrimPrefix(TestRef, TestScope+"@")

var histRelations = []string{"same", "disjoint", "subset", "superset", "wildcard", "near-miss"}
var histBlobNames = []string{"p", "q", "bp"}
var histSequences = []string{"V1 VB", "VB V1", "V1 VB V1", "VB V1 VB", "V1 V2 V1", "V2 V1 V2", "V1 VB V2", "V2 VB", "VB V2 VB"}
var histEnvPatterns = []string{"AAA", "ABA", "BAB", "AAB", "BBA", "ABB", "BAA", "BBB"}

const histMaxSteps = 3

// relIdentities: the identities of a statement, in relation rel to "pins the leaf of chain A".
func relIdentities(rng *Rng, rel string, A, B map[string]string) []string {
	x := func(m map[string]string) string { return "x509.subject:" + renderIdentity(rng, m) }
	switch rel {
	case "same":
		return []string{x(A)}
	case "disjoint":
		return []string{x(B)}
	case "subset":
		m := map[string]string{"C": A["C"], "ST": A["ST"], "O": A["O"]}
		return []string{x(m)}
	case "superset":
		m := cloneMap(A)
		m["XEXTRA"] = "1"
		return []string{x(m)}
	case "wildcard":
		return []string{"*"}
	case "near-miss":
		m := cloneMap(A)
		m["O"] = nearMiss(rng, m["O"])
		return []string{x(m)}
	}
	return []string{x(A)}
}

// observeAuth canonicalises the authenticity result of one verification.
func observeAuth(outcome *notation.VerificationOutcome, verr error) (term, label string) {
	r, n := FindResult(outcome, trustpolicy.TypeAuthenticity)
	if r == nil || n != 1 {
		return CApp("OVerify", "VPanic", CBool(verr != nil)), fmt.Sprintf("no single authenticity result (n=%d, err=%v)", n, verr)
	}
	t, l := classifyVerify(r.Error)
	if t == "" {
		return CApp("OVerify", "VPanic", CBool(verr != nil)), l
	}
	if verr != nil {
		var ef notation.ErrorVerificationFailed
		if !errors.As(verr, &ef) && r.Error != nil && verr.Error() != r.Error.Error() {
			l += " (verify error differs: " + Short(verr.Error(), 80) + ")"
		}
	}
	return CApp("OVerify", t, CBool(verr != nil)), l
}

func runHistories(a *Args, w *CaseWriter, rng *Rng, next func() (int64, bool)) error {
	combos := len(histRelations) * len(histBlobNames) * len(histSequences)
	nHist := 2 * combos
	if a.Tier == "thorough" {
		nHist = 12 * combos
	}
	ctx := context.Background()
	for h := 0; h < nHist; h++ {
		sub := rng.Fork(uint64(5_000_000 + h))
		var ids [histMaxSteps]int64
		any := false
		for i := range ids {
			var want bool
			ids[i], want = next()
			any = any || want
		}
		if !any {
			continue
		}
		rel := histRelations[h%len(histRelations)]
		blobName := histBlobNames[(h/len(histRelations))%len(histBlobNames)]
		seq := strings.Fields(histSequences[(h/(len(histRelations)*len(histBlobNames)))%len(histSequences)])
		envPat := "AAA" // the first round: the same signature presented under every statement
		if h >= combos {
			envPat = histEnvPatterns[(h/combos+h)%len(histEnvPatterns)]
		}
		rel2 := histRelations[(h+h/combos+3)%len(histRelations)]
		cA, err := newAPIChainKind(sub, 100000+2*h, Pick(sub, []string{"plain", "plain", "minimal", "spicy"}))
		if err != nil {
			return err
		}
		cB, err := newAPIChainKind(sub, 100001+2*h, Pick(sub, []string{"plain", "minimal"}))
		if err != nil {
			return err
		}
		if cA.maps[0] == nil || cB.maps[0] == nil {
			return fmt.Errorf("history %d: a generated leaf subject is not interpretable: %q / %q", h, cA.subjects[0], cB.subjects[0])
		}
		A, B := cA.maps[0], cB.maps[0]
		// statement p of the OCI document pins A's leaf (or is the wildcard); q and the blob
		// statement stand in relation rel2 / rel to that
		i1 := relIdentities(sub, "same", A, B)
		if h%4 == 3 && rel != "wildcard" {
			i1 = []string{"*"}
		}
		i2 := relIdentities(sub, rel2, A, B)
		i3 := relIdentities(sub, rel, A, B)
		level := func() string {
			if sub.Chance(1, 5) {
				return "audit"
			}
			return "strict"
		}
		l1, l2, l3 := level(), level(), level()
		store := NewMockStore()
		store.Put(truststore.TypeCA, "s", cA.root, cB.root)
		doc := OCIPolicy(l1, nil, []string{"ca:s"}, i1, "")
		doc.TrustPolicies = append(doc.TrustPolicies, trustpolicy.OCITrustPolicy{
			Name: "q", RegistryScopes: []string{histScope2},
			SignatureVerification: trustpolicy.SignatureVerification{VerificationLevel: l2},
			TrustStores:           []string{"ca:s"}, TrustedIdentities: i2,
		})
		bdoc := &trustpolicy.BlobDocument{Version: "1.0", TrustPolicies: []trustpolicy.BlobTrustPolicy{{
			Name: blobName, SignatureVerification: trustpolicy.SignatureVerification{VerificationLevel: l3},
			TrustStores: []string{"ca:s"}, TrustedIdentities: i3,
		}}}
		desc := fmt.Sprintf("one verifier; OCI statement p %q (%s), OCI statement q %q (%s, %s), blob statement %s %q (%s, %s); sequence %v; envelopes %s (A leaf %q, B leaf %q)",
			i1, l1, i2, l2, rel2, blobName, i3, l3, rel, seq, envPat[:len(seq)], cA.subjects[0], cB.subjects[0])
		v, err := verifier.NewVerifierWithOptions(store, verifier.VerifierOptions{OCITrustPolicy: doc, BlobTrustPolicy: bdoc})
		if err != nil {
			w.Count("history_construct_error", Short(err.Error(), 60))
			continue
		}
		docSnap := func() []snapItem {
			j := append(snapDoc(doc), snapStore(store))
			for i := range bdoc.TrustPolicies {
				p := &bdoc.TrustPolicies[i]
				j = append(j, snapItem{"blob trust policy document (statement " + p.Name + ")", p.Name + "|" + p.SignatureVerification.VerificationLevel + "|" + strSlice(p.TrustedIdentities) + "|" + strSlice(p.TrustStores)})
			}
			return j
		}
		gen := func(digest.Algorithm) (ocispec.Descriptor, error) { return apiDesc, nil }
		for i, step := range seq {
			c := cA
			if envPat[i] == 'B' {
				c = cB
			}
			var ids_ []string
			var lvl string
			before := docSnap()
			var outcome *notation.VerificationOutcome
			var verr error
			switch step {
			case "V1":
				ids_, lvl = i1, l1
				outcome, verr = v.Verify(ctx, apiDesc, c.env, notation.VerifierVerifyOptions{ArtifactReference: TestRef, SignatureMediaType: c.format, PluginConfig: sharedPluginConfig, UserMetadata: sharedUserMetadata})
			case "V2":
				ids_, lvl = i2, l2
				outcome, verr = v.Verify(ctx, apiDesc, c.env, notation.VerifierVerifyOptions{ArtifactReference: histRef2, SignatureMediaType: c.format, PluginConfig: sharedPluginConfig, UserMetadata: sharedUserMetadata})
			case "VB":
				ids_, lvl = i3, l3
				outcome, verr = v.VerifyBlob(ctx, gen, c.env, notation.BlobVerifierVerifyOptions{SignatureMediaType: c.format, TrustPolicyName: blobName, PluginConfig: sharedPluginConfig, UserMetadata: sharedUserMetadata})
			}
			cc := &c04Case{Family: "verify", Log: lvl == "audit", Identities: ids_, Chain: c.subjects, Kind: "history/" + rel + "/blob=" + blobName,
				History: fmt.Sprintf("step %d (%s, envelope %c) of: %s", i+1, step, envPat[i], desc)}
			for _, what := range frameDiff(before, docSnap()) {
				w.ImplViolation(ids[i], "library mutated caller-owned "+what+" ("+step+" in a history)", cc, "")
			}
			if !w.Want(ids[i]) {
				continue
			}
			obsTerm, label := observeAuth(outcome, verr)
			cc.Obs = label
			in := CApp("IVerify", "false", CBool(lvl == "audit"), CStrList(ids_), CStrList(c.subjects))
			term := CApp("mk_case", CN(ids[i]), in, obsTerm)
			nontriv := !contains(ids_, "*")
			w.Add(ids[i], term, cc, fmt.Sprintf("H|%d|%d", h, i), nontriv)
			w.Count("family", "verify-history")
			w.Count("history_relation", rel+"/blob="+blobName)
			w.Count("history_sequence", strings.Join(seq, " ")+" "+envPat[:len(seq)])
			w.Count("history_step_result", step+" -> "+strings.SplitN(label, ":", 2)[0])
		}
	}
	return nil
}
