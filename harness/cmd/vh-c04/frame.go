package main

// Frame check of the C04 driver: deep snapshots of every caller-owned object
// that is handed to the library by reference, taken before a call and compared
// after it. The library only reads these objects; any difference is recorded
// as an implementation violation.

import (
	"crypto/sha256"
	"encoding/hex"
	"encoding/json"
	"fmt"
	"sort"
	"strings"

	. "vh/kit"

	"github.com/notaryproject/notation-go/verifier/trustpolicy"
	ocispec "github.com/opencontainers/image-spec/specs-go/v1"
)

type snapItem struct{ what, repr string }

func strSlice(xs []string) string {
	if xs == nil {
		return "nil"
	}
	return fmt.Sprintf("%d%q", len(xs), xs)
}

func strMap(m map[string]string) string {
	if m == nil {
		return "nil"
	}
	keys := make([]string, 0, len(m))
	for k := range m {
		keys = append(keys, k)
	}
	sort.Strings(keys)
	var sb strings.Builder
	fmt.Fprintf(&sb, "%d{", len(m))
	for _, k := range keys {
		fmt.Fprintf(&sb, "%q:%q,", k, m[k])
	}
	return sb.String() + "}"
}

func snapDoc(doc *trustpolicy.OCIDocument) []snapItem {
	if doc == nil {
		return nil
	}
	j, _ := json.Marshal(doc)
	out := []snapItem{{"trust policy document", string(j) + fmt.Sprintf("|statements=%d", len(doc.TrustPolicies))}}
	for i := range doc.TrustPolicies {
		p := &doc.TrustPolicies[i]
		ov := "nil"
		if p.SignatureVerification.Override != nil {
			m := map[string]string{}
			for k, v := range p.SignatureVerification.Override {
				m[string(k)] = string(v)
			}
			ov = strMap(m)
		}
		out = append(out,
			snapItem{fmt.Sprintf("trustedIdentities slice of statement %d of the trust policy document", i), strSlice(p.TrustedIdentities)},
			snapItem{fmt.Sprintf("trustStores slice of statement %d of the trust policy document", i), strSlice(p.TrustStores)},
			snapItem{fmt.Sprintf("registryScopes slice of statement %d of the trust policy document", i), strSlice(p.RegistryScopes)},
			snapItem{fmt.Sprintf("signatureVerification of statement %d of the trust policy document", i),
				fmt.Sprintf("%q|%q|%s", p.SignatureVerification.VerificationLevel, p.SignatureVerification.VerifyTimestamp, ov)})
	}
	return out
}

func snapStore(s *MockStore) snapItem {
	keys := make([]string, 0, len(s.Certs))
	byKey := map[string]StoreKey{}
	for k := range s.Certs {
		ks := string(k.Type) + ":" + k.Name
		keys = append(keys, ks)
		byKey[ks] = k
	}
	sort.Strings(keys)
	var sb strings.Builder
	for _, ks := range keys {
		sb.WriteString(ks + "=[")
		for _, c := range s.Certs[byKey[ks]] {
			if c == nil {
				sb.WriteString("nil,")
				continue
			}
			h := sha256.Sum256(c.Raw)
			sb.WriteString(hex.EncodeToString(h[:8]) + "/" + c.Subject.String() + "/" + fmt.Sprint(len(c.Raw)) + ",")
		}
		sb.WriteString("]")
	}
	return snapItem{"certificates of the trust store", sb.String()}
}

func snapBytes(what string, b []byte) snapItem {
	h := sha256.Sum256(b)
	return snapItem{what, fmt.Sprintf("%d:%s:nil=%v", len(b), hex.EncodeToString(h[:]), b == nil)}
}

func snapDesc(d ocispec.Descriptor) snapItem {
	j, _ := json.Marshal(d)
	return snapItem{"descriptor (annotations, urls, data)", string(j) + "|" + strMap(d.Annotations) + "|" + strSlice(d.URLs)}
}

// snapVerify snapshots everything NewVerifier / Verify receive by reference.
func snapVerify(doc *trustpolicy.OCIDocument, identities []string, env []byte, desc ocispec.Descriptor, store *MockStore, cfg map[string]string, md map[string]string) []snapItem {
	out := snapDoc(doc)
	out = append(out,
		snapItem{"trusted identities slice of the caller", strSlice(identities)},
		snapBytes("signature envelope bytes", env),
		snapDesc(desc),
		snapStore(store),
		snapItem{"PluginConfig map of the verify options", strMap(cfg)},
		snapItem{"UserMetadata map of the verify options", strMap(md)})
	return out
}

// frameDiff returns the names of the snapshotted objects that changed.
func frameDiff(before, after []snapItem) []string {
	var out []string
	for i := range before {
		if i >= len(after) || before[i].what != after[i].what || before[i].repr != after[i].repr {
			out = append(out, before[i].what)
		}
	}
	if len(after) > len(before) {
		out = append(out, "trust policy document (number of statements)")
	}
	return out
}
