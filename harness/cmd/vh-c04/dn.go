package main

// DN text generation for the C04 driver: the renderer that mirrors
// C04_DN.render byte for byte (used by the round-trip cases), a free-form
// renderer with edit operators (structured, mostly valid names, each rule of
// the parser violated by its own operator) and a malformed stream.

import (
	"fmt"
	"strings"
	"unicode/utf8"

	. "vh/kit"
)

type attr struct{ T, V string }

// aStyle mirrors the Coq record astyle.
type aStyle struct {
	Alias, Semi        bool
	Sp1, Sp2, Sp3, Sp4 int
	Esc                []int
}

func isSep(b byte) bool { return b == ',' || b == '+' || b == ';' }

func isSpecial(b byte) bool { return strings.IndexByte(" \"#+,;<=>\\", b) >= 0 }

func mustHex(b byte) bool { return b == '#' || b >= 128 }

func plainOK(edge bool, b byte) bool {
	return !mustHex(b) && b != '\\' && !isSep(b) && !(edge && b == ' ')
}

func hexEscape(upper bool, b byte) string {
	if upper {
		return fmt.Sprintf("\\%02X", b)
	}
	return fmt.Sprintf("\\%02x", b)
}

// encByte mirrors C04_DN.enc_byte.
func encByte(choice int, edge bool, b byte) string {
	switch {
	case choice == 2:
		return hexEscape(false, b)
	case choice == 3:
		return hexEscape(true, b)
	case choice == 1 && isSpecial(b) && !mustHex(b):
		return "\\" + string([]byte{b})
	case plainOK(edge, b):
		return string([]byte{b})
	case isSpecial(b) && !mustHex(b):
		return "\\" + string([]byte{b})
	}
	return hexEscape(false, b)
}

// encValue mirrors C04_DN.enc_value.
func encValue(v string, esc []int) string {
	var sb strings.Builder
	for i := 0; i < len(v); i++ {
		c := 0
		if i < len(esc) {
			c = esc[i]
		}
		sb.WriteString(encByte(c, i == 0 || i == len(v)-1, v[i]))
	}
	return sb.String()
}

// renderCoq mirrors C04_DN.render.
func renderCoq(d []attr, st []aStyle) string {
	var sb strings.Builder
	for i, a := range d {
		s := st[i]
		t := a.T
		if s.Alias && t == "ST" {
			t = "S"
		}
		sb.WriteString(strings.Repeat(" ", s.Sp1))
		sb.WriteString(t)
		sb.WriteString(strings.Repeat(" ", s.Sp2))
		sb.WriteString("=")
		sb.WriteString(strings.Repeat(" ", s.Sp3))
		sb.WriteString(encValue(a.V, s.Esc))
		sb.WriteString(strings.Repeat(" ", s.Sp4))
		if i+1 < len(d) {
			if s.Semi {
				sb.WriteString(";")
			} else {
				sb.WriteString(",")
			}
		}
	}
	return sb.String()
}

func styleTerm(s aStyle) string {
	esc := make([]string, len(s.Esc))
	for i, e := range s.Esc {
		esc[i] = CN(int64(e))
	}
	return CApp("mk_astyle", CBool(s.Alias), CBool(s.Semi), CN(int64(s.Sp1)), CN(int64(s.Sp2)), CN(int64(s.Sp3)), CN(int64(s.Sp4)), CList(esc))
}

func renderInputTerm(d []attr, st []aStyle) string {
	items := make([]string, len(d))
	for i := range d {
		items[i] = CPair(styleTerm(st[i]), CPair(CStr(d[i].T), CStr(d[i].V)))
	}
	return CList(items)
}

func smallSpace(rng *Rng) int {
	if rng.Chance(2, 3) {
		return 0
	}
	return 1 + rng.Intn(2)
}

// randStyle draws a style for value v. quirkFree keeps the side condition of
// the round-trip theorem (no unescaped space after a value ending in '\').
func randStyle(rng *Rng, v string, quirkFree bool) aStyle {
	s := aStyle{Alias: rng.Bool(), Semi: rng.Chance(1, 4), Sp1: smallSpace(rng), Sp2: smallSpace(rng), Sp3: smallSpace(rng), Sp4: smallSpace(rng)}
	if rng.Chance(1, 2) {
		n := rng.Intn(len(v) + 1)
		for i := 0; i < n; i++ {
			if rng.Chance(1, 2) {
				s.Esc = append(s.Esc, 0)
			} else {
				s.Esc = append(s.Esc, rng.Intn(4))
			}
		}
		// trailing zeros are the default: trim them to keep terms small
		for len(s.Esc) > 0 && s.Esc[len(s.Esc)-1] == 0 {
			s.Esc = s.Esc[:len(s.Esc)-1]
		}
	}
	if quirkFree && strings.HasSuffix(v, "\\") {
		s.Sp4 = 0
	}
	return s
}

// ---- attribute alphabet ----

var optTypes = []string{"OU", "CN", "L", "STREET", "POSTALCODE", "SERIALNUMBER", "DC", "UID", "1.2.3.4", "2.5.4.3", "E", "T"}

var plainValues = []string{"US", "WA", "Notary", "notary", "Notar", "Notary1", "Notation Inc", "Seattle", "alice", "a", "x", "WA ", "ACME Corp", "dev", "Dev"}
var spicyValues = []string{"a,b", "a+b", "a=b", "a;b", "#lead", " lead", "trail ", "a\\b", "a\"b", "<a>", "back\\", " ", "a  b", "a=#b", "x#y", "\\", "a\tb", "tab\t", "\"q\"", "1+1=2", "C=US", "p, q; r", "\x01\x7f", "caf\xc3\xa9", "\xff", "na\u00efve \U0001f511", "\u00a0nbsp\u00a0", "\u2003", "a\u0085b", "Z\u00fcrich", "\u682a\u5f0f\u4f1a\u793e"}

func randValue(rng *Rng) string {
	if rng.Chance(3, 4) {
		return Pick(rng, plainValues)
	}
	return Pick(rng, spicyValues)
}

// randDN draws a well-formed abstract DN: C, ST, O plus 0-3 optional
// attributes with distinct types, in random order, values non-empty.
func randDN(rng *Rng) []attr {
	d := []attr{{"C", randValue(rng)}, {"ST", randValue(rng)}, {"O", randValue(rng)}}
	n := rng.Intn(4)
	used := map[string]bool{}
	for i := 0; i < n; i++ {
		t := Pick(rng, optTypes)
		if used[t] {
			continue
		}
		used[t] = true
		d = append(d, attr{t, randValue(rng)})
	}
	Shuffle(rng, d)
	return d
}

// nearMiss returns a value differing from v in a small way (the comparisons a
// prefix / substring / case-folding / trimming implementation would accept).
func nearMiss(rng *Rng, v string) string {
	switch rng.Intn(7) {
	case 0:
		return v + "x"
	case 1:
		if len(v) > 1 {
			return v[:len(v)-1]
		}
		return v + v
	case 2:
		if strings.ToUpper(v) != v {
			return strings.ToUpper(v)
		}
		return strings.ToLower(v) + "z"
	case 3:
		return v + " "
	case 4:
		return " " + v
	case 5:
		if len(v) > 1 {
			return v[1:]
		}
		return "y" + v
	}
	if strings.ToLower(v) != v {
		return strings.ToLower(v)
	}
	return "x" + v
}

// ---- free-form renderer with edit operators (parse family) ----

// A value that is valid UTF-8 keeps each multi-byte character either raw or
// hex-escaped as a whole (the text stays valid UTF-8, the input contract of the
// model); the bytes >= 0x80 of any other value are always hex-escaped.
func freeEscape(rng *Rng, v string) string {
	var sb strings.Builder
	valid := utf8.ValidString(v)
	for i := 0; i < len(v); i++ {
		b := v[i]
		edge := i == 0 || i == len(v)-1
		switch {
		case b >= 128 && valid:
			_, n := utf8.DecodeRuneInString(v[i:])
			if rng.Chance(2, 3) {
				sb.WriteString(v[i : i+n])
			} else {
				up := rng.Bool()
				for j := i; j < i+n; j++ {
					sb.WriteString(hexEscape(up, v[j]))
				}
			}
			i += n - 1
		case b >= 128:
			sb.WriteString(hexEscape(rng.Bool(), b))
		case b == '\\' || isSep(b) || (edge && b == ' ') || (i == 0 && b == '#'):
			if rng.Chance(1, 4) {
				sb.WriteString(hexEscape(rng.Bool(), b))
			} else {
				sb.WriteString("\\" + string([]byte{b}))
			}
		case rng.Chance(1, 12):
			sb.WriteString(hexEscape(rng.Bool(), b))
		case isSpecial(b) && rng.Chance(1, 3):
			sb.WriteString("\\" + string([]byte{b}))
		default:
			sb.WriteByte(b)
		}
	}
	return sb.String()
}

func freeRender(rng *Rng, d []attr) []string {
	parts := make([]string, len(d))
	for i, a := range d {
		t := a.T
		if t == "ST" && rng.Chance(1, 3) {
			t = "S"
		}
		parts[i] = strings.Repeat(" ", smallSpace(rng)) + t + strings.Repeat(" ", smallSpace(rng)) + "=" +
			strings.Repeat(" ", smallSpace(rng)) + freeEscape(rng, a.V) + strings.Repeat(" ", smallSpace(rng))
	}
	return parts
}

func joinParts(rng *Rng, parts []string) string {
	var sb strings.Builder
	for i, p := range parts {
		if i > 0 {
			if rng.Chance(1, 5) {
				sb.WriteString(";")
			} else {
				sb.WriteString(",")
			}
		}
		sb.WriteString(p)
	}
	return sb.String()
}

var editNames = []string{"none", "drop-mandatory", "dup-same", "dup-other", "dup-empty-first", "dup-empty-second", "multi-valued",
	"alias-both", "trailing-sep", "truncated-escape", "eq-hash", "bad-hex", "lower-type", "empty-value", "empty-type", "leading-eq",
	"tab-space", "quoted", "double-sep", "no-eq", "mandatory-empty", "escaped-type", "trailing-bs-space", "hash-after-space", "short-hex", "only-space"}

// editDN applies edit operator op to the rendering of d and returns the text.
func editDN(rng *Rng, d []attr, op string) string {
	parts := freeRender(rng, d)
	idx := rng.Intn(len(d))
	mand := func(name string) int {
		for i, a := range d {
			if a.T == name {
				return i
			}
		}
		return 0
	}
	switch op {
	case "drop-mandatory":
		k := mand(Pick(rng, []string{"C", "ST", "O"}))
		parts = append(parts[:k:k], parts[k+1:]...)
	case "dup-same":
		parts = append(parts, parts[idx])
	case "dup-other":
		parts = append(parts, d[idx].T+"="+freeEscape(rng, nearMiss(rng, d[idx].V)))
	case "dup-empty-first":
		parts = append([]string{d[idx].T + "="}, parts...)
	case "dup-empty-second":
		parts = append(parts, d[idx].T+"= ")
	case "multi-valued":
		if len(parts) >= 2 {
			k := rng.Intn(len(parts) - 1)
			merged := parts[k] + "+" + parts[k+1]
			parts = append(append(parts[:k:k], merged), parts[k+2:]...)
		}
	case "alias-both":
		parts = append(parts, "S="+freeEscape(rng, randValue(rng)))
	case "trailing-sep":
		return joinParts(rng, parts) + Pick(rng, []string{",", ";", "+", ", ", ",,"})
	case "truncated-escape":
		return joinParts(rng, parts) + "\\"
	case "eq-hash":
		parts[idx] = d[idx].T + "=#" + Pick(rng, []string{"0c0141", "zz", "", "04024869"})
	case "bad-hex":
		parts[idx] = d[idx].T + "=a\\" + Pick(rng, []string{"zz", "4", "4g", "g4", "x41"}) + Pick(rng, []string{"", "b"})
	case "lower-type":
		parts[idx] = strings.ToLower(d[idx].T) + "=" + freeEscape(rng, d[idx].V)
	case "empty-value":
		parts[idx] = d[idx].T + "=" + strings.Repeat(" ", rng.Intn(3))
	case "empty-type":
		parts[idx] = strings.Repeat(" ", rng.Intn(2)) + "=" + freeEscape(rng, d[idx].V)
	case "leading-eq":
		return "=" + joinParts(rng, parts)
	case "tab-space":
		parts[idx] = "\t" + d[idx].T + "=" + freeEscape(rng, d[idx].V) + "\t"
	case "quoted":
		parts[idx] = d[idx].T + "=\"" + d[idx].V + "\""
	case "double-sep":
		k := rng.Intn(len(parts))
		parts[k] = parts[k] + Pick(rng, []string{",", ";"})
	case "no-eq":
		parts[idx] = d[idx].T + freeEscape(rng, d[idx].V)
	case "mandatory-empty":
		k := mand(Pick(rng, []string{"C", "ST", "O"}))
		parts[k] = d[k].T + "="
	case "escaped-type":
		parts[idx] = Pick(rng, []string{"\\43", "\\ ", "C\\=D", "\\4f\\55", "\\", "O\\ "}) + "=" + freeEscape(rng, d[idx].V)
	case "trailing-bs-space":
		parts[idx] = d[idx].T + "=" + freeEscape(rng, d[idx].V) + "\\\\" + strings.Repeat(" ", 1+rng.Intn(2))
	case "hash-after-space":
		parts[idx] = d[idx].T + "= #" + Pick(rng, []string{"0c0141", "x"})
	case "short-hex":
		return joinParts(rng, parts) + "\\4"
	case "only-space":
		return Pick(rng, []string{"", " ", "\t", " \n ", "\v\f\r", "  \t  ", "\u00a0", " \u0085\u2003", "\u3000\u1680\u2028\u2029\u202f\u205f", "\u200a\u2000 ", "\u200b", "\u00a0x", "\u180e", "\ufeff", " \u00a1"})
	}
	return joinParts(rng, parts)
}

var malformedAlphabet = []string{"C", "S", "T", "O", "CN", "=", "=", ",", "+", ";", "\\", " ", "#", "\"", "4", "1", "a", "x", "\t", "US", "ST=WA", "C=US", "O=x", "\\,", "\\20", "=#", "\u00e9", "\u00a0", "\u2003", "\U0001f511", "\\c3", "\\a9"}

func malformed(rng *Rng) string {
	n := 1 + rng.Intn(12)
	var sb strings.Builder
	for i := 0; i < n; i++ {
		sb.WriteString(Pick(rng, malformedAlphabet))
	}
	return sb.String()
}
