package main

// API level of the C04 driver: real certificates, envelopes and verifier.

import (
	"context"
	"crypto/x509"
	"crypto/x509/pkix"
	"encoding/asn1"
	"errors"
	"fmt"
	"sort"
	"strconv"
	"strings"
	"time"

	. "vh/kit"

	"github.com/notaryproject/notation-core-go/signature"
	"github.com/notaryproject/notation-go"
	pluginfw "github.com/notaryproject/notation-plugin-framework-go/plugin"
	"github.com/notaryproject/notation-go/verifbridge"
	"github.com/notaryproject/notation-go/verifier"
	"github.com/notaryproject/notation-go/verifier/trustpolicy"
	"github.com/notaryproject/notation-go/verifier/truststore"
	"github.com/opencontainers/go-digest"
	ocispec "github.com/opencontainers/image-spec/specs-go/v1"
)

var oids = map[string]asn1.ObjectIdentifier{
	"C": {2, 5, 4, 6}, "ST": {2, 5, 4, 8}, "L": {2, 5, 4, 7}, "STREET": {2, 5, 4, 9}, "POSTALCODE": {2, 5, 4, 17},
	"O": {2, 5, 4, 10}, "OU": {2, 5, 4, 11}, "CN": {2, 5, 4, 3}, "SERIALNUMBER": {2, 5, 4, 5},
	"DC": {0, 9, 2342, 19200300, 100, 1, 25}, "X": {1, 2, 3, 4},
}

// rawSubject marshals a sequence of RDNs (each a set of attributes).
func rawSubject(rdns [][]attr) []byte {
	seq := pkix.RDNSequence{}
	for _, rdn := range rdns {
		set := pkix.RelativeDistinguishedNameSET{}
		for _, x := range rdn {
			set = append(set, pkix.AttributeTypeAndValue{Type: oids[x.T], Value: x.V})
		}
		seq = append(seq, set)
	}
	b, err := asn1.Marshal(seq)
	if err != nil {
		panic(fmt.Sprintf("rawSubject %v: %v", rdns, err))
	}
	return b
}

var apiPlain = []string{"US", "WA", "Notary", "notary", "Notar", "Notary1", "Notation Inc", "Seattle", "alice", "a", "x", "ACME Corp", "dev", "Dev", "98101"}
var apiSpicy = []string{"a,b", "a+b", "a=b", "a;b", "#lead", " lead", "trail ", "a\\b", "a\"b", "<a>", "back\\", "a  b", "x#y", "1+1=2", "C=US", "p, q; r", "a:b", "*"}

// values that are valid UTF-8 beyond ASCII (leaf kind "utf8")
var apiUTF8 = []string{"Z\u00fcrich", "\u682a\u5f0f\u4f1a\u793e", "na\u00efve \U0001f511", "\u00a0nbsp\u00a0", "Stra\u00dfe 1, M\u00fcnchen", "\u00c9", "caf\u00e9", "cafe"}

var apiUTF8Mode bool // set while the subject of a leaf of kind "utf8" is drawn

func apiValue(rng *Rng, spicy bool) string {
	if apiUTF8Mode && rng.Chance(1, 2) {
		return Pick(rng, apiUTF8)
	}
	if spicy && rng.Chance(1, 2) {
		return Pick(rng, apiSpicy)
	}
	return Pick(rng, apiPlain)
}

var leafKinds = []string{"plain", "plain", "plain", "spicy", "spicy", "no-mandatory", "two-ou", "unknown-oid", "two-cn", "multi-rdn", "empty", "eqhash-value", "minimal", "utf8"}

// genSubject draws the RDN sequence of a leaf subject.
func genSubject(rng *Rng, kind string) [][]attr {
	apiUTF8Mode = kind == "utf8"
	defer func() { apiUTF8Mode = false }()
	spicy := kind == "spicy"
	attrs := []attr{{"C", apiValue(rng, spicy)}, {"ST", apiValue(rng, spicy)}, {"O", apiValue(rng, spicy)}}
	if kind != "minimal" {
		for _, t := range []string{"OU", "CN", "L", "STREET", "POSTALCODE", "SERIALNUMBER"} {
			if rng.Chance(1, 3) {
				attrs = append(attrs, attr{t, apiValue(rng, spicy)})
			}
		}
	}
	switch kind {
	case "no-mandatory":
		k := rng.Intn(3)
		attrs = append(attrs[:k:k], attrs[k+1:]...)
	case "two-ou":
		attrs = append(attrs, attr{"OU", "first"}, attr{"OU", "second"})
	case "unknown-oid":
		attrs = append(attrs, attr{Pick(rng, []string{"DC", "X"}), "example"})
	case "two-cn":
		attrs = append(attrs, attr{"CN", "first cn"}, attr{"CN", "second cn"})
	case "eqhash-value":
		attrs = append(attrs, attr{"L", "a=#b"})
	case "empty":
		return nil
	}
	Shuffle(rng, attrs)
	var rdns [][]attr
	if kind == "multi-rdn" && len(attrs) >= 2 {
		rdns = append(rdns, []attr{attrs[0], attrs[1]})
		attrs = attrs[2:]
	}
	for _, x := range attrs {
		rdns = append(rdns, []attr{x})
	}
	return rdns
}

type apiChain struct {
	env      []byte
	penv     []byte            // the same signed content with the critical attribute naming verification plugin "p"
	root     *x509.Certificate
	intended map[string]string // the attributes the leaf subject was generated from (last one wins), nil if none
	format   string
	subjects []string          // Subject.String() as reported for the envelope's chain, leaf first
	maps     []map[string]string // bridge parse of each subject (nil = does not parse)
	store    *MockStore
	ustore   *MockStore // a store "ca:s" that does NOT hold the root of the chain
	kind     string
}

var apiDesc = ocispec.Descriptor{MediaType: "application/vnd.oci.image.manifest.v1+json", Digest: digest.Digest(strings.TrimPrefix(TestRef, TestScope+"@")), Size: 528}

func newAPIChain(rng *Rng, k int) (*apiChain, error) {
	return newAPIChainKind(rng, k, Pick(rng, leafKinds))
}

func newAPIChainKind(rng *Rng, k int, kind string) (*apiChain, error) {
	n := 1 + rng.Intn(3)
	now := time.Now()
	nb, na := now.Add(-48*time.Hour), now.Add(48*time.Hour)
	leafRDNs := genSubject(rng, kind)
	leafRaw := rawSubject(leafRDNs)
	caSubject := func(role string) []byte {
		// CA subjects are well-formed DNs so that pinning them is meaningful
		at := []attr{{"C", Pick(rng, []string{"US", "DE"})}, {"ST", Pick(rng, []string{"WA", "BY"})}, {"O", Pick(rng, []string{"Verif CA", "Notary"})}, {"CN", fmt.Sprintf("%s %d", role, k)}}
		var rdns [][]attr
		for _, x := range at {
			rdns = append(rdns, []attr{x})
		}
		return rawSubject(rdns)
	}
	var chain Chain
	if n == 1 {
		chain = Chain{Mint(CertSpec{RawSubject: leafRaw, NotBefore: nb, NotAfter: na, Leaf: true}, nil)}
	} else {
		chain = make(Chain, n)
		chain[n-1] = Mint(CertSpec{RawSubject: caSubject("root"), NotBefore: nb, NotAfter: na, IsCA: true}, nil)
		for i := n - 2; i >= 1; i-- {
			chain[i] = Mint(CertSpec{RawSubject: caSubject("inter"), NotBefore: nb, NotAfter: na, IsCA: true}, chain[i+1])
		}
		chain[0] = Mint(CertSpec{RawSubject: leafRaw, NotBefore: nb, NotAfter: na, Leaf: true}, chain[1])
	}
	c := &apiChain{kind: kind, format: Pick(rng, []string{MtJWS, MtCOSE})}
	for _, rdn := range leafRDNs {
		for _, x := range rdn {
			if _, known := map[string]bool{"C": true, "ST": true, "L": true, "STREET": true, "POSTALCODE": true, "O": true, "OU": true, "CN": true, "SERIALNUMBER": true}[x.T]; known {
				if c.intended == nil {
					c.intended = map[string]string{}
				}
				c.intended[x.T] = x.V
			}
		}
	}
	env, err := SignEnvelope(EnvSpec{Format: c.format, Chain: chain, Payload: PayloadFor(apiDesc), Scheme: signature.SigningSchemeX509, SigningTime: now.Add(-time.Hour)})
	if err != nil {
		return nil, fmt.Errorf("sign (%s, n=%d): %w", kind, n, err)
	}
	c.env = env
	c.penv, err = SignEnvelope(EnvSpec{Format: c.format, Chain: chain, Payload: PayloadFor(apiDesc), Scheme: signature.SigningSchemeX509, SigningTime: now.Add(-time.Hour),
		ExtAttrs: []signature.Attribute{{Key: "io.cncf.notary.verificationPlugin", Critical: true, Value: "p"}}})
	if err != nil {
		return nil, fmt.Errorf("sign with plugin attribute (%s, n=%d): %w", kind, n, err)
	}
	// ground truth: what notation-core-go / crypto/x509 report for this envelope
	content, err := CoreVerify(c.format, env)
	if err != nil {
		return nil, fmt.Errorf("core verify (%s, n=%d): %w", kind, n, err)
	}
	for _, cert := range content.SignerInfo.CertificateChain {
		s := cert.Subject.String()
		c.subjects = append(c.subjects, s)
		m, err := verifbridge.ParseDistinguishedName(s)
		if err != nil {
			m = nil
		}
		c.maps = append(c.maps, m)
	}
	c.store = NewMockStore()
	c.store.Put(truststore.TypeCA, "s", chain[n-1].C)
	c.ustore = NewMockStore()
	c.ustore.Put(truststore.TypeCA, "s", foreignRoot())
	c.root = chain[n-1].C
	return c, nil
}

var foreignRootCert *x509.Certificate

// foreignRoot: a self-signed CA that issued none of the generated chains.
func foreignRoot() *x509.Certificate {
	if foreignRootCert == nil {
		now := time.Now()
		at := []attr{{"C", "US"}, {"ST", "WA"}, {"O", "Foreign CA"}, {"CN", "foreign root"}}
		var rdns [][]attr
		for _, x := range at {
			rdns = append(rdns, []attr{x})
		}
		foreignRootCert = Mint(CertSpec{RawSubject: rawSubject(rdns), NotBefore: now.Add(-48 * time.Hour), NotAfter: now.Add(48 * time.Hour), IsCA: true}, nil).C
	}
	return foreignRootCert
}

// renderIdentity writes a map as an x509.subject identity value in random
// order with free spacing / escaping / alias.
func renderIdentity(rng *Rng, m map[string]string) string {
	keys := make([]string, 0, len(m))
	for k := range m {
		keys = append(keys, k)
	}
	sort.Strings(keys)
	Shuffle(rng, keys)
	d := make([]attr, len(keys))
	for i, k := range keys {
		d[i] = attr{k, m[k]}
	}
	parts := freeRender(rng, d)
	for i, x := range d {
		if x.V == "" {
			parts[i] = x.T + "="
		}
	}
	return asciiize(joinParts(rng, parts))
}

func cloneMap(m map[string]string) map[string]string {
	out := map[string]string{}
	for k, v := range m {
		out[k] = v
	}
	return out
}

var idKinds = []string{"exact", "exact", "subset", "subset", "superset", "near-miss", "near-miss", "ca-subject", "ca-subject",
	"two-ids", "two-nonmatch", "unknown-prefix", "unknown-prefix+exact", "prefix-case", "wildcard", "empty-attr", "no-sep",
	"empty-value", "bad-dn", "empty-identity", "wildcard-mixed", "overlap", "none", "eqhash-identity", "space-after-colon",
	"subset-missing-mandatory", "reversed-superset", "multi-valued-identity", "dup-identity", "bad-then-wildcard", "dup-empty-first", "prefix-variant-match"}

// genIdentities draws the trusted identities for one case on chain c.
func genIdentities(rng *Rng, c *apiChain, kind string) []string {
	base := c.maps[0]
	if base == nil {
		// the leaf subject is not interpretable: aim at the attributes it was generated from
		base = c.intended
	}
	if base == nil {
		base = map[string]string{"C": "US", "ST": "WA", "O": "Notary"}
	}
	x := func(m map[string]string) string { return "x509.subject:" + renderIdentity(rng, m) }
	keys := make([]string, 0, len(base))
	for k := range base {
		keys = append(keys, k)
	}
	sort.Strings(keys)
	subset := func() map[string]string {
		m := map[string]string{}
		for _, k := range keys {
			if k == "C" || k == "ST" || k == "O" || rng.Chance(1, 3) {
				m[k] = base[k]
			}
		}
		return m
	}
	other := map[string]string{"C": "FR", "ST": "IDF", "O": "Autre", "CN": "someone else"}
	switch kind {
	case "exact":
		return []string{x(base)}
	case "subset":
		return []string{x(subset())}
	case "superset":
		m := cloneMap(base)
		m["X"+Pick(rng, []string{"OU", "CN", "L"})] = apiValue(rng, false)
		if _, ok := m["CN"]; !ok && rng.Bool() {
			m["CN"] = apiValue(rng, false)
		}
		return []string{x(m)}
	case "near-miss":
		m := subset()
		ks := make([]string, 0, len(m))
		for k := range m {
			ks = append(ks, k)
		}
		sort.Strings(ks)
		k := Pick(rng, ks)
		m[k] = nearMiss(rng, m[k])
		return []string{x(m)}
	case "ca-subject":
		j := len(c.maps) - 1
		if j > 1 && rng.Bool() {
			j = 1
		}
		if c.maps[j] == nil {
			return []string{x(other)}
		}
		m := cloneMap(c.maps[j])
		if rng.Bool() {
			delete(m, "CN")
		}
		return []string{x(m)}
	case "two-ids":
		ids := []string{x(other), x(base)}
		if rng.Bool() {
			ids[0], ids[1] = ids[1], ids[0]
		}
		return ids
	case "two-nonmatch":
		m := cloneMap(base)
		m["O"] = nearMiss(rng, m["O"])
		return []string{x(other), x(m)}
	case "unknown-prefix":
		return []string{Pick(rng, []string{"foo:bar", "x509.subjectX:C=US,ST=WA,O=x", "x509:C=US,ST=WA,O=x", ":x", "foo:"})}
	case "unknown-prefix+exact":
		return []string{"foo:bar", x(base)}
	case "prefix-case":
		return []string{"X509.Subject:" + renderIdentity(rng, base)}
	case "prefix-variant-match":
		// the only identity has a prefix that is NOT x509.subject but extends / truncates / pads it, and a value
		// that matches the leaf: a prefix test by HasPrefix / HasSuffix / Contains / TrimSpace would accept it
		p := Pick(rng, []string{"x509.subjectX", "x509.subject.v2", "x509.subjects", "x509.subject ", " x509.subject",
			"ax509.subject", "x509.subjec", "x509", "x509.subject\t", "x509_subject", "x509.subject.x509.subject"})
		return []string{p + ":" + renderIdentity(rng, base)}
	case "wildcard":
		return []string{"*"}
	case "empty-attr":
		m := subset()
		m[Pick(rng, []string{"CN", "OU", "L", "XQ"})] = ""
		return []string{x(m)}
	case "no-sep":
		return []string{Pick(rng, []string{"garbage", "x509.subject", "x509.subject;C=US", "**"})}
	case "empty-value":
		return []string{"x509.subject:"}
	case "bad-dn":
		return []string{Pick(rng, []string{"x509.subject:CN=foo", "x509.subject:C=US,ST=WA,O=x,", "x509.subject:C=US,ST=WA,O=x\\", "x509.subject:C=US,ST=WA,O=", "x509.subject: ", "x509.subject:C=US,S=WA,ST=WA,O=x"}), x(base)}
	case "empty-identity":
		return []string{"", x(base)}
	case "wildcard-mixed":
		ids := []string{"*", x(other)}
		if rng.Bool() {
			ids[0], ids[1] = ids[1], ids[0]
		}
		return ids
	case "overlap":
		return []string{x(base), x(subset())}
	case "none":
		return []string{}
	case "eqhash-identity":
		return []string{"x509.subject:C=US,ST=WA,O=x,CN=#0c0141"}
	case "space-after-colon":
		return []string{"x509.subject: " + renderIdentity(rng, subset())}
	case "subset-missing-mandatory":
		m := cloneMap(base)
		delete(m, Pick(rng, []string{"C", "ST", "O"}))
		return []string{x(m)}
	case "reversed-superset":
		// identity = leaf + one more attribute that the leaf lacks: only a reversed test accepts
		m := cloneMap(base)
		m["XEXTRA"] = "1"
		return []string{x(m)}
	case "multi-valued-identity":
		// an identity that would match if '+' were read like ','
		d := make([]attr, 0, len(keys))
		for _, k := range keys {
			d = append(d, attr{k, base[k]})
		}
		Shuffle(rng, d)
		parts := freeRender(rng, d)
		if len(parts) < 2 {
			return []string{"x509.subject:C=US+ST=WA,O=x"}
		}
		return []string{"x509.subject:" + asciiize(parts[0]+"+"+strings.Join(parts[1:], ","))}
	case "dup-identity":
		return []string{x(base) + ",C=US"}
	case "bad-then-wildcard":
		return []string{"garbage", "*"}
	case "dup-empty-first":
		// the matching identity preceded by an empty-valued attribute of a type it also carries
		// (pkix.go accepts it: only a non-empty earlier value counts as a duplicate), or followed by it (refused)
		k := Pick(rng, keys)
		if rng.Chance(3, 4) {
			return []string{"x509.subject:" + k + "=," + renderIdentity(rng, base)}
		}
		return []string{"x509.subject:" + renderIdentity(rng, base) + "," + k + "="}
	}
	return []string{x(base)}
}

func classifyConstruct(msg string) (string, string) {
	switch {
	case strings.Contains(msg, "is either missing trust stores or trusted identities"):
		return "WNone", "WNone"
	case strings.Contains(msg, "uses a wildcard trusted identity '*'"):
		return "WWildcardMixed", "WWildcardMixed"
	case strings.HasSuffix(msg, "has an empty trusted identity"):
		return "WEmpty", "WEmpty"
	case strings.HasSuffix(msg, "missing separator"):
		return "WNoSep", "WNoSep"
	case strings.HasSuffix(msg, "without an identity value"):
		return "WEmptyValue", "WEmptyValue"
	case strings.Contains(msg, "has overlapping x509 trustedIdentities"):
		return "WOverlap", "WOverlap"
	}
	if i := strings.Index(msg, " with invalid identity value: "); i >= 0 {
		t, l := classifyDNErr(msg[i+len(" with invalid identity value: "):])
		return CApp("WBadDN", t), "WBadDN:" + l
	}
	return "", ""
}

func classifyVerify(err error) (string, string) {
	if err == nil {
		return "VPass", "VPass"
	}
	msg := err.Error()
	const leafPrefix = "error while parsing the certificate subject from the digital signature. error : "
	switch {
	case strings.HasPrefix(msg, "trust policy statement ") && strings.HasSuffix(msg, "missing separator"):
		return "VNoSep", "VNoSep"
	case strings.HasPrefix(msg, "trust policy statement ") && strings.HasSuffix(msg, "without an identity value"):
		return "VEmptyValue", "VEmptyValue"
	case strings.HasPrefix(msg, "no x509 trusted identities are configured"):
		return "VNoX509", "VNoX509"
	case strings.HasPrefix(msg, "signing certificate from the digital signature does not match the X.509 trusted identities"):
		return "VNoMatch", "VNoMatch"
	case strings.HasPrefix(msg, "trusted identify verification by plugin "):
		return "VPluginFail", "VPluginFail"
	case isStoreFailure(err):
		return "VStoreFail", "VStoreFail"
	case strings.HasPrefix(msg, leafPrefix):
		inner, uerr := strconv.Unquote(msg[len(leafPrefix):])
		if uerr == nil {
			t, l := classifyDNErr(inner)
			return CApp("VBadLeaf", t), "VBadLeaf:" + l
		}
	}
	if t, l := classifyDNErr(msg); l != "unclassified" {
		return CApp("VBadIdentity", t), "VBadIdentity:" + l
	}
	return "", "other: " + Short(msg, 120)
}

// isStoreFailure: the error of notation-core-go's VerifyAuthenticity (chain not rooted in the trust stores).
func isStoreFailure(err error) bool {
	var ae *signature.SignatureAuthenticityError
	return errors.As(err, &ae)
}

// objects shared by ALL Verify calls of a run (the same map objects, never fresh literals)
var sharedPluginConfig = map[string]string{"verif.config": "c04", "k": "v"}
var sharedUserMetadata = map[string]string{}

func runAPI(a *Args, w *CaseWriter, rng *Rng, nAPI int, next func() (int64, bool)) error {
	// per chain: 10 native cases + 2 cases with a verification plugin named by the
	// signature + nSys systematic list shapes (rotating through listShapes)
	const nSys = 12
	const nUntrusted = 2 // the same chain under a trust store that does not hold its root
	const per = 12 + nSys + nUntrusted
	nChains := nAPI / 12
	ctx := context.Background()
	for k := 0; k < nChains; k++ {
		sub := rng.Fork(uint64(4_000_000 + k))
		// replay: skip chains none of whose cases is wanted
		first, _ := next()
		ids := make([]int64, per)
		ids[0] = first
		anyWanted := w.Want(first)
		for j := 1; j < per; j++ {
			ids[j], _ = next()
			anyWanted = anyWanted || w.Want(ids[j])
		}
		if !anyWanted {
			continue
		}
		c, err := newAPIChain(sub, k)
		if err != nil {
			return err
		}
		for j := 0; j < per; j++ {
			cs := sub.Fork(uint64(j))
			kind := Pick(cs, idKinds)
			if j == 0 {
				kind = "wildcard" // every chain (also unparsable leaves) meets the lone wildcard
			}
			if j == 1 {
				kind = "exact"
			}
			if j == 2 {
				kind = "ca-subject"
			}
			plugin := j >= 10 && j < 12
			untrusted := j >= 12+nSys
			shape := ""
			if j >= 12 && !untrusted {
				shape = listShapes[(k*nSys+(j-12))%len(listShapes)]
				kind = "list:" + shape
			}
			if plugin {
				kind = Pick(cs, []string{"exact", "near-miss", "ca-subject", "subset", "superset", "wildcard", "unknown-prefix", "bad-dn"})
			}
			if untrusted {
				kind = Pick(cs, []string{"exact", "exact", "wildcard", "subset", "near-miss", "ca-subject", "superset", "unknown-prefix", "two-ids", "unknown-prefix+exact", "bad-dn", "none"})
			}
			identities := genIdentities(cs, c, kind)
			if shape != "" {
				identities = genShape(cs, c, shape)
			}
			late := cs.Chance(1, 3)
			if shape != "" {
				// mostly placed after construction, so that the list reaches verifyX509TrustedIdentities
				// whatever NewVerifier thinks of it (duplicates overlap)
				late = cs.Chance(2, 3)
			}
			logLevel := cs.Chance(1, 5)
			if untrusted {
				// mostly level audit: only there the identity check runs after the trust-store failure
				logLevel = j == 12+nSys || cs.Chance(1, 2)
			}
			capTI, capRev, pluginOK := cs.Bool(), true, cs.Bool()
			if capTI {
				capRev = cs.Bool()
			}
			if !w.Want(ids[j]) {
				continue
			}
			if plugin || untrusted {
				late = false
			}
			store := c.store
			if untrusted {
				store = c.ustore
			}
			cc := &c04Case{Family: "verify", Late: late, Log: logLevel, Identities: identities, Chain: c.subjects, Kind: kind + "/" + c.kind}
			if untrusted {
				cc.Kind = "untrusted:" + cc.Kind
			}
			level := "strict"
			if logLevel {
				level = "audit"
			}
			obsTerm, label := "", ""
			func() {
				defer func() {
					if r := recover(); r != nil {
						obsTerm, label = CApp("OVerify", "VPanic", "true"), fmt.Sprintf("panic: %v", r)
						cc.Obs = label
						w.ImplViolation(ids[j], "panic in NewVerifier/Verify during trusted-identity evaluation", cc, "")
					}
				}()
				var override map[trustpolicy.ValidationType]trustpolicy.ValidationAction
				vopts := verifier.VerifierOptions{}
				envelope := c.env
				if plugin {
					// revocation is skipped by the policy: the plugin is executed for the trusted-identity capability only
					override = map[trustpolicy.ValidationType]trustpolicy.ValidationAction{trustpolicy.TypeRevocation: trustpolicy.ActionSkip}
					var caps []pluginfw.Capability
					if capTI {
						caps = append(caps, pluginfw.CapabilityTrustedIdentityVerifier)
					}
					if capRev {
						caps = append(caps, pluginfw.CapabilityRevocationCheckVerifier)
					}
					if cs.Bool() {
						caps = append([]pluginfw.Capability{pluginfw.CapabilitySignatureGenerator}, caps...)
					}
					vopts.PluginManager = &MockManager{Plugins: map[string]*MockPlugin{"p": {
						Meta: &pluginfw.GetMetadataResponse{Name: "p", Version: "1.0.0", Description: "d", URL: "u", SupportedContractVersions: []string{"1.0"}, Capabilities: caps},
						Resp: &pluginfw.VerifySignatureResponse{VerificationResults: map[pluginfw.Capability]*pluginfw.VerificationResult{
							pluginfw.CapabilityTrustedIdentityVerifier: {Success: pluginOK, Reason: "mock"},
							pluginfw.CapabilityRevocationCheckVerifier: {Success: true},
						}},
					}}}
					envelope = c.penv
				}
				// the caller's slices: handed to the library inside the document, never copied by the driver
				callerIDs := append([]string(nil), identities...)
				callerInitial := callerIDs
				if late {
					callerInitial = []string{"*"}
				}
				doc := OCIPolicy(level, override, []string{"ca:s"}, callerInitial, "")
				vopts.OCITrustPolicy = doc
				frame := func(step string, before []snapItem, idsNow []string) {
					after := snapVerify(doc, idsNow, envelope, apiDesc, store, sharedPluginConfig, sharedUserMetadata)
					for _, what := range frameDiff(before, after) {
						cc.Obs = "library mutated caller-owned " + what + " during " + step
						w.ImplViolation(ids[j], "library mutated caller-owned "+what+" ("+step+")", cc, "")
						w.Count("frame_violation", what)
					}
				}
				snap0 := snapVerify(doc, callerInitial, envelope, apiDesc, store, sharedPluginConfig, sharedUserMetadata)
				v, err := verifier.NewVerifierWithOptions(store, vopts)
				frame("NewVerifierWithOptions", snap0, callerInitial)
				if err != nil {
					t, l := classifyConstruct(err.Error())
					if t == "" {
						obsTerm, label = CApp("OConstruct", CApp("WBadDN", CApp("EDup", CStr("<unclassified>")))), "construct-other: "+Short(err.Error(), 120)
						return
					}
					obsTerm, label = CApp("OConstruct", t), l
					return
				}
				if late {
					doc.TrustPolicies[0].TrustedIdentities = callerIDs
				}
				vvo := notation.VerifierVerifyOptions{ArtifactReference: TestRef, SignatureMediaType: c.format, PluginConfig: sharedPluginConfig, UserMetadata: sharedUserMetadata}
				snap1 := snapVerify(doc, callerIDs, envelope, apiDesc, store, sharedPluginConfig, sharedUserMetadata)
				outcome, verr := v.Verify(ctx, apiDesc, envelope, vvo)
				frame("Verify", snap1, callerIDs)
				if cs.Bool() {
					// history: a second verification with the SAME verifier, document, envelope and option objects
					o2, verr2 := v.Verify(ctx, apiDesc, envelope, vvo)
					frame("second Verify", snap1, callerIDs)
					r1, n1 := FindResult(outcome, trustpolicy.TypeAuthenticity)
					r2, n2 := FindResult(o2, trustpolicy.TypeAuthenticity)
					same := n1 == n2 && (verr == nil) == (verr2 == nil) && (r1 == nil) == (r2 == nil)
					if same && r1 != nil {
						_, l1 := classifyVerify(r1.Error)
						_, l2 := classifyVerify(r2.Error)
						same = l1 == l2
					}
					w.Count("verify_repeated", fmt.Sprint(same))
					if !same {
						cc.Obs = fmt.Sprintf("second Verify with the same objects differs: first err=%v, second err=%v", verr, verr2)
						w.ImplViolation(ids[j], "a second verification with the same verifier, policy document, envelope and options gives a different authenticity result", cc, "")
					}
				}
				r, n := FindResult(outcome, trustpolicy.TypeAuthenticity)
				if r == nil || n != 1 {
					obsTerm, label = CApp("OVerify", "VPanic", CBool(verr != nil)), fmt.Sprintf("no single authenticity result (n=%d, err=%v)", n, verr)
					return
				}
				t, l := classifyVerify(r.Error)
				if t == "" {
					obsTerm, label = CApp("OVerify", "VPanic", CBool(verr != nil)), l
					return
				}
				// the error returned by Verify must be the authenticity error when it rejects
				if verr != nil {
					var ef notation.ErrorVerificationFailed
					if !errors.As(verr, &ef) && r.Error != nil && verr.Error() != r.Error.Error() {
						l += " (verify error differs: " + Short(verr.Error(), 80) + ")"
					}
				}
				obsTerm, label = CApp("OVerify", t, CBool(verr != nil)), l
			}()
			cc.Obs = label
			in := CApp("IVerify", CBool(late), CBool(logLevel), CStrList(identities), CStrList(c.subjects))
			if plugin {
				in = CApp("IPlugin", CBool(capTI), CBool(capRev), CBool(pluginOK), CBool(logLevel), CStrList(identities), CStrList(c.subjects))
				cc.Plugin = fmt.Sprintf("capabilities: trusted-identity=%v revocation=%v; plugin trusted-identity result success=%v", capTI, capRev, pluginOK)
				w.Count("verify_plugin", fmt.Sprintf("ti=%v,ok=%v", capTI, pluginOK))
			}
			if untrusted {
				in = CApp("IUntrusted", CBool(logLevel), CStrList(identities), CStrList(c.subjects))
				cc.Plugin = "trust store ca:s does not hold the root of the chain"
				w.Count("verify_untrusted", fmt.Sprintf("audit=%v -> %s", logLevel, strings.SplitN(label, ":", 2)[0]))
			}
			term := CApp("mk_case", CN(ids[j]), in, obsTerm)
			nontriv := c.maps[0] != nil && !contains(identities, "*") && anyIdentityParses(identities)
			w.Add(ids[j], term, cc, fmt.Sprintf("V|%v|%v|%q|%q|%v", late, logLevel, identities, c.subjects, cc.Plugin), nontriv)
			w.Count("family", "verify")
			w.Count("verify_identity_kind", kind)
			if shape != "" {
				w.Count("verify_list_shape_result", shape+" -> "+strings.SplitN(label, ":", 2)[0])
			}
			w.Count("verify_leaf_kind", c.kind)
			w.Count("verify_chain_len", fmt.Sprint(len(c.subjects)))
			w.Count("verify_result", strings.SplitN(label, ":", 2)[0])
			w.Count("verify_late", fmt.Sprint(late))
		}
	}
	return runHistories(a, w, rng, next)
}

func contains(xs []string, s string) bool {
	for _, x := range xs {
		if x == s {
			return true
		}
	}
	return false
}

func anyIdentityParses(ids []string) bool {
	for _, id := range ids {
		if v, ok := strings.CutPrefix(id, "x509.subject:"); ok {
			if _, err := verifbridge.ParseDistinguishedName(v); err == nil {
				return true
			}
		}
	}
	return false
}

// ---- systematic list shapes ----
//
// A shape is a space-separated list of tokens, one per identity:
//   F    an identity with a foreign prefix (not x509.subject)
//   Xm   x509.subject identity matching the leaf (all attributes / a subset)
//   Xn   x509.subject identity that does not match (other organisation)
//   Xnm  near miss (one value of the leaf changed slightly)
//   Xca  the subject of an intermediate / root of the chain
//   Xe0 XeM XeL  otherwise matching identity with an additional empty-valued attribute
//        written first / in the middle / last
//   Xd   the previous x509.subject identity again, written differently (duplicate)
//   Xbad an x509.subject identity that is not a valid DN;  Nosep an identity without ':'
// Foreign identities occur at every position (first, middle, last; one or several).
var listShapes = []string{
	"F Xn", "Xn F", "F F Xn", "F Xn F", "Xn F F", "F Xn Xn", "Xn F Xn", "Xn Xn F", "F Xn F Xn",
	"F Xm", "Xm F", "F F Xm", "F Xm F", "F Xn Xm", "Xn F Xm", "Xn Xm F", "F Xm Xn", "Xm F Xn", "Xm Xn F", "F Xn F Xm",
	"F Xnm", "Xnm F", "F Xnm F", "Xn F Xnm", "F Xnm Xm",
	"F Xca", "Xca F", "F F Xca", "Xca F Xn", "F Xca Xm", "Xn Xca",
	"Xn Xm", "Xm Xn", "Xn Xn Xm", "Xn Xnm Xca",
	"F F", "F F F",
	"Xe0", "XeM", "XeL", "F Xe0", "XeL F", "F XeM F", "Xe0 Xm", "Xm XeL", "Xn XeM", "XeM Xn", "F Xe0 Xm", "Xe0 F Xm", "Xn XeL F",
	"Xm Xd", "Xn Xd", "F Xn Xd", "Xn F Xd", "Xn Xd F", "Xn Xd Xm", "Xm Xd Xn", "F Xm Xd",
	"Xbad F", "F Xbad", "F Xbad Xm", "Xm Xbad", "Xn F Xbad",
	"Nosep Xm", "Xm Nosep", "F Nosep Xm", "Xn Nosep",
}

var foreignIDs = []string{"acme.identity:release-team", "foo:bar", "x509.subjectX:C=US,ST=WA,O=x", ":x", "x509:C=US,ST=WA,O=Notary", "oidc.subject:https://issuer.example/alice"}

func renderOrdered(rng *Rng, d []attr) string {
	parts := freeRender(rng, d)
	for i, x := range d {
		if x.V == "" {
			parts[i] = x.T + "="
		}
	}
	return asciiize(joinParts(rng, parts))
}

func genShape(rng *Rng, c *apiChain, shape string) []string {
	base := c.maps[0]
	if base == nil {
		base = c.intended
	}
	if base == nil {
		base = map[string]string{"C": "US", "ST": "WA", "O": "Notary"}
	}
	keys := make([]string, 0, len(base))
	for k := range base {
		keys = append(keys, k)
	}
	sort.Strings(keys)
	x := func(m map[string]string) string { return "x509.subject:" + renderIdentity(rng, m) }
	matching := func() map[string]string {
		m := map[string]string{}
		full := rng.Bool()
		for _, k := range keys {
			if full || k == "C" || k == "ST" || k == "O" || rng.Chance(1, 3) {
				m[k] = base[k]
			}
		}
		return m
	}
	var out []string
	var lastX map[string]string
	nF, nN := 0, 0
	for _, tok := range strings.Fields(shape) {
		switch tok {
		case "F":
			out = append(out, foreignIDs[(nF+rng.Intn(2))%len(foreignIDs)])
			nF += 2
		case "Xm":
			lastX = matching()
			out = append(out, x(lastX))
		case "Xn":
			nN++
			lastX = map[string]string{"C": "FR", "ST": "IDF", "O": fmt.Sprintf("Autre %d", nN), "CN": "someone else"}
			out = append(out, x(lastX))
		case "Xnm":
			m := matching()
			ks := make([]string, 0, len(m))
			for k := range m {
				ks = append(ks, k)
			}
			sort.Strings(ks)
			k := Pick(rng, ks)
			m[k] = nearMiss(rng, m[k])
			lastX = m
			out = append(out, x(m))
		case "Xca":
			j := len(c.maps) - 1
			if j > 1 && rng.Bool() {
				j = 1
			}
			m := map[string]string{"C": "DE", "ST": "BY", "O": "Verif CA", "CN": "nobody"}
			if j >= 1 && c.maps[j] != nil {
				m = cloneMap(c.maps[j])
				if rng.Bool() {
					delete(m, "CN")
				}
			}
			lastX = m
			out = append(out, x(m))
		case "Xe0", "XeM", "XeL":
			m := matching()
			d := make([]attr, 0, len(m)+1)
			for _, k := range keys {
				if v, ok := m[k]; ok {
					d = append(d, attr{k, v})
				}
			}
			Shuffle(rng, d)
			// an attribute type the leaf does not carry
			et := "XQ"
			for _, t := range []string{"CN", "OU", "L"} {
				if _, ok := base[t]; !ok && rng.Bool() {
					et = t
					break
				}
			}
			e := attr{et, ""}
			switch tok {
			case "Xe0":
				d = append([]attr{e}, d...)
			case "XeL":
				d = append(d, e)
			default:
				mid := len(d) / 2
				d = append(d[:mid:mid], append([]attr{e}, d[mid:]...)...)
			}
			m[et] = ""
			lastX = m
			out = append(out, "x509.subject:"+renderOrdered(rng, d))
		case "Xd":
			if lastX == nil {
				lastX = matching()
			}
			out = append(out, x(lastX))
		case "Xbad":
			out = append(out, Pick(rng, []string{"x509.subject:CN=foo", "x509.subject:C=US,ST=WA,O=x,", "x509.subject:C=US,ST=WA,O=", "x509.subject:C=US+ST=WA,O=x", "x509.subject:C=US,ST=WA,O=x,C=US", "x509.subject:"}))
		case "Nosep":
			out = append(out, Pick(rng, []string{"garbage", "x509.subject", "x509.subject;C=US"}))
		}
	}
	return out
}
