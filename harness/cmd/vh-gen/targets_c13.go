package main

// C13: GoLite targets (docs/GOLITE_NOTES.md).
func init() {
	const ts = ".../verifier/truststore"
	Register("C13", []Target{
		{Pkg: ".../internal/file", Func: "IsValidFileName"},
		{Pkg: ".../internal/file", Func: "TrimFileExtension"},
		// certificates are values of a dependency (crypto/x509): opaque, seen through views
		{Pkg: "crypto/x509", Type: "Certificate", Opaque: true, Views: map[string]string{
			"IsCA":               "bool",
			"SignatureAlgorithm": "Z",
			"RawTBSCertificate":  "list Z",
			"Signature":          "list Z",
			"RawSubject":         "list Z",
			"RawIssuer":          "list Z",
		}},
		{Pkg: "crypto/x509", Func: "(*Certificate).CheckSignature", Oracle: true},
		{Pkg: "crypto/x509", Func: "(*Certificate).CheckSignatureFrom", Oracle: true},
		{Pkg: "bytes", Func: "Equal", Oracle: true},
		{Pkg: ".../internal/slices", Func: "Contains"},
		{Pkg: ts, Func: "isValidStoreType"},
		{Pkg: ts, Func: "ValidateCertificates"},
		{Pkg: ts, Func: "isRootCACertificate"},
		// GetCertificates itself is outside the subset; the rows below keep the reason in the log
		// (docs/audit/C13.md, section GoLite): variadic calls (truststore.go:74 SysPath and
		// dir.X509TrustStoreDir, :98 filepath.Join), the bit test mode&fs.ModeSymlink (:87),
		// append(certificates, certs...) (:117).
		{Pkg: ".../dir", Type: "SysFS", Opaque: true},
		{Pkg: "path/filepath", Func: "Join", Oracle: true},
		{Pkg: ts, Func: "(*x509TrustStore).GetCertificates"},
	})
}
