package main

// C13: GoLite targets (docs/GOLITE_NOTES.md).
func init() {
	Register("C13", []Target{
		{Pkg: ".../internal/file", Func: "IsValidFileName"},
		{Pkg: ".../internal/file", Func: "TrimFileExtension"},
	})
}
