package main

// C13: GoLite targets (docs/GOLITE_NOTES.md).
func init() {
	const ts = ".../verifier/truststore"
	Register("C13", []Target{
		{Pkg: ".../internal/file", Func: "IsValidFileName"},
		{Pkg: ".../internal/file", Func: "TrimFileExtension"},
		// certificates are values of a dependency (crypto/x509): opaque, seen through views
		{Pkg: "crypto/x509", Type: "Certificate", Opaque: true, Views: map[string]string{
			"IsCA":               "bool",
			"SignatureAlgorithm": "Z",
			"RawTBSCertificate":  "list Z",
			"Signature":          "list Z",
			"RawSubject":         "list Z",
			"RawIssuer":          "list Z",
		}},
		{Pkg: "crypto/x509", Func: "(*Certificate).CheckSignature", Oracle: true},
		{Pkg: "crypto/x509", Func: "(*Certificate).CheckSignatureFrom", Oracle: true},
		{Pkg: "bytes", Func: "Equal", Oracle: true},
		{Pkg: ".../internal/slices", Func: "Contains"},
		{Pkg: ts, Func: "isValidStoreType"},
		{Pkg: ts, Func: "ValidateCertificates"},
		{Pkg: ts, Func: "isRootCACertificate"},
		// GetCertificates: the OS and the parser are oracles
		{Pkg: ".../dir", Type: "SysFS", Opaque: true},
		{Pkg: ".../dir", Func: "SysFS.SysPath", Oracle: true},
		{Pkg: ".../dir", Func: "X509TrustStoreDir", Oracle: true},
		{Pkg: "io/fs", Type: "FileInfo", Opaque: true, Views: map[string]string{"Mode()": "Z"}},
		{Pkg: "io/fs", Type: "DirEntry", Opaque: true, Views: map[string]string{"Name()": "string", "Type()": "Z"}},
		{Pkg: "io/fs", Func: "FileMode.IsDir"},
		{Pkg: "io/fs", Func: "FileMode.IsRegular"},
		{Pkg: "io/fs", Func: "FileMode.Type"},
		{Pkg: "os", Func: "Lstat", Oracle: true},
		{Pkg: "os", Func: "IsNotExist", Oracle: true},
		{Pkg: "os", Func: "ReadDir", Oracle: true},
		{Pkg: "path/filepath", Func: "Join", Oracle: true},
		{Pkg: "github.com/notaryproject/notation-core-go/x509", Func: "ReadCertificateFile", Oracle: true},
		{Pkg: ts, Func: "(*x509TrustStore).GetCertificates"},
	})
}
