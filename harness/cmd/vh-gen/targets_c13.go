package main

// C13: GoLite targets (docs/GOLITE_NOTES.md).
func init() {
	const ts = ".../verifier/truststore"
	Register("C13", []Target{
		{Pkg: ".../internal/file", Func: "IsValidFileName"},
		{Pkg: ".../internal/file", Func: "TrimFileExtension"},
		// certificates are values of a dependency (crypto/x509): opaque, seen through views
		{Pkg: "crypto/x509", Type: "Certificate", Opaque: true, Views: map[string]string{
			"IsCA":               "bool",
			"SignatureAlgorithm": "Z",
			"RawTBSCertificate":  "list Z",
			"Signature":          "list Z",
			"RawSubject":         "list Z",
			"RawIssuer":          "list Z",
		}},
		{Pkg: "crypto/x509", Func: "(*Certificate).CheckSignature", Oracle: true},
		{Pkg: "crypto/x509", Func: "(*Certificate).CheckSignatureFrom", Oracle: true},
		{Pkg: "bytes", Func: "Equal", Oracle: true},
		{Pkg: ".../internal/slices", Func: "Contains"},
		{Pkg: ts, Func: "isValidStoreType"},
		{Pkg: ts, Func: "ValidateCertificates"},
		{Pkg: ts, Func: "isRootCACertificate"},
	})
}
