package main

// C18: GoLite targets (docs/GOLITE_NOTES.md).
func init() {
	Register("C18", []Target{
		{Pkg: "oras.land/oras-go/v2/content", Func: "Equal"},
		{Pkg: ".../signer", Func: "isDescriptorSubset"},
		{Pkg: ".../signer", Func: "isPayloadDescriptorValid"},
	})
}
