package main

// C18: GoLite targets (docs/GOLITE_NOTES.md). Theorems: coq/props/C18_Generated.v
// (proofs in coq/theories/C18_GenProofs.v), table in docs/audit/C18.md section "GoLite".
func init() {
	const fw = "github.com/notaryproject/notation-plugin-framework-go/plugin"
	const alg = "github.com/notaryproject/notation-core-go/internal/algorithm"
	Register("C18", []Target{
		// descriptor equality and annotation preservation (clauses 4, 5)
		{Pkg: "oras.land/oras-go/v2/content", Func: "Equal"},
		{Pkg: ".../signer", Func: "isDescriptorSubset"},
		{Pkg: ".../signer", Func: "isPayloadDescriptorValid"},
		// key spec / hash codecs (clause 8, all six key specs)
		{Pkg: ".../plugin/proto", Func: "DecodeKeySpec"},
		{Pkg: ".../plugin/proto", Func: "EncodeKeySpec"},
		{Pkg: ".../plugin/proto", Func: "HashAlgorithmFromKeySpec"},
		{Pkg: alg, Func: "KeySpec.SignatureAlgorithm"},
		{Pkg: alg, Func: "Algorithm.Hash"},
		{Pkg: ".../signer", Func: "getDescriptor"}, // SignBlob: digest algorithm handed to the descriptor generator
		// payload type (clause 3), the descriptor the generic signer signs itself
		{Pkg: ".../internal/envelope", Func: "ValidatePayloadContentType"},
		{Pkg: ".../internal/envelope", Func: "SanitizeTargetArtifact"},
		// capability dispatch
		{Pkg: fw, Func: "(*GetMetadataResponse).HasCapability"},
		// the plugin: an opaque value; its commands are oracles (one function for every plugin value)
		{Pkg: fw, Type: "SignPlugin", Opaque: true},
		{Pkg: fw, Func: "SignPlugin.DescribeKey", Oracle: true, AnyReceiver: true},
		{Pkg: fw, Func: "SignPlugin.GenerateSignature", Oracle: true, AnyReceiver: true},
		{Pkg: fw, Func: "SignPlugin.GetMetadata", Oracle: true},
		// key id echo, nil answers, key spec decoding (clauses 7, 8, 10)
		{Pkg: ".../signer", Func: "(*PluginSigner).describeKey"},
		{Pkg: ".../signer", Func: "(*PluginSigner).getKeySpec"},
		{Pkg: ".../signer", Func: "(*PluginSigner).mergeConfig"},
		{Pkg: "crypto/x509", Type: "Certificate", Opaque: true},
		// make([]*x509.Certificate, n) + element assignment (signer/plugin.go:341) and crypto/x509: oracle
		{Pkg: ".../signer", Func: "parseCertChain", Oracle: true},
		{Pkg: ".../signer", Func: "(*pluginPrimitiveSigner).Sign"},
		// Outside the subset, hence oracles of Sign / SignBlob:
		// generateSignatureEnvelope: json.Marshal(any) signer/plugin.go:186, json.Unmarshal(content, &signedPayload)
		// :230 (callee writes through a pointer), s.manifestAnnotations = .. :239 (write through the receiver),
		// signature.ParseEnvelope / Envelope.Verify (notation-core-go interface with several methods);
		// generateSignature: builds a GenericSigner (struct without translatable field, signer/plugin.go:166)
		// whose Sign calls json.Marshal and notation-core-go.
		{Pkg: ".../signer", Func: "(*PluginSigner).generateSignatureEnvelope", Oracle: true},
		{Pkg: ".../signer", Func: "(*PluginSigner).generateSignature", Oracle: true},
		// dispatch, nil metadata, error wrapping (clauses 7, 9, 10)
		{Pkg: ".../signer", Func: "(*PluginSigner).Sign"},
		{Pkg: ".../signer", Func: "(*PluginSigner).SignBlob"},
		// kept as documentation: refused (closures, signer/plugin.go:302; forEachObjectMember needs
		// encoding/json.Decoder and a `for dec.More()` loop). The member scan stays tied to the code by
		// the correspondence harness (model: C18_Json.unknown_attrs).
		{Pkg: ".../signer", Func: "areUnknownAttributesAdded"},
	})
}
