package main

// Targets of the other properties (one table per property).
func init() {
	Register("C04", []Target{
		{Pkg: ".../internal/pkix", Func: "IsSubsetDN"},
	})
	Register("C13", []Target{
		{Pkg: ".../internal/file", Func: "IsValidFileName"},
		{Pkg: ".../internal/file", Func: "TrimFileExtension"},
	})
	Register("C20", []Target{
		{Pkg: ".../internal/semver", Func: "IsValid"},
		{Pkg: "golang.org/x/mod/semver", Func: "Compare", Oracle: true},
		{Pkg: ".../internal/semver", Func: "ComparePluginVersion"},
	})
	Register("C16", []Target{
		{Pkg: ".../plugin", Func: "validatePluginName"},
		{Pkg: ".../plugin", Func: "parsePluginName"},
		// any is not in the subset: kept as the standing example of a refused target
		{Pkg: ".../internal/slices", Func: "ContainsAny"},
	})
	Register("C02", []Target{
		{Pkg: ".../verifier", Func: "isCriticalFailure", NonNil: true},
	})
	Register("C03", []Target{
		{Pkg: "crypto/x509", Type: "Certificate", Opaque: true},
		{Pkg: ".../internal/container", Func: "New"},
		{Pkg: ".../internal/container", Func: "Set.Add"},
		{Pkg: ".../internal/container", Func: "Set.Contains"},
		{Pkg: ".../verifier", Func: "loadX509TrustStoresWithType"},
		{Pkg: ".../verifier", Func: "loadX509TrustStores"},
		{Pkg: ".../verifier", Func: "loadX509TSATrustStores"},
		{Pkg: ".../verifier", Func: "isTSATrustStoreInPolicy"},
	})
	Register("C05", []Target{
		{Pkg: "crypto/x509", Type: "Certificate", Opaque: true, Views: map[string]string{"Subject.String()": "string"}},
		{Pkg: ".../verifier", Func: "revocationFinalResult"},
	})
	Register("C15", []Target{
		{Pkg: "time", Func: "Now", Oracle: true},
		{Pkg: ".../verifier/crl", Func: "checkExpiry"},
	})
	Register("C18", []Target{
		{Pkg: "oras.land/oras-go/v2/content", Func: "Equal"},
		{Pkg: ".../signer", Func: "isDescriptorSubset"},
		{Pkg: ".../signer", Func: "isPayloadDescriptorValid"},
	})
}
