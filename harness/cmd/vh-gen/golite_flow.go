package main

// Path-sensitive ownership of map fields (docs/GOLITE.md, Phase 3).
//
// A write `x.f[k] = v` / delete(x.f, k) is safe for a translation without heap
// when the map in x.f was created in this function: nobody else can see it.
// ownedWrites decides this with a forward must-analysis over the statements
// of the body. A fact is "x.f holds a map created here", unconditionally or
// under one guard `len(E) > 0`:
//
//	if len(E) > 0 { x.f = <fresh map> }      // afterwards: owned provided len(E) > 0
//	for k, v := range E { x.f[k] = v }       // inside the body len(E) > 0 holds: owned
//
// Facts are intersected at joins (a guarded and an unguarded fact give the
// guarded one), and die when x, x.f or (for a guarded fact) E is assigned,
// written through, handed to a callee that writes through it, or mentioned by
// a function literal.

import (
	"go/ast"
	"go/token"
	"go/types"
	"strings"
)

type ownState map[string]string // path of x.f -> "" (owned) | path of E (owned provided len(E) > 0)

func (s ownState) clone() ownState {
	t := ownState{}
	for k, v := range s {
		t[k] = v
	}
	return t
}

func meetOwn(a, b ownState) ownState {
	out := ownState{}
	for k, ga := range a {
		gb, ok := b[k]
		if !ok {
			continue
		}
		switch {
		case ga == gb:
			out[k] = ga
		case ga == "":
			out[k] = gb
		case gb == "":
			out[k] = ga
		}
	}
	return out
}

type ownFlow struct {
	c     *fn
	owned map[ast.Expr]bool // the map expression of a write -> owned at that point
}

// ownedWrites: for every map write through a field path in the body, whether the map is owned there.
func (c *fn) ownedWrites() map[ast.Expr]bool {
	if c.ownedAt != nil {
		return c.ownedAt
	}
	f := &ownFlow{c: c, owned: map[ast.Expr]bool{}}
	c.ownedAt = f.owned
	if c.decl != nil && c.decl.Body != nil {
		f.block(c.decl.Body.List, ownState{})
	}
	return c.ownedAt
}

// terminates: control does not pass the statement list (it ends in return / panic).
func (f *ownFlow) terminates(list []ast.Stmt) bool {
	if len(list) == 0 {
		return false
	}
	switch s := list[len(list)-1].(type) {
	case *ast.ReturnStmt:
		return true
	case *ast.BlockStmt:
		return f.terminates(s.List)
	case *ast.ExprStmt:
		if call, ok := s.X.(*ast.CallExpr); ok {
			if id, ok := unparen(call.Fun).(*ast.Ident); ok && id.Name == "panic" {
				return true
			}
		}
	case *ast.IfStmt:
		if s.Else == nil {
			return false
		}
		var el []ast.Stmt
		switch e := s.Else.(type) {
		case *ast.BlockStmt:
			el = e.List
		default:
			el = []ast.Stmt{e}
		}
		return f.terminates(s.Body.List) && f.terminates(el)
	}
	return false
}

// guardOf: cond is `len(E) > 0` / `len(E) != 0` (true side) or `len(E) == 0` (false side); E a variable or field path.
func (f *ownFlow) guardOf(cond ast.Expr) (guard string, onTrue bool) {
	be, ok := unparen(cond).(*ast.BinaryExpr)
	if !ok {
		return "", false
	}
	call, ok := unparen(be.X).(*ast.CallExpr)
	if !ok || len(call.Args) != 1 {
		return "", false
	}
	if id, ok := unparen(call.Fun).(*ast.Ident); !ok || id.Name != "len" {
		return "", false
	}
	tv, ok := f.c.info.Types[be.Y]
	if !ok || tv.Value == nil || tv.Value.String() != "0" {
		return "", false
	}
	p := f.c.pathString(call.Args[0])
	if p == "" {
		return "", false
	}
	switch be.Op {
	case token.GTR, token.NEQ:
		return p, true
	case token.EQL:
		return p, false
	}
	return "", false
}

func (f *ownFlow) promote(st ownState, guard string) ownState {
	out := st.clone()
	for k, g := range out {
		if g == guard && guard != "" {
			out[k] = ""
		}
	}
	return out
}

// kill removes what an assignment to / a write through the path (or its root) invalidates.
func (f *ownFlow) kill(st ownState, path string) {
	if path == "" {
		return
	}
	for k, g := range st {
		if k == path || strings.HasPrefix(k, path+".") || strings.HasPrefix(path, k+".") {
			delete(st, k)
			continue
		}
		if g != "" && (g == path || strings.HasPrefix(g, path+".") || strings.HasPrefix(path, g+".")) {
			delete(st, k)
		}
	}
}

func (f *ownFlow) rootPath(e ast.Expr) string {
	if id := f.c.rootIdent(e); id != nil {
		return f.c.pathString(id)
	}
	return ""
}

// freshMap: e certainly evaluates to a map nobody else refers to afterwards: make / a literal, or a local
// variable holding such a map that is not mentioned after pos.
func (f *ownFlow) freshMap(e ast.Expr, after token.Pos) bool {
	c := f.c
	e = unparen(e)
	if _, ok := resolve(c.tyOf(e), c.sub).Underlying().(*types.Map); !ok {
		return false
	}
	switch x := e.(type) {
	case *ast.CompositeLit:
		return true
	case *ast.CallExpr:
		if id, ok := unparen(x.Fun).(*ast.Ident); ok {
			if b, ok := c.info.Uses[id].(*types.Builtin); ok && b.Name() == "make" {
				return true
			}
		}
	case *ast.Ident:
		o := c.objOf(x)
		if o == nil || !c.isLocal(o) || !c.mutable[o] {
			return false
		}
		later := false
		ast.Inspect(c.decl.Body, func(n ast.Node) bool {
			if id, ok := n.(*ast.Ident); ok && id.Pos() > after && c.objOf(id) == o {
				later = true
			}
			return !later
		})
		return !later
	}
	return false
}

// effects applies what the expressions inside a simple statement do to the facts (calls that write
// through an argument, function literals).
func (f *ownFlow) effects(n ast.Node, st ownState) {
	c := f.c
	ast.Inspect(n, func(x ast.Node) bool {
		switch y := x.(type) {
		case *ast.FuncLit:
			ast.Inspect(y, func(z ast.Node) bool {
				if id, ok := z.(*ast.Ident); ok {
					f.kill(st, c.pathString(id))
				}
				return true
			})
			return false
		case *ast.CallExpr:
			if id, ok := unparen(y.Fun).(*ast.Ident); ok {
				if b, ok := c.info.Uses[id].(*types.Builtin); ok {
					if b.Name() == "delete" && len(y.Args) == 2 {
						f.write(y.Args[0], st)
					}
					return true
				}
			}
			if tv, isT := c.info.Types[y.Fun]; isT && tv.IsType() {
				return true
			}
			fi, _, recv := c.calleeInfoSafe(y)
			if fi == nil {
				return true
			}
			args := y.Args
			if recv != nil {
				args = append([]ast.Expr{recv}, args...)
			}
			for i, a := range args {
				if i < len(fi.params) && fi.params[i].inout {
					f.kill(st, f.rootPath(a))
				}
			}
		}
		return true
	})
}

// write records a write to the map expression m.
func (f *ownFlow) write(m ast.Expr, st ownState) {
	m = unparen(m)
	if _, isSel := m.(*ast.SelectorExpr); !isSel {
		return
	}
	p := f.c.pathString(m)
	g, ok := st[p]
	f.owned[m] = ok && g == "" && p != ""
}

func (f *ownFlow) assign(lhs, rhs ast.Expr, pos token.Pos, st ownState) {
	c := f.c
	lhs = unparen(lhs)
	if ix, ok := lhs.(*ast.IndexExpr); ok {
		if _, isMap := resolve(c.tyOf(ix.X), c.sub).Underlying().(*types.Map); isMap {
			f.write(ix.X, st)
			// the content of the map changes: facts guarded by its length die
			p := c.pathString(ix.X)
			for k, g := range st {
				if g != "" && g == p {
					delete(st, k)
				}
			}
			return
		}
	}
	p := c.pathString(lhs)
	if p == "" {
		f.kill(st, f.rootPath(lhs))
		return
	}
	f.kill(st, p)
	if _, isSel := lhs.(*ast.SelectorExpr); isSel && rhs != nil && f.freshMap(rhs, pos) {
		st[p] = ""
	}
}

func (f *ownFlow) block(list []ast.Stmt, st ownState) ownState {
	for _, s := range list {
		st = f.stmt(s, st)
	}
	return st
}

func (f *ownFlow) stmt(s ast.Stmt, st ownState) ownState {
	c := f.c
	switch x := s.(type) {
	case *ast.BlockStmt:
		return f.block(x.List, st)
	case *ast.AssignStmt:
		f.effects(x, st)
		for i, l := range x.Lhs {
			var r ast.Expr
			if len(x.Lhs) == len(x.Rhs) && (x.Tok == token.ASSIGN || x.Tok == token.DEFINE) {
				r = x.Rhs[i]
			}
			f.assign(l, r, x.End(), st)
		}
		return st
	case *ast.IncDecStmt:
		f.assign(x.X, nil, x.End(), st)
		return st
	case *ast.IfStmt:
		if x.Init != nil {
			st = f.stmt(x.Init, st)
		}
		f.effects(x.Cond, st)
		guard, onTrue := f.guardOf(x.Cond)
		sThen, sElse := st.clone(), st.clone()
		if guard != "" {
			if onTrue {
				sThen = f.promote(sThen, guard)
			} else {
				sElse = f.promote(sElse, guard)
			}
		}
		before := st.clone()
		sThen = f.block(x.Body.List, sThen)
		thenEnds := f.terminates(x.Body.List)
		elseEnds := false
		if x.Else != nil {
			sElse = f.stmt(x.Else, sElse)
			switch e := x.Else.(type) {
			case *ast.BlockStmt:
				elseEnds = f.terminates(e.List)
			default:
				elseEnds = f.terminates([]ast.Stmt{e})
			}
		}
		switch {
		case thenEnds && elseEnds:
			return ownState{}
		case thenEnds:
			return sElse
		case elseEnds:
			return sThen
		}
		out := meetOwn(sThen, sElse)
		if guard != "" {
			// the side on which len(E) = 0 need not own what the other side owns: owned provided len(E) > 0
			nonEmpty, empty := sThen, sElse
			if !onTrue {
				nonEmpty, empty = sElse, sThen
			}
			for k, g := range nonEmpty {
				if g != "" {
					continue
				}
				if _, has := out[k]; has {
					continue
				}
				// the guard must still mean the same: E untouched on both sides (facts guarded by it survived or E was never killed)
				if _, was := empty[k]; was {
					continue
				}
				probe := ownState{"#probe": guard}
				_ = before
				f.replayKills(x, probe)
				if _, alive := probe["#probe"]; alive {
					out[k] = guard
				}
			}
		}
		return out
	case *ast.RangeStmt:
		f.effects(x.X, st)
		guard := c.pathString(x.X)
		in := st.clone()
		for iter := 0; iter < 3; iter++ {
			body := f.promote(in, guard)
			if x.Tok == token.ASSIGN {
				if x.Key != nil {
					f.assign(x.Key, nil, x.Pos(), body)
				}
				if x.Value != nil {
					f.assign(x.Value, nil, x.Pos(), body)
				}
			}
			out := f.block(x.Body.List, body)
			// facts at the head of the next iteration: what held at the head and still holds at the end
			next := ownState{}
			for k, g := range in {
				og, ok := out[k]
				if ok && (og == g || og == "") {
					next[k] = g
				}
			}
			if len(next) == len(in) {
				break
			}
			in = next
		}
		return meetOwn(st, in)
	case *ast.ForStmt:
		if x.Init != nil {
			st = f.stmt(x.Init, st)
		}
		in := st.clone()
		for iter := 0; iter < 3; iter++ {
			body := in.clone()
			if x.Cond != nil {
				f.effects(x.Cond, body)
			}
			out := f.block(x.Body.List, body)
			if x.Post != nil {
				out = f.stmt(x.Post, out)
			}
			next := meetOwn(in, out)
			if len(next) == len(in) {
				same := true
				for k, g := range in {
					if next[k] != g {
						same = false
					}
				}
				if same {
					break
				}
			}
			in = next
		}
		return in
	case *ast.SwitchStmt, *ast.TypeSwitchStmt:
		var body *ast.BlockStmt
		hasDefault := false
		switch y := x.(type) {
		case *ast.SwitchStmt:
			if y.Init != nil {
				st = f.stmt(y.Init, st)
			}
			if y.Tag != nil {
				f.effects(y.Tag, st)
			}
			body = y.Body
		case *ast.TypeSwitchStmt:
			if y.Init != nil {
				st = f.stmt(y.Init, st)
			}
			body = y.Body
		}
		var outs []ownState
		for _, cl := range body.List {
			cc := cl.(*ast.CaseClause)
			if cc.List == nil {
				hasDefault = true
			}
			s0 := st.clone()
			for _, e := range cc.List {
				f.effects(e, s0)
			}
			o := f.block(cc.Body, s0)
			if !f.terminates(cc.Body) {
				outs = append(outs, o)
			}
		}
		if !hasDefault {
			outs = append(outs, st)
		}
		if len(outs) == 0 {
			return ownState{}
		}
		res := outs[0]
		for _, o := range outs[1:] {
			res = meetOwn(res, o)
		}
		return res
	case *ast.DeclStmt:
		f.effects(x, st)
		return st
	case *ast.ReturnStmt, *ast.ExprStmt, *ast.DeferStmt, *ast.GoStmt, *ast.SendStmt:
		f.effects(x, st)
		return st
	case *ast.BranchStmt, *ast.EmptyStmt:
		return st
	case *ast.LabeledStmt:
		return ownState{}
	}
	return ownState{}
}

// replayKills applies the kills of every statement inside n to st (used to see whether a guard
// expression is left alone by both branches of an if).
func (f *ownFlow) replayKills(n ast.Node, st ownState) {
	c := f.c
	ast.Inspect(n, func(x ast.Node) bool {
		switch y := x.(type) {
		case *ast.AssignStmt:
			for _, l := range y.Lhs {
				l = unparen(l)
				if ix, ok := l.(*ast.IndexExpr); ok {
					p := c.pathString(ix.X)
					for k, g := range st {
						if g == p {
							delete(st, k)
						}
					}
					continue
				}
				if p := c.pathString(l); p != "" {
					f.kill(st, p)
				} else {
					f.kill(st, f.rootPath(l))
				}
			}
		case *ast.IncDecStmt:
			f.kill(st, f.rootPath(y.X))
		case *ast.CallExpr, *ast.FuncLit:
			saved := f.owned
			f.owned = map[ast.Expr]bool{}
			f.effects(y, st)
			f.owned = saved
			if _, isLit := y.(*ast.FuncLit); isLit {
				return false
			}
		}
		return true
	})
}
