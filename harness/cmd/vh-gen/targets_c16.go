package main

// C16: GoLite targets (docs/GOLITE_NOTES.md).
func init() {
	Register("C16", []Target{
		{Pkg: ".../plugin", Func: "validatePluginName"},
		{Pkg: ".../plugin", Func: "parsePluginName"},
		// any is not in the subset: kept as the standing example of a refused target
		{Pkg: ".../internal/slices", Func: "ContainsAny"},
	})
}
