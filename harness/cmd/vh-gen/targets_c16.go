package main

// C16: GoLite targets (docs/GOLITE_NOTES.md). Theorems: coq/props/C16_Generated.v,
// table and what stays outside: docs/audit/C16.md section "GoLite".
func init() {
	const core = "github.com/notaryproject/notation-core-go/signature"
	Register("C16", []Target{
		// the name checks and derivations of the plugin manager
		{Pkg: ".../plugin", Func: "validatePluginName"},
		{Pkg: ".../plugin", Func: "parsePluginName"},
		{Pkg: ".../plugin", Func: "binName"},

		// NewCLIPlugin: the stat of the executable path (tail of CLIManager.Get)
		{Pkg: "os", Func: "Stat", Oracle: true},
		{Pkg: "io/fs", Type: "FileInfo", Opaque: true, Views: map[string]string{"Mode().IsRegular()": "bool", "Mode()": "Z"}},
		{Pkg: ".../plugin", Func: "NewCLIPlugin"},

		// the metadata a plugin process printed: validate (GetMetadata itself calls
		// run(.., req plugin.Request, resp interface{}): outside the subset)
		{Pkg: ".../internal/slices", Func: "Contains"},
		{Pkg: ".../plugin", Func: "validate", NonNil: true},

		// the verifier: the signature-supplied name (and minimum version)
		{Pkg: core, Type: "SignerInfo", Opaque: true},
		{Pkg: core, Func: "(*SignerInfo).ExtendedAttribute", Oracle: true},
		{Pkg: ".../verifier", Func: "extractCriticalStringExtendedAttribute"},
		{Pkg: ".../verifier", Func: "getVerificationPlugin"},
		{Pkg: ".../internal/semver", Func: "IsValid", Oracle: true},
		{Pkg: ".../verifier", Func: "getVerificationPluginMinVersion"},

		// the manager: path derivation and the name operations
		{Pkg: "path/filepath", Func: "Join", Oracle: true},
		{Pkg: ".../dir", Func: "sysFS.SysPath"},
		// the manager holds its file system as the interface dir.SysFS: the method is an oracle,
		// constrained in the theorems to answer like the translated sysFS.SysPath
		{Pkg: ".../dir", Func: "SysFS.SysPath", Oracle: true},
		{Pkg: "os", Func: "RemoveAll", Oracle: true},
		{Pkg: ".../plugin", Func: "(*CLIManager).Uninstall"},
		{Pkg: "io/fs", Func: "FileMode.IsRegular"},
		{Pkg: "io/fs", Func: "FileMode.Perm"},
		{Pkg: ".../plugin", Func: "isExecutableFile"},

		// Get returns the interface plugin.Plugin: every value of it in the translated code holds a
		// *CLIPlugin (Concrete); the value is ptr (ptr CLIPlugin), the typed nil kept exactly
		{Pkg: "path", Func: "Join", Oracle: true},
		{Pkg: "github.com/notaryproject/notation-plugin-framework-go/plugin", Type: "Plugin", Nilable: true, Concrete: ".../plugin.CLIPlugin"},
		{Pkg: ".../plugin", Func: "(*CLIManager).Get"},

		// listing and the scan of an install source: fs.WalkDir / filepath.WalkDir (oracle option
		// Walk: the oracle supplies the tree the walk sees, GoLib.walk_dir is io/fs/walk.go)
		{Pkg: "io/fs", Type: "DirEntry", Opaque: true, Nilable: true},
		{Pkg: "io/fs", Func: "DirEntry.Type", Oracle: true},
		{Pkg: "io/fs", Func: "DirEntry.Name", Oracle: true},
		{Pkg: "io/fs", Func: "DirEntry.IsDir", Oracle: true},
		{Pkg: "io/fs", Func: "DirEntry.Info", Oracle: true},
		{Pkg: "io/fs", Func: "FileMode.IsDir"},
		{Pkg: "io/fs", Func: "WalkDir", Oracle: true, Walk: "fn", DropParams: []string{"fsys"}},
		{Pkg: "path/filepath", Func: "WalkDir", Oracle: true, Walk: "fn"},
		{Pkg: ".../plugin", Func: "setExecutable", Oracle: true},
		{Pkg: ".../plugin", Func: "(*CLIManager).List"},
		{Pkg: ".../plugin", Func: "parsePluginFromDir"},
		{Pkg: ".../internal/slices", Func: "ContainsAny"},
	})

	// CLIManager.Install needs the interface plugin.Plugin as an opaque nilable value (it calls
	// GetMetadata through it), which excludes the Concrete row Get needs: a table of its own
	// (theories/C16_Install_Gen.v). Everything Install calls is an oracle here.
	const fw = "github.com/notaryproject/notation-plugin-framework-go/plugin"
	Register("C16_Install", []Target{
		{Pkg: fw, Type: "Plugin", Opaque: true, Nilable: true},
		{Pkg: fw, Func: "GenericPlugin.GetMetadata", Oracle: true},
		{Pkg: ".../plugin", Func: "(*CLIPlugin).GetMetadata", Oracle: true},
		{Pkg: ".../plugin", Func: "NewCLIPlugin", Oracle: true},
		{Pkg: ".../plugin", Func: "(*CLIManager).Get", Oracle: true},
		{Pkg: ".../plugin", Func: "(*CLIManager).Uninstall", Oracle: true},
		{Pkg: ".../plugin", Func: "parsePluginFromDir", Oracle: true},
		{Pkg: ".../plugin", Func: "parsePluginName", Oracle: true},
		{Pkg: ".../plugin", Func: "isExecutableFile", Oracle: true},
		{Pkg: ".../plugin", Func: "isSameDir", Oracle: true},
		{Pkg: ".../dir", Func: "SysFS.SysPath", Oracle: true},
		{Pkg: ".../internal/file", Func: "CopyToDir", Oracle: true},
		{Pkg: ".../internal/file", Func: "CopyDirToDir", Oracle: true},
		{Pkg: "path/filepath", Func: "EvalSymlinks", Oracle: true},
		{Pkg: "path/filepath", Func: "Dir", Oracle: true},
		{Pkg: ".../internal/semver", Func: "ComparePluginVersion", Oracle: true},
		{Pkg: ".../plugin", Func: "(*CLIManager).Install"},
	})
}
