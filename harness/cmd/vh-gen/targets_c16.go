package main

// C16: GoLite targets (docs/GOLITE_NOTES.md). Theorems: coq/props/C16_Generated.v,
// table and what stays outside: docs/audit/C16.md section "GoLite".
func init() {
	const core = "github.com/notaryproject/notation-core-go/signature"
	Register("C16", []Target{
		// the name checks and derivations of the plugin manager
		{Pkg: ".../plugin", Func: "validatePluginName"},
		{Pkg: ".../plugin", Func: "parsePluginName"},
		{Pkg: ".../plugin", Func: "binName"},

		// NewCLIPlugin: the stat of the executable path (tail of CLIManager.Get)
		{Pkg: "os", Func: "Stat", Oracle: true},
		{Pkg: "io/fs", Type: "FileInfo", Opaque: true, Views: map[string]string{"Mode().IsRegular()": "bool", "Mode()": "Z"}},
		{Pkg: ".../plugin", Func: "NewCLIPlugin"},

		// the metadata a plugin process printed: validate (GetMetadata itself calls
		// run(.., req plugin.Request, resp interface{}): outside the subset)
		{Pkg: ".../internal/slices", Func: "Contains"},
		{Pkg: ".../plugin", Func: "validate", NonNil: true},

		// the verifier: the signature-supplied name (and minimum version)
		{Pkg: core, Type: "SignerInfo", Opaque: true},
		{Pkg: core, Func: "(*SignerInfo).ExtendedAttribute", Oracle: true},
		{Pkg: ".../verifier", Func: "extractCriticalStringExtendedAttribute"},
		{Pkg: ".../verifier", Func: "getVerificationPlugin"},
		{Pkg: ".../internal/semver", Func: "IsValid", Oracle: true},
		{Pkg: ".../verifier", Func: "getVerificationPluginMinVersion"},

		// the manager: path derivation and the name operations
		{Pkg: "path/filepath", Func: "Join", Oracle: true},
		{Pkg: ".../dir", Func: "sysFS.SysPath"},
		// the manager holds its file system as the interface dir.SysFS: the method is an oracle,
		// constrained in the theorems to answer like the translated sysFS.SysPath
		{Pkg: ".../dir", Func: "SysFS.SysPath", Oracle: true},
		{Pkg: "os", Func: "RemoveAll", Oracle: true},
		{Pkg: ".../plugin", Func: "(*CLIManager).Uninstall"},
		{Pkg: "io/fs", Func: "FileMode.IsRegular"},
		{Pkg: "io/fs", Func: "FileMode.Perm"},
		{Pkg: ".../plugin", Func: "isExecutableFile"},

		// refused; kept because the reasons document what is tied to the code by the
		// correspondence harness only:
		// result type plugin.Plugin (interface): `return NewCLIPlugin(..)` converts a concrete
		// *CLIPlugin into an interface value (typed-nil semantics), which is outside the subset
		// (refused by the translator also with a {Type: "Plugin", Opaque, Nilable} row):
		// C16_gen_Get_composition states the composition of the translated pieces instead
		{Pkg: "path", Func: "Join", Oracle: true},
		{Pkg: ".../plugin", Func: "(*CLIManager).Get"},
		// fs.WalkDir / filepath.WalkDir with the SkipDir protocol (not the Callback contract)
		{Pkg: ".../plugin", Func: "(*CLIManager).List"},
		{Pkg: ".../plugin", Func: "parsePluginFromDir"},
		{Pkg: ".../internal/slices", Func: "ContainsAny"},
	})
}
