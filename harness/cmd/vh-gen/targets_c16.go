package main

// C16: GoLite targets (docs/GOLITE_NOTES.md). Theorems: coq/props/C16_Generated.v,
// table and what stays outside: docs/audit/C16.md section "GoLite".
func init() {
	const core = "github.com/notaryproject/notation-core-go/signature"
	Register("C16", []Target{
		// the name checks and derivations of the plugin manager
		{Pkg: ".../plugin", Func: "validatePluginName"},
		{Pkg: ".../plugin", Func: "parsePluginName"},
		{Pkg: ".../plugin", Func: "binName"},

		// NewCLIPlugin: the stat of the executable path (tail of CLIManager.Get)
		{Pkg: "os", Func: "Stat", Oracle: true},
		{Pkg: "io/fs", Type: "FileInfo", Opaque: true, Views: map[string]string{"Mode().IsRegular()": "bool"}},
		{Pkg: ".../plugin", Func: "NewCLIPlugin"},

		// the metadata a plugin process printed: validate (GetMetadata itself calls
		// run(.., req plugin.Request, resp interface{}): outside the subset)
		{Pkg: ".../internal/slices", Func: "Contains"},
		{Pkg: ".../plugin", Func: "validate", NonNil: true},

		// the verifier: the signature-supplied name (and minimum version)
		{Pkg: core, Type: "SignerInfo", Opaque: true},
		// comma-ok type assertion attr.Value.(string) (verifier/helpers.go:99) is outside the subset: an oracle
		{Pkg: ".../verifier", Func: "extractCriticalStringExtendedAttribute", Oracle: true},
		{Pkg: ".../verifier", Func: "getVerificationPlugin"},
		{Pkg: ".../internal/semver", Func: "IsValid", Oracle: true},
		{Pkg: ".../verifier", Func: "getVerificationPluginMinVersion"},

		// refused; kept because the reasons document what C16 still ties to the code
		// by the correspondence harness only:
		// variadic method SysPath(items ...string) / filepath.Join(pathItems...)
		{Pkg: ".../dir", Func: "sysFS.SysPath"},
		// struct CLIManager has the single field pluginFS dir.SysFS (a two-method
		// interface): no translatable field; then the variadic interface call
		// m.pluginFS.SysPath(..) and path.Join(name, binName(name))
		{Pkg: ".../plugin", Func: "(*CLIManager).Get"},
		{Pkg: ".../plugin", Func: "(*CLIManager).Uninstall"},
		// the filtering decisions are inside closures passed to fs.WalkDir / filepath.WalkDir
		{Pkg: ".../plugin", Func: "(*CLIManager).List"},
		{Pkg: ".../plugin", Func: "parsePluginFromDir"},
		// fi.Mode() bound to a local, then mode.Perm()&0100 (bit operation)
		{Pkg: ".../plugin", Func: "isExecutableFile"},
		// any is not in the subset: kept as the standing example of a refused target
		{Pkg: ".../internal/slices", Func: "ContainsAny"},
	})
}
