package main

// C17: GoLite targets (docs/GOLITE_NOTES.md).
func init() {
	const pf = "github.com/notaryproject/notation-plugin-framework-go/plugin"
	Register("C17", []Target{
		{Pkg: ".../internal/slices", Func: "Contains"},
		{Pkg: ".../plugin", Func: "validate", NonNil: true},
		{Pkg: ".../plugin", Func: "binName"},
		{Pkg: ".../plugin", Func: "run"},
		{Pkg: ".../plugin", Func: "(*CLIPlugin).GetMetadata"},
		{Pkg: ".../plugin", Func: "(*CLIPlugin).DescribeKey"},
		{Pkg: ".../plugin", Func: "NewCLIPlugin"},
		{Pkg: ".../plugin", Func: "execCommander.Output"},
		{Pkg: ".../plugin", Func: "PluginMalformedError.Error"},
		{Pkg: ".../plugin", Func: "PluginExecutableFileError.Error"},
		{Pkg: ".../plugin/proto", Func: "(*RequestError).UnmarshalJSON"},
		{Pkg: ".../plugin/proto", Func: "RequestError.MarshalJSON"},
		{Pkg: ".../plugin/proto", Func: "RequestError.Is"},
		{Pkg: ".../plugin/proto", Func: "RequestError.Error"},
		{Pkg: ".../plugin/proto", Func: "RequestError.Unwrap"},
		{Pkg: ".../internal/io", Func: "(*LimitedWriter).Write"},
		{Pkg: ".../internal/io", Func: "LimitWriter"},
		{Pkg: pf, Func: "(*GetMetadataResponse).HasCapability"},
	})
}
