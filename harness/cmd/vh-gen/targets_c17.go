package main

// C17: GoLite targets (docs/GOLITE_NOTES.md). Theorems: coq/props/C17_Generated.v.
func init() {
	const pf = "github.com/notaryproject/notation-plugin-framework-go/plugin"
	Register("C17", []Target{
		// metadata validation (clauses 3, 4 of docs/audit/C17.md) and the file name a plugin must have (clause 5)
		{Pkg: ".../internal/slices", Func: "Contains"},
		{Pkg: ".../plugin", Func: "validate", NonNil: true},
		{Pkg: ".../plugin", Func: "binName"},
		// the budget a new LimitedWriter starts with (clause 8)
		{Pkg: ".../internal/io", Func: "LimitWriter"},

		// the cap arithmetic (clause 8)
		{Pkg: ".../internal/io", Func: "(*LimitedWriter).Write"},
		// the completeness rule of a structured error (clause 6); encoding/json is an oracle
		{Pkg: "encoding/json", Func: "Unmarshal", Oracle: true, OutParams: []string{"v"}},
		{Pkg: "encoding/json", Func: "Marshal", Oracle: true},
		// NilIsEmpty: `tmp.Metadata == nil` is read as len == 0. The code tells a nil map from an empty one (an empty
		// errorMetadata object makes the error complete): the theorems are restricted to "metadata nil or non-empty",
		// where the two readings agree; the empty map stays with the harness (family stderr:metadata-empty-map).
		{Pkg: ".../plugin/proto", Func: "(*RequestError).UnmarshalJSON", NilIsEmpty: true},
		// the error mapping after the process ended (clauses 1, 2, 6, 7); the process execution is an oracle
		{Pkg: pf, Type: "Request", Opaque: true, Views: map[string]string{"Command()": "string"}},
		{Pkg: ".../plugin", Func: "commander.Output", Oracle: true},
		{Pkg: ".../plugin", Func: "run", NonNil: true, InstantiateAny: []string{"resp"}},
		{Pkg: ".../plugin", Func: "(*CLIPlugin).GetMetadata", NonNil: true},
	})
}
