package main

// C17: GoLite targets (docs/GOLITE_NOTES.md). Theorems: coq/props/C17_Generated.v.
func init() {
	Register("C17", []Target{
		// metadata validation (clauses 3, 4 of docs/audit/C17.md) and the file name a plugin must have (clause 5)
		{Pkg: ".../internal/slices", Func: "Contains"},
		{Pkg: ".../plugin", Func: "validate", NonNil: true},
		{Pkg: ".../plugin", Func: "binName"},
		// the budget a new LimitedWriter starts with (clause 8)
		{Pkg: ".../internal/io", Func: "LimitWriter"},

		// Refused by the translator; kept because the reason documents what is outside the subset:
		// the cap arithmetic: `p = p[:l.N]` (slice of a slice, limitedwriter.go:48), then `l.N -= int64(n)`
		// (store through the receiver, :51)
		{Pkg: ".../internal/io", Func: "(*LimitedWriter).Write"},
		// the error mapping after the process ended: plugin.Request (two-method interface), `resp interface{}`,
		// json.Marshal / json.Unmarshal (any, out-parameter), the package variable `executor`
		{Pkg: ".../plugin", Func: "run"},
		// the name check `metadata.Name != p.name` sits behind run(ctx, .., &metadata) (out-parameter)
		{Pkg: ".../plugin", Func: "(*CLIPlugin).GetMetadata"},
		// the completeness rule of a structured error: json.Unmarshal(data, &tmp), `tmp.Metadata == nil`, `*e = ..`
		{Pkg: ".../plugin/proto", Func: "(*RequestError).UnmarshalJSON"},
	})
}
