package main

// C17: GoLite targets (docs/GOLITE_NOTES.md). Theorems: coq/props/C17_Generated.v.
func init() {
	const pf = "github.com/notaryproject/notation-plugin-framework-go/plugin"
	Register("C17", []Target{
		// metadata validation (clauses 3, 4 of docs/audit/C17.md) and the file name a plugin must have (clause 5)
		{Pkg: ".../internal/slices", Func: "Contains"},
		{Pkg: ".../plugin", Func: "validate", NonNil: true},
		{Pkg: ".../plugin", Func: "binName"},
		// the budget a new LimitedWriter starts with (clause 8)
		{Pkg: ".../internal/io", Func: "LimitWriter"},

		// the cap arithmetic (clause 8)
		{Pkg: ".../internal/io", Func: "(*LimitedWriter).Write"},
		// the completeness rule of a structured error (clause 6); encoding/json is an oracle
		{Pkg: "encoding/json", Func: "Unmarshal", Oracle: true, OutParams: []string{"v"}},
		{Pkg: "encoding/json", Func: "Marshal", Oracle: true},
		// the code tells a nil errorMetadata map from an empty one (an empty object makes the error complete):
		// both Metadata fields are `option (list ..)` (None = nil)
		{Pkg: pf, Type: "Error", NilableFields: []string{"Metadata"}},
		{Pkg: ".../plugin/proto", Type: "RequestError", NilableFields: []string{"Metadata"}},
		{Pkg: ".../plugin/proto", Func: "(*RequestError).UnmarshalJSON"},
		// the error mapping after the process ended (clauses 1, 2, 6, 7); the process execution is an oracle
		{Pkg: pf, Type: "Request", Opaque: true, Views: map[string]string{"Command()": "string"}},
		{Pkg: ".../plugin", Func: "commander.Output", Oracle: true},
		{Pkg: ".../plugin", Func: "run", NonNil: true, InstantiateAny: []string{"resp"}},
		{Pkg: ".../plugin", Func: "(*CLIPlugin).GetMetadata", NonNil: true},
	})
}
