package main

// C01: GoLite targets (docs/GOLITE_NOTES.md). Theorems: coq/props/C01_Generated.v,
// table in docs/audit/C01.md section "GoLite".
func init() {
	const v = ".../verifier"
	const tp = ".../verifier/trustpolicy"
	const sig = "github.com/notaryproject/notation-core-go/signature"
	Register("C01", []Target{
		// required user metadata (clause 9)
		{Pkg: v, Func: "verifyUserMetadata", NonNil: true},
		// OCI descriptor comparison (clauses 6, 7)
		{Pkg: "oras.land/oras-go/v2/content", Func: "Equal"},
		// payload type (clause 5)
		{Pkg: ".../internal/envelope", Func: "ValidatePayloadContentType", NonNil: true},
		// level of the statement (clause 3)
		{Pkg: ".../internal/slices", Func: "Contains"},
		{Pkg: tp, Func: "(*SignatureVerification).GetVerificationLevel"},
		// notation.VerifyBlob: argument checks and the descriptor the blob is compared under (clause 8)
		{Pkg: "mime", Func: "ParseMediaType", Oracle: true},
		{Pkg: "...", Func: "validateContentMediaType"},
		{Pkg: "...", Func: "validateSigMediaType"},
		// Refused, kept as documentation: `desc.Annotations[k] = v` (notation.go:286) on a by-value parameter whose map
		// was replaced by a fresh one only under `if len(userMetadata) > 0` (aliasing rule is path-insensitive)
		{Pkg: "...", Func: "addUserMetadataToDescriptor"},
		// integrity classification (clause 4)
		{Pkg: sig, Type: "Envelope", Opaque: true},
		{Pkg: sig, Func: "ParseEnvelope", Oracle: true},
		{Pkg: sig, Func: "Envelope.Verify", Oracle: true, AnyReceiver: true},
		// Refused, kept as documentation: `switch err.(type)` over the error of Envelope.Verify() (verifier/verifier.go:731)
		{Pkg: v, Func: "verifyIntegrity", NonNil: true},
		// the skip decision of notation.Verify. Refused: `notation.ErrorNoApplicableTrustPolicy{Msg: err.Error()}`
		// (method call on an error value, verifier/verifier.go:249) and reflect.DeepEqual(any, any) (:257)
		{Pkg: tp, Func: "(*OCIDocument).GetApplicableTrustPolicy", Oracle: true},
		{Pkg: v, Func: "(*verifier).SkipVerify"},
		// The entry points. Refused, kept as documentation of what is outside the subset:
		// verifier.Verify / VerifyBlob: the local &VerificationOutcome{} is handed to processSignature, which writes
		// through it (verifier.go:379/382, 296/298); notation.VerifyBlob / getDescriptorFunc: depend on
		// addUserMetadataToDescriptor; notation.Verify: registry.Repository interface (notation.go:479), callback :541
		{Pkg: v, Func: "(*verifier).Verify"},
		{Pkg: v, Func: "(*verifier).VerifyBlob"},
		{Pkg: "...", Func: "VerifyBlob"},
		{Pkg: "...", Func: "getDescriptorFunc"},
		{Pkg: "...", Func: "Verify"},
	})
}
