package main

// C01: GoLite targets (docs/GOLITE_NOTES.md). Theorems: coq/props/C01_Generated.v (single functions),
// coq/props/C01_VerifyE2E.v, C01_VerifyE2E_C02.v, C01_VerifyE2E_Blob.v (verifier.Verify / VerifyBlob end to end);
// tables in docs/audit/C01.md sections "GoLite" and "End-to-end (verifier.Verify)".
func init() {
	const v = ".../verifier"
	const tp = ".../verifier/trustpolicy"
	const sig = "github.com/notaryproject/notation-core-go/signature"
	const fw = "github.com/notaryproject/notation-plugin-framework-go/plugin"
	Register("C01", []Target{
		// required user metadata (clause 9)
		{Pkg: v, Func: "verifyUserMetadata", NonNil: true},
		// OCI descriptor comparison (clauses 6, 7)
		{Pkg: "oras.land/oras-go/v2/content", Func: "Equal"},
		// payload type (clause 5)
		{Pkg: ".../internal/envelope", Func: "ValidatePayloadContentType", NonNil: true},
		// level of the statement (clause 3)
		{Pkg: ".../internal/slices", Func: "Contains"},
		{Pkg: tp, Func: "(*SignatureVerification).GetVerificationLevel"},
		// notation.VerifyBlob: argument checks and the descriptor the blob is compared under (clause 8)
		{Pkg: "mime", Func: "ParseMediaType", Oracle: true},
		{Pkg: "...", Func: "validateContentMediaType"},
		{Pkg: "...", Func: "validateSigMediaType"},
		// translated since the path-sensitive ownership of map fields (C01_gen_addUserMetadataToDescriptor_equiv)
		{Pkg: "...", Func: "addUserMetadataToDescriptor"},
		// integrity classification (clause 4)
		{Pkg: sig, Type: "Envelope", Opaque: true},
		{Pkg: sig, Func: "ParseEnvelope", Oracle: true},
		{Pkg: sig, Func: "Envelope.Verify", Oracle: true, AnyReceiver: true},
		// translated since GoLite phase 2 (`switch err.(type)` over the error of Envelope.Verify(), verifier.go:731):
		// C01_e2e_verifyIntegrity_equiv = the model's verify_integrity on facts read off the two oracles above
		{Pkg: v, Func: "verifyIntegrity", NonNil: true},
		// the skip decision of notation.Verify (translated since phase 2: err.Error() in a message, reflect.DeepEqual
		// against LevelSkip)
		{Pkg: tp, Func: "(*OCIDocument).GetApplicableTrustPolicy", Oracle: true},
		{Pkg: v, Func: "(*verifier).SkipVerify"},
		// ---- the entry point verifier.Verify, end to end (theorems: coq/props/C01_VerifyE2E.v) ----
		// processSignature is the ONE call that leaves Verify besides the policy selection and json.Unmarshal: an
		// oracle that takes the outcome Verify built and returns the outcome it left (OutParams), quantified in
		// every theorem; C02 owns its body (targets_c02.go, C02_gen_processSignature_is_model) and
		// props/C01_VerifyE2E_C02.v instantiates the oracle with C02's generated function.
		{Pkg: "crypto/x509", Type: "Certificate", Opaque: true, Views: map[string]string{"Subject.String()": "string", "Raw": "list Z"}},
		{Pkg: fw, Type: "VerifyPlugin", Opaque: true, Nilable: true},
		{Pkg: "github.com/notaryproject/notation-core-go/revocation", Type: "Validator", Nilable: true},
		{Pkg: "github.com/notaryproject/notation-core-go/revocation", Type: "Revocation", Nilable: true},
		{Pkg: ".../plugin", Type: "Manager", Opaque: true, Nilable: true},
		{Pkg: v, Func: "(*verifier).processSignature", Oracle: true, OutParams: []string{"outcome"}},
		{Pkg: "encoding/json", Func: "Unmarshal", Oracle: true, OutParams: []string{"v"}},
		{Pkg: v, Func: "(*verifier).Verify"},
		// verifier.VerifyBlob, end to end (coq/props/C01_VerifyE2E_Blob.v): the two blob selections and
		// SignatureAlgorithm.Hash are oracles; the table `algorithms` is a translated package-level variable; the
		// message local `errMsg := fmt.Sprintf(..)` (verifier.go:321) holds the format string.
		{Pkg: tp, Func: "(*BlobDocument).GetGlobalTrustPolicy", Oracle: true},
		{Pkg: tp, Func: "(*BlobDocument).GetApplicableTrustPolicy", Oracle: true},
		{Pkg: sig, Func: "Algorithm.Hash", Oracle: true},
		{Pkg: v, Func: "(*verifier).VerifyBlob"},
		// ---- notation.VerifyBlob and its blob descriptor generator (coq/theories/C01_GenDesc.v) ----
		// The digester, its hash, io.Copy and the reader are opaque values / pure oracles (an Effect oracle is refused
		// inside the function literal of getDescriptorFunc): the theorems quantify over them; what they pin is the
		// wiring (ONE digester, the reader handed to io.Copy once, size = io.Copy's count, its error aborts). A blob
		// hashed by any other routine of /repo changes the generated definition (C01_gen_getDescriptorFunc_spec).
		{Pkg: "github.com/opencontainers/go-digest", Type: "Digester", Opaque: true},
		{Pkg: "hash", Type: "Hash", Opaque: true},
		{Pkg: "io", Type: "Reader", Opaque: true, Nilable: true},
		{Pkg: "...", Type: "BlobVerifier", Nilable: true},
		{Pkg: "io", Type: "Writer", Opaque: true},
		{Pkg: "github.com/opencontainers/go-digest", Func: "Algorithm.Digester", Oracle: true},
		{Pkg: "github.com/opencontainers/go-digest", Func: "Digester.Hash", Oracle: true},
		{Pkg: "github.com/opencontainers/go-digest", Func: "Digester.Digest", Oracle: true},
		{Pkg: "io", Func: "Copy", Oracle: true},
		{Pkg: "...", Func: "getDescriptorFunc"},
		{Pkg: "...", Func: "VerifyBlob"},
		// notation.Verify is C10's (targets_c10.go); kept here as refused
		{Pkg: "...", Func: "Verify"},
	})
}
