package main

// C01: GoLite targets (docs/GOLITE_NOTES.md). Theorems: coq/props/C01_Generated.v,
// table in docs/audit/C01.md section "GoLite".
func init() {
	const v = ".../verifier"
	const tp = ".../verifier/trustpolicy"
	const sig = "github.com/notaryproject/notation-core-go/signature"
	Register("C01", []Target{
		// required user metadata (clause 9)
		{Pkg: v, Func: "verifyUserMetadata", NonNil: true},
		// OCI descriptor comparison (clauses 6, 7)
		{Pkg: "oras.land/oras-go/v2/content", Func: "Equal"},
		// payload type (clause 5)
		{Pkg: ".../internal/envelope", Func: "ValidatePayloadContentType", NonNil: true},
		// level of the statement (clause 3)
		{Pkg: ".../internal/slices", Func: "Contains"},
		{Pkg: tp, Func: "(*SignatureVerification).GetVerificationLevel"},
		// notation.VerifyBlob: argument checks and the descriptor the blob is compared under (clause 8)
		{Pkg: "mime", Func: "ParseMediaType", Oracle: true},
		{Pkg: "...", Func: "validateContentMediaType"},
		{Pkg: "...", Func: "validateSigMediaType"},
		{Pkg: "...", Func: "addUserMetadataToDescriptor"},
		// integrity classification (clause 4)
		{Pkg: sig, Type: "Envelope", Opaque: true},
		{Pkg: sig, Func: "ParseEnvelope", Oracle: true},
		{Pkg: sig, Func: "Envelope.Verify", Oracle: true},
		{Pkg: v, Func: "verifyIntegrity", NonNil: true},
		// the skip decision of notation.Verify. Refused: `notation.ErrorNoApplicableTrustPolicy{Msg: err.Error()}`
		// (method call on an error value, verifier/verifier.go:249) and reflect.DeepEqual(any, any) (:257)
		{Pkg: tp, Func: "(*OCIDocument).GetApplicableTrustPolicy", Oracle: true},
		{Pkg: v, Func: "(*verifier).SkipVerify"},
		// the entry points
		{Pkg: v, Func: "(*verifier).Verify"},
		{Pkg: v, Func: "(*verifier).VerifyBlob"},
		{Pkg: "...", Func: "VerifyBlob"},
		{Pkg: "...", Func: "getDescriptorFunc"},
		{Pkg: "...", Func: "Verify"},
	})
}
