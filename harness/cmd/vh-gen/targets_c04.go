package main

// C04: GoLite targets (docs/GOLITE_NOTES.md; theorems in coq/props/C04_Generated.v, table in docs/audit/C04.md).
//
// pkix.ParseDistinguishedName is an oracle, not a target: its body does `attribute.Type = "ST"`
// (internal/pkix/pkix.go:43), a write through a pointer handed out by go-ldap's ParseDN
// ("write through a pointer that was not created in this function"). go-ldap itself is outside the
// subset as well: ldap.ParseDN uses closures (dn.go:257), stripLeadingAndTrailingSpaces calls
// strings.Trim (dn.go:95), decodeString converts string to []rune (dn.go:110). The byte-level model of
// both (C04_DN.v) stays tied to the code by correspondence only.
func init() {
	Register("C04", []Target{
		{Pkg: ".../internal/pkix", Func: "IsSubsetDN"},
		{Pkg: ".../internal/pkix", Func: "ParseDistinguishedName", Oracle: true},
		{Pkg: ".../internal/slices", Func: "Contains"},
		{Pkg: "crypto/x509", Type: "Certificate", Opaque: true, Views: map[string]string{"Subject.String()": "string"}},
		{Pkg: ".../verifier", Func: "verifyX509TrustedIdentities"},
		{Pkg: ".../verifier", Func: "isCriticalFailure", NonNil: true},
		{Pkg: ".../verifier/trustpolicy", Func: "validateOverlappingDNs"},
		{Pkg: ".../verifier/trustpolicy", Func: "validateTrustedIdentities"},
	})
}
