package main

// C04: GoLite targets (docs/GOLITE_NOTES.md).
func init() {
	Register("C04", []Target{
		{Pkg: ".../internal/pkix", Func: "IsSubsetDN"},
	})
}
