package main

// C04: GoLite targets (docs/GOLITE_NOTES.md).
func init() {
	Register("C04", []Target{
		{Pkg: ".../internal/pkix", Func: "IsSubsetDN"},
		{Pkg: ".../internal/pkix", Func: "ParseDistinguishedName", Oracle: true},
		{Pkg: ".../internal/slices", Func: "Contains"},
		{Pkg: "crypto/x509", Type: "Certificate", Opaque: true, Views: map[string]string{"Subject.String()": "string"}},
		{Pkg: ".../verifier", Func: "verifyX509TrustedIdentities"},
		{Pkg: ".../verifier", Func: "isCriticalFailure", NonNil: true},
		{Pkg: ".../verifier/trustpolicy", Func: "validateOverlappingDNs"},
		{Pkg: ".../verifier/trustpolicy", Func: "validateTrustedIdentities"},
	})
}
