package main

// GoLite: one function instance -> one Gallina Definition. Pre-analysis
// (which variables hold locally created maps / pointers, which parameters are
// mutated), naming, and the driver that retries in the option monad when a
// partial operation is met.

import (
	"fmt"
	"go/ast"
	"go/token"
	"go/types"
	"sort"
	"strings"

	"golang.org/x/tools/go/packages"
)

type paramInfo struct {
	obj      *types.Var
	name     string
	typ      string
	asValue  bool // pointer passed as its pointee (NonNil)
	inout    bool // map parameter mutated by the callee: its new value is returned first
	errRecv  bool // oracle method of an error type: the receiver is the error found by errors.As (an err)
	consumed bool // in/out parameter that the callee also reassigns (to a map it creates): the caller's variable must be dead after the call
	dropped  bool
	callback bool       // the callback parameter of an oracle (Target.Callback)
	goType   types.Type // oracles: the type the argument is converted to (the static type of the call site for an `any` parameter)
}

type fnInfo struct {
	name     string
	label    string
	partial  bool
	params   []paramInfo // receiver first; dropped ones included (flagged)
	nres     int
	resType  string // Coq type of the result tuple (without option)
	fresh    []bool // result i is always a freshly created map / pointer / slice
	oracle   bool
	variadic bool // the last parameter collects the remaining arguments (a list)
	drop     bool
	cbPage   string // oracle with a callback: the Coq type of one page
	walkEnt  string // Walk oracle: the Coq type of a directory entry (content of fs.DirEntry)
	freshRes bool   // oracle whose results are freshly allocated (Target.FreshResults)
	effect   bool   // takes the world first and returns the new world first
}

// asInfo: errors.As(errExpr, &v) whose target v is used afterwards as the receiver of oracle methods.
type asInfo struct {
	errExpr ast.Expr
	typ     string
	pos     token.Pos
}

// recvIsError: the receiver type (or its pointee) is a struct type with an Error method.
func recvIsError(t types.Type) bool {
	if p, ok := t.(*types.Pointer); ok {
		t = p.Elem()
	}
	n, ok := types.Unalias(t).(*types.Named)
	if !ok {
		return false
	}
	if _, isStruct := n.Underlying().(*types.Struct); !isStruct {
		return false
	}
	return implementsError(n)
}

// rebinds: a call of the function rebinds variables of the caller (in/out arguments, the world).
func (fi *fnInfo) rebinds() bool { return fi.effect || fi.inoutCount() > 0 }

// needEffect: the function calls something effectful; it is translated again with a world parameter.
type needEffect struct{}

func (fi *fnInfo) inoutCount() int {
	n := 0
	for _, p := range fi.params {
		if p.inout {
			n++
		}
	}
	return n
}

var fnInfos = map[*gen]map[string]*fnInfo{}

type kont func() string

type fn struct {
	g    *gen
	pkg  *packages.Package
	info *types.Info
	decl *ast.FuncDecl
	obj  *types.Func
	sig  *types.Signature
	sub  tsubst
	opts *Target
	fi   *fnInfo

	partial bool
	retType string

	// element links: a local pointer appended to a list field of an owned object and written through later
	linkAt     map[*ast.AssignStmt]*elemLink
	linkOf     map[types.Object]*elemLink
	activeLink map[types.Object]string // while generating what follows the append: the Coq variable holding the index
	linkBusy   map[*ast.AssignStmt]bool

	// InstantiateAny: parameters replaced by a variable of the instance type
	anyArgs []types.Type
	repl    map[types.Object]*types.Var
	replOf  map[types.Object]types.Object

	msgOnly       map[types.Object]bool    // local strings that only become messages (msgOnlyVar)
	litState      []*types.Var             // funcLit: variables the literal assigns, threaded as its state (walkCall)
	litForceOpt   bool                     // funcLit: translate the literal as option-valued
	asTarget      map[types.Object]*asInfo // errors.As targets looked at afterwards through oracle methods
	consumedParam map[types.Object]bool    // map parameters written and reassigned to fresh maps
	ownedAt       map[ast.Expr]bool        // map expressions of writes that the flow analysis found owned (golite_flow.go)
	rawNilable    bool                     // selector(): give the option of a nilable field, not its reading
	storeOpt      bool                     // store(): the new value of a nilable field is already an option

	// effects
	effect     bool                  // the function takes and returns the world
	worldObj   *types.Var            // the variable holding the current world
	worldIdent *ast.Ident            // its (synthetic) identifier, for destructuring patterns
	synthIdent map[*ast.Ident]string // synthetic identifiers standing for a fresh Coq name
	noEffect   int                   // > 0 inside a function literal: no effectful call allowed
	deferred   []*ast.FuncLit        // deferred function literals registered so far (top level of the body)
	deferRet   []kont                // inside the body of a deferred literal: what a bare return becomes

	names  map[types.Object]string
	used   map[string]bool
	nfresh int

	asValue     map[types.Object]bool
	mutable     map[types.Object]bool
	freshFields map[types.Object]map[string]bool
	views       map[types.Object]string
	inout       []*types.Var
	isInout     map[types.Object]bool
	namedRes    []*types.Var

	breakK []kont
	contK  []kont

	// closures: local variables that hold a function literal, and whether it is partial
	assumes    []string              // assumptions printed into the generated definition
	cbRet      []func(e cx) string   // inside the body of a callback literal: what `return e` becomes
	droppedObj map[types.Object]bool // parameters dropped by DropParams
	inMsg      int                   // > 0 while translating an error message (its text is not modelled)
	nonNilErr  map[types.Object]bool // error variables known to be non-nil here
	closureVar map[types.Object]bool
	closureOpt map[types.Object]bool

	// lambda-lifted loops
	localTypes map[string]string // Coq local name -> Coq type (variables, views, continuations)
	localOrder []string
	nameObj    map[string]types.Object
	lifted     []string
	nloops     int
	loopDepth  int
}

// regLocal records the Coq type of a local name (needed when a loop that
// mentions it is lifted to a top-level Fixpoint).
func (c *fn) regLocal(name, typ string) {
	if c.localTypes == nil {
		c.localTypes = map[string]string{}
	}
	if _, ok := c.localTypes[name]; !ok {
		c.localOrder = append(c.localOrder, name)
	}
	c.localTypes[name] = typ
}

func (c *fn) fail(n ast.Node, format string, a ...any) {
	where := "?"
	if n != nil {
		where = c.g.L.pos(n.Pos(), c.pkg)
	}
	panic(unsup{fmt.Sprintf(format, a...) + " (" + where + ")"})
}

func typeArgsKey(ts []types.Type) string {
	if len(ts) == 0 {
		return ""
	}
	var s []string
	for _, t := range ts {
		s = append(s, types.TypeString(t, nil))
	}
	return "[" + strings.Join(s, ",") + "]"
}

func anyArgsKey(ts []types.Type) string {
	any := false
	var s []string
	for _, t := range ts {
		if t == nil {
			s = append(s, "_")
		} else {
			any = true
			s = append(s, types.TypeString(t, nil))
		}
	}
	if !any {
		return ""
	}
	return "{" + strings.Join(s, ",") + "}"
}

func anyArgsSuffix(ts []types.Type) string {
	var s []string
	for _, t := range ts {
		if t != nil {
			x := types.TypeString(t, func(p *types.Package) string { return p.Name() })
			s = append(s, coqIdent(strings.NewReplacer("*", "", "[]", "list_").Replace(x)))
		}
	}
	if len(s) == 0 {
		return ""
	}
	return "_" + strings.Join(s, "_")
}

func typeArgsSuffix(g *gen, ts []types.Type) string {
	var s []string
	for _, t := range ts {
		x := types.TypeString(t, func(p *types.Package) string { return p.Name() })
		s = append(s, coqIdent(x))
	}
	if len(s) == 0 {
		return ""
	}
	return "_" + strings.Join(s, "_")
}

// funcInstance returns the translation of function obj (origin) instantiated
// with targs, translating it first when needed.
func (g *gen) funcInstance(obj *types.Func, targs []types.Type, anyArgs ...types.Type) *fnInfo {
	obj = obj.Origin()
	key := "func:" + obj.FullName() + typeArgsKey(targs) + anyArgsKey(anyArgs)
	infos := fnInfos[g]
	if infos == nil {
		infos = map[string]*fnInfo{}
		fnInfos[g] = infos
	}
	if it, ok := g.byItem[key]; ok {
		g.use(it)
		return infos[key]
	}
	t := g.byKey[obj.FullName()]
	sig := obj.Type().(*types.Signature)
	var label string
	if obj.Pkg() != nil {
		label = obj.Pkg().Name() + "."
	}
	if r := sig.Recv(); r != nil {
		rt := r.Type()
		star := ""
		if p, ok := rt.(*types.Pointer); ok {
			rt = p.Elem()
			star = "*"
		}
		rn := "?"
		if n, ok := types.Unalias(rt).(*types.Named); ok {
			rn = n.Obj().Name()
		}
		if star != "" {
			label += "(*" + rn + ")." + obj.Name()
		} else {
			label += rn + "." + obj.Name()
		}
	} else {
		label += obj.Name()
	}
	label += typeArgsKey(targs) + anyArgsKey(anyArgs)
	if t == nil {
		g.fail("call of %s, which is neither a target, nor an oracle, nor in the GoLib whitelist", label)
	}
	it := g.begin("func", key, label)
	it.target = true
	if t.Oracle {
		it.kind = "oracle"
	}
	fi := &fnInfo{label: label}
	infos[key] = fi
	g.protect(it, func() {
		// type substitution of the instance
		sub := tsubst{}
		tps := sig.TypeParams()
		if sig.RecvTypeParams().Len() > 0 {
			tps = sig.RecvTypeParams()
		}
		if tps.Len() != len(targs) {
			g.fail("%s: %d type arguments for %d type parameters", label, len(targs), tps.Len())
		}
		for i := 0; i < tps.Len(); i++ {
			sub[tps.At(i)] = targs[i]
		}
		// name
		base := "gen_" + pkgBase(obj.Pkg().Path()) + "_"
		if r := sig.Recv(); r != nil {
			rt := r.Type()
			if p, ok := rt.(*types.Pointer); ok {
				rt = p.Elem()
			}
			if n, ok := types.Unalias(rt).(*types.Named); ok {
				base += n.Obj().Name() + "_"
			}
		}
		want := base + obj.Name() + typeArgsSuffix(g, targs) + anyArgsSuffix(anyArgs)
		if t.Name != "" {
			want = t.Name + typeArgsSuffix(g, targs) + anyArgsSuffix(anyArgs)
		}
		fi.drop = t.Drop
		fi.name = g.claim(key, want)
		it.name = fi.name
		if t.Oracle {
			g.oracleFunc(it, fi, obj, sig, sub, t, anyArgs)
			return
		}
		fd := g.L.funcs[obj.FullName()]
		if fd == nil || fd.decl.Body == nil {
			g.fail("%s has no body in the loaded sources", label)
		}
		c := &fn{g: g, pkg: fd.pkg, info: fd.pkg.TypesInfo, decl: fd.decl, obj: obj, sig: sig, sub: sub, opts: t, fi: fi, anyArgs: anyArgs}
		c.repl, c.replOf = map[types.Object]*types.Var{}, map[types.Object]types.Object{}
		for i := 0; i < sig.Params().Len() && i < len(anyArgs); i++ {
			if anyArgs[i] != nil {
				p := sig.Params().At(i)
				r := types.NewParam(p.Pos(), p.Pkg(), p.Name(), anyArgs[i])
				c.repl[p] = r
				c.replOf[r] = p
			}
		}
		for _, n := range t.InstantiateAny {
			found := false
			for i := 0; i < sig.Params().Len(); i++ {
				if sig.Params().At(i).Name() == n {
					found = true
					if i >= len(anyArgs) || anyArgs[i] == nil {
						it.silent = true // the plain form: the parameter stays an `any` value
					}
				}
			}
			if !found {
				g.fail("%s: InstantiateAny names %s, which is not a parameter", label, n)
			}
		}
		defer func() {
			// a reason without a position gets the position of the function
			if r := recover(); r != nil {
				if u, ok := r.(unsup); ok && !strings.Contains(u.msg, ".go:") {
					panic(unsup{u.msg + " (in " + g.L.pos(fd.decl.Pos(), fd.pkg) + ")"})
				}
				panic(r)
			}
		}()
		nItems := len(g.items)
		defer func() {
			if it.silent {
				// what the silent plain form dragged in and could not be translated stays silent too
				for _, x := range g.items[nItems:] {
					if x.status == "unsupported" {
						x.silent = true
					}
				}
			}
		}()
		c.translate(it)
	})
	g.use(it)
	return fi
}

func (g *gen) oracleFunc(it *item, fi *fnInfo, obj *types.Func, sig *types.Signature, sub tsubst, t *Target, anyArgs []types.Type) {
	drop := map[string]bool{}
	for _, d := range t.DropParams {
		drop[d] = true
	}
	fi.oracle = true
	var ptypes []string
	isIface := false
	if r := sig.Recv(); r != nil {
		if _, ok := r.Type().Underlying().(*types.Interface); ok {
			isIface = true
		}
	}
	outs := map[string]bool{}
	for _, o := range t.OutParams {
		outs[o] = true
	}
	var outTypes []string
	pidx := 0
	addParam := func(p *types.Var, recv bool) {
		pi := paramInfo{obj: p, name: p.Name()}
		pt := p.Type()
		if !recv {
			if pidx < len(anyArgs) && anyArgs[pidx] != nil && g.kind(pt, sub) == kAny {
				pt = anyArgs[pidx] // the static type of the argument at this call site
			}
			pidx++
		}
		switch {
		case t.Walk != "" && p.Name() == t.Walk:
			csig, ok := resolve(pt, sub).Underlying().(*types.Signature)
			if !ok || csig.Params().Len() != 3 || csig.Results().Len() != 1 ||
				g.kind(csig.Params().At(0).Type(), sub) != kString || g.kind(csig.Params().At(1).Type(), sub) != kNilable ||
				!g.isOpaqueIface(csig.Params().At(1).Type(), sub) || g.kind(csig.Params().At(2).Type(), sub) != kError ||
				g.kind(csig.Results().At(0).Type(), sub) != kError {
				g.fail("Walk: parameter %s of %s must be a func(path string, d fs.DirEntry, err error) error, with fs.DirEntry declared Opaque and Nilable", p.Name(), fi.label)
			}
			fi.walkEnt = g.opaqueContent(csig.Params().At(1).Type(), sub)
			pi.callback, pi.dropped = true, true
		case t.Callback != "" && p.Name() == t.Callback:
			csig, ok := resolve(pt, sub).Underlying().(*types.Signature)
			if !ok || csig.Results().Len() != 1 || g.kind(csig.Results().At(0).Type(), sub) != kError || csig.Variadic() {
				g.fail("Callback: parameter %s of %s must be a func(..) error", p.Name(), fi.label)
			}
			var pts []string
			for i := 0; i < csig.Params().Len(); i++ {
				if g.kind(csig.Params().At(i).Type(), sub) == kDropped {
					continue
				}
				pts = append(pts, g.typ(csig.Params().At(i).Type(), sub))
			}
			switch len(pts) {
			case 0:
				fi.cbPage = "unit"
			case 1:
				fi.cbPage = pts[0]
			default:
				fi.cbPage = "(" + strings.Join(pts, " * ") + ")"
			}
			pi.callback, pi.dropped = true, true
		case recv && !isIface && !drop[p.Name()] && recvIsError(pt):
			// a method of an error type: the oracle is a function of the error value (the one errors.As found)
			pi.typ = "err"
			pi.errRecv = true
			ptypes = append(ptypes, pi.typ)
		case recv && isIface && g.isOpaqueIface(pt, sub) && !drop[p.Name()] && !t.AnyReceiver:
			// a method of an interface type declared Opaque: the oracle depends on the (non-nil) receiver
			pi.typ = g.opaqueContent(pt, sub)
			pi.asValue = g.kind(pt, sub) == kNilable
			ptypes = append(ptypes, pi.typ)
		case g.kind(pt, sub) == kDropped || drop[p.Name()] || (recv && isIface):
			pi.dropped = true
			if recv && isIface {
				g.note("oracle " + fi.label + " does not take its receiver (an interface value): it stands for the method of one fixed receiver, and every call is assumed to be on that value")
			}
		case outs[p.Name()]:
			ptr, ok := resolve(pt, sub).(*types.Pointer)
			if !ok {
				g.fail("OutParams: parameter %s of %s is not a pointer", p.Name(), fi.label)
			}
			pi.inout, pi.asValue = true, true
			pi.typ = g.typ(ptr.Elem(), sub)
			ptypes = append(ptypes, pi.typ)
			outTypes = append(outTypes, pi.typ)
		default:
			pi.typ = g.typ(pt, sub)
			pi.goType = pt
			ptypes = append(ptypes, pi.typ)
		}
		fi.params = append(fi.params, pi)
	}
	if r := sig.Recv(); r != nil {
		addParam(r, true)
	}
	for i := 0; i < sig.Params().Len(); i++ {
		addParam(sig.Params().At(i), false)
	}
	fi.variadic = sig.Variadic()
	fi.nres = sig.Results().Len()
	fi.resType = g.tupleType(sig.Results(), sub)
	if len(outTypes) > 0 {
		parts := append([]string{}, outTypes...)
		for i := 0; i < sig.Results().Len(); i++ {
			parts = append(parts, g.typ(sig.Results().At(i).Type(), sub))
		}
		if len(parts) == 1 {
			fi.resType = parts[0]
		} else {
			fi.resType = "(" + strings.Join(parts, " * ") + ")"
		}
	}
	fi.fresh = make([]bool, fi.nres)
	if t.FreshResults {
		fi.freshRes = true
		for i := range fi.fresh {
			fi.fresh[i] = true
		}
		g.note("oracle " + fi.label + " returns freshly allocated objects nobody else refers to (FreshResults)")
	}
	if t.Walk != "" {
		if fi.walkEnt == "" {
			g.fail("Walk: %s has no parameter %s", fi.label, t.Walk)
		}
		if sig.Results().Len() != 1 || g.kind(sig.Results().At(0).Type(), sub) != kError || len(outTypes) > 0 || t.Effect || t.Callback != "" {
			g.fail("Walk: the oracle %s must return exactly an error (and be neither Effect nor Callback)", fi.label)
		}
		fi.resType = "((walk_tree " + fi.walkEnt + ") + err)"
		g.note("oracle " + fi.label + " supplies what the walk sees as a tree (entries in the order ReadDir gives them); the walk is GoLib's walk_dir, the library's algorithm with the fs.SkipDir / fs.SkipAll protocol")
	}
	if fi.cbPage != "" {
		if sig.Results().Len() != 1 || g.kind(sig.Results().At(0).Type(), sub) != kError || len(outTypes) > 0 {
			g.fail("Callback: the oracle %s must return exactly an error", fi.label)
		}
		fi.resType = "((list " + fi.cbPage + ") * (option err))"
		g.note("oracle " + fi.label + " calls its callback sequentially on the pages it produces, stops at the first error the callback returns and returns it, else returns its own final error")
	}
	what := "assumed a pure function of its arguments"
	if t.Effect {
		if fi.cbPage != "" {
			g.fail("Effect and Callback cannot be combined (oracle %s)", fi.label)
		}
		w := g.world()
		fi.effect = true
		ptypes = append([]string{w}, ptypes...)
		parts := append([]string{w}, outTypes...)
		for i := 0; i < sig.Results().Len(); i++ {
			parts = append(parts, g.typ(sig.Results().At(i).Type(), sub))
		}
		if len(parts) == 1 {
			fi.resType = w
		} else {
			fi.resType = "(" + strings.Join(parts, " * ") + ")"
		}
		what = "an effect: a function of the world and its arguments"
	}
	ty := strings.Join(append(ptypes, fi.resType), " -> ")
	if len(ptypes) == 0 {
		ty = fi.resType
	}
	it.text = fmt.Sprintf("(* oracle: %s (%s) *)\nVariable %s : %s.", cmt(fi.label), what, fi.name, ty)
	if t.Effect {
		g.note("oracle " + fi.label + " is a total function of the world and its (non-dropped) arguments")
	} else {
		g.note("oracle " + fi.label + " is a pure, total function of its (non-dropped) arguments")
	}
}

// ---------- naming ----------

func (c *fn) fresh(hint string) string {
	for {
		c.nfresh++
		n := fmt.Sprintf("%s'%d", hint, c.nfresh)
		if !c.used[n] {
			c.used[n] = true
			return n
		}
	}
}

func (c *fn) nameOf(o types.Object) string {
	if n, ok := c.names[o]; ok {
		if _, known := c.localTypes[n]; !known {
			c.regVar(n, o)
		}
		return n
	}
	base := coqIdent(o.Name())
	if base == "_" {
		base = "blank"
	}
	n := base
	if reservedCoq[n] || strings.HasPrefix(n, "gen_") {
		n = base + "_"
	}
	for i := 2; c.used[n] || c.g.names[n] != ""; i++ {
		n = fmt.Sprintf("%s'%d", base, i)
	}
	c.used[n] = true
	c.names[o] = n
	if c.nameObj == nil {
		c.nameObj = map[string]types.Object{}
	}
	c.nameObj[n] = o
	c.regVar(n, o)
	return n
}

// regVar records the Coq type of a Go variable (nothing for variables of a
// dropped or untranslatable type: they never occur in a term).
func (c *fn) regVar(n string, o types.Object) {
	defer func() {
		if r := recover(); r != nil {
			if _, ok := r.(unsup); !ok {
				panic(r)
			}
		}
	}()
	if v, ok := o.(*types.Var); ok && c.sig != nil {
		c.regLocal(n, c.varType(v))
	}
}

// ---------- pre-analysis ----------

func unparen(e ast.Expr) ast.Expr {
	for {
		p, ok := e.(*ast.ParenExpr)
		if !ok {
			return e
		}
		e = p.X
	}
}

// rootIdent follows selectors / indexes / stars down to the root identifier.
func (c *fn) rootIdent(e ast.Expr) *ast.Ident {
	for {
		switch x := unparen(e).(type) {
		case *ast.Ident:
			return x
		case *ast.SelectorExpr:
			if _, ok := c.info.Selections[x]; !ok {
				return nil
			}
			e = x.X
		case *ast.IndexExpr:
			e = x.X
		case *ast.StarExpr:
			e = x.X
		case *ast.UnaryExpr:
			if x.Op != token.AND {
				return nil
			}
			e = x.X
		default:
			return nil
		}
	}
}

func (c *fn) objOf(id *ast.Ident) types.Object {
	o := c.info.Defs[id]
	if o == nil {
		o = c.info.Uses[id]
	}
	if o != nil && len(c.repl) > 0 {
		if r, ok := c.repl[o]; ok {
			return r
		}
	}
	return o
}

// paramOf: the parameter object the translation works with (its instance under InstantiateAny).
func (c *fn) paramOf(p *types.Var) *types.Var {
	if r, ok := c.repl[p]; ok {
		return r
	}
	return p
}

func (c *fn) isLocal(o types.Object) bool {
	v, ok := o.(*types.Var)
	if !ok || v.IsField() {
		return false
	}
	return v.Pkg() == nil || v.Parent() != v.Pkg().Scope()
}

// calleeInfo resolves a call of a target function / method (nil otherwise).
func (c *fn) calleeInfo(call *ast.CallExpr) (*fnInfo, *types.Func, ast.Expr) {
	fun := unparen(call.Fun)
	var targs []types.Type
	if ix, ok := fun.(*ast.IndexExpr); ok {
		fun = unparen(ix.X)
	} else if ix, ok := fun.(*ast.IndexListExpr); ok {
		fun = unparen(ix.X)
	}
	var id *ast.Ident
	var recv ast.Expr
	switch f := fun.(type) {
	case *ast.Ident:
		id = f
	case *ast.SelectorExpr:
		id = f.Sel
		if sel, ok := c.info.Selections[f]; ok {
			if sel.Kind() != types.MethodVal {
				return nil, nil, nil
			}
			recv = f.X
		}
	default:
		return nil, nil, nil
	}
	fo, ok := c.info.Uses[id].(*types.Func)
	if !ok {
		return nil, nil, nil
	}
	if inst, ok := c.info.Instances[id]; ok {
		for i := 0; i < inst.TypeArgs.Len(); i++ {
			targs = append(targs, resolve(inst.TypeArgs.At(i), c.sub))
		}
	}
	origin := fo.Origin()
	if recv != nil {
		// method of a generic type: the type arguments of the receiver
		rt := resolve(c.tyOf(recv), c.sub)
		if p, ok := rt.(*types.Pointer); ok {
			rt = resolve(p.Elem(), c.sub)
		}
		if n, ok := rt.(*types.Named); ok && n.TypeArgs().Len() > 0 {
			for i := 0; i < n.TypeArgs().Len(); i++ {
				targs = append(targs, resolve(n.TypeArgs().At(i), c.sub))
			}
		}
	}
	t := c.g.byKey[origin.FullName()]
	if t == nil {
		return nil, origin, recv
	}
	var anyArgs []types.Type
	inst := map[string]bool{}
	for _, n := range t.InstantiateAny {
		inst[n] = true
	}
	if t.Oracle || len(inst) > 0 {
		// an oracle is instantiated per static type of the arguments it takes as `any`;
		// a function per static type of the arguments for its InstantiateAny parameters
		sig := origin.Type().(*types.Signature)
		has := false
		for i := 0; i < sig.Params().Len() && i < len(call.Args); i++ {
			var at types.Type
			if c.g.kind(sig.Params().At(i).Type(), nil) == kAny && !(sig.Variadic() && i == sig.Params().Len()-1) && (t.Oracle || inst[sig.Params().At(i).Name()]) {
				if tt := c.tyOf(call.Args[i]); tt != nil && c.g.kind(tt, c.sub) != kAny && !c.isNilExpr(call.Args[i]) {
					at = resolve(tt, c.sub)
					if tv, ok := c.info.Types[call.Args[i]]; ok && tv.Value != nil {
						at = types.Default(tv.Type)
					}
					has = true
				}
			}
			anyArgs = append(anyArgs, at)
		}
		if !has {
			anyArgs = nil
		}
	}
	return c.g.funcInstance(origin, targs, anyArgs...), origin, recv
}

// isCreation: the expression always yields a freshly created map / pointer / struct.
func (c *fn) isCreation(e ast.Expr) bool {
	switch x := unparen(e).(type) {
	case *ast.CompositeLit:
		return true
	case *ast.UnaryExpr:
		if x.Op == token.AND {
			_, ok := unparen(x.X).(*ast.CompositeLit)
			return ok
		}
	case *ast.CallExpr:
		if id, ok := unparen(x.Fun).(*ast.Ident); ok {
			if b, ok := c.info.Uses[id].(*types.Builtin); ok {
				return b.Name() == "make" || b.Name() == "new"
			}
		}
		if tv, ok := c.info.Types[x.Fun]; ok && tv.IsType() {
			return false
		}
		fi, _, _ := c.calleeInfo(x)
		if fi != nil && fi.nres == 1 && fi.inoutCount() == 0 && fi.fresh[0] {
			return true
		}
		if fi != nil && fi.freshRes {
			return true
		}
	}
	return false
}

func (c *fn) analyse() {
	c.asValue = map[types.Object]bool{}
	c.mutable = map[types.Object]bool{}
	c.freshFields = map[types.Object]map[string]bool{}
	c.isInout = map[types.Object]bool{}
	assigns := map[types.Object][]ast.Expr{} // nil entry = assigned from something that is not an expression of its own
	record := func(lhs ast.Expr, rhs ast.Expr) {
		id, ok := unparen(lhs).(*ast.Ident)
		if !ok || id.Name == "_" {
			return
		}
		if o := c.objOf(id); o != nil && c.isLocal(o) {
			assigns[o] = append(assigns[o], rhs)
		}
	}
	params := map[types.Object]bool{}
	if r := c.sig.Recv(); r != nil {
		params[r] = true
	}
	for i := 0; i < c.sig.Params().Len(); i++ {
		params[c.paramOf(c.sig.Params().At(i))] = true
	}
	mutatedParams := map[types.Object]bool{}
	markMut := func(e ast.Expr) {
		// e is the container expression of an index assignment / delete, or an in/out argument
		e = unparen(e)
		if u, ok := e.(*ast.UnaryExpr); ok && u.Op == token.AND {
			e = unparen(u.X)
		}
		if id, ok := e.(*ast.Ident); ok {
			if o := c.objOf(id); o != nil && params[o] && (c.g.kind(o.Type(), c.sub) == kMap || c.g.kind(o.Type(), c.sub) == kPtr) {
				mutatedParams[o] = true
			}
		}
	}
	// a store whose path starts at a pointer parameter (p.f = v, p.f[k] = v, *p = v)
	markPtrStore := func(lhs ast.Expr) {
		if _, plain := unparen(lhs).(*ast.Ident); plain {
			return
		}
		if id := c.rootIdent(lhs); id != nil {
			if o := c.objOf(id); o != nil && params[o] && c.g.kind(o.Type(), c.sub) == kPtr {
				mutatedParams[o] = true
			}
		}
	}
	ast.Inspect(c.decl.Body, func(n ast.Node) bool {
		switch x := n.(type) {
		case *ast.AssignStmt:
			if len(x.Lhs) == len(x.Rhs) {
				for i := range x.Lhs {
					if x.Tok == token.DEFINE || x.Tok == token.ASSIGN {
						record(x.Lhs[i], x.Rhs[i])
					} else {
						record(x.Lhs[i], nil)
					}
				}
			} else {
				freshCall := false
				if len(x.Rhs) == 1 {
					if call, ok := unparen(x.Rhs[0]).(*ast.CallExpr); ok {
						if tv, isT := c.info.Types[call.Fun]; !(isT && tv.IsType()) {
							if fi, _, _ := c.calleeInfoSafe(call); fi != nil && fi.freshRes {
								freshCall = true
							}
						}
					}
				}
				for _, l := range x.Lhs {
					if freshCall {
						record(l, x.Rhs[0]) // a fresh result of an oracle
					} else {
						record(l, nil)
					}
				}
			}
			for _, l := range x.Lhs {
				if ix, ok := unparen(l).(*ast.IndexExpr); ok {
					markMut(ix.X)
				}
				markPtrStore(l)
			}
		case *ast.IncDecStmt:
			record(x.X, nil)
			if ix, ok := unparen(x.X).(*ast.IndexExpr); ok {
				markMut(ix.X)
			}
			markPtrStore(x.X)
		case *ast.ValueSpec:
			for i, nm := range x.Names {
				if i < len(x.Values) && len(x.Values) == len(x.Names) {
					record(nm, x.Values[i])
				} else if len(x.Values) == 0 {
					record(nm, zeroDecl) // `var p *T`: nil, which aliases nothing
				} else {
					record(nm, nil)
				}
			}
		case *ast.RangeStmt:
			if x.Key != nil {
				record(x.Key, nil)
			}
			if x.Value != nil {
				record(x.Value, nil)
			}
		case *ast.CallExpr:
			if id, ok := unparen(x.Fun).(*ast.Ident); ok {
				if b, ok := c.info.Uses[id].(*types.Builtin); ok && b.Name() == "delete" && len(x.Args) == 2 {
					markMut(x.Args[0])
				}
			}
		}
		return true
	})
	// calls that hand one of our map parameters to a mutating callee
	ast.Inspect(c.decl.Body, func(n ast.Node) bool {
		call, ok := n.(*ast.CallExpr)
		if !ok {
			return true
		}
		var fi *fnInfo
		var recv ast.Expr
		func() {
			defer func() {
				if r := recover(); r != nil {
					if _, ok := r.(unsup); !ok {
						panic(r)
					}
				}
			}()
			fi, _, recv = c.calleeInfo(call)
		}()
		if fi == nil || fi.inoutCount() == 0 {
			return true
		}
		args := call.Args
		if recv != nil {
			args = append([]ast.Expr{recv}, args...)
		}
		for i, p := range fi.params {
			if p.inout && i < len(args) {
				markMut(args[i])
			}
		}
		return true
	})
	for o, rhss := range assigns {
		if params[o] {
			if mutatedParams[o] {
				// reassigned only to maps created here: what the caller gets back is the final map, which is
				// the caller's own map only on the paths without reassignment; the caller must not look at its
				// variable again (checked at the call sites)
				allFresh := c.g.kind(o.Type(), c.sub) == kMap
				for _, r := range rhss {
					if r == nil || !c.isCreation(r) {
						allFresh = false
					}
				}
				if !allFresh {
					c.fail(c.decl, "parameter %s is both written through and reassigned", o.Name())
				}
				if c.consumedParam == nil {
					c.consumedParam = map[types.Object]bool{}
				}
				c.consumedParam[o] = true
			}
			continue
		}
		all := len(rhss) > 0
		onlyZero := true
		for _, r := range rhss {
			if r == ast.Expr(zeroDecl) {
				continue
			}
			onlyZero = false
			if r == nil || !c.isCreation(r) {
				all = false
			}
		}
		if onlyZero {
			all = false
		}
		if !all {
			continue
		}
		k := c.g.kind(o.Type(), c.sub)
		switch k {
		case kMap:
			c.mutable[o] = true
		case kPtr:
			c.mutable[o] = true
			// held by value only when it cannot be nil (a fresh result of an oracle may be nil)
			nonNil := true
			for _, r := range rhss {
				if r == ast.Expr(zeroDecl) {
					nonNil = false
					continue
				}
				if call, ok := unparen(r).(*ast.CallExpr); ok {
					if fi, _, _ := c.calleeInfoSafe(call); fi != nil && fi.freshRes {
						nonNil = false
					}
				}
			}
			if nonNil {
				c.asValue[o] = true
			}
		case kStruct:
			c.mutable[o] = true
		}
		if len(rhss) == 1 {
			e := unparen(rhss[0])
			if u, ok := e.(*ast.UnaryExpr); ok && u.Op == token.AND {
				e = unparen(u.X)
			}
			if cl, ok := e.(*ast.CompositeLit); ok {
				ff := map[string]bool{}
				for _, el := range cl.Elts {
					if kv, ok := el.(*ast.KeyValueExpr); ok {
						if fid, ok := kv.Key.(*ast.Ident); ok && c.isCreation(kv.Value) {
							ff[fid.Name] = true
						}
					}
				}
				c.freshFields[o] = ff
			}
		}
	}
	// a field holding a fresh map must not be reassigned from something else
	ast.Inspect(c.decl.Body, func(n ast.Node) bool {
		as, ok := n.(*ast.AssignStmt)
		if !ok {
			return true
		}
		for i, l := range as.Lhs {
			se, ok := unparen(l).(*ast.SelectorExpr)
			if !ok {
				continue
			}
			id, ok := unparen(se.X).(*ast.Ident)
			if !ok {
				continue
			}
			o := c.objOf(id)
			if o == nil || !c.isLocal(o) {
				continue
			}
			if len(as.Lhs) == len(as.Rhs) && c.isCreation(as.Rhs[i]) {
				continue // a field that was fresh stays fresh
			}
			if c.freshFields[o] != nil {
				c.freshFields[o][se.Sel.Name] = false
			}
		}
		return true
	})
	// parameters
	var ps []*types.Var
	if r := c.sig.Recv(); r != nil {
		ps = append(ps, r)
	}
	for i := 0; i < c.sig.Params().Len(); i++ {
		ps = append(ps, c.paramOf(c.sig.Params().At(i)))
	}
	drop := map[string]bool{}
	for _, d := range c.opts.DropParams {
		drop[d] = true
	}
	c.fi.effect = c.effect
	if c.effect {
		c.worldObj = types.NewVar(token.NoPos, c.pkg.Types, "w", types.Typ[types.Invalid])
		c.worldIdent = &ast.Ident{Name: "w"}
		c.inout = append(c.inout, c.worldObj)
		c.nameOf(c.worldObj)
		c.g.note(c.fi.label + " acts on the outside world: it takes the world first and returns the new world first")
	}
	for i, p := range ps {
		pi := paramInfo{obj: p}
		isRecv := c.sig.Recv() != nil && i == 0
		k := c.g.kind(p.Type(), c.sub)
		switch {
		case k == kDropped || drop[p.Name()]:
			pi.dropped = true
			if c.droppedObj == nil {
				c.droppedObj = map[types.Object]bool{}
			}
			c.droppedObj[p] = true
		case k == kPtr && ((isRecv && !c.opts.NilableRecv) || (!isRecv && c.opts.NonNil)):
			pi.asValue = true
			c.asValue[p] = true
			pi.typ = c.g.typ(p.Type().(*types.Pointer).Elem(), c.sub)
			c.g.note(fmt.Sprintf("%s: pointer parameter %s is assumed non-nil and passed as its pointee", c.fi.label, p.Name()))
		default:
			pi.typ = c.g.typ(p.Type(), c.sub)
		}
		if mutatedParams[p] && !pi.dropped {
			if k == kPtr && !pi.asValue {
				c.fail(c.decl, "the function writes through pointer parameter %s, which may be nil (declare the target NonNil)", p.Name())
			}
			pi.inout = true
			pi.consumed = c.consumedParam[p]
			if pi.consumed {
				c.g.note(fmt.Sprintf("%s: map parameter %s is written and also replaced by a map created there: callers must not use their variable after the call (checked)", c.fi.label, p.Name()))
			}
			c.inout = append(c.inout, p)
			c.isInout[p] = true
			c.mutable[p] = true
			if k == kPtr {
				c.g.note(fmt.Sprintf("%s: pointer parameter %s is written through: its new pointee is returned first (other references to the same object are not modelled)", c.fi.label, p.Name()))
			}
		}
		if !pi.dropped {
			if p.Name() == "_" || p.Name() == "" {
				pi.name = c.fresh("arg")
			} else {
				pi.name = c.nameOf(p)
			}
		}
		c.fi.params = append(c.fi.params, pi)
	}
	c.findLinks()
	c.checkAliases()
	// results
	res := c.sig.Results()
	c.fi.nres = res.Len()
	c.fi.fresh = make([]bool, res.Len())
	for i := range c.fi.fresh {
		c.fi.fresh[i] = true
	}
	nret := 0
	ast.Inspect(c.decl.Body, func(n ast.Node) bool {
		if _, isLit := n.(*ast.FuncLit); isLit {
			return false // the returns of a closure are not returns of this function
		}
		if r, ok := n.(*ast.ReturnStmt); ok {
			nret++
			if len(r.Results) != res.Len() {
				for i := range c.fi.fresh {
					c.fi.fresh[i] = false
				}
				return true
			}
			for i, e := range r.Results {
				if !c.isCreation(e) {
					c.fi.fresh[i] = false
				}
			}
		}
		return true
	})
	if nret == 0 {
		for i := range c.fi.fresh {
			c.fi.fresh[i] = false
		}
	}
	var parts []string
	for _, p := range c.inout {
		parts = append(parts, c.varType(p))
	}
	for i := 0; i < res.Len(); i++ {
		parts = append(parts, c.g.typ(res.At(i).Type(), c.sub))
		if res.At(i).Name() != "" && res.At(i).Name() != "_" {
			c.namedRes = append(c.namedRes, res.At(i))
		}
	}
	if len(c.namedRes) != 0 && len(c.namedRes) != res.Len() {
		c.fail(c.decl, "partly named results are not supported")
	}
	switch len(parts) {
	case 0:
		c.fi.resType = "unit"
	case 1:
		c.fi.resType = parts[0]
	default:
		c.fi.resType = "(" + strings.Join(parts, " * ") + ")"
	}
}

// ---------- the driver ----------

func (c *fn) translate(it *item) {
	needsEffect := false
	run := func(partial bool) (text string, again bool) {
		defer func() {
			if r := recover(); r != nil {
				if _, ok := r.(needPartial); ok && !partial {
					again = true
					return
				}
				if _, ok := r.(needEffect); ok && !c.effect {
					needsEffect = true
					return
				}
				panic(r)
			}
		}()
		c.partial = partial
		c.worldObj, c.synthIdent, c.noEffect, c.deferred, c.deferRet = nil, map[*ast.Ident]string{}, 0, nil, nil
		c.activeLink, c.linkBusy = map[types.Object]string{}, map[*ast.AssignStmt]bool{}
		c.asTarget, c.msgOnly, c.ownedAt, c.consumedParam = nil, nil, nil, nil
		c.names = map[types.Object]string{}
		c.used = map[string]bool{}
		c.nfresh = 0
		c.views = map[types.Object]string{}
		c.inout = nil
		c.namedRes = nil
		c.fi.params = nil
		c.breakK, c.contK = nil, nil
		c.localTypes, c.localOrder, c.nameObj = map[string]string{}, nil, map[string]types.Object{}
		c.lifted, c.nloops, c.loopDepth = nil, 0, 0
		c.closureVar, c.closureOpt = map[types.Object]bool{}, map[types.Object]bool{}
		c.nonNilErr, c.inMsg = map[types.Object]bool{}, 0
		c.assumes = nil
		c.analyse()
		c.retType = c.fi.resType
		if partial {
			c.retType = "(option " + c.fi.resType + ")"
		}
		end := func() string {
			if c.sig.Results().Len() > 0 && len(c.namedRes) == 0 {
				c.fail(c.decl, "control reaches the end of a function with results")
			}
			return c.finish(c.decl.Body, nil)
		}
		body := func() string { return c.block(c.decl.Body.List, end) }
		var pre []string
		for _, r := range c.namedRes {
			pre = append(pre, fmt.Sprintf("let %s : %s := %s in", c.nameOf(r), c.varType(r), c.g.zero(r.Type(), c.sub)))
		}
		term := body()
		if len(pre) > 0 {
			term = strings.Join(pre, " ") + " " + term
		}
		var ps []string
		var pnames []string
		if c.effect {
			ps = append(ps, fmt.Sprintf("(%s : %s)", c.names[c.worldObj], c.g.world()))
			pnames = append(pnames, c.names[c.worldObj])
		}
		for _, p := range c.fi.params {
			if !p.dropped {
				ps = append(ps, fmt.Sprintf("(%s : %s)", p.name, p.typ))
			}
		}
		for _, p := range c.fi.params {
			if !p.dropped {
				pnames = append(pnames, p.name)
			}
		}
		c.checkClosed(c.decl, term, pnames)
		hdr := fmt.Sprintf("(* %s  [%s] *)\nDefinition %s %s: %s :=\n", cmt(c.fi.label), c.g.L.pos(c.decl.Pos(), c.pkg), c.fi.name, strings.Join(append(ps, ""), " "), c.retType)
		pre2 := ""
		for _, l := range c.lifted {
			pre2 += l + "\n"
		}
		seenA := map[string]bool{}
		for _, a := range c.assumes {
			if !seenA[a] {
				seenA[a] = true
				pre2 += "(* ASSUMES: " + cmt(a) + " *)\n"
			}
		}
		return pre2 + hdr + "  " + indentTerm(term) + ".", false
	}
	c.effect = false
	text, again := run(false)
	if needsEffect {
		c.effect, needsEffect = true, false
		text, again = run(false)
	}
	if again {
		text, _ = run(true)
		if needsEffect {
			c.effect, needsEffect = true, false
			text, _ = run(true)
		}
	}
	c.fi.partial = c.partial
	// local names must not capture global names of this file
	for n := range c.used {
		if owner, ok := c.g.names[n]; ok && owner != "" {
			c.g.fail("local name %s collides with a generated global name", n)
		}
	}
	it.text = text
}

// indentTerm breaks the one-line term at let / if / match boundaries to keep
// the generated file readable (purely cosmetic).
func indentTerm(s string) string {
	var b strings.Builder
	depth := 1
	i := 0
	inStr := false
	for i < len(s) {
		ch := s[i]
		if ch == '"' {
			inStr = !inStr
		}
		if !inStr {
			if strings.HasPrefix(s[i:], " in ") {
				b.WriteString(" in\n" + strings.Repeat("  ", depth))
				i += 4
				continue
			}
			if strings.HasPrefix(s[i:], " then ") {
				b.WriteString(" then\n" + strings.Repeat("  ", depth+1))
				i += 6
				continue
			}
			if strings.HasPrefix(s[i:], " else ") {
				b.WriteString("\n" + strings.Repeat("  ", depth) + "else ")
				i += 6
				continue
			}
			if strings.HasPrefix(s[i:], " | ") {
				b.WriteString("\n" + strings.Repeat("  ", depth) + "| ")
				i += 3
				continue
			}
			if strings.HasPrefix(s[i:], " end") {
				b.WriteString("\n" + strings.Repeat("  ", depth) + "end")
				i += 4
				continue
			}
			if ch == '(' {
				depth++
			} else if ch == ')' && depth > 1 {
				depth--
			}
		}
		b.WriteByte(ch)
		i++
	}
	return b.String()
}

// returnTerm builds the value a return statement yields (inout parameters first).
func (c *fn) returnTerm(n ast.Node, vals []string) string {
	var parts []string
	for _, p := range c.inout {
		parts = append(parts, c.nameOf(p))
	}
	if vals == nil {
		for _, r := range c.namedRes {
			parts = append(parts, c.nameOf(r))
		}
	} else {
		parts = append(parts, vals...)
	}
	var t string
	switch len(parts) {
	case 0:
		t = "tt"
	case 1:
		t = parts[0]
	default:
		t = "(" + strings.Join(parts, ", ") + ")"
	}
	if c.partial {
		return "(Some " + t + ")"
	}
	return t
}

// assignedIn lists the variables declared outside n that are assigned inside.
func (c *fn) assignedIn(n ast.Node) []types.Object {
	set := map[types.Object]bool{}
	add := func(e ast.Expr) {
		id := c.rootIdent(e)
		if id == nil || id.Name == "_" {
			return
		}
		o := c.objOf(id)
		if o == nil || !c.isLocal(o) {
			return
		}
		if o.Pos() >= n.Pos() && o.Pos() < n.End() {
			return
		}
		set[o] = true
	}
	ast.Inspect(n, func(x ast.Node) bool {
		switch s := x.(type) {
		case *ast.AssignStmt:
			for _, l := range s.Lhs {
				add(l)
			}
		case *ast.IncDecStmt:
			add(s.X)
		case *ast.RangeStmt:
			if s.Tok == token.ASSIGN {
				if s.Key != nil {
					add(s.Key)
				}
				if s.Value != nil {
					add(s.Value)
				}
			}
		case *ast.CallExpr:
			if id, ok := unparen(s.Fun).(*ast.Ident); ok {
				if b, ok := c.info.Uses[id].(*types.Builtin); ok && b.Name() == "delete" && len(s.Args) == 2 {
					add(s.Args[0])
				}
			}
			fi, _, recv := c.calleeInfo(s)
			if fi != nil && fi.effect && c.worldObj != nil {
				set[c.worldObj] = true
			}
			if fi != nil && fi.inoutCount() > 0 {
				args := s.Args
				if recv != nil {
					args = append([]ast.Expr{recv}, args...)
				}
				for i, p := range fi.params {
					if p.inout && i < len(args) {
						add(args[i])
					}
				}
			}
		}
		return true
	})
	for o := range set {
		if l := c.linkOf[o]; l != nil && c.isLocal(l.owner) && !(l.owner.Pos() >= n.Pos() && l.owner.Pos() < n.End()) {
			set[l.owner] = true // a write through the element also replaces it in the list of its owner
		}
	}
	var out []types.Object
	for o := range set {
		out = append(out, o)
	}
	sort.Slice(out, func(i, j int) bool { return out[i].Pos() < out[j].Pos() })
	return out
}

// varType is the Coq type of the Coq variable that stands for o.
func (c *fn) varType(o types.Object) string {
	if c.worldObj != nil && o == c.worldObj {
		return c.g.world()
	}
	if c.closureVar[o] && c.closureOpt[o] {
		if sig, ok := resolve(o.Type(), c.sub).Underlying().(*types.Signature); ok {
			t := c.g.sigType(sig, c.sub, nil)
			res := c.g.tupleType(sig.Results(), c.sub)
			// the closure may panic: its result lives in the option monad
			return strings.TrimSuffix(t, res+")") + "(option " + res + "))"
		}
	}
	if c.asValue[o] {
		return c.g.ptrElemType(o.Type(), c.sub)
	}
	return c.g.typ(o.Type(), c.sub)
}

// checkAliases refuses a function in which a map / pointer this function may
// mutate (created here, or a mutated map parameter) is mutated after a second
// reference to it has been made (assigned to another variable or field, put in
// a literal, handed to a function that could return it): such a variable is a
// value in the translation, and the alias would not see the mutation.
func (c *fn) checkAliases() {
	var stack []ast.Node
	type occ struct {
		pos   token.Pos
		loops []ast.Node
		res   types.Type // alias through the results of a call that received the object: their type
		final bool       // mutation by the call of `return f(.., o, ..)`: nothing of this function runs afterwards
	}
	// finalCall: call is the whole of a return statement, o the only object this function returns to its
	// caller besides results that cannot carry a reference: what the locals alias no longer matters
	finalCall := func(call *ast.CallExpr, parent ast.Node, o types.Object) bool {
		rs, ok := parent.(*ast.ReturnStmt)
		if !ok || len(rs.Results) != 1 || unparen(rs.Results[0]) != ast.Expr(call) {
			return false
		}
		for _, p := range c.inout {
			if types.Object(p) != o && p != c.worldObj {
				return false
			}
		}
		res := c.sig.Results()
		for i := 0; i < res.Len(); i++ {
			switch c.g.kind(res.At(i).Type(), c.sub) {
			case kString, kInt, kBool, kError, kUnit, kTime, kDropped:
			default:
				return false
			}
		}
		for _, n := range stack {
			if _, isLit := n.(*ast.FuncLit); isLit {
				return false
			}
		}
		return len(c.deferredLits()) == 0
	}
	aliases := map[types.Object][]occ{}
	muts := map[types.Object][]occ{}
	profiles := map[types.Object]*mutProfile{}
	prof := func(o types.Object) *mutProfile {
		if profiles[o] == nil {
			profiles[o] = &mutProfile{}
		}
		return profiles[o]
	}
	appended := map[types.Object]bool{}
	for _, o := range c.okAppend() {
		appended[o] = true
	}
	tracked := func(o types.Object) bool {
		if o != nil && appended[o] && c.g.kind(o.Type(), c.sub) == kSlice {
			return true // x = append(x, ..): two slices sharing a backing array would be told apart
		}
		if o == nil || !c.mutable[o] {
			return false
		}
		k := c.g.kind(o.Type(), c.sub)
		if k == kStruct {
			// a struct value holding a map this function writes to
			for _, fresh := range c.freshFields[o] {
				if fresh {
					return true
				}
			}
			return false
		}
		return k == kMap || k == kPtr
	}
	mayCarry := func(t types.Type) bool {
		carry := func(t types.Type) bool {
			switch c.g.kind(t, c.sub) {
			case kString, kInt, kBool, kError, kUnit, kTime, kRegexp, kDropped:
				return false
			}
			return true
		}
		if tu, ok := t.(*types.Tuple); ok {
			for i := 0; i < tu.Len(); i++ {
				if carry(tu.At(i).Type()) {
					return true
				}
			}
			return false
		}
		return t != nil && carry(t)
	}
	loopsOf := func() []ast.Node {
		var out []ast.Node
		for _, n := range stack {
			switch n.(type) {
			case *ast.ForStmt, *ast.RangeStmt:
				out = append(out, n)
			}
		}
		return out
	}
	rootMut := func(e ast.Expr) {
		// e is an lvalue that is not a plain identifier: its root is mutated
		if _, plain := unparen(e).(*ast.Ident); plain {
			return
		}
		if id := c.rootIdent(e); id != nil {
			if o := c.objOf(id); tracked(o) {
				muts[o] = append(muts[o], occ{pos: e.Pos(), loops: loopsOf()})
				pr := prof(o)
				if ix, ok := unparen(e).(*ast.IndexExpr); ok {
					if t := c.tyOf(ix.X); t != nil {
						switch resolve(t, c.sub).Underlying().(type) {
						case *types.Map:
							pr.maps = append(pr.maps, resolve(t, c.sub))
							return
						case *types.Slice:
							pr.slices = append(pr.slices, resolve(t, c.sub))
							return
						}
					}
				}
				pr.field = true
			}
		}
	}
	ast.Inspect(c.decl.Body, func(n ast.Node) bool {
		if n == nil {
			stack = stack[:len(stack)-1]
			return true
		}
		stack = append(stack, n)
		switch x := n.(type) {
		case *ast.AssignStmt:
			for _, l := range x.Lhs {
				rootMut(l)
			}
			for _, r := range x.Rhs {
				if call, ok := unparen(r).(*ast.CallExpr); ok {
					if o := c.okAppend()[call]; o != nil && tracked(o) {
						muts[o] = append(muts[o], occ{pos: call.Pos(), loops: loopsOf()})
						if t := c.tyOf(call); t != nil {
							prof(o).slices = append(prof(o).slices, resolve(t, c.sub))
						}
					}
				}
			}
		case *ast.IncDecStmt:
			rootMut(x.X)
		case *ast.Ident:
			o := c.objOf(x)
			if !tracked(o) || len(stack) < 2 {
				return true
			}
			// the closest ancestor that is not a parenthesis
			pi := len(stack) - 2
			for pi > 0 {
				if _, ok := stack[pi].(*ast.ParenExpr); !ok {
					break
				}
				pi--
			}
			child := ast.Node(x)
			if pi+1 < len(stack)-1 {
				child = stack[pi+1]
			}
			alias := true
			switch p := stack[pi].(type) {
			case *ast.SelectorExpr:
				if p.X == child {
					alias = false
					if sel, ok := c.info.Selections[p]; ok && sel.Kind() == types.MethodVal {
						// a method call on it: mutation when the callee mutates it, alias when its results could carry it
						if pi > 0 {
							if call, ok := stack[pi-1].(*ast.CallExpr); ok && call.Fun == ast.Expr(p) {
								fi, _, _ := c.calleeInfoSafe(call)
								if fi != nil && len(fi.params) > 0 && fi.params[0].inout {
									muts[o] = append(muts[o], occ{pos: x.Pos(), loops: loopsOf()})
									prof(o).any = true
								} else if mayCarry(c.tyOf(call)) {
									aliases[o] = append(aliases[o], occ{pos: x.Pos(), loops: loopsOf(), res: c.tyOf(call)})
								}
							}
						}
					}
				}
			case *ast.IndexExpr:
				alias = p.X != child
			case *ast.StarExpr, *ast.RangeStmt, *ast.ReturnStmt, *ast.BinaryExpr:
				alias = false
			case *ast.AssignStmt:
				for _, l := range p.Lhs {
					if l == child {
						alias = false
					}
				}
			case *ast.ValueSpec:
				for _, nm := range p.Names {
					if nm == x {
						alias = false
					}
				}
			case *ast.CallExpr:
				if id, ok := unparen(p.Fun).(*ast.Ident); ok {
					if b, ok := c.info.Uses[id].(*types.Builtin); ok {
						switch b.Name() {
						case "append":
							// the slice itself is no alias; an appended element is one (the list refers to it),
							// except for the element link the translation keeps in step (findLinks)
							alias = len(p.Args) > 0 && p.Args[0] != child
							if alias && pi > 0 {
								if as, ok := stack[pi-1].(*ast.AssignStmt); ok {
									if l := c.linkAt[as]; l != nil && l.elem == o {
										alias = false
									}
								}
							}
						case "len", "cap", "copy":
							alias = false
						case "delete":
							alias = false
							if len(p.Args) > 0 && p.Args[0] == child {
								muts[o] = append(muts[o], occ{pos: x.Pos(), loops: loopsOf()})
								if t := c.tyOf(p.Args[0]); t != nil {
									prof(o).maps = append(prof(o).maps, resolve(t, c.sub))
								}
							}
						}
						break
					}
				}
				fi, _, recv := c.calleeInfoSafe(p)
				if fi != nil {
					args := p.Args
					if recv != nil {
						args = append([]ast.Expr{recv}, args...)
					}
					for i, a := range args {
						if a == child && i < len(fi.params) {
							if fi.params[i].inout {
								alias = false
								if pi > 0 && finalCall(p, stack[pi-1], o) {
									muts[o] = append(muts[o], occ{pos: x.Pos(), loops: loopsOf(), final: true})
								} else {
									muts[o] = append(muts[o], occ{pos: x.Pos(), loops: loopsOf()})
									prof(o).any = true
								}
							} else if !mayCarry(c.tyOf(p)) {
								alias = false
							} else {
								// only the results of the call could refer to the object: decided by their type
								alias = false
								aliases[o] = append(aliases[o], occ{pos: x.Pos(), loops: loopsOf(), res: c.tyOf(p)})
							}
						}
					}
				}
			}
			if alias {
				aliases[o] = append(aliases[o], occ{pos: x.Pos(), loops: loopsOf()})
			}
		}
		return true
	})
	var aliased []types.Object
	for o := range aliases {
		aliased = append(aliased, o)
	}
	sort.Slice(aliased, func(i, j int) bool {
		if aliased[i].Pos() != aliased[j].Pos() {
			return aliased[i].Pos() < aliased[j].Pos()
		}
		return aliased[i].Name() < aliased[j].Name()
	})
	for _, o := range aliased {
		as := aliases[o]
		for _, a := range as {
			if a.res != nil && profiles[o] != nil && !c.mayShare(a.res, o, profiles[o]) {
				continue // by their types the results of that call cannot refer to what this function mutates
			}
			for _, m := range muts[o] {
				if m.final && a.res != nil {
					continue
				}
				bad := m.pos > a.pos
				for _, la := range a.loops {
					for _, lm := range m.loops {
						// a later iteration of a common loop only matters for a variable that outlives the iteration
						if la == lm && !(o.Pos() >= la.Pos() && o.Pos() < la.End()) {
							bad = true
						}
					}
				}
				if bad {
					panic(unsup{fmt.Sprintf("%s is mutated (%s) after a second reference to it was made (%s): aliasing is not modelled",
						o.Name(), c.g.L.pos(m.pos, c.pkg), c.g.L.pos(a.pos, c.pkg))})
				}
			}
		}
	}
}

// deferredLits: the function literals deferred in the body.
func (c *fn) deferredLits() []*ast.FuncLit {
	var out []*ast.FuncLit
	if c.decl == nil {
		return out
	}
	ast.Inspect(c.decl.Body, func(n ast.Node) bool {
		if d, ok := n.(*ast.DeferStmt); ok {
			if lit, ok := unparen(d.Call.Fun).(*ast.FuncLit); ok {
				out = append(out, lit)
			}
		}
		return true
	})
	return out
}

// elemLink: the statement `X.F = append(X.F, p)` after which the translation keeps element
// len-before of X.F equal to p: every later write through p also replaces that element.
type elemLink struct {
	stmt  *ast.AssignStmt
	owner types.Object // X
	lhs   ast.Expr     // X.F
	elem  types.Object // p
}

// findLinks recognises element links. Conditions (else the append is an ordinary second reference
// to p and a later write through p is refused by checkAliases):
//   - S is `X.F = append(X.F, p)`, X a variable this function owns (in/out parameter, local struct or
//     owned pointer), p a local pointer variable it owns (all its values are created here);
//   - S is a statement of a block B; every write through p after S is in a later statement of B;
//   - from S to the last statement of B that mentions p: p is not assigned, X is not assigned, X.F is
//     only assigned by `X.F = append(X.F, ..)`, X is not handed to a callee that writes through it,
//     no function literal mentions p or X;
//   - a loop around S also contains the declaration of p.
func (c *fn) findLinks() {
	c.linkAt, c.linkOf = map[*ast.AssignStmt]*elemLink{}, map[types.Object]*elemLink{}
	if c.decl == nil {
		return
	}
	mentions := func(n ast.Node, o types.Object) bool {
		found := false
		ast.Inspect(n, func(x ast.Node) bool {
			if id, ok := x.(*ast.Ident); ok && c.objOf(id) == o {
				found = true
			}
			return !found
		})
		return found
	}
	// writes through o (o.f = v, *o = v, o handed to a callee that writes through it) inside n
	writesThrough := func(n ast.Node, o types.Object) []token.Pos {
		var out []token.Pos
		ast.Inspect(n, func(x ast.Node) bool {
			switch s := x.(type) {
			case *ast.AssignStmt:
				for _, l := range s.Lhs {
					if _, plain := unparen(l).(*ast.Ident); plain {
						continue
					}
					if id := c.rootIdent(l); id != nil && c.objOf(id) == o {
						out = append(out, l.Pos())
					}
				}
			case *ast.IncDecStmt:
				if _, plain := unparen(s.X).(*ast.Ident); !plain {
					if id := c.rootIdent(s.X); id != nil && c.objOf(id) == o {
						out = append(out, s.X.Pos())
					}
				}
			case *ast.CallExpr:
				if tv, isT := c.info.Types[s.Fun]; isT && tv.IsType() {
					return true
				}
				fi, _, recv := c.calleeInfoSafe(s)
				if fi == nil {
					return true
				}
				args := s.Args
				if recv != nil {
					args = append([]ast.Expr{recv}, args...)
				}
				for i, a := range args {
					if i < len(fi.params) && fi.params[i].inout {
						if id := c.rootIdent(a); id != nil && c.objOf(id) == o {
							out = append(out, a.Pos())
						}
					}
				}
			}
			return true
		})
		return out
	}
	var stack []ast.Node
	ast.Inspect(c.decl.Body, func(n ast.Node) bool {
		if n == nil {
			stack = stack[:len(stack)-1]
			return true
		}
		stack = append(stack, n)
		s, ok := n.(*ast.AssignStmt)
		if !ok || len(s.Lhs) != 1 || len(s.Rhs) != 1 || s.Tok != token.ASSIGN {
			return true
		}
		call, ok := unparen(s.Rhs[0]).(*ast.CallExpr)
		if !ok || len(call.Args) != 2 || call.Ellipsis.IsValid() {
			return true
		}
		xo := c.okAppend()[call]
		sel, isSel := unparen(s.Lhs[0]).(*ast.SelectorExpr)
		if xo == nil || !isSel {
			return true
		}
		xid, ok := unparen(sel.X).(*ast.Ident)
		if !ok || c.objOf(xid) != xo || !c.mutable[xo] {
			return true
		}
		pid, ok := unparen(call.Args[1]).(*ast.Ident)
		if !ok {
			return true
		}
		po := c.objOf(pid)
		if po == nil || !c.isLocal(po) || !c.mutable[po] || c.g.kind(po.Type(), c.sub) != kPtr || c.linkOf[po] != nil {
			return true
		}
		if len(stack) < 2 {
			return true
		}
		blk, ok := stack[len(stack)-2].(*ast.BlockStmt)
		if !ok {
			return true
		}
		idx := -1
		for i, st := range blk.List {
			if st == ast.Stmt(s) {
				idx = i
			}
		}
		if idx < 0 {
			return true
		}
		// a loop around S must contain the declaration of p
		for _, a := range stack {
			switch a.(type) {
			case *ast.ForStmt, *ast.RangeStmt:
				if !(po.Pos() >= a.Pos() && po.Pos() < a.End()) {
					return true
				}
			case *ast.FuncLit:
				return true
			}
		}
		rest := blk.List[idx+1:]
		last := -1
		for j, st := range rest {
			if mentions(st, po) {
				last = j
			}
		}
		// every write through p after S lies in rest
		for _, w := range writesThrough(c.decl.Body, po) {
			if w > s.End() && !(len(rest) > 0 && w >= rest[0].Pos() && w < blk.End()) {
				return true
			}
		}
		okLink := true
		for j := 0; j <= last && okLink; j++ {
			ast.Inspect(rest[j], func(x ast.Node) bool {
				switch y := x.(type) {
				case *ast.FuncLit:
					if mentions(y, po) || mentions(y, xo) {
						okLink = false
					}
				case *ast.AssignStmt:
					for li, l := range y.Lhs {
						if id, plain := unparen(l).(*ast.Ident); plain {
							if o := c.objOf(id); o == po || o == xo {
								okLink = false
							}
							continue
						}
						if c.pathString(l) == c.pathString(s.Lhs[0]) {
							// X.F = append(X.F, ..) keeps the positions
							good := false
							if len(y.Lhs) == len(y.Rhs) {
								if ac, isCall := unparen(y.Rhs[li]).(*ast.CallExpr); isCall && c.okAppend()[ac] == xo {
									good = true
								}
							}
							if !good {
								okLink = false
							}
						} else if ix, isIx := unparen(l).(*ast.IndexExpr); isIx && c.pathString(ix.X) == c.pathString(s.Lhs[0]) {
							okLink = false
						}
					}
				case *ast.RangeStmt:
					if y.Tok == token.ASSIGN {
						for _, e := range []ast.Expr{y.Key, y.Value} {
							if e != nil {
								if id, plain := unparen(e).(*ast.Ident); plain {
									if o := c.objOf(id); o == po || o == xo {
										okLink = false
									}
								}
							}
						}
					}
				}
				return okLink
			})
			if len(writesThrough(rest[j], xo)) > 0 {
				// a write through X by a callee could move the elements; plain field stores are in AssignStmt above
				for _, w := range writesThrough(rest[j], xo) {
					_ = w
				}
			}
			// X handed to a callee that writes through it
			ast.Inspect(rest[j], func(x ast.Node) bool {
				cl, isCall := x.(*ast.CallExpr)
				if !isCall {
					return okLink
				}
				if tv, isT := c.info.Types[cl.Fun]; isT && tv.IsType() {
					return okLink
				}
				fi, _, recv := c.calleeInfoSafe(cl)
				if fi == nil {
					return okLink
				}
				args := cl.Args
				if recv != nil {
					args = append([]ast.Expr{recv}, args...)
				}
				for i, a := range args {
					if i < len(fi.params) && fi.params[i].inout {
						if id := c.rootIdent(a); id != nil && c.objOf(id) == xo {
							okLink = false
						}
					}
				}
				return okLink
			})
		}
		if !okLink {
			return true
		}
		l := &elemLink{stmt: s, owner: xo, lhs: s.Lhs[0], elem: po}
		c.linkAt[s] = l
		c.linkOf[po] = l
		c.g.note(fmt.Sprintf("%s: %s is appended to %s.%s and written through afterwards: the translation replaces that element of the list at every such write (the list is only appended to in between)", c.fi.label, po.Name(), xo.Name(), sel.Sel.Name))
		return true
	})
}

// zeroDecl stands for the value of a declaration without initialiser (`var p *T`).
var zeroDecl = &ast.Ident{Name: "nil"}

// mutProfile: how a function mutates an object it owns.
type mutProfile struct {
	field  bool         // assignments to its own memory (o.f = v, *o = v)
	slices []types.Type // slice types appended to / written (o.f = append(o.f, ..))
	maps   []types.Type // map types written (o.f[k] = v, delete)
	any    bool         // handed to a callee that writes through it
}

// mayShare: could a value of type res (the results of a call that received o)
// refer to memory this function mutates through o? Decided by types: a pointer
// to the pointee of o or to a part of it that is held by value, a slice / map
// of a type that is appended to / written. Interface values (except error),
// function values and channels could hold anything.
func (c *fn) mayShare(res types.Type, o types.Object, pr *mutProfile) bool {
	if pr.any {
		return true
	}
	var parts []types.Type
	if pr.field {
		root := resolve(o.Type(), c.sub)
		if p, ok := root.Underlying().(*types.Pointer); ok {
			root = resolve(p.Elem(), c.sub)
		}
		seenP := map[string]bool{}
		var byValue func(t types.Type)
		byValue = func(t types.Type) {
			key := types.TypeString(t, nil)
			if seenP[key] {
				return
			}
			seenP[key] = true
			parts = append(parts, t)
			switch u := t.Underlying().(type) {
			case *types.Struct:
				for i := 0; i < u.NumFields(); i++ {
					byValue(resolve(u.Field(i).Type(), c.sub))
				}
			case *types.Array:
				byValue(resolve(u.Elem(), c.sub))
			}
		}
		byValue(root)
	}
	in := func(t types.Type, set []types.Type) bool {
		for _, x := range set {
			if types.Identical(t, x) {
				return true
			}
		}
		return false
	}
	seen := map[string]bool{}
	depth := 0
	assumed := false
	var walk func(t types.Type) bool
	walk = func(t types.Type) bool {
		if t == nil {
			return false
		}
		t = resolve(t, c.sub)
		key := types.TypeString(t, nil)
		if seen[key] {
			return false
		}
		seen[key] = true
		if tu, ok := t.(*types.Tuple); ok {
			for i := 0; i < tu.Len(); i++ {
				if walk(tu.At(i).Type()) {
					return true
				}
			}
			return false
		}
		depth++
		defer func() { depth-- }()
		switch c.g.kind(t, c.sub) {
		case kString, kInt, kBool, kError, kUnit, kTime, kRegexp, kDropped:
			return false
		}
		switch u := t.Underlying().(type) {
		case *types.Basic:
			return false
		case *types.Pointer:
			if in(resolve(u.Elem(), c.sub), parts) {
				return true
			}
			return walk(u.Elem())
		case *types.Slice:
			if in(t, pr.slices) || in(u, pr.slices) {
				return true
			}
			return walk(u.Elem())
		case *types.Array:
			return walk(u.Elem())
		case *types.Map:
			if in(t, pr.maps) || in(u, pr.maps) {
				return true
			}
			return walk(u.Key()) || walk(u.Elem())
		case *types.Struct:
			for i := 0; i < u.NumFields(); i++ {
				if walk(u.Field(i).Type()) {
					return true
				}
			}
			return false
		}
		// interfaces, functions, channels could hold anything. As a result itself: yes. Nested inside a
		// result (a field of type any deep in a structure): assumed not to refer to the caller's object.
		if depth <= 1 {
			return true
		}
		assumed = true
		return false
	}
	r := walk(res)
	if !r && assumed {
		c.g.note(c.fi.label + ": values of interface / function type nested inside the results of a call that received " + o.Name() + " are assumed not to refer to (parts of) " + o.Name() + ", which is written afterwards")
	}
	return r
}

// ---------- function literals ----------

// assignPositions lists, per local variable, where it is assigned or mutated
// (declarations excluded).
func (c *fn) assignPositions() map[types.Object][]token.Pos {
	out := map[types.Object][]token.Pos{}
	if c.decl == nil {
		return out
	}
	add := func(e ast.Expr, define bool) {
		id := c.rootIdent(e)
		if id == nil || id.Name == "_" {
			return
		}
		if define {
			if _, isPlain := unparen(e).(*ast.Ident); isPlain && c.info.Defs[id] != nil {
				return // the declaration itself
			}
		}
		if o := c.objOf(id); o != nil && c.isLocal(o) {
			out[o] = append(out[o], e.Pos())
		}
	}
	ast.Inspect(c.decl.Body, func(x ast.Node) bool {
		switch s := x.(type) {
		case *ast.AssignStmt:
			for _, l := range s.Lhs {
				add(l, s.Tok == token.DEFINE)
			}
		case *ast.IncDecStmt:
			add(s.X, false)
		case *ast.RangeStmt:
			if s.Tok == token.ASSIGN {
				if s.Key != nil {
					add(s.Key, false)
				}
				if s.Value != nil {
					add(s.Value, false)
				}
			}
		case *ast.CallExpr:
			if id, ok := unparen(s.Fun).(*ast.Ident); ok {
				if b, ok := c.info.Uses[id].(*types.Builtin); ok && b.Name() == "delete" && len(s.Args) == 2 {
					add(s.Args[0], false)
				}
			}
			fi, _, recv := c.calleeInfoSafe(s)
			if fi != nil && fi.inoutCount() > 0 {
				args := s.Args
				if recv != nil {
					args = append([]ast.Expr{recv}, args...)
				}
				for i, p := range fi.params {
					if p.inout && i < len(args) {
						add(args[i], false)
					}
				}
			}
		}
		return true
	})
	return out
}

// captured lists the local variables of the enclosing function a function
// literal mentions.
func (c *fn) captured(lit *ast.FuncLit) []types.Object {
	seen := map[types.Object]bool{}
	var out []types.Object
	ast.Inspect(lit.Body, func(n ast.Node) bool {
		id, ok := n.(*ast.Ident)
		if !ok {
			return true
		}
		o := c.info.Uses[id]
		if o == nil || !c.isLocal(o) || seen[o] {
			return true
		}
		if o.Pos() >= lit.Pos() && o.Pos() < lit.End() {
			return true // its own parameter or local
		}
		seen[o] = true
		out = append(out, o)
		return true
	})
	sort.Slice(out, func(i, j int) bool { return out[i].Pos() < out[j].Pos() })
	return out
}

// enclosingLoops returns the loops of the function body that contain node target.
func (c *fn) enclosingLoops(target ast.Node) []ast.Node {
	var stack, found []ast.Node
	ast.Inspect(c.decl.Body, func(n ast.Node) bool {
		if n == nil {
			stack = stack[:len(stack)-1]
			return true
		}
		if n == target {
			for _, s := range stack {
				switch s.(type) {
				case *ast.ForStmt, *ast.RangeStmt:
					found = append(found, s)
				}
			}
		}
		stack = append(stack, n)
		return true
	})
	return found
}

// funcLit translates a function literal whose captured variables are never
// assigned once it exists: a local `fun`. The closure is pure, or lives in the
// option monad when its body contains a partial operation, independently of
// the enclosing function.
func (c *fn) funcLit(lit *ast.FuncLit) (cx, bool) {
	if c.decl == nil {
		c.fail(lit, "function literal in a package-level initialiser")
	}
	litState := c.litState
	c.litState = nil
	isState := map[types.Object]bool{}
	for _, o := range litState {
		isState[o] = true
	}
	pos := c.assignPositions()
	loops := c.enclosingLoops(lit)
	for _, o := range c.captured(lit) {
		if c.g.kind(o.Type(), c.sub) == kDropped || isState[o] {
			continue
		}
		for _, p := range pos[o] {
			bad := p > lit.Pos()
			for _, l := range loops {
				if p >= l.Pos() && p < l.End() {
					bad = true
				}
			}
			if bad {
				c.fail(lit, "the function literal captures %s, which is assigned (%s) after the literal is created", o.Name(), c.g.L.pos(p, c.pkg))
			}
		}
	}
	sig, ok := c.typeOf(lit).Underlying().(*types.Signature)
	if !ok || sig.Variadic() {
		c.fail(lit, "function literal with an unsupported signature")
	}
	type saved struct {
		sig      *types.Signature
		partial  bool
		retType  string
		inout    []*types.Var
		namedRes []*types.Var
		breakK   []kont
		contK    []kont
		depth    int
		resType  string
	}
	c.noEffect++
	sDeferred, sDeferRet := c.deferred, c.deferRet
	c.deferred, c.deferRet = nil, nil
	defer func() { c.noEffect--; c.deferred, c.deferRet = sDeferred, sDeferRet }()
	sv := saved{c.sig, c.partial, c.retType, c.inout, c.namedRes, c.breakK, c.contK, c.loopDepth, c.fi.resType}
	restore := func() {
		c.sig, c.partial, c.retType, c.inout, c.namedRes, c.breakK, c.contK, c.loopDepth = sv.sig, sv.partial, sv.retType, sv.inout, sv.namedRes, sv.breakK, sv.contK, sv.depth
		c.fi.resType = sv.resType
	}
	defer restore()
	run := func(partial bool) (text string, again bool) {
		nl, nlo, nlf, nf := c.nloops, len(c.localOrder), len(c.lifted), c.nfresh
		views := c.saveViews()
		usedS := map[string]bool{}
		for k, v := range c.used {
			usedS[k] = v
		}
		namesS := map[types.Object]string{}
		for k, v := range c.names {
			namesS[k] = v
		}
		defer func() {
			if r := recover(); r != nil {
				if _, ok := r.(needPartial); ok && !partial {
					c.used, c.names = usedS, namesS
					for _, x := range c.localOrder[nlo:] {
						delete(c.localTypes, x)
					}
					c.localOrder, c.nloops, c.lifted, c.nfresh, c.views = c.localOrder[:nlo], nl, c.lifted[:nlf], nf, views
					again = true
					return
				}
				panic(r)
			}
		}()
		c.sig, c.partial, c.inout, c.breakK, c.contK, c.loopDepth = sig, partial, append([]*types.Var{}, litState...), nil, nil, 0
		c.namedRes = nil
		res := sig.Results()
		for i := 0; i < res.Len(); i++ {
			if n := res.At(i).Name(); n != "" && n != "_" {
				c.namedRes = append(c.namedRes, res.At(i))
			}
		}
		if len(c.namedRes) != 0 && len(c.namedRes) != res.Len() {
			c.fail(lit, "partly named results are not supported")
		}
		rt := c.g.tupleType(res, c.sub)
		if len(litState) > 0 {
			var parts []string
			for _, o := range litState {
				parts = append(parts, c.varType(o))
			}
			for i := 0; i < res.Len(); i++ {
				parts = append(parts, c.g.typ(res.At(i).Type(), c.sub))
			}
			rt = "(" + strings.Join(parts, " * ") + ")"
		}
		c.fi.resType = rt
		c.retType = rt
		if partial {
			c.retType = "(option " + rt + ")"
		}
		var params []string
		for _, o := range litState {
			// the variables the literal assigns are its state: parameters, returned first
			params = append(params, fmt.Sprintf("(%s : %s)", c.nameOf(o), c.varType(o)))
			delete(c.views, o)
		}
		for i := 0; i < sig.Params().Len(); i++ {
			p := sig.Params().At(i)
			if c.g.kind(p.Type(), c.sub) == kDropped {
				continue
			}
			name := c.fresh("arg")
			if p.Name() != "" && p.Name() != "_" {
				name = c.nameOf(p)
			}
			params = append(params, fmt.Sprintf("(%s : %s)", name, c.g.typ(p.Type(), c.sub)))
		}
		if len(params) == 0 {
			params = []string{"(_ : unit)"}
		}
		end := func() string {
			if res.Len() > 0 && len(c.namedRes) == 0 {
				c.fail(lit, "control reaches the end of a function literal with results")
			}
			return c.returnTerm(lit.Body, nil)
		}
		pre := ""
		for _, r := range c.namedRes {
			pre += fmt.Sprintf("let %s : %s := %s in ", c.nameOf(r), c.varType(r), c.g.zero(r.Type(), c.sub))
		}
		body := c.scoped(func() string { return c.block(lit.Body.List, end) })
		return "(fun " + strings.Join(params, " ") + " => " + pre + body + ")", false
	}
	if c.litForceOpt {
		c.litForceOpt = false
		text, _ := run(true)
		return cx{s: text}, true
	}
	text, again := run(false)
	isOpt := false
	if again {
		text, _ = run(true)
		isOpt = true
	}
	return cx{s: text}, isOpt
}
