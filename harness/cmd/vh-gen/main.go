package main

// gen-constants: the translator of the second tie. It reads /repo's Go
// sources with go/parser and regenerates coq/theories/Generated.v: level
// tables, enumerations, size caps, reserved prefixes and the regular
// expressions (as ASTs for the verified derivative matcher of Regex.v).
// It fails loudly on anything it does not understand.

import (
	"fmt"
	"go/ast"
	"go/parser"
	"go/token"
	"os"
	"path/filepath"
	"regexp/syntax"
	"strconv"
	"strings"
	. "vh/kit"
)

func main() { Main("gen-constants", runGenConstants) }

type gcFile struct {
	f      *ast.File
	consts map[string]ast.Expr
	vars   map[string]ast.Expr
}

func gcLoad(path string) (*gcFile, error) {
	fset := token.NewFileSet()
	f, err := parser.ParseFile(fset, path, nil, 0)
	if err != nil {
		return nil, err
	}
	g := &gcFile{f: f, consts: map[string]ast.Expr{}, vars: map[string]ast.Expr{}}
	for _, d := range f.Decls {
		gd, ok := d.(*ast.GenDecl)
		if !ok {
			continue
		}
		for _, s := range gd.Specs {
			vs, ok := s.(*ast.ValueSpec)
			if !ok {
				continue
			}
			for i, n := range vs.Names {
				if i < len(vs.Values) {
					if gd.Tok == token.CONST {
						g.consts[n.Name] = vs.Values[i]
					} else {
						g.vars[n.Name] = vs.Values[i]
					}
				}
			}
		}
	}
	return g, nil
}

func (g *gcFile) str(e ast.Expr) (string, error) {
	switch x := e.(type) {
	case *ast.BasicLit:
		if x.Kind == token.STRING {
			return strconv.Unquote(x.Value)
		}
	case *ast.Ident:
		if v, ok := g.consts[x.Name]; ok {
			return g.str(v)
		}
	case *ast.ParenExpr:
		return g.str(x.X)
	case *ast.BinaryExpr:
		if x.Op == token.ADD {
			a, err := g.str(x.X)
			if err != nil {
				return "", err
			}
			b, err := g.str(x.Y)
			if err != nil {
				return "", err
			}
			return a + b, nil
		}
	}
	return "", fmt.Errorf("gen-constants: not a string constant: %T", e)
}

func (g *gcFile) num(e ast.Expr) (int64, error) {
	switch x := e.(type) {
	case *ast.BasicLit:
		if x.Kind == token.INT {
			return strconv.ParseInt(x.Value, 0, 64)
		}
	case *ast.Ident:
		if v, ok := g.consts[x.Name]; ok {
			return g.num(v)
		}
	case *ast.ParenExpr:
		return g.num(x.X)
	case *ast.BinaryExpr:
		a, err := g.num(x.X)
		if err != nil {
			return 0, err
		}
		b, err := g.num(x.Y)
		if err != nil {
			return 0, err
		}
		switch x.Op {
		case token.MUL:
			return a * b, nil
		case token.ADD:
			return a + b, nil
		case token.SUB:
			return a - b, nil
		case token.SHL:
			return a << uint(b), nil
		}
	}
	return 0, fmt.Errorf("gen-constants: not an integer constant: %T", e)
}

func (g *gcFile) strList(name string) ([]string, error) {
	v, ok := g.vars[name]
	if !ok {
		return nil, fmt.Errorf("gen-constants: variable %s not found", name)
	}
	cl, ok := v.(*ast.CompositeLit)
	if !ok {
		return nil, fmt.Errorf("gen-constants: %s is not a composite literal", name)
	}
	var out []string
	for _, e := range cl.Elts {
		s, err := g.str(e)
		if err != nil {
			return nil, fmt.Errorf("%s: %w", name, err)
		}
		out = append(out, s)
	}
	return out, nil
}

// level extracts Name and the Enforcement pairs (in source order) of a
// `&VerificationLevel{...}` variable.
func (g *gcFile) level(name string) (string, [][2]string, error) {
	v, ok := g.vars[name]
	if !ok {
		return "", nil, fmt.Errorf("gen-constants: level %s not found", name)
	}
	if u, ok := v.(*ast.UnaryExpr); ok {
		v = u.X
	}
	cl, ok := v.(*ast.CompositeLit)
	if !ok {
		return "", nil, fmt.Errorf("gen-constants: level %s: unexpected shape", name)
	}
	var lname string
	var pairs [][2]string
	for _, e := range cl.Elts {
		kv, ok := e.(*ast.KeyValueExpr)
		if !ok {
			return "", nil, fmt.Errorf("gen-constants: level %s: unkeyed field", name)
		}
		switch kv.Key.(*ast.Ident).Name {
		case "Name":
			s, err := g.str(kv.Value)
			if err != nil {
				return "", nil, err
			}
			lname = s
		case "Enforcement":
			m, ok := kv.Value.(*ast.CompositeLit)
			if !ok {
				return "", nil, fmt.Errorf("gen-constants: level %s: enforcement shape", name)
			}
			for _, me := range m.Elts {
				mkv := me.(*ast.KeyValueExpr)
				k, err := g.str(mkv.Key)
				if err != nil {
					return "", nil, err
				}
				val, err := g.str(mkv.Value)
				if err != nil {
					return "", nil, err
				}
				pairs = append(pairs, [2]string{k, val})
			}
		}
	}
	return lname, pairs, nil
}

// regexes returns the literal arguments of regexp.MustCompile in the file, in
// source order.
func (g *gcFile) regexes() []string {
	var out []string
	ast.Inspect(g.f, func(n ast.Node) bool {
		if c, ok := n.(*ast.CallExpr); ok {
			if s, ok := c.Fun.(*ast.SelectorExpr); ok && s.Sel.Name == "MustCompile" && len(c.Args) == 1 {
				if lit, ok := c.Args[0].(*ast.BasicLit); ok {
					if src, err := strconv.Unquote(lit.Value); err == nil {
						out = append(out, src)
					}
				}
			}
		}
		return true
	})
	return out
}

func reToCoq(re *syntax.Regexp) (string, error) {
	sub := func() ([]string, error) {
		var r []string
		for _, s := range re.Sub {
			x, err := reToCoq(s)
			if err != nil {
				return nil, err
			}
			r = append(r, x)
		}
		return r, nil
	}
	if re.Flags&syntax.FoldCase != 0 {
		return "", fmt.Errorf("gen-constants: case-folding regex not supported")
	}
	switch re.Op {
	case syntax.OpLiteral:
		var p []string
		for _, r := range re.Rune {
			if r > 127 {
				return "", fmt.Errorf("gen-constants: non-ASCII literal in regex")
			}
			p = append(p, fmt.Sprintf("RChar %d", r))
		}
		if len(p) == 1 {
			return "(" + p[0] + ")", nil
		}
		return "(RSeq [" + strings.Join(p, "; ") + "])", nil
	case syntax.OpCharClass:
		var p []string
		for i := 0; i < len(re.Rune); i += 2 {
			if re.Rune[i+1] > 127 {
				return "", fmt.Errorf("gen-constants: non-ASCII class in regex")
			}
			p = append(p, fmt.Sprintf("(%d,%d)", re.Rune[i], re.Rune[i+1]))
		}
		return "(RClass [" + strings.Join(p, "; ") + "])", nil
	case syntax.OpConcat:
		s, err := sub()
		return "(RSeq [" + strings.Join(s, "; ") + "])", err
	case syntax.OpAlternate:
		s, err := sub()
		return "(RAlt [" + strings.Join(s, "; ") + "])", err
	case syntax.OpStar, syntax.OpPlus, syntax.OpQuest:
		if re.Flags&syntax.NonGreedy != 0 {
			// greediness does not change MatchString
		}
		s, err := sub()
		if err != nil {
			return "", err
		}
		return "(" + map[syntax.Op]string{syntax.OpStar: "RStar", syntax.OpPlus: "RPlus", syntax.OpQuest: "ROpt"}[re.Op] + " " + s[0] + ")", nil
	case syntax.OpCapture:
		s, err := sub()
		if err != nil {
			return "", err
		}
		return s[0], nil
	case syntax.OpBeginText:
		return "RBegin", nil
	case syntax.OpEndText:
		return "REnd", nil
	case syntax.OpEmptyMatch:
		return "REps", nil
	case syntax.OpNoMatch:
		return "RNone", nil
	}
	return "", fmt.Errorf("gen-constants: unsupported regex operator %s", re.Op)
}

func regexCoq(src string) (string, error) {
	re, err := syntax.Parse(src, syntax.Perl)
	if err != nil {
		return "", err
	}
	return reToCoq(re.Simplify())
}

func runGenConstants(a *Args) error {
	repo := a.Repo
	var b strings.Builder
	b.WriteString("(* GENERATED by `vh gen-constants` from the Go sources of /repo on every run.\n   Do not edit: theorems over these objects are re-checked against what the\n   source says now. *)\nFrom NV Require Import Base Regex.\nOpen Scope string_scope.\nOpen Scope N_scope.\n\n")

	tp, err := gcLoad(filepath.Join(repo, "verifier/trustpolicy/trustpolicy.go"))
	if err != nil {
		return err
	}
	for _, lst := range []struct{ v, n string }{{"ValidationTypes", "gen_validation_types"}, {"ValidationActions", "gen_validation_actions"}} {
		xs, err := tp.strList(lst.v)
		if err != nil {
			return err
		}
		fmt.Fprintf(&b, "Definition %s : list string := %s.\n", lst.n, CStrList(xs))
	}
	lv, ok := tp.vars["VerificationLevels"].(*ast.CompositeLit)
	if !ok {
		return fmt.Errorf("gen-constants: VerificationLevels not found")
	}
	var levelTerms []string
	for _, e := range lv.Elts {
		id, ok := e.(*ast.Ident)
		if !ok {
			return fmt.Errorf("gen-constants: VerificationLevels element")
		}
		name, pairs, err := tp.level(id.Name)
		if err != nil {
			return err
		}
		var ps []string
		for _, p := range pairs {
			ps = append(ps, CPair(CStr(p[0]), CStr(p[1])))
		}
		levelTerms = append(levelTerms, CPair(CStr(name), CList(ps)))
	}
	fmt.Fprintf(&b, "Definition gen_levels : list (string * list (string * string)) :=\n  [%s].\n", strings.Join(levelTerms, ";\n   "))
	for _, c := range []struct{ c, n string }{{"OptionAlways", "gen_option_always"}, {"OptionAfterCertExpiry", "gen_option_after_cert_expiry"}} {
		s, err := tp.str(&ast.Ident{Name: c.c})
		if err != nil {
			return err
		}
		fmt.Fprintf(&b, "Definition %s : string := %s.\n", c.n, CStr(s))
	}

	ts, err := gcLoad(filepath.Join(repo, "verifier/truststore/truststore.go"))
	if err != nil {
		return err
	}
	types, err := ts.strList("Types")
	if err != nil {
		return err
	}
	fmt.Fprintf(&b, "Definition gen_store_types : list string := %s.\n", CStrList(types))

	// regular expressions
	ff, err := gcLoad(filepath.Join(repo, "internal/file/file.go"))
	if err != nil {
		return err
	}
	sv, err := gcLoad(filepath.Join(repo, "internal/semver/semver.go"))
	if err != nil {
		return err
	}
	oci, err := gcLoad(filepath.Join(repo, "verifier/trustpolicy/oci.go"))
	if err != nil {
		return err
	}
	type rx struct {
		name string
		srcs []string
		idx  int
	}
	for _, r := range []rx{{"gen_re_filename", ff.regexes(), 0}, {"gen_re_semver", sv.regexes(), 0}, {"gen_re_domain", oci.regexes(), 0}, {"gen_re_repository", oci.regexes(), 1}} {
		if r.idx >= len(r.srcs) {
			return fmt.Errorf("gen-constants: regex for %s not found", r.name)
		}
		t, err := regexCoq(r.srcs[r.idx])
		if err != nil {
			return fmt.Errorf("%s: %w", r.name, err)
		}
		fmt.Fprintf(&b, "(* %s *)\nDefinition %s : re :=\n  %s.\n", strings.ReplaceAll(r.srcs[r.idx], "*)", "* )"), r.name, t)
	}
	tmp, err := ff.str(&ast.Ident{Name: "tempFileNamePrefix"})
	if err != nil {
		return err
	}
	fmt.Fprintf(&b, "Definition gen_temp_file_pattern : string := %s.\n", CStr(tmp))

	// size caps
	reg, err := gcLoad(filepath.Join(repo, "registry/repository.go"))
	if err != nil {
		return err
	}
	pl, err := gcLoad(filepath.Join(repo, "plugin/plugin.go"))
	if err != nil {
		return err
	}
	for _, c := range []struct {
		g    *gcFile
		c, n string
	}{{reg, "maxBlobSizeLimit", "gen_max_blob_size"}, {reg, "maxManifestSizeLimit", "gen_max_manifest_size"}, {pl, "maxPluginOutputSize", "gen_max_plugin_output"}} {
		v, err := c.g.num(&ast.Ident{Name: c.c})
		if err != nil {
			return fmt.Errorf("%s: %w", c.c, err)
		}
		fmt.Fprintf(&b, "Definition %s : N := %d.\n", c.n, v)
	}

	// reserved annotation prefixes, plugin headers
	nt, err := gcLoad(filepath.Join(repo, "notation.go"))
	if err != nil {
		return err
	}
	rp, err := nt.strList("reservedAnnotationPrefixes")
	if err != nil {
		return err
	}
	fmt.Fprintf(&b, "Definition gen_reserved_annotation_prefixes : list string := %s.\n", CStrList(rp))
	hp, err := gcLoad(filepath.Join(repo, "verifier/helpers.go"))
	if err != nil {
		return err
	}
	hs, err := hp.strList("VerificationPluginHeaders")
	if err != nil {
		return err
	}
	fmt.Fprintf(&b, "Definition gen_verification_plugin_headers : list string := %s.\n", CStrList(hs))

	out := a.Out
	if out == "" {
		fmt.Print(b.String())
		return nil
	}
	return os.WriteFile(filepath.Join(out, "Generated.v"), []byte(b.String()), 0o644)
}
