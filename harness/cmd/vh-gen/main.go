package main

// gen-constants: the translator of the second tie. It reads /repo's Go
// sources with go/parser and regenerates coq/theories/Generated.v: level
// tables, enumerations, size caps, reserved prefixes and the regular
// expressions (as ASTs for the verified derivative matcher of Regex.v).
// It fails loudly on anything it does not understand.

import (
	"fmt"
	"go/ast"
	"go/parser"
	"go/token"
	"os"
	"path/filepath"
	"regexp/syntax"
	"strconv"
	"strings"
	. "vh/kit"
)

func main() {
	// --selftest is handled here (kit.Main owns the other flags)
	var rest []string
	for _, a := range os.Args {
		if a == "--selftest" || a == "-selftest" {
			goliteSelftest = true
			continue
		}
		rest = append(rest, a)
	}
	os.Args = rest
	Main("gen-constants", func(a *Args) error {
		if err := runGenConstants(a); err != nil {
			return err
		}
		// GoLite: translations of function bodies, one Cxx_Gen.v per property
		// (docs/GOLITE.md); never fails the run
		goliteMain(a.Repo, a.Out)
		return nil
	})
}

type gcFile struct {
	f      *ast.File
	consts map[string]ast.Expr
	vars   map[string]ast.Expr
}

func gcLoad(path string) (*gcFile, error) {
	fset := token.NewFileSet()
	f, err := parser.ParseFile(fset, path, nil, 0)
	if err != nil {
		return nil, err
	}
	g := &gcFile{f: f, consts: map[string]ast.Expr{}, vars: map[string]ast.Expr{}}
	for _, d := range f.Decls {
		gd, ok := d.(*ast.GenDecl)
		if !ok {
			continue
		}
		for _, s := range gd.Specs {
			vs, ok := s.(*ast.ValueSpec)
			if !ok {
				continue
			}
			for i, n := range vs.Names {
				if i < len(vs.Values) {
					if gd.Tok == token.CONST {
						g.consts[n.Name] = vs.Values[i]
					} else {
						g.vars[n.Name] = vs.Values[i]
					}
				}
			}
		}
	}
	return g, nil
}

func (g *gcFile) str(e ast.Expr) (string, error) {
	switch x := e.(type) {
	case *ast.BasicLit:
		if x.Kind == token.STRING {
			return strconv.Unquote(x.Value)
		}
	case *ast.Ident:
		if v, ok := g.consts[x.Name]; ok {
			return g.str(v)
		}
	case *ast.ParenExpr:
		return g.str(x.X)
	case *ast.BinaryExpr:
		if x.Op == token.ADD {
			a, err := g.str(x.X)
			if err != nil {
				return "", err
			}
			b, err := g.str(x.Y)
			if err != nil {
				return "", err
			}
			return a + b, nil
		}
	}
	return "", fmt.Errorf("gen-constants: not a string constant: %T", e)
}

func (g *gcFile) num(e ast.Expr) (int64, error) {
	switch x := e.(type) {
	case *ast.BasicLit:
		if x.Kind == token.INT {
			return strconv.ParseInt(x.Value, 0, 64)
		}
	case *ast.Ident:
		if v, ok := g.consts[x.Name]; ok {
			return g.num(v)
		}
	case *ast.ParenExpr:
		return g.num(x.X)
	case *ast.BinaryExpr:
		a, err := g.num(x.X)
		if err != nil {
			return 0, err
		}
		b, err := g.num(x.Y)
		if err != nil {
			return 0, err
		}
		switch x.Op {
		case token.MUL:
			return a * b, nil
		case token.ADD:
			return a + b, nil
		case token.SUB:
			return a - b, nil
		case token.SHL:
			return a << uint(b), nil
		}
	}
	return 0, fmt.Errorf("gen-constants: not an integer constant: %T", e)
}

func (g *gcFile) strList(name string) ([]string, error) {
	v, ok := g.vars[name]
	if !ok {
		return nil, fmt.Errorf("gen-constants: variable %s not found", name)
	}
	cl, ok := v.(*ast.CompositeLit)
	if !ok {
		return nil, fmt.Errorf("gen-constants: %s is not a composite literal", name)
	}
	var out []string
	for _, e := range cl.Elts {
		s, err := g.str(e)
		if err != nil {
			return nil, fmt.Errorf("%s: %w", name, err)
		}
		out = append(out, s)
	}
	return out, nil
}

// level extracts Name and the Enforcement pairs (in source order) of a
// `&VerificationLevel{...}` variable.
func (g *gcFile) level(name string) (string, [][2]string, error) {
	v, ok := g.vars[name]
	if !ok {
		return "", nil, fmt.Errorf("gen-constants: level %s not found", name)
	}
	if u, ok := v.(*ast.UnaryExpr); ok {
		v = u.X
	}
	cl, ok := v.(*ast.CompositeLit)
	if !ok {
		return "", nil, fmt.Errorf("gen-constants: level %s: unexpected shape", name)
	}
	var lname string
	var pairs [][2]string
	for _, e := range cl.Elts {
		kv, ok := e.(*ast.KeyValueExpr)
		if !ok {
			return "", nil, fmt.Errorf("gen-constants: level %s: unkeyed field", name)
		}
		switch kv.Key.(*ast.Ident).Name {
		case "Name":
			s, err := g.str(kv.Value)
			if err != nil {
				return "", nil, err
			}
			lname = s
		case "Enforcement":
			m, ok := kv.Value.(*ast.CompositeLit)
			if !ok {
				return "", nil, fmt.Errorf("gen-constants: level %s: enforcement shape", name)
			}
			for _, me := range m.Elts {
				mkv := me.(*ast.KeyValueExpr)
				k, err := g.str(mkv.Key)
				if err != nil {
					return "", nil, err
				}
				val, err := g.str(mkv.Value)
				if err != nil {
					return "", nil, err
				}
				pairs = append(pairs, [2]string{k, val})
			}
		}
	}
	return lname, pairs, nil
}

// regexes returns the literal arguments of regexp.MustCompile in the file, in
// source order.
func (g *gcFile) regexes() []string {
	var out []string
	ast.Inspect(g.f, func(n ast.Node) bool {
		if c, ok := n.(*ast.CallExpr); ok {
			if s, ok := c.Fun.(*ast.SelectorExpr); ok && s.Sel.Name == "MustCompile" && len(c.Args) == 1 {
				if lit, ok := c.Args[0].(*ast.BasicLit); ok {
					if src, err := strconv.Unquote(lit.Value); err == nil {
						out = append(out, src)
					}
				}
			}
		}
		return true
	})
	return out
}

func reToCoq(re *syntax.Regexp) (string, error) {
	sub := func() ([]string, error) {
		var r []string
		for _, s := range re.Sub {
			x, err := reToCoq(s)
			if err != nil {
				return nil, err
			}
			r = append(r, x)
		}
		return r, nil
	}
	if re.Flags&syntax.FoldCase != 0 {
		return "", fmt.Errorf("gen-constants: case-folding regex not supported")
	}
	switch re.Op {
	case syntax.OpLiteral:
		var p []string
		for _, r := range re.Rune {
			if r > 127 {
				return "", fmt.Errorf("gen-constants: non-ASCII literal in regex")
			}
			p = append(p, fmt.Sprintf("RChar %d", r))
		}
		if len(p) == 1 {
			return "(" + p[0] + ")", nil
		}
		return "(RSeq [" + strings.Join(p, "; ") + "])", nil
	case syntax.OpCharClass:
		var p []string
		for i := 0; i < len(re.Rune); i += 2 {
			if re.Rune[i+1] > 127 {
				return "", fmt.Errorf("gen-constants: non-ASCII class in regex")
			}
			p = append(p, fmt.Sprintf("(%d,%d)", re.Rune[i], re.Rune[i+1]))
		}
		return "(RClass [" + strings.Join(p, "; ") + "])", nil
	case syntax.OpConcat:
		s, err := sub()
		return "(RSeq [" + strings.Join(s, "; ") + "])", err
	case syntax.OpAlternate:
		s, err := sub()
		return "(RAlt [" + strings.Join(s, "; ") + "])", err
	case syntax.OpStar, syntax.OpPlus, syntax.OpQuest:
		if re.Flags&syntax.NonGreedy != 0 {
			// greediness does not change MatchString
		}
		s, err := sub()
		if err != nil {
			return "", err
		}
		return "(" + map[syntax.Op]string{syntax.OpStar: "RStar", syntax.OpPlus: "RPlus", syntax.OpQuest: "ROpt"}[re.Op] + " " + s[0] + ")", nil
	case syntax.OpCapture:
		s, err := sub()
		if err != nil {
			return "", err
		}
		return s[0], nil
	case syntax.OpBeginText:
		return "RBegin", nil
	case syntax.OpEndText:
		return "REnd", nil
	case syntax.OpEmptyMatch:
		return "REps", nil
	case syntax.OpNoMatch:
		return "RNone", nil
	}
	return "", fmt.Errorf("gen-constants: unsupported regex operator %s", re.Op)
}

func regexCoq(src string) (string, error) {
	re, err := syntax.Parse(src, syntax.Perl)
	if err != nil {
		return "", err
	}
	return reToCoq(re.Simplify())
}

// selName returns the last identifier of an expression like pkg.Name or Name.
func selName(e ast.Expr) (string, bool) {
	switch x := e.(type) {
	case *ast.SelectorExpr:
		return x.Sel.Name, true
	case *ast.Ident:
		return x.Name, true
	}
	return "", false
}

// identMap extracts a map literal `map[K]V{pkg.A: pkg.B, ...}` as pairs of identifier names, in source order.
func (g *gcFile) identMap(name string) ([][2]string, error) {
	v, ok := g.vars[name]
	if !ok {
		return nil, fmt.Errorf("gen-constants: variable %s not found", name)
	}
	cl, ok := v.(*ast.CompositeLit)
	if !ok {
		return nil, fmt.Errorf("gen-constants: %s is not a composite literal", name)
	}
	var out [][2]string
	for _, e := range cl.Elts {
		kv, ok := e.(*ast.KeyValueExpr)
		if !ok {
			return nil, fmt.Errorf("gen-constants: %s: element is not key: value", name)
		}
		k, ok1 := selName(kv.Key)
		val, ok2 := selName(kv.Value)
		if !ok1 || !ok2 {
			return nil, fmt.Errorf("gen-constants: %s: key or value is not an identifier", name)
		}
		out = append(out, [2]string{k, val})
	}
	return out, nil
}

func (g *gcFile) funcBody(name string) (*ast.BlockStmt, error) {
	for _, d := range g.f.Decls {
		if fd, ok := d.(*ast.FuncDecl); ok && fd.Recv == nil && fd.Name.Name == name && fd.Body != nil {
			return fd.Body, nil
		}
	}
	return nil, fmt.Errorf("gen-constants: function %s not found", name)
}

// nestedSwitchTable reads a function of the shape
//   switch k.Type { case T: switch k.Size { case N: return R, nil ... } ... }
// as rows (T, N, R) of identifier names / integer literals, in source order.
func (g *gcFile) nestedSwitchTable(fn string) ([][3]string, error) {
	body, err := g.funcBody(fn)
	if err != nil {
		return nil, err
	}
	var outer *ast.SwitchStmt
	for _, st := range body.List {
		if sw, ok := st.(*ast.SwitchStmt); ok {
			outer = sw
			break
		}
	}
	if outer == nil {
		return nil, fmt.Errorf("gen-constants: %s: no switch", fn)
	}
	var rows [][3]string
	for _, c := range outer.Body.List {
		cc := c.(*ast.CaseClause)
		if len(cc.List) != 1 {
			return nil, fmt.Errorf("gen-constants: %s: outer case shape", fn)
		}
		t, ok := selName(cc.List[0])
		if !ok {
			return nil, fmt.Errorf("gen-constants: %s: outer case is not an identifier", fn)
		}
		if len(cc.Body) != 1 {
			return nil, fmt.Errorf("gen-constants: %s: outer case body shape", fn)
		}
		inner, ok := cc.Body[0].(*ast.SwitchStmt)
		if !ok {
			return nil, fmt.Errorf("gen-constants: %s: inner statement is not a switch", fn)
		}
		for _, ic := range inner.Body.List {
			icc := ic.(*ast.CaseClause)
			if len(icc.List) != 1 || len(icc.Body) != 1 {
				return nil, fmt.Errorf("gen-constants: %s: inner case shape", fn)
			}
			n, err := g.num(icc.List[0])
			if err != nil {
				return nil, err
			}
			ret, ok := icc.Body[0].(*ast.ReturnStmt)
			if !ok || len(ret.Results) < 1 {
				return nil, fmt.Errorf("gen-constants: %s: inner case does not return", fn)
			}
			r, ok := selName(ret.Results[0])
			if !ok {
				return nil, fmt.Errorf("gen-constants: %s: returned value is not an identifier", fn)
			}
			rows = append(rows, [3]string{t, strconv.FormatInt(n, 10), r})
		}
	}
	return rows, nil
}

// assignSwitchTable reads DecodeKeySpec's shape
//   switch k { case K: keySpec.Size = N; keySpec.Type = T ... default: ... }
// as rows (K, N, T).
func (g *gcFile) assignSwitchTable(fn string) ([][3]string, error) {
	body, err := g.funcBody(fn)
	if err != nil {
		return nil, err
	}
	var sw *ast.SwitchStmt
	for _, st := range body.List {
		if x, ok := st.(*ast.SwitchStmt); ok {
			sw = x
			break
		}
	}
	if sw == nil {
		return nil, fmt.Errorf("gen-constants: %s: no switch", fn)
	}
	var rows [][3]string
	for _, c := range sw.Body.List {
		cc := c.(*ast.CaseClause)
		if cc.List == nil {
			continue // default
		}
		if len(cc.List) != 1 {
			return nil, fmt.Errorf("gen-constants: %s: case shape", fn)
		}
		k, ok := selName(cc.List[0])
		if !ok {
			return nil, fmt.Errorf("gen-constants: %s: case is not an identifier", fn)
		}
		size, typ := "", ""
		for _, st := range cc.Body {
			as, ok := st.(*ast.AssignStmt)
			if !ok || len(as.Lhs) != 1 || len(as.Rhs) != 1 {
				return nil, fmt.Errorf("gen-constants: %s: statement in case %s is not a simple assignment", fn, k)
			}
			field, _ := selName(as.Lhs[0])
			switch field {
			case "Size":
				n, err := g.num(as.Rhs[0])
				if err != nil {
					return nil, err
				}
				size = strconv.FormatInt(n, 10)
			case "Type":
				typ, _ = selName(as.Rhs[0])
			default:
				return nil, fmt.Errorf("gen-constants: %s: unexpected assignment to %s", fn, field)
			}
		}
		if size == "" || typ == "" {
			return nil, fmt.Errorf("gen-constants: %s: case %s does not set Size and Type", fn, k)
		}
		rows = append(rows, [3]string{k, size, typ})
	}
	return rows, nil
}

// millis evaluates a duration constant of the shape N * time.Unit (or time.Unit * N) in milliseconds.
func (g *gcFile) millis(e ast.Expr) (int64, error) {
	if id, ok := e.(*ast.Ident); ok {
		if v, ok := g.consts[id.Name]; ok {
			return g.millis(v)
		}
	}
	be, ok := e.(*ast.BinaryExpr)
	if !ok || be.Op != token.MUL {
		return 0, fmt.Errorf("gen-constants: duration is not a product")
	}
	unit := func(x ast.Expr) (int64, bool) {
		if s, ok := x.(*ast.SelectorExpr); ok {
			if p, ok := s.X.(*ast.Ident); ok && p.Name == "time" {
				switch s.Sel.Name {
				case "Millisecond":
					return 1, true
				case "Second":
					return 1000, true
				case "Minute":
					return 60000, true
				}
			}
		}
		return 0, false
	}
	if u, ok := unit(be.Y); ok {
		n, err := g.num(be.X)
		return n * u, err
	}
	if u, ok := unit(be.X); ok {
		n, err := g.num(be.Y)
		return n * u, err
	}
	return 0, fmt.Errorf("gen-constants: duration unit not recognised")
}

func cTriples(rows [][3]string) string {
	var items []string
	for _, r := range rows {
		items = append(items, "("+CStr(r[0])+", "+r[1]+", "+CStr(r[2])+")")
	}
	return CList(items)
}

func cPairs(rows [][2]string) string {
	var items []string
	for _, r := range rows {
		items = append(items, CPair(CStr(r[0]), CStr(r[1])))
	}
	return CList(items)
}

func runGenConstants(a *Args) error {
	repo := a.Repo
	var b strings.Builder
	b.WriteString("(* GENERATED by `vh gen-constants` from the Go sources of /repo on every run.\n   Do not edit: theorems over these objects are re-checked against what the\n   source says now. *)\nFrom NV Require Import Base Regex.\nOpen Scope string_scope.\nOpen Scope N_scope.\n\n")

	tp, err := gcLoad(filepath.Join(repo, "verifier/trustpolicy/trustpolicy.go"))
	if err != nil {
		return err
	}
	for _, lst := range []struct{ v, n string }{{"ValidationTypes", "gen_validation_types"}, {"ValidationActions", "gen_validation_actions"}} {
		xs, err := tp.strList(lst.v)
		if err != nil {
			return err
		}
		fmt.Fprintf(&b, "Definition %s : list string := %s.\n", lst.n, CStrList(xs))
	}
	lv, ok := tp.vars["VerificationLevels"].(*ast.CompositeLit)
	if !ok {
		return fmt.Errorf("gen-constants: VerificationLevels not found")
	}
	var levelTerms []string
	for _, e := range lv.Elts {
		id, ok := e.(*ast.Ident)
		if !ok {
			return fmt.Errorf("gen-constants: VerificationLevels element")
		}
		name, pairs, err := tp.level(id.Name)
		if err != nil {
			return err
		}
		var ps []string
		for _, p := range pairs {
			ps = append(ps, CPair(CStr(p[0]), CStr(p[1])))
		}
		levelTerms = append(levelTerms, CPair(CStr(name), CList(ps)))
	}
	fmt.Fprintf(&b, "Definition gen_levels : list (string * list (string * string)) :=\n  [%s].\n", strings.Join(levelTerms, ";\n   "))
	for _, c := range []struct{ c, n string }{{"OptionAlways", "gen_option_always"}, {"OptionAfterCertExpiry", "gen_option_after_cert_expiry"}} {
		s, err := tp.str(&ast.Ident{Name: c.c})
		if err != nil {
			return err
		}
		fmt.Fprintf(&b, "Definition %s : string := %s.\n", c.n, CStr(s))
	}

	ts, err := gcLoad(filepath.Join(repo, "verifier/truststore/truststore.go"))
	if err != nil {
		return err
	}
	types, err := ts.strList("Types")
	if err != nil {
		return err
	}
	fmt.Fprintf(&b, "Definition gen_store_types : list string := %s.\n", CStrList(types))

	// regular expressions
	ff, err := gcLoad(filepath.Join(repo, "internal/file/file.go"))
	if err != nil {
		return err
	}
	sv, err := gcLoad(filepath.Join(repo, "internal/semver/semver.go"))
	if err != nil {
		return err
	}
	oci, err := gcLoad(filepath.Join(repo, "verifier/trustpolicy/oci.go"))
	if err != nil {
		return err
	}
	type rx struct {
		name string
		srcs []string
		idx  int
	}
	for _, r := range []rx{{"gen_re_filename", ff.regexes(), 0}, {"gen_re_semver", sv.regexes(), 0}, {"gen_re_domain", oci.regexes(), 0}, {"gen_re_repository", oci.regexes(), 1}} {
		if r.idx >= len(r.srcs) {
			return fmt.Errorf("gen-constants: regex for %s not found", r.name)
		}
		t, err := regexCoq(r.srcs[r.idx])
		if err != nil {
			return fmt.Errorf("%s: %w", r.name, err)
		}
		fmt.Fprintf(&b, "(* %s *)\nDefinition %s : re :=\n  %s.\n", strings.ReplaceAll(r.srcs[r.idx], "*)", "* )"), r.name, t)
	}
	tmp, err := ff.str(&ast.Ident{Name: "tempFileNamePrefix"})
	if err != nil {
		return err
	}
	fmt.Fprintf(&b, "Definition gen_temp_file_pattern : string := %s.\n", CStr(tmp))

	// size caps
	reg, err := gcLoad(filepath.Join(repo, "registry/repository.go"))
	if err != nil {
		return err
	}
	pl, err := gcLoad(filepath.Join(repo, "plugin/plugin.go"))
	if err != nil {
		return err
	}
	for _, c := range []struct {
		g    *gcFile
		c, n string
	}{{reg, "maxBlobSizeLimit", "gen_max_blob_size"}, {reg, "maxManifestSizeLimit", "gen_max_manifest_size"}, {pl, "maxPluginOutputSize", "gen_max_plugin_output"}} {
		v, err := c.g.num(&ast.Ident{Name: c.c})
		if err != nil {
			return fmt.Errorf("%s: %w", c.c, err)
		}
		fmt.Fprintf(&b, "Definition %s : N := %d.\n", c.n, v)
	}

	// reserved annotation prefixes, plugin headers
	nt, err := gcLoad(filepath.Join(repo, "notation.go"))
	if err != nil {
		return err
	}
	rp, err := nt.strList("reservedAnnotationPrefixes")
	if err != nil {
		return err
	}
	fmt.Fprintf(&b, "Definition gen_reserved_annotation_prefixes : list string := %s.\n", CStrList(rp))
	hp, err := gcLoad(filepath.Join(repo, "verifier/helpers.go"))
	if err != nil {
		return err
	}
	hs, err := hp.strList("VerificationPluginHeaders")
	if err != nil {
		return err
	}
	fmt.Fprintf(&b, "Definition gen_verification_plugin_headers : list string := %s.\n", CStrList(hs))

	// ---- second batch: constants and tables the models state literally ----
	env, err := gcLoad(filepath.Join(repo, "internal/envelope/envelope.go"))
	if err != nil {
		return err
	}
	for _, c := range []struct{ c, n string }{{"MediaTypePayloadV1", "gen_media_type_payload_v1"}, {"AnnotationX509ChainThumbprint", "gen_annotation_x509_chain_thumbprint"}} {
		v, err := env.str(&ast.Ident{Name: c.c})
		if err != nil {
			return fmt.Errorf("%s: %w", c.c, err)
		}
		fmt.Fprintf(&b, "Definition %s : string := %s.\n", c.n, CStr(v))
	}
	itp, err := gcLoad(filepath.Join(repo, "internal/trustpolicy/trustpolicy.go"))
	if err != nil {
		return err
	}
	for _, c := range []struct{ c, n string }{{"Wildcard", "gen_wildcard"}, {"X509Subject", "gen_x509_subject"}} {
		v, err := itp.str(&ast.Ident{Name: c.c})
		if err != nil {
			return fmt.Errorf("%s: %w", c.c, err)
		}
		fmt.Fprintf(&b, "Definition %s : string := %s.\n", c.n, CStr(v))
	}
	blob, err := gcLoad(filepath.Join(repo, "verifier/trustpolicy/blob.go"))
	if err != nil {
		return err
	}
	ov, err := oci.strList("supportedOCIPolicyVersions")
	if err != nil {
		return err
	}
	bv, err := blob.strList("supportedBlobPolicyVersions")
	if err != nil {
		return err
	}
	fmt.Fprintf(&b, "Definition gen_supported_oci_policy_versions : list string := %s.\n", CStrList(ov))
	fmt.Fprintf(&b, "Definition gen_supported_blob_policy_versions : list string := %s.\n", CStrList(bv))
	wd, err := pl.millis(&ast.Ident{Name: "pluginWaitDelay"})
	if err != nil {
		return fmt.Errorf("pluginWaitDelay: %w", err)
	}
	fmt.Fprintf(&b, "Definition gen_plugin_wait_delay_ms : N := %d.\n", wd)
	sp, err := gcLoad(filepath.Join(repo, "signer/plugin.go"))
	if err != nil {
		return err
	}
	vv, err := gcLoad(filepath.Join(repo, "verifier/verifier.go"))
	if err != nil {
		return err
	}
	sa, err := sp.identMap("algorithms")
	if err != nil {
		return fmt.Errorf("signer: %w", err)
	}
	va, err := vv.identMap("algorithms")
	if err != nil {
		return fmt.Errorf("verifier: %w", err)
	}
	fmt.Fprintf(&b, "(* crypto.Hash identifier -> digest.Algorithm identifier, signer/plugin.go and verifier/verifier.go *)\n")
	fmt.Fprintf(&b, "Definition gen_signer_digest_algorithms : list (string * string) := %s.\n", cPairs(sa))
	fmt.Fprintf(&b, "Definition gen_verifier_digest_algorithms : list (string * string) := %s.\n", cPairs(va))
	alg, err := gcLoad(filepath.Join(repo, "plugin/proto/algorithm.go"))
	if err != nil {
		return err
	}
	enc, err := alg.nestedSwitchTable("EncodeKeySpec")
	if err != nil {
		return err
	}
	hsh, err := alg.nestedSwitchTable("HashAlgorithmFromKeySpec")
	if err != nil {
		return err
	}
	dec, err := alg.assignSwitchTable("DecodeKeySpec")
	if err != nil {
		return err
	}
	fmt.Fprintf(&b, "(* plugin/proto/algorithm.go: rows (key type identifier, size, result identifier) *)\n")
	fmt.Fprintf(&b, "Definition gen_encode_key_spec : list (string * N * string) := %s.\n", cTriples(enc))
	fmt.Fprintf(&b, "Definition gen_hash_from_key_spec : list (string * N * string) := %s.\n", cTriples(hsh))
	fmt.Fprintf(&b, "(* DecodeKeySpec: rows (key spec identifier, size, key type identifier) *)\n")
	fmt.Fprintf(&b, "Definition gen_decode_key_spec : list (string * N * string) := %s.\n", cTriples(dec))

	out := a.Out
	if out == "" {
		fmt.Print(b.String())
		return nil
	}
	return os.WriteFile(filepath.Join(out, "Generated.v"), []byte(b.String()), 0o644)
}
