package main

// C15: GoLite targets (docs/GOLITE_NOTES.md).
func init() {
	Register("C15", []Target{
		{Pkg: "time", Func: "Now", Oracle: true},
		{Pkg: ".../verifier/crl", Func: "checkExpiry"},
		{Pkg: "crypto/x509", Type: "RevocationList", Opaque: true, Views: map[string]string{"NextUpdate": "time.Time", "Raw": "[]byte"}},
		{Pkg: "crypto/x509", Func: "ParseRevocationList", Oracle: true},
		{Pkg: "crypto/sha256", Func: "Sum256", Oracle: true},
		{Pkg: "encoding/hex", Func: "EncodeToString", Oracle: true},
		{Pkg: "encoding/json", Func: "Marshal", Oracle: true},
		{Pkg: "encoding/json", Func: "Unmarshal", Oracle: true},
		{Pkg: "os", Func: "ReadFile", Oracle: true},
		{Pkg: "path/filepath", Func: "Join", Oracle: true},
		{Pkg: "errors", Func: "Is", Oracle: true},
		{Pkg: ".../internal/file", Func: "WriteFile", Oracle: true},
		{Pkg: ".../verifier/crl", Func: "(*FileCache).fileName"},
		{Pkg: ".../verifier/crl", Func: "(*FileCache).Set"},
		{Pkg: ".../verifier/crl", Func: "(*FileCache).Get"},
	})
}
