package main

// C15: GoLite targets (docs/GOLITE_NOTES.md, docs/audit/C15.md section "GoLite").
//
// Translated today: checkExpiry (the freshness decision of FileCache.Get).
// The rows below it are the rest of verifier/crl/crl.go with everything they
// call; they are kept although the translator refuses them, because the reason
// printed for each (`golite: unsupported ..`) names the construct that is
// missing, and they turn `ok` by themselves once it exists:
//
//	fileName  crl.go:155 `sha256.Sum256([]byte(url))`: conversion string -> []byte, result type [32]byte;
//	          crl.go:156 `hash[:]` (slice of an array)
//	Set       crl.go:142 `json.Marshal(content)`: oracle with a parameter of type `any`;
//	          crl.go:146 `filepath.Join(a, b)`: variadic oracle; + fileName
//	Get       crl.go:85 filepath.Join; crl.go:96 `json.Unmarshal(contentBytes, &content)`: `any` parameter
//	          that is an out-pointer to a local; crl.go:104 `content.DeltaCRL != nil` on a []byte whose
//	          nil / empty distinction matters (NilIsEmpty would be unsound: `"deltaCRL":""` decodes to an
//	          empty non-nil slice, which Get hands to ParseRevocationList -> error, while nil -> no delta);
//	          + fileName. Everything else of Get and Set translates (tried on a scratch copy in which these
//	          calls were wrapped in monomorphic helper functions).
func init() {
	const crl = ".../verifier/crl"
	Register("C15", []Target{
		{Pkg: "time", Func: "Now", Oracle: true},
		{Pkg: crl, Func: "checkExpiry"},

		{Pkg: "crypto/x509", Func: "ParseRevocationList", Oracle: true},
		{Pkg: "crypto/sha256", Func: "Sum256", Oracle: true},
		{Pkg: "encoding/hex", Func: "EncodeToString", Oracle: true},
		{Pkg: "encoding/json", Func: "Marshal", Oracle: true},
		{Pkg: "encoding/json", Func: "Unmarshal", Oracle: true, OutParams: []string{"v"}},
		{Pkg: "os", Func: "ReadFile", Oracle: true},
		{Pkg: "path/filepath", Func: "Join", Oracle: true},
		{Pkg: ".../internal/file", Func: "WriteFile", Oracle: true},
		{Pkg: crl, Func: "(*FileCache).fileName"},
		{Pkg: crl, Func: "(*FileCache).Set"},
		{Pkg: crl, Func: "(*FileCache).Get", NilIsEmpty: true},
	})
}
