package main

// C15: GoLite targets (docs/GOLITE_NOTES.md).
func init() {
	Register("C15", []Target{
		{Pkg: "time", Func: "Now", Oracle: true},
		{Pkg: ".../verifier/crl", Func: "checkExpiry"},
	})
}
