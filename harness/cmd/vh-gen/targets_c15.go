package main

// C15: GoLite targets (docs/GOLITE_NOTES.md, docs/audit/C15.md section "GoLite").
//
// All of verifier/crl/crl.go that carries a decision: checkExpiry, fileName,
// Set, Get; every dependency is an oracle (json.Marshal / Unmarshal are
// instantiated per argument type; Unmarshal writes through v).
//
// crl.go:104 `content.DeltaCRL != nil`: the field keeps its nil-ness
// (NilableFields: option (list Z); "deltaCRL":"" decodes to Some [], which Get
// hands to the parser, nil = no delta), and so does RevocationList.Raw, which
// Set copies into the content.
func init() {
	const crl = ".../verifier/crl"
	Register("C15", []Target{
		{Pkg: "time", Func: "Now", Oracle: true},
		{Pkg: crl, Func: "checkExpiry"},

		{Pkg: "crypto/x509", Func: "ParseRevocationList", Oracle: true},
		{Pkg: "crypto/sha256", Func: "Sum256", Oracle: true},
		{Pkg: "encoding/hex", Func: "EncodeToString", Oracle: true},
		{Pkg: "encoding/json", Func: "Marshal", Oracle: true},
		{Pkg: "encoding/json", Func: "Unmarshal", Oracle: true, OutParams: []string{"v"}},
		{Pkg: "os", Func: "ReadFile", Oracle: true},
		{Pkg: "path/filepath", Func: "Join", Oracle: true},
		{Pkg: ".../internal/file", Func: "WriteFile", Oracle: true},
		{Pkg: crl, Func: "(*FileCache).fileName"},
		{Pkg: crl, Func: "(*FileCache).Set"},
		{Pkg: crl, Type: "fileCacheContent", NilableFields: []string{"DeltaCRL"}},
		{Pkg: "crypto/x509", Type: "RevocationList", NilableFields: []string{"Raw"}},
		{Pkg: crl, Func: "(*FileCache).Get"},
	})
}
