package main

// C20: GoLite targets (docs/GOLITE_NOTES.md).
func init() {
	Register("C20", []Target{
		{Pkg: ".../internal/semver", Func: "IsValid"},
		{Pkg: "golang.org/x/mod/semver", Func: "Compare", Oracle: true},
		{Pkg: ".../internal/semver", Func: "ComparePluginVersion"},
		{Pkg: ".../plugin", Func: "validatePluginName"},
		{Pkg: ".../plugin", Func: "parsePluginName"},
		{Pkg: ".../plugin", Func: "binName"},
		{Pkg: ".../internal/slices", Func: "Contains"},
		{Pkg: ".../plugin", Func: "validate", NonNil: true},
		{Pkg: ".../plugin", Func: "run", Oracle: true},
		{Pkg: ".../plugin", Func: "(*CLIPlugin).GetMetadata"},
	})
}
