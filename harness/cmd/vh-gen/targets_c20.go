package main

// C20: GoLite targets (docs/GOLITE_NOTES.md).
func init() {
	Register("C20", []Target{
		{Pkg: ".../internal/semver", Func: "IsValid"},
		{Pkg: "golang.org/x/mod/semver", Func: "Compare", Oracle: true},
		{Pkg: ".../internal/semver", Func: "ComparePluginVersion"},
	})
}
