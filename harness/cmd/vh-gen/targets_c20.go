package main

// C20: GoLite targets (docs/GOLITE_NOTES.md). Theorems: coq/props/C20_Generated.v,
// table in docs/audit/C20.md (section GoLite).
func init() {
	Register("C20", []Target{
		// version validity and comparison (C20_Semver.sv_valid, compare_plugin_version)
		{Pkg: ".../internal/semver", Func: "IsValid"},
		{Pkg: "golang.org/x/mod/semver", Func: "Compare", Oracle: true},
		{Pkg: ".../internal/semver", Func: "ComparePluginVersion"},
		// plugin names (C20_Model.valid_name, pname_of, bin_name)
		{Pkg: ".../plugin", Func: "validatePluginName"},
		{Pkg: ".../plugin", Func: "parsePluginName"},
		{Pkg: ".../plugin", Func: "binName"},
		// metadata validity (C20_Model.validate)
		{Pkg: ".../internal/slices", Func: "Contains"},
		{Pkg: ".../plugin", Func: "validate", NonNil: true},
		// kept as documentation of what is missing: GetMetadata holds the decisions
		// "validate failed -> PluginMalformedError" and "metadata.Name != p.name -> misnamed";
		// plugin.run fills its result through the out-parameter &metadata (plugin/plugin.go:101)
		// and takes an interface (plugin.Request): outside the subset.
		{Pkg: ".../plugin", Func: "run", Oracle: true},
		{Pkg: ".../plugin", Func: "(*CLIPlugin).GetMetadata"},
		// tried and removed (reasons in docs/audit/C20.md): parsePluginFromDir (closure given to
		// filepath.WalkDir, manager.go:283), CLIManager.Get/Uninstall/Install (struct CLIManager has
		// no translatable field; Install's version switch is not a separate function),
		// isExecutableFile / NewCLIPlugin (os.Stat).
	})
}
