package main

// C10: GoLite targets (docs/GOLITE_NOTES.md). Theorems: coq/props/C10_Generated.v
func init() {
	const n = "github.com/notaryproject/notation-go"
	const reg = ".../registry"
	Register("C10", []Target{
		{Pkg: "crypto/x509", Type: "Certificate", Opaque: true},
		{Pkg: reg, Type: "Repository", Opaque: true},
		{Pkg: reg, Func: "Repository.Resolve", Oracle: true},
		{Pkg: reg, Func: "Repository.ListSignatures", Oracle: true},
		{Pkg: reg, Func: "Repository.FetchSignatureBlob", Oracle: true},
		{Pkg: "oras.land/oras-go/v2/registry", Func: "ParseReference", Oracle: true},
		{Pkg: "oras.land/oras-go/v2/registry", Func: "Reference.ValidateReferenceAsDigest", Oracle: true},
		{Pkg: "github.com/opencontainers/go-digest", Func: "Digest.String"},
		{Pkg: n, Type: "Verifier", Opaque: true},
		{Pkg: n, Func: "Verifier.Verify", Oracle: true},
		{Pkg: n, Type: "verifySkipper", Opaque: true},
		{Pkg: n, Func: "verifySkipper.SkipVerify", Oracle: true},
		{Pkg: n, Func: "Verify"},
		{Pkg: n, Func: "VerifyBlob"},
	})
}
