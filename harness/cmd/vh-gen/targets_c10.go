package main

// C10: GoLite targets (docs/GOLITE_NOTES.md). Theorems: coq/props/C10_Generated.v
// (proofs in coq/theories/C10_GenProofs.v), table in docs/audit/C10.md section "GoLite".
func init() {
	const n = "github.com/notaryproject/notation-go"
	const reg = ".../registry"
	const oreg = "oras.land/oras-go/v2/registry"
	Register("C10", []Target{
		{Pkg: "crypto/x509", Type: "Certificate", Opaque: true},
		// the two arguments of notation.Verify are interface values that may be nil
		{Pkg: reg, Type: "Repository", Opaque: true, Nilable: true},
		{Pkg: n, Type: "Verifier", Opaque: true, Nilable: true},
		{Pkg: n, Type: "verifySkipper", Opaque: true, Nilable: true},
		// the repository (oracles): Resolve, FetchSignatureBlob; ListSignatures hands consecutive pages
		// to its callback, stops at the first error the callback returns and returns it
		{Pkg: reg, Func: "Repository.Resolve", Oracle: true},
		{Pkg: reg, Func: "Repository.ListSignatures", Oracle: true, Callback: "fn"},
		{Pkg: reg, Func: "Repository.FetchSignatureBlob", Oracle: true},
		// the verifier (oracles); the outcome a failed verification returns is owned by the caller
		// (notation.go:566 writes outcome.Error)
		{Pkg: n, Func: "Verifier.Verify", Oracle: true, FreshResults: true},
		{Pkg: n, Func: "verifySkipper.SkipVerify", Oracle: true},
		// oras: reference parsing (oracles); go-digest: Digest.String is the identity
		{Pkg: oreg, Func: "ParseReference", Oracle: true},
		{Pkg: oreg, Func: "Reference.ValidateReferenceAsDigest", Oracle: true},
		{Pkg: "github.com/opencontainers/go-digest", Func: "Digest.String"},
		// the local error value errExceededMaxVerificationLimit (notation.go:536) is compared by identity (errors.Is at :587)
		{Pkg: n, Func: "Verify", LocalErrorIdentity: []string{"errExceededMaxVerificationLimit"}},
	})
}
