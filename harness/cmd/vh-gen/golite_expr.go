package main

// GoLite: expressions. A translated expression is a Coq term together with a
// flag telling whether the term lives in the option monad (it contains a
// partial operation: None = run-time panic).

import (
	"fmt"
	"go/ast"
	"go/constant"
	"go/token"
	"go/types"
	"strings"

	. "vh/kit"
)

type bnd struct {
	v, term string
	obj     types.Object // the pointer variable whose dereference this is (then v is its non-nil view)
}

// cx: the value is `s` under the bindings `binds` (each binds v to the content
// of an option-typed term, None aborting); when opt is set, s itself is
// option-typed.
type cx struct {
	s     string
	opt   bool
	binds []bnd
}

func (e cx) isOpt() bool { return e.opt || len(e.binds) > 0 }

// render gives the expression as one option-typed term.
func (c *fn) render(e cx) string {
	inner := e.s
	if !e.opt {
		inner = "(Some " + e.s + ")"
	}
	for i := len(e.binds) - 1; i >= 0; i-- {
		inner = "(obind " + e.binds[i].term + " (fun " + e.binds[i].v + " => " + inner + "))"
	}
	return inner
}

// lift applies a total operation to sub-expressions, threading the monad
// (operands are evaluated left to right).
func (c *fn) lift(args []cx, f func(v []string) string) cx {
	return c.liftO(args, func(v []string) cx { return cx{s: f(v)} })
}

func (c *fn) liftO(args []cx, f func(v []string) cx) cx {
	vs := make([]string, len(args))
	var binds []bnd
	for i, a := range args {
		binds = append(binds, a.binds...)
		if a.opt {
			v := c.fresh("o")
			binds = append(binds, bnd{v: v, term: a.s})
			vs[i] = v
		} else {
			vs[i] = a.s
		}
	}
	r := f(vs)
	return cx{s: r.s, opt: r.opt, binds: append(binds, r.binds...)}
}

// tyOf is types.Info.TypeOf, except for a parameter instantiated by
// InstantiateAny, which has the type of its instance.
func (c *fn) tyOf(e ast.Expr) types.Type {
	if len(c.repl) > 0 {
		if id, ok := unparen(e).(*ast.Ident); ok {
			if o := c.objOf(id); o != nil {
				if _, isRepl := c.replOf[o]; isRepl {
					return o.Type()
				}
			}
		}
	}
	return c.info.TypeOf(e)
}

func (c *fn) typeOf(e ast.Expr) types.Type {
	t := c.tyOf(e)
	if t == nil {
		c.fail(e, "no type information for expression")
	}
	return resolve(t, c.sub)
}

func (c *fn) kindOf(e ast.Expr) tkind { return c.g.kind(c.typeOf(e), c.sub) }

// constant folding through types.Info
func (c *fn) constTerm(e ast.Expr) (cx, bool) {
	tv, ok := c.info.Types[e]
	if !ok || tv.Value == nil {
		return cx{}, false
	}
	switch c.g.kind(tv.Type, c.sub) {
	case kString:
		if tv.Value.Kind() == constant.String {
			return cx{s: CStr(constant.StringVal(tv.Value))}, true
		}
	case kBool:
		if tv.Value.Kind() == constant.Bool {
			if constant.BoolVal(tv.Value) {
				return cx{s: "true"}, true
			}
			return cx{s: "false"}, true
		}
	case kInt:
		if v := constant.ToInt(tv.Value); v.Kind() == constant.Int {
			s := v.ExactString()
			name := ""
			switch x := unparen(e).(type) {
			case *ast.Ident:
				name = x.Name
			case *ast.SelectorExpr:
				name = x.Sel.Name
			}
			if name != "" && name != "iota" {
				s += " (* " + name + " *)"
			}
			if strings.HasPrefix(s, "-") || name != "" {
				s = "(" + s + ")"
			}
			return cx{s: s}, true
		}
	}
	c.fail(e, "constant of type %s is not supported", types.TypeString(tv.Type, nil))
	return cx{}, false
}

func (c *fn) expr(e ast.Expr) cx {
	e = unparen(e)
	if r, ok := c.constTerm(e); ok {
		return r
	}
	switch x := e.(type) {
	case *ast.Ident:
		return c.ident(x)
	case *ast.BasicLit:
		c.fail(x, "literal %s is not supported", x.Value)
	case *ast.SelectorExpr:
		return c.selector(x)
	case *ast.CallExpr:
		if fi, _, _ := c.calleeInfoSafe(x); fi != nil && fi.inoutCount() > 0 {
			c.fail(x, "a function that mutates a map argument is called inside an expression")
		} else if fi != nil && fi.effect {
			if !c.effect {
				panic(needEffect{})
			}
			c.fail(x, "%s acts on the outside world and is called inside an expression (only `f(..)`, `x, y := f(..)`, `x = f(..)`, `return f(..)` and `if x := f(..); ..` are supported)", fi.label)
		}
		return c.call(x)
	case *ast.BinaryExpr:
		return c.binary(x)
	case *ast.UnaryExpr:
		switch x.Op {
		case token.NOT:
			return c.lift([]cx{c.expr(x.X)}, func(v []string) string { return "(negb " + v[0] + ")" })
		case token.SUB:
			if c.kindOf(x.X) != kInt {
				c.fail(x, "unary minus on a non-integer")
			}
			return c.lift([]cx{c.expr(x.X)}, func(v []string) string { return "(- " + v[0] + ")" })
		case token.ADD:
			return c.expr(x.X)
		case token.AND:
			inner := unparen(x.X)
			if _, ok := inner.(*ast.CompositeLit); ok {
				return c.lift([]cx{c.expr(inner)}, func(v []string) string { return "(PNew " + v[0] + ")" })
			}
			if id, ok := inner.(*ast.Ident); ok && c.isLocal(c.objOf(id)) && c.kindOf(inner) == kStruct {
				c.g.note(c.fi.label + ": &" + id.Name + " passes a snapshot of the variable (no aliasing)")
				return c.lift([]cx{c.expr(inner)}, func(v []string) string { return "(PNew " + v[0] + ")" })
			}
			if _, ok := inner.(*ast.SelectorExpr); ok && c.rootIdent(inner) != nil && c.kindOf(inner) != kPtr && c.kindOf(inner) != kMap {
				// &x.f.g: a pointer to the current value of the field (no identity, writes through it are refused elsewhere)
				c.g.note(c.fi.label + ": & of a field path makes a pointer to a snapshot of the field (no aliasing)")
				return c.lift([]cx{c.expr(inner)}, func(v []string) string { return "(PNew " + v[0] + ")" })
			}
			c.fail(x, "address-of is only supported on composite literals, local struct variables and field paths")
		}
		c.fail(x, "unary operator %s is not supported", x.Op)
	case *ast.StarExpr:
		return c.pointee(x.X)
	case *ast.IndexExpr:
		return c.index(x)
	case *ast.SliceExpr:
		return c.sliceExpr(x)
	case *ast.CompositeLit:
		return c.compositeLit(x)
	case *ast.FuncLit:
		r, isOpt := c.funcLit(x)
		if isOpt {
			c.fail(x, "a function literal that may panic is only supported when it is assigned to a local variable")
		}
		return r
	case *ast.TypeAssertExpr:
		fnName, ty := c.assertion(x)
		return c.liftO([]cx{c.expr(x.X)}, func(v []string) cx {
			return cx{s: "(" + fnName + "_opt " + CStr(ty) + " " + v[0] + ")", opt: true}
		})
	}
	c.fail(e, "expression %T is not in the GoLite subset", e)
	return cx{}
}

func (c *fn) calleeInfoSafe(call *ast.CallExpr) (fi *fnInfo, f *types.Func, recv ast.Expr) {
	return c.calleeInfo(call)
}

// tryExpr translates e, reporting an unsupported construct instead of failing.
func (c *fn) tryExpr(e ast.Expr) (r cx, ok bool) {
	defer func() {
		if x := recover(); x != nil {
			if _, is := x.(unsup); is {
				ok = false
				return
			}
			panic(x)
		}
	}()
	return c.expr(e), true
}

func (c *fn) ident(id *ast.Ident) cx {
	o := c.objOf(id)
	switch v := o.(type) {
	case *types.Nil:
		c.fail(id, "nil in a position where its type is not determined")
	case *types.Var:
		if c.isLocal(v) {
			if c.g.kind(v.Type(), c.sub) == kDropped || c.droppedObj[v] {
				c.fail(id, "use of the dropped value %s", id.Name)
			}
			if c.asValue[v] {
				return cx{s: "(PNew " + c.nameOf(v) + ")"}
			}
			return cx{s: c.nameOf(v)}
		}
		return cx{s: c.g.globalVar(v, c)}
	case *types.Func:
		c.fail(id, "function value %s is not supported", id.Name)
	}
	c.fail(id, "identifier %s is not supported here", id.Name)
	return cx{}
}

// viewPath recognises `root.A.B()` chains on a value of an opaque type.
func (c *fn) viewPath(e ast.Expr) (ast.Expr, string, bool) {
	switch x := unparen(e).(type) {
	case *ast.CallExpr:
		if len(x.Args) != 0 {
			return nil, "", false
		}
		se, ok := unparen(x.Fun).(*ast.SelectorExpr)
		if !ok {
			return nil, "", false
		}
		r, p, ok := c.viewPath(se)
		return r, p + "()", ok
	case *ast.SelectorExpr:
		t := c.tyOf(x.X)
		if t == nil {
			return nil, "", false
		}
		if c.g.kind(t, c.sub) == kOpaque {
			return x.X, x.Sel.Name, true
		}
		r, p, ok := c.viewPath(x.X)
		return r, p + "." + x.Sel.Name, ok
	}
	return nil, "", false
}

func (c *fn) tryView(e ast.Expr) (cx, bool) {
	root, path, ok := c.viewPath(e)
	if !ok {
		return cx{}, false
	}
	name, ok := c.g.view(c.typeOf(root), c.sub, path)
	if !ok {
		return cx{}, false
	}
	if c.optionView(root, path) && !c.rawNilable {
		// a view declared with an option type (nil-ness known): read as a slice / map, nil is empty
		return c.lift([]cx{c.expr(root)}, func(v []string) string { return "(onil (" + name + " " + v[0] + "))" }), true
	}
	return c.lift([]cx{c.expr(root)}, func(v []string) string { return "(" + name + " " + v[0] + ")" }), true
}

// optionView: the view `path` on the opaque value root is declared with a Coq type `option (list ..)`:
// a slice / map whose nil-ness is part of the view.
func (c *fn) optionView(root ast.Expr, path string) bool {
	tt := c.g.types[c.g.opaquePath(c.typeOf(root), c.sub)]
	if tt == nil || tt.Views == nil {
		return false
	}
	return strings.HasPrefix(strings.TrimSpace(tt.Views[path]), "option (list")
}

func (c *fn) selector(x *ast.SelectorExpr) cx {
	if id, ok := x.X.(*ast.Ident); ok {
		if _, isPkg := c.info.Uses[id].(*types.PkgName); isPkg {
			switch v := c.info.Uses[x.Sel].(type) {
			case *types.Var:
				return cx{s: c.g.globalVar(v, c)}
			}
			c.fail(x, "qualified identifier %s.%s is not supported here", id.Name, x.Sel.Name)
		}
	}
	if r, ok := c.tryView(x); ok {
		return r
	}
	sel, ok := c.info.Selections[x]
	if !ok || sel.Kind() != types.FieldVal {
		c.fail(x, "method value or unknown selector %s", x.Sel.Name)
	}
	if len(sel.Index()) != 1 {
		return c.promoted(x, sel)
	}
	xt := c.typeOf(x.X)
	var holder cx
	var st types.Type
	if p, ok := xt.(*types.Pointer); ok {
		holder = c.pointee(x.X)
		st = resolve(p.Elem(), c.sub)
	} else {
		holder = c.expr(x.X)
		st = xt
	}
	n, ok := st.(*types.Named)
	if !ok || c.g.kind(n, c.sub) != kStruct {
		c.fail(x, "field selection on a value of type %s", types.TypeString(st, nil))
	}
	f := c.g.record(n).field(c.g, x.Sel.Name)
	if f.nilable && !c.rawNilable {
		// read as a slice / map: nil is empty
		return c.lift([]cx{holder}, func(v []string) string { return "(onil (" + f.name + " " + v[0] + "))" })
	}
	return c.lift([]cx{holder}, func(v []string) string { return "(" + f.name + " " + v[0] + ")" })
}

// promoted reads a field promoted through structs embedded BY VALUE: the chain of projections.
func (c *fn) promoted(x *ast.SelectorExpr, sel *types.Selection) cx {
	xt := c.typeOf(x.X)
	var holder cx
	var st types.Type
	if p, ok := xt.(*types.Pointer); ok {
		holder = c.pointee(x.X)
		st = resolve(p.Elem(), c.sub)
	} else {
		holder = c.expr(x.X)
		st = xt
	}
	var projs []string
	for _, ix := range sel.Index() {
		n, ok := st.(*types.Named)
		if !ok || c.g.kind(n, c.sub) != kStruct {
			c.fail(x, "promoted field %s: the path goes through a value of type %s", x.Sel.Name, types.TypeString(st, nil))
		}
		fv := n.Underlying().(*types.Struct).Field(ix)
		f := c.g.record(n).field(c.g, fv.Name())
		if f.nilable {
			c.fail(x, "promoted field %s through a nilable field", x.Sel.Name)
		}
		projs = append(projs, f.name)
		st = resolve(fv.Type(), c.sub)
	}
	return c.lift([]cx{holder}, func(v []string) string {
		t := v[0]
		for _, p := range projs {
			t = "(" + p + " " + t + ")"
		}
		return t
	})
}

// nilableSel: e selects a field declared in NilableFields (its record field is an option).
func (c *fn) nilableSel(e ast.Expr) bool {
	x, ok := unparen(e).(*ast.SelectorExpr)
	if !ok {
		return false
	}
	if root, path, isView := c.viewPath(x); isView {
		if k := c.kindOf(x); (k == kSlice || k == kMap) && c.optionView(root, path) {
			return true
		}
	}
	sel, ok := c.info.Selections[x]
	if !ok || sel.Kind() != types.FieldVal || len(sel.Index()) != 1 {
		return false
	}
	st := c.typeOf(x.X)
	if p, ok := st.(*types.Pointer); ok {
		st = resolve(p.Elem(), c.sub)
	}
	n, ok := st.(*types.Named)
	if !ok || c.g.kind(n, c.sub) != kStruct {
		return false
	}
	tt := c.g.types[namedPath(n)]
	if tt == nil {
		return false
	}
	for _, nf := range tt.NilableFields {
		if nf == x.Sel.Name {
			return true
		}
	}
	return false
}

// rawSel: the option behind a nilable field selection.
func (c *fn) rawSel(e ast.Expr) cx {
	c.rawNilable = true
	defer func() { c.rawNilable = false }()
	return c.selector(unparen(e).(*ast.SelectorExpr))
}

// nilableValue translates e where the option of a nilable field of type t is expected: nil, another
// nilable field, or a value that is certainly not nil.
func (c *fn) nilableValue(e ast.Expr, t types.Type) cx {
	e = unparen(e)
	if c.isNilExpr(e) {
		return cx{s: "None"}
	}
	if c.nilableSel(e) {
		return c.rawSel(e)
	}
	nonNil := false
	switch x := e.(type) {
	case *ast.CompositeLit:
		nonNil = true
	case *ast.CallExpr:
		if id, ok := unparen(x.Fun).(*ast.Ident); ok {
			if b, ok := c.info.Uses[id].(*types.Builtin); ok {
				switch b.Name() {
				case "make":
					nonNil = true
				case "append":
					nonNil = len(x.Args) >= 2 && !x.Ellipsis.IsValid()
				}
			}
		}
		if tv, isT := c.info.Types[x.Fun]; isT && tv.IsType() && len(x.Args) == 1 && c.kindOf(x.Args[0]) == kString {
			nonNil = true // []byte(s) is never nil
		}
	}
	if !nonNil {
		c.fail(e, "the value given to a nilable field must be nil, another nilable field, or certainly not nil (a literal, make, a conversion of a string): whether this one is nil is not known")
	}
	return c.lift([]cx{c.exprAs(e, t)}, func(v []string) string { return "(Some " + v[0] + ")" })
}

// pointee is the value a pointer-typed expression points to (partial unless
// the pointer is known to be non-nil).
func (c *fn) pointee(e ast.Expr) cx {
	e = unparen(e)
	if u, ok := e.(*ast.UnaryExpr); ok && u.Op == token.AND {
		inner := unparen(u.X)
		if _, isLit := inner.(*ast.CompositeLit); isLit {
			return c.expr(inner)
		}
		if id, ok := inner.(*ast.Ident); ok && c.isLocal(c.objOf(id)) {
			return c.expr(inner)
		}
		if _, ok := inner.(*ast.SelectorExpr); ok && c.rootIdent(inner) != nil {
			// &x.f.g handed to a callee that only reads it: the current value of the field
			return c.expr(inner)
		}
		c.fail(e, "address-of is only supported on composite literals, local variables and field paths")
	}
	if c.kindOf(e) == kOpaque {
		return c.expr(e)
	}
	if c.kindOf(e) != kPtr && c.kindOf(e) != kNilable {
		c.fail(e, "dereference of a value of type %s", types.TypeString(c.typeOf(e), nil))
	}
	if id, ok := e.(*ast.Ident); ok {
		o := c.objOf(id)
		if c.isLocal(o) {
			if c.asValue[o] {
				return cx{s: c.nameOf(o)}
			}
			if v, ok := c.views[o]; ok {
				return cx{s: v}
			}
		} else if v, ok := o.(*types.Var); ok {
			if pv := c.g.globalPointee(v, c); pv != "" {
				return cx{s: pv}
			}
		}
	}
	if se, ok := e.(*ast.SelectorExpr); ok {
		if id, ok := se.X.(*ast.Ident); ok {
			if _, isPkg := c.info.Uses[id].(*types.PkgName); isPkg {
				if v, ok := c.info.Uses[se.Sel].(*types.Var); ok {
					if pv := c.g.globalPointee(v, c); pv != "" {
						return cx{s: pv}
					}
				}
			}
		}
	}
	if id, ok := e.(*ast.Ident); ok {
		if o := c.objOf(id); c.isLocal(o) {
			v := c.fresh(c.nameOf(o) + "_v")
			c.regLocal(v, c.g.ptrElemType(o.Type(), c.sub))
			return cx{s: v, binds: []bnd{{v: v, term: "(ptr_val " + c.nameOf(o) + ")", obj: o}}}
		}
	}
	p := c.expr(e)
	return c.liftO([]cx{p}, func(v []string) cx { return cx{s: "(ptr_val " + v[0] + ")", opt: true} })
}

// exprAs translates e where a value of type want is expected (implicit
// conversions: typed nil, a concrete error type to error).
func (c *fn) exprAs(e ast.Expr, want types.Type) cx {
	want = resolve(want, c.sub)
	wk := c.g.kind(want, c.sub)
	if c.isNilExpr(e) {
		switch wk {
		case kAny:
			return cx{s: "ANil"}
		case kPtr, kNilable:
			return cx{s: "PNil"}
		case kError:
			return cx{s: "None"}
		case kSlice, kMap:
			return cx{s: "[]"}
		}
		c.fail(e, "nil of type %s is not supported", types.TypeString(want, nil))
	}
	if wk == kDropped {
		c.fail(e, "a value of a dropped type is needed")
	}
	ek := c.kindOf(e)
	if wk == kAny && ek != kAny {
		et := c.typeOf(e)
		if tv, ok := c.info.Types[e]; ok && tv.Value != nil {
			et = types.Default(tv.Type)
		}
		return c.lift([]cx{c.expr(e)}, func(v []string) string { return c.g.toAny(v[0], et, c.sub) })
	}
	if wk == kError && ek != kError {
		return c.errorValue(e)
	}
	if c.g.isOpaqueIface(want, c.sub) && c.g.isOpaqueIface(c.typeOf(e), c.sub) {
		et := c.typeOf(e)
		if c.g.opaquePath(et, c.sub) != c.g.opaquePath(want, c.sub) || ek != wk {
			if ek == kNilable && wk != kNilable {
				// the non-nil content is needed
				return c.lift([]cx{c.pointee(e)}, func(v []string) string {
					return c.g.ifaceConv(v[0], et, want, c.sub, true)
				})
			}
			return c.lift([]cx{c.expr(e)}, func(v []string) string { return c.g.ifaceConv(v[0], et, want, c.sub, false) })
		}
		return c.expr(e)
	}
	if wk == kNilable && ek == kPtr {
		if n := c.g.concreteOf(want, c.sub); n != nil {
			// a *T into the interface that only ever holds *T: a non-nil interface value, also for a nil pointer
			if p, ok := c.typeOf(e).(*types.Pointer); ok && types.Identical(resolve(p.Elem(), c.sub), n) {
				return c.lift([]cx{c.expr(e)}, func(v []string) string { return "(PNew " + v[0] + ")" })
			}
			c.fail(e, "a %s is converted to interface %s, which is declared to hold only *%s", types.TypeString(c.typeOf(e), nil), types.TypeString(want, nil), n.Obj().Name())
		}
	}
	if wk == kNilable && ek == kIfaceFn && c.g.nilableIsFn(want, c.sub) {
		return c.lift([]cx{c.expr(e)}, func(v []string) string { return "(PNew " + v[0] + ")" })
	}
	if (wk == kNilable || wk == kOpaque) && c.g.isOpaqueIface(want, c.sub) && !c.g.isOpaqueIface(c.typeOf(e), c.sub) {
		// a concrete value into an opaque interface: only when it is known not to be a nil pointer
		et := c.typeOf(e)
		var v cx
		if _, isPtr := et.(*types.Pointer); isPtr {
			if ek != kPtr && ek != kOpaque {
				c.fail(e, "conversion of a %s to interface %s is not supported", types.TypeString(et, nil), types.TypeString(want, nil))
			}
			v = c.pointee(e)
			if v.isOpt() {
				c.fail(e, "a pointer that may be nil is converted to interface %s (a nil pointer inside a non-nil interface value is not modelled): declare it NonNil", types.TypeString(want, nil))
			}
		} else {
			if ek != kStruct && ek != kString && ek != kInt && ek != kMap && ek != kSlice && ek != kOpaque {
				c.fail(e, "conversion of a %s to interface %s is not supported", types.TypeString(et, nil), types.TypeString(want, nil))
			}
			v = c.expr(e)
		}
		up := c.g.ifaceOf(et, want, c.sub)
		return c.lift([]cx{v}, func(x []string) string {
			if wk == kNilable {
				return "(PNew (" + up + " " + x[0] + "))"
			}
			return "(" + up + " " + x[0] + ")"
		})
	}
	if wk == kIfaceFn && ek != kIfaceFn {
		c.fail(e, "conversion of a concrete value to interface %s is not supported", types.TypeString(want, nil))
	}
	if wk == kUnsupported {
		c.fail(e, "a value of type %s is needed, which is not in the GoLite subset", types.TypeString(want, nil))
	}
	return c.expr(e)
}

// ---------- operators ----------

func (c *fn) flatten(e ast.Expr, op token.Token) []ast.Expr {
	if be, ok := unparen(e).(*ast.BinaryExpr); ok && be.Op == op {
		return append(c.flatten(be.X, op), c.flatten(be.Y, op)...)
	}
	return []ast.Expr{e}
}

func (c *fn) shortCircuit(op token.Token, a, b cx) cx {
	sym := " && "
	if op == token.LOR {
		sym = " || "
	}
	if !b.isOpt() {
		return c.lift([]cx{a, b}, func(v []string) string { return "(" + v[0] + sym + v[1] + ")" })
	}
	rb := c.render(b)
	return c.liftO([]cx{a}, func(v []string) cx {
		if op == token.LAND {
			return cx{s: "(if " + v[0] + " then " + rb + " else Some false)", opt: true}
		}
		return cx{s: "(if " + v[0] + " then Some true else " + rb + ")", opt: true}
	})
}

// chain translates a1 op a2 op .. an (op = && or ||) left to right; a
// conjunct `p != nil` (disjunct `p == nil`) gives the operands to its right a
// non-nil view of p.
func (c *fn) chain(op token.Token, es []ast.Expr) cx {
	if len(es) == 1 {
		return c.expr(es[0])
	}
	if o, isEq, ok := c.nilTest(es[0]); ok && isEq == (op == token.LOR) {
		if _, has := c.views[o]; !has {
			v := c.fresh(c.nameOf(o) + "_v")
			c.regLocal(v, c.g.ptrElemType(o.Type(), c.sub))
			saved := c.saveViews()
			c.views[o] = v
			rest := c.chain(op, es[1:])
			c.views = saved
			noneV := "false"
			if op == token.LOR {
				noneV = "true"
			}
			restS := rest.s
			if rest.isOpt() {
				noneV = "(Some " + noneV + ")"
				restS = c.render(rest)
			}
			return cx{s: "(match ptr_val " + c.nameOf(o) + " with | Some " + v + " => " + restS + " | None => " + noneV + " end)", opt: rest.isOpt()}
		}
	}
	a := c.expr(es[0])
	// dereferences made by the left operand are hoisted before the whole
	// expression: the right operands may rely on them
	saved := c.saveViews()
	for _, b := range a.binds {
		if b.obj != nil {
			c.views[b.obj] = b.v
		}
	}
	rest := c.chain(op, es[1:])
	c.views = saved
	return c.shortCircuit(op, a, rest)
}

func (c *fn) binary(x *ast.BinaryExpr) cx {
	switch x.Op {
	case token.LAND, token.LOR:
		return c.chain(x.Op, c.flatten(x, x.Op))
	case token.EQL, token.NEQ:
		return c.equality(x)
	case token.LSS, token.LEQ, token.GTR, token.GEQ:
		if c.kindOf(x.X) != kInt || c.kindOf(x.Y) != kInt {
			c.fail(x, "ordering comparison on type %s is not supported", types.TypeString(c.typeOf(x.X), nil))
		}
		sym := map[token.Token]string{token.LSS: " <? ", token.LEQ: " <=? ", token.GTR: " >? ", token.GEQ: " >=? "}[x.Op]
		return c.lift([]cx{c.expr(x.X), c.expr(x.Y)}, func(v []string) string { return "(" + v[0] + sym + v[1] + ")" })
	case token.ADD, token.SUB, token.MUL:
		return c.arith(x, x.Op, c.expr(x.X), c.expr(x.Y), c.typeOf(x))
	case token.AND, token.OR, token.XOR, token.AND_NOT:
		if c.kindOf(x) != kInt {
			c.fail(x, "bit operator on a non-integer")
		}
		fnName := map[token.Token]string{token.AND: "Z.land", token.OR: "Z.lor", token.XOR: "Z.lxor", token.AND_NOT: "Z.ldiff"}[x.Op]
		return c.lift([]cx{c.expr(x.X), c.expr(x.Y)}, func(v []string) string { return "(" + fnName + " " + v[0] + " " + v[1] + ")" })
	case token.SHL, token.SHR:
		if c.kindOf(x) != kInt {
			c.fail(x, "shift of a non-integer")
		}
		tv, ok := c.info.Types[x.Y]
		if !ok || tv.Value == nil || constant.Sign(tv.Value) < 0 {
			c.fail(x, "shift by a non-constant count is not supported")
		}
		fnName := "Z.shiftl"
		if x.Op == token.SHR {
			fnName = "Z.shiftr"
		}
		c.g.note("integers are unbounded: << never overflows")
		return c.lift([]cx{c.expr(x.X), c.expr(x.Y)}, func(v []string) string { return "(" + fnName + " " + v[0] + " " + v[1] + ")" })
	case token.QUO, token.REM:
		if c.kindOf(x) != kInt {
			c.fail(x, "division on a non-integer")
		}
		fnName := "Z.quot"
		if x.Op == token.REM {
			fnName = "Z.rem"
		}
		if tv, ok := c.info.Types[x.Y]; ok && tv.Value != nil && constant.Sign(tv.Value) != 0 {
			return c.lift([]cx{c.expr(x.X), c.expr(x.Y)}, func(v []string) string { return "(" + fnName + " " + v[0] + " " + v[1] + ")" })
		}
		return c.liftO([]cx{c.expr(x.X), c.expr(x.Y)}, func(v []string) cx {
			return cx{s: "(if " + v[1] + " =? 0 then None else Some (" + fnName + " " + v[0] + " " + v[1] + "))", opt: true}
		})
	}
	c.fail(x, "binary operator %s is not supported", x.Op)
	return cx{}
}

func (c *fn) arith(n ast.Node, op token.Token, a, b cx, t types.Type) cx {
	switch c.g.kind(t, c.sub) {
	case kString:
		if op != token.ADD {
			c.fail(n, "operator %s on strings", op)
		}
		return c.lift([]cx{a, b}, func(v []string) string { return "(String.append " + v[0] + " " + v[1] + ")" })
	case kInt:
		sym := map[token.Token]string{token.ADD: " + ", token.SUB: " - ", token.MUL: " * "}[op]
		return c.lift([]cx{a, b}, func(v []string) string { return "(" + v[0] + sym + v[1] + ")" })
	}
	c.fail(n, "arithmetic on type %s is not supported", types.TypeString(resolve(t, c.sub), nil))
	return cx{}
}

// equal compares two translated values of a basic kind.
func (c *fn) equal(n ast.Node, a, b cx, t types.Type, eq bool) cx {
	eqb := c.g.eqbFor(t, c.sub)
	return c.lift([]cx{a, b}, func(v []string) string {
		s := "(" + eqb + " " + v[0] + " " + v[1] + ")"
		if !eq {
			s = "(negb " + s + ")"
		}
		return s
	})
}

func (c *fn) equality(x *ast.BinaryExpr) cx {
	eq := x.Op == token.EQL
	neg := func(r cx) cx {
		if eq {
			return r
		}
		return c.lift([]cx{r}, func(v []string) string { return "(negb " + v[0] + ")" })
	}
	a, b := unparen(x.X), unparen(x.Y)
	if c.isNilExpr(a) {
		a, b = b, a
	}
	if c.isNilExpr(b) {
		if c.nilableSel(a) {
			return neg(c.lift([]cx{c.rawSel(a)}, func(v []string) string { return "(is_none " + v[0] + ")" }))
		}
		switch c.kindOf(a) {
		case kPtr, kNilable:
			if id, ok := a.(*ast.Ident); ok {
				o := c.objOf(id)
				if c.isLocal(o) {
					if _, has := c.views[o]; has || c.asValue[o] {
						return neg(cx{s: "false"})
					}
				}
			}
			return neg(c.lift([]cx{c.expr(a)}, func(v []string) string { return "(ptr_is_nil " + v[0] + ")" }))
		case kError:
			return neg(c.lift([]cx{c.expr(a)}, func(v []string) string { return "(is_none " + v[0] + ")" }))
		case kSlice:
			if c.opts.NilIsEmpty {
				c.g.note(c.fi.label + ": == nil on a slice is read as len == 0 (option NilIsEmpty)")
				return neg(c.lift([]cx{c.expr(a)}, func(v []string) string { return "(list_len " + v[0] + " =? 0)" }))
			}
			c.fail(x, "comparison of a slice with nil (nil and empty slices are one value; see option NilIsEmpty)")
		case kMap:
			if c.opts.NilIsEmpty {
				c.g.note(c.fi.label + ": == nil on a map is read as len == 0 (option NilIsEmpty)")
				mt := c.typeOf(a).Underlying().(*types.Map)
				eqb := c.g.eqbFor(mt.Key(), c.sub)
				return neg(c.lift([]cx{c.expr(a)}, func(v []string) string { return "(map_len " + eqb + " " + v[0] + " =? 0)" }))
			}
			c.fail(x, "comparison of a map with nil (nil and empty maps are one value; see option NilIsEmpty)")
		case kAny:
			return neg(c.lift([]cx{c.expr(a)}, func(v []string) string { return "(any_is_nil " + v[0] + ")" }))
		case kOpaque:
			c.fail(x, "comparison of an opaque value with nil (opaque pointers are assumed non-nil)")
		}
		c.fail(x, "comparison of a value of type %s with nil", types.TypeString(c.typeOf(a), nil))
	}
	if c.kindOf(a) == kAny || c.kindOf(b) == kAny {
		anyT := c.typeOf(a)
		if c.kindOf(a) != kAny {
			anyT = c.typeOf(b)
		}
		both := c.kindOf(a) == kAny && c.kindOf(b) == kAny
		av, bv := c.exprAs(a, anyT), c.exprAs(b, anyT)
		if !both {
			// one operand has a comparable concrete type: the comparison cannot panic
			return neg(c.lift([]cx{av, bv}, func(v []string) string { return "(anyv_eqb " + v[0] + " " + v[1] + ")" }))
		}
		return neg(c.liftO([]cx{av, bv}, func(v []string) cx {
			return cx{s: "(anyv_eq_opt " + v[0] + " " + v[1] + ")", opt: true}
		}))
	}
	switch c.kindOf(a) {
	case kString, kInt, kBool:
		if c.kindOf(b) != c.kindOf(a) {
			c.fail(x, "comparison between different kinds")
		}
		return c.equal(x, c.expr(a), c.expr(b), c.typeOf(a), eq)
	case kError:
		for _, pair := range [][2]ast.Expr{{a, b}, {b, a}} {
			if name, ok := c.sentinel(pair[1]); ok && c.kindOf(pair[0]) == kError {
				return neg(c.lift([]cx{c.expr(pair[0])}, func(v []string) string { return "(err_same " + v[0] + " " + name + ")" }))
			}
		}
		for _, pair := range [][2]ast.Expr{{a, b}, {b, a}} {
			if _, ok := c.localErrIdentity(pair[1]); ok && c.kindOf(pair[0]) == kError {
				tgt := c.exprAs(pair[1], types.Universe.Lookup("error").Type())
				return neg(c.lift([]cx{c.expr(pair[0]), tgt}, func(v []string) string { return "(err_same " + v[0] + " " + v[1] + ")" }))
			}
		}
		c.fail(x, "comparison of two errors neither of which is a package-level sentinel (var ErrX = errors.New(..))")
	case kPtr:
		// one side must be a package-level pointer variable
		for _, pair := range [][2]ast.Expr{{a, b}, {b, a}} {
			if name := c.globalPtrName(pair[1]); name != "" {
				return neg(c.lift([]cx{c.expr(pair[0])}, func(v []string) string { return "(ptr_eqb_glob " + v[0] + " " + CStr(name) + ")" }))
			}
		}
		c.fail(x, "comparison of two pointers neither of which is a package-level variable initialised with &T{..}")
	}
	c.fail(x, "equality on type %s is not supported", types.TypeString(c.typeOf(a), nil))
	return cx{}
}

// globalPtrName: e names a package-level variable initialised with &T{..}.
func (c *fn) globalPtrName(e ast.Expr) string {
	var v *types.Var
	switch x := unparen(e).(type) {
	case *ast.Ident:
		v, _ = c.objOf(x).(*types.Var)
	case *ast.SelectorExpr:
		if id, ok := x.X.(*ast.Ident); ok {
			if _, isPkg := c.info.Uses[id].(*types.PkgName); isPkg {
				v, _ = c.info.Uses[x.Sel].(*types.Var)
			}
		}
	}
	if v == nil || c.isLocal(v) {
		return ""
	}
	if c.g.globalPointee(v, c) == "" {
		return ""
	}
	return v.Pkg().Name() + "." + v.Name()
}

// ---------- indexing ----------

func (c *fn) index(x *ast.IndexExpr) cx {
	if tv, ok := c.info.Types[x.X]; ok && !tv.IsValue() {
		c.fail(x, "instantiated generic function used as a value")
	}
	xt := c.typeOf(x.X)
	switch c.g.kind(xt, c.sub) {
	case kMap:
		mt := xt.Underlying().(*types.Map)
		eqb := c.g.eqbFor(mt.Key(), c.sub)
		zero := c.g.zero(mt.Elem(), c.sub)
		return c.lift([]cx{c.expr(x.X), c.exprAs(x.Index, mt.Key())}, func(v []string) string {
			return "(map_get_or " + eqb + " " + zero + " " + v[1] + " " + v[0] + ")"
		})
	case kSlice:
		return c.liftO([]cx{c.expr(x.X), c.expr(x.Index)}, func(v []string) cx {
			return cx{s: "(list_get " + v[0] + " " + v[1] + ")", opt: true}
		})
	case kString:
		return c.liftO([]cx{c.expr(x.X), c.expr(x.Index)}, func(v []string) cx {
			return cx{s: "(str_get " + v[0] + " " + v[1] + ")", opt: true}
		})
	}
	c.fail(x, "indexing a value of type %s is not supported", types.TypeString(xt, nil))
	return cx{}
}

func (c *fn) sliceExpr(x *ast.SliceExpr) cx {
	if x.Slice3 {
		c.fail(x, "3-index slices are not supported")
	}
	if c.kindOf(x.X) == kSlice {
		if x.Low == nil && x.High == nil {
			return c.expr(x.X) // x[:] of a slice or an array
		}
		c.g.note(c.fi.label + ": a slice is re-sliced; the model takes its capacity to be its length (re-slicing beyond the length panics in the model, Go allows it up to the capacity)")
		l := c.expr(x.X)
		return c.liftO([]cx{l}, func(lv []string) cx {
			lo, hi := cx{s: "0"}, cx{s: "(list_len " + lv[0] + ")"}
			if x.Low != nil {
				lo = c.expr(x.Low)
			}
			if x.High != nil {
				hi = c.expr(x.High)
			}
			return c.liftO([]cx{lo, hi}, func(v []string) cx {
				return cx{s: "(list_slice " + lv[0] + " " + v[0] + " " + v[1] + ")", opt: true}
			})
		})
	}
	if c.kindOf(x.X) != kString {
		c.fail(x, "slicing a value of type %s is not supported", types.TypeString(c.typeOf(x.X), nil))
	}
	s := c.expr(x.X)
	return c.liftO([]cx{s}, func(sv []string) cx {
		lo, hi := cx{s: "0"}, cx{s: "(str_len " + sv[0] + ")"}
		if x.Low != nil {
			lo = c.expr(x.Low)
		}
		if x.High != nil {
			hi = c.expr(x.High)
		}
		return c.liftO([]cx{lo, hi}, func(v []string) cx {
			return cx{s: "(str_slice " + sv[0] + " " + v[0] + " " + v[1] + ")", opt: true}
		})
	})
}

// ---------- composite literals ----------

func (c *fn) compositeLit(x *ast.CompositeLit) cx {
	t := c.typeOf(x)
	if p, ok := t.(*types.Pointer); ok {
		// elided &T in a slice / map of pointers
		inner := c.compositeLitOf(x, resolve(p.Elem(), c.sub))
		return c.lift([]cx{inner}, func(v []string) string { return "(PNew " + v[0] + ")" })
	}
	return c.compositeLitOf(x, t)
}

func (c *fn) compositeLitOf(x *ast.CompositeLit, t types.Type) cx {
	switch c.g.kind(t, c.sub) {
	case kUnit:
		return cx{s: "tt"}
	case kTime:
		if len(x.Elts) == 0 {
			return cx{s: "time_zero"}
		}
	case kStruct:
		n := t.(*types.Named)
		r := c.g.record(n)
		st := n.Underlying().(*types.Struct)
		vals := map[string]cx{}
		for i, el := range x.Elts {
			var fname string
			var ve ast.Expr
			if kv, ok := el.(*ast.KeyValueExpr); ok {
				fname = kv.Key.(*ast.Ident).Name
				ve = kv.Value
			} else {
				fname = st.Field(i).Name()
				ve = el
			}
			f := r.field(c.g, fname)
			if implementsError(n) && c.g.kind(f.typ, nil) == kString {
				vals[fname] = c.msgOf(ve) // the message of an error struct: its text is not modelled
			} else if f.nilable {
				vals[fname] = c.nilableValue(ve, f.typ)
			} else {
				vals[fname] = c.exprAs(ve, f.typ)
			}
		}
		var args []cx
		for i := range r.fields {
			f := &r.fields[i]
			if v, ok := vals[f.goName]; ok {
				args = append(args, v)
			} else {
				args = append(args, cx{s: f.zero(c.g)})
			}
		}
		if len(r.omitted) > 0 {
			c.g.note(fmt.Sprintf("%s: a %s literal is built without its untranslated fields", c.fi.label, r.name))
		}
		return c.lift(args, func(v []string) string { return "(" + r.ctor + " " + strings.Join(v, " ") + ")" })
	case kSlice:
		et := elemOf(t)
		if arr, ok := t.Underlying().(*types.Array); ok && arr.Len() != int64(len(x.Elts)) {
			c.fail(x, "array literal with fewer elements than its length")
		}
		var args []cx
		for _, el := range x.Elts {
			if _, ok := el.(*ast.KeyValueExpr); ok {
				c.fail(el, "indexed slice literal")
			}
			args = append(args, c.exprAs(el, et))
		}
		return c.lift(args, func(v []string) string { return "[" + strings.Join(v, "; ") + "]" })
	case kMap:
		mt := t.Underlying().(*types.Map)
		eqb := c.g.eqbFor(mt.Key(), c.sub)
		var args []cx
		allConst := true
		for _, el := range x.Elts {
			kv := el.(*ast.KeyValueExpr)
			if tv, ok := c.info.Types[kv.Key]; !ok || tv.Value == nil {
				allConst = false
			}
			args = append(args, c.exprAs(kv.Key, mt.Key()), c.exprAs(kv.Value, mt.Elem()))
		}
		return c.lift(args, func(v []string) string {
			if allConst {
				var ps []string
				for i := 0; i < len(v); i += 2 {
					ps = append(ps, "("+v[i]+", "+v[i+1]+")")
				}
				return "[" + strings.Join(ps, "; ") + "]"
			}
			s := "[]"
			for i := 0; i < len(v); i += 2 {
				s = "(map_set " + eqb + " " + v[i] + " " + v[i+1] + " " + s + ")"
			}
			return s
		})
	}
	c.fail(x, "composite literal of type %s is not supported", types.TypeString(t, nil))
	return cx{}
}

// assertion checks a type assertion x.(T) on a value of type any with T of a
// string / integer / boolean kind; it returns the GoLib function and the name
// of the dynamic type.
func (c *fn) assertion(x *ast.TypeAssertExpr) (string, string) {
	if x.Type == nil {
		c.fail(x, "type switches are not supported")
	}
	if c.kindOf(x.X) != kAny {
		c.fail(x, "type assertion on a value of type %s (only values of type any are supported)", types.TypeString(c.typeOf(x.X), nil))
	}
	t := resolve(c.tyOf(x.Type), c.sub)
	switch c.g.kind(t, c.sub) {
	case kString:
		return "any_str", dynTypeName(t)
	case kInt:
		return "any_int", dynTypeName(t)
	case kBool:
		return "any_bool", dynTypeName(t)
	}
	c.fail(x, "type assertion to %s is not supported (only string, integer and boolean kinds)", types.TypeString(t, nil))
	return "", ""
}
