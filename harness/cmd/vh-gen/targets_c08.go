package main

// C08: the applicable trust policy statement (verifier/trustpolicy).
//
// Selection: getArtifactPathFromReference, validateRegistryScopeFormat, the three selection
// methods and the clone methods. Validity facts the property relies on ("uniqueness of scopes
// across statements guaranteed by validation"): validateRegistryScopes and the two Validate
// methods, with validatePolicyCore as an oracle (what it answers is irrelevant for C08: the
// theorems of props/C08_Generated.v hold for EVERY oracle; C09 owns its body).
func init() {
	const tp = ".../verifier/trustpolicy"
	Register("C08", []Target{
		{Pkg: ".../internal/slices", Func: "Contains"},
		{Pkg: tp, Func: "validateRegistryScopeFormat"},
		{Pkg: tp, Func: "getArtifactPathFromReference"},
		{Pkg: tp, Func: "SignatureVerification.clone", NilIsEmpty: true},
		{Pkg: tp, Func: "(*OCITrustPolicy).clone"},
		{Pkg: tp, Func: "(*BlobTrustPolicy).clone"},
		{Pkg: tp, Func: "(*OCIDocument).GetApplicableTrustPolicy"},
		{Pkg: tp, Func: "(*BlobDocument).GetApplicableTrustPolicy"},
		{Pkg: tp, Func: "(*BlobDocument).GetGlobalTrustPolicy"},
		// validation: what makes the selected statement unique
		{Pkg: tp, Func: "validateRegistryScopes", NonNil: true},
		{Pkg: ".../internal/container", Func: "New"},
		{Pkg: ".../internal/container", Func: "Set.Add"},
		{Pkg: ".../internal/container", Func: "Set.Contains"},
		{Pkg: tp, Func: "validatePolicyCore", Oracle: true},
		{Pkg: tp, Func: "(*OCIDocument).Validate", NilableRecv: true},
		{Pkg: tp, Func: "(*BlobDocument).Validate", NilableRecv: true},
		// Not listed (outside the GoLite subset, see docs/audit/C08.md section GoLite):
		// verifier.(*verifier).SkipVerify / Verify / VerifyBlob, where a selection error becomes
		// notation.ErrorNoApplicableTrustPolicy{Msg: err.Error()}: call of (error).Error
		// (verifier/verifier.go:249, 281, 363), reflect.DeepEqual (:256, 292, 375), and the verifier struct drags
		// x509 / url / big.Int records into the file.
	})
}
