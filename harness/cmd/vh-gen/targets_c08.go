package main

// C08: the applicable trust policy statement (verifier/trustpolicy).
func init() {
	const tp = ".../verifier/trustpolicy"
	Register("C08", []Target{
		{Pkg: ".../internal/slices", Func: "Contains"},
		{Pkg: tp, Func: "validateRegistryScopeFormat"},
		{Pkg: tp, Func: "getArtifactPathFromReference"},
		{Pkg: tp, Func: "SignatureVerification.clone", NilIsEmpty: true},
		{Pkg: tp, Func: "(*OCITrustPolicy).clone"},
		{Pkg: tp, Func: "(*BlobTrustPolicy).clone"},
		{Pkg: tp, Func: "(*OCIDocument).GetApplicableTrustPolicy"},
		{Pkg: tp, Func: "(*BlobDocument).GetApplicableTrustPolicy"},
		{Pkg: tp, Func: "(*BlobDocument).GetGlobalTrustPolicy"},
	})
}
