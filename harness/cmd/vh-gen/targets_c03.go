package main

// C03: GoLite targets (docs/GOLITE_NOTES.md). Theorems: coq/props/C03_Generated.v
// (proofs in coq/theories/C03_GenProofs.v), table in docs/audit/C03.md section "GoLite".
func init() {
	const v = ".../verifier"
	const tp = ".../verifier/trustpolicy"
	const core = "github.com/notaryproject/notation-core-go/signature"
	Register("C03", []Target{
		{Pkg: "crypto/x509", Type: "Certificate", Opaque: true, Views: map[string]string{"Subject.String()": "string"}},
		{Pkg: ".../internal/container", Func: "New"},
		{Pkg: ".../internal/container", Func: "Set.Add"},
		{Pkg: ".../internal/container", Func: "Set.Contains"},
		// scheme -> store type, listed stores of that type only, load errors propagate
		{Pkg: v, Func: "loadX509TrustStoresWithType"},
		{Pkg: v, Func: "loadX509TrustStores"},
		{Pkg: v, Func: "loadX509TSATrustStores"},
		{Pkg: v, Func: "isTSATrustStoreInPolicy"},
		// the authenticity decision around notation-core-go (oracle) and what ends the verification
		// verifyAuthenticity is kept as documentation: refused at verifier/verifier.go:771
		// (&outcome.EnvelopeContent.SignerInfo: address-of a field path behind a pointer parameter),
		// next would be :773 `switch err.(type)` (type switch on an error) and :782 err.Error().
		// Its `len(trustCerts) < 1` rule and the classification of core's answer stay tied to the code
		// by the correspondence harness only (model: C03_Model.verify_authenticity).
		{Pkg: core, Func: "VerifyAuthenticity", Oracle: true},
		{Pkg: v, Func: "verifyAuthenticity"},
		{Pkg: v, Func: "isCriticalFailure"},
		// which statement's trust store list is used
		{Pkg: ".../internal/slices", Func: "Contains"},
		{Pkg: tp, Func: "getArtifactPathFromReference"},
		{Pkg: tp, Func: "validateRegistryScopeFormat"},
		{Pkg: tp, Func: "SignatureVerification.clone", NilIsEmpty: true},
		{Pkg: tp, Func: "(*OCITrustPolicy).clone"},
		{Pkg: tp, Func: "(*BlobTrustPolicy).clone"},
		{Pkg: tp, Func: "(*OCIDocument).GetApplicableTrustPolicy"},
		{Pkg: tp, Func: "(*BlobDocument).GetApplicableTrustPolicy"},
		{Pkg: tp, Func: "(*BlobDocument).GetGlobalTrustPolicy"},
		// the identity step that may overwrite the authenticity result
		{Pkg: ".../internal/pkix", Func: "ParseDistinguishedName", Oracle: true},
		{Pkg: ".../internal/pkix", Func: "IsSubsetDN"},
		{Pkg: v, Func: "verifyX509TrustedIdentities"},
		// Not listed: (*verifier).processSignature / Verify / VerifyBlob (depend on verifyAuthenticity;
		// besides: comma-ok type assertions verifier.go:433, plugin interfaces, err.Error() :278/:360),
		// verifyTimestamp / verifyAuthenticTimestamp (translated for C06, targets_c06.go; C03 needs only
		// isTSATrustStoreInPolicy and loadX509TSATrustStores of that path),
		// truststore.(*x509TrustStore).GetCertificates (C13, outside the subset).
	})
}
