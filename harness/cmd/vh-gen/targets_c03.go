package main

// C03: GoLite targets (docs/GOLITE_NOTES.md).
func init() {
	Register("C03", []Target{
		{Pkg: "crypto/x509", Type: "Certificate", Opaque: true},
		{Pkg: ".../internal/container", Func: "New"},
		{Pkg: ".../internal/container", Func: "Set.Add"},
		{Pkg: ".../internal/container", Func: "Set.Contains"},
		{Pkg: ".../verifier", Func: "loadX509TrustStoresWithType"},
		{Pkg: ".../verifier", Func: "loadX509TrustStores"},
		{Pkg: ".../verifier", Func: "loadX509TSATrustStores"},
		{Pkg: ".../verifier", Func: "isTSATrustStoreInPolicy"},
	})
}
