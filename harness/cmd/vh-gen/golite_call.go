package main

// GoLite: calls (targets, oracles, builtins, conversions, the GoLib
// whitelist, droppable logging calls), error values, package-level variables.

import (
	"fmt"
	"go/ast"
	"go/constant"
	"go/token"
	"go/types"
	"regexp/syntax"
	"strings"

	. "vh/kit"
)

// calleeName returns pkgpath.Name or (pkgpath.Type).Name of a called function.
func (c *fn) calleeName(call *ast.CallExpr) (string, *types.Func, ast.Expr) {
	fun := unparen(call.Fun)
	if ix, ok := fun.(*ast.IndexExpr); ok {
		fun = unparen(ix.X)
	}
	switch f := fun.(type) {
	case *ast.Ident:
		if fo, ok := c.info.Uses[f].(*types.Func); ok && fo.Pkg() != nil {
			return fo.Pkg().Path() + "." + fo.Name(), fo, nil
		}
	case *ast.SelectorExpr:
		fo, ok := c.info.Uses[f.Sel].(*types.Func)
		if !ok {
			return "", nil, nil
		}
		if sel, ok := c.info.Selections[f]; ok {
			if sel.Kind() != types.MethodVal {
				return "", nil, nil
			}
			rt := resolve(sel.Recv(), c.sub)
			if p, ok := rt.(*types.Pointer); ok {
				rt = resolve(p.Elem(), c.sub)
			}
			return "(" + namedPath(rt) + ")." + fo.Name(), fo, f.X
		}
		if fo.Pkg() != nil {
			return fo.Pkg().Path() + "." + fo.Name(), fo, nil
		}
	}
	return "", nil, nil
}

// droppableCall: logging. A call of a method on a dropped type (log.Logger),
// or a function whose only result has a dropped type (log.GetLogger).
func (c *fn) droppableCall(call *ast.CallExpr) bool {
	if _, fo, _ := c.calleeName(call); fo != nil {
		if t := c.g.byKey[fo.Origin().FullName()]; t != nil && t.Drop {
			return true
		}
	}
	if se, ok := unparen(call.Fun).(*ast.SelectorExpr); ok {
		if sel, ok := c.info.Selections[se]; ok && sel.Kind() == types.MethodVal {
			if c.g.kind(sel.Recv(), c.sub) == kDropped {
				return namedPath(resolve(sel.Recv(), c.sub)) != "context.Context"
			}
		}
	}
	if t := c.tyOf(call); t != nil {
		if _, isTuple := t.(*types.Tuple); !isTuple && c.g.kind(t, c.sub) == kDropped {
			name, _, _ := c.calleeName(call)
			return name == "github.com/notaryproject/notation-go/log.GetLogger"
		}
	}
	return false
}

// dropCall drops a logging call; its arguments must be total (or their
// partiality is kept).
func (c *fn) dropCall(call *ast.CallExpr, k kont) string {
	var keep []cx
	for _, a := range call.Args {
		if r, need := c.argEffect(a); need {
			keep = append(keep, r)
		}
	}
	return c.bindAll(keep, "u", func([]string) string { return k() })
}

// argEffect examines an argument whose value is not modelled (message
// arguments, logging): it returns the translated term when its evaluation can
// panic, and fails when nothing can be said about it.
func (c *fn) argEffect(a ast.Expr) (cx, bool) {
	c.inMsg++
	defer func() { c.inMsg-- }()
	if t := c.tyOf(a); t != nil && c.g.kind(t, c.sub) == kDropped {
		return cx{}, false
	}
	if r, ok := c.tryExpr(a); ok {
		return r, r.isOpt()
	}
	if !c.totalSyntactically(a) {
		c.fail(a, "cannot establish that this (unmodelled) argument evaluates without a panic")
	}
	return cx{}, false
}

func (c *fn) totalSyntactically(e ast.Expr) bool {
	switch x := unparen(e).(type) {
	case *ast.Ident, *ast.BasicLit:
		return true
	case *ast.SelectorExpr:
		if _, ok := c.info.Selections[x]; !ok {
			return true // qualified identifier
		}
		t := c.tyOf(x.X)
		if t == nil {
			return false
		}
		if _, isPtr := resolve(t, c.sub).(*types.Pointer); isPtr && c.g.kind(t, c.sub) != kOpaque {
			if id, ok := unparen(x.X).(*ast.Ident); ok {
				o := c.objOf(id)
				if _, has := c.views[o]; has || c.asValue[o] {
					return true
				}
			}
			return false
		}
		return c.totalSyntactically(x.X)
	case *ast.BinaryExpr:
		switch x.Op {
		case token.ADD, token.SUB, token.MUL, token.EQL, token.NEQ, token.LSS, token.GTR, token.LEQ, token.GEQ:
			return c.totalSyntactically(x.X) && c.totalSyntactically(x.Y)
		}
	case *ast.CallExpr:
		if tv, ok := c.info.Types[x.Fun]; ok && tv.IsType() && len(x.Args) == 1 {
			return c.totalSyntactically(x.Args[0])
		}
	}
	return false
}

// ---------- calls ----------

func (c *fn) call(call *ast.CallExpr) cx {
	// conversion
	if tv, ok := c.info.Types[call.Fun]; ok && tv.IsType() {
		return c.conversion(call, resolve(tv.Type, c.sub))
	}
	// builtin
	if id, ok := unparen(call.Fun).(*ast.Ident); ok {
		if b, ok := c.info.Uses[id].(*types.Builtin); ok {
			return c.builtin(call, b.Name())
		}
	}
	if r, ok := c.tryView(call); ok {
		return r
	}
	name, fo, recv := c.calleeName(call)
	if h, ok := goLibCalls[name]; ok {
		return h(c, call, recv)
	}
	// a value of a one-method interface or of a function type is applied
	if se, ok := unparen(call.Fun).(*ast.SelectorExpr); ok {
		if sel, ok := c.info.Selections[se]; ok && sel.Kind() == types.MethodVal && c.g.kind(sel.Recv(), c.sub) == kNilable && c.g.nilableIsFn(sel.Recv(), c.sub) &&
			!(fo != nil && c.g.byKey[fo.Origin().FullName()] != nil) {
			sig := fo.Type().(*types.Signature)
			return c.apply(call, c.pointee(se.X), sig, call.Args, false)
		}
		if sel, ok := c.info.Selections[se]; ok && sel.Kind() == types.MethodVal && c.g.kind(sel.Recv(), c.sub) == kIfaceFn {
			if fo != nil && c.g.byKey[fo.Origin().FullName()] != nil {
				// declared as an oracle in the table: one function for every value of the interface
			} else {
				sig := fo.Type().(*types.Signature)
				return c.apply(call, c.expr(se.X), sig, call.Args, false)
			}
		}
	}
	if fo == nil {
		if c.kindOf(call.Fun) == kFunc {
			sig := c.typeOf(call.Fun).Underlying().(*types.Signature)
			partial := false
			if id, ok := unparen(call.Fun).(*ast.Ident); ok {
				partial = c.closureVar[c.objOf(id)] && c.closureOpt[c.objOf(id)]
			}
			return c.apply(call, c.expr(call.Fun), sig, call.Args, partial)
		}
		c.fail(call, "call of something that is not a declared function")
	}
	fi, origin, recvE := c.calleeInfo(call)
	if fi == nil {
		label := name
		if origin != nil {
			label = origin.FullName()
		}
		c.fail(call, "call of %s, which is neither a target, nor an oracle, nor in the GoLib whitelist", label)
	}
	args := call.Args
	if recvE != nil {
		args = append([]ast.Expr{recvE}, args...)
	}
	sigC := origin.Type().(*types.Signature)
	var packed []ast.Expr // the arguments collected by a variadic last parameter
	variadicPack := false
	if sigC.Variadic() && !call.Ellipsis.IsValid() {
		nfix := len(fi.params) - 1
		if len(args) < nfix {
			c.fail(call, "call of %s with too few arguments", fi.label)
		}
		packed = args[nfix:]
		args = append(append([]ast.Expr{}, args[:nfix]...), nil)
		variadicPack = true
	} else if call.Ellipsis.IsValid() && !sigC.Variadic() {
		c.fail(call, "call with ... of a function that is not variadic")
	}
	if len(args) != len(fi.params) {
		c.fail(call, "call of %s with %d arguments for %d parameters", fi.label, len(args), len(fi.params))
	}
	var as []cx
	nguard := 0
	if recvE != nil && c.kindOf(recvE) == kNilable && c.g.concreteOf(c.typeOf(recvE), c.sub) != nil {
		c.fail(call, "method call through an interface value that may hold a nil pointer (type row with Concrete): not supported")
	}
	if recvE != nil && c.kindOf(recvE) == kNilable && len(fi.params) > 0 && fi.params[0].dropped {
		// a method of a possibly nil interface value: the call panics on nil
		as = append(as, c.pointee(recvE))
		nguard = 1
	}
	if fi.effect {
		if !c.effect {
			panic(needEffect{})
		}
		if c.noEffect > 0 {
			c.fail(call, "%s acts on the outside world and is called inside a function literal", fi.label)
		}
		as = append(as, cx{s: c.nameOf(c.worldObj)})
	}
	for i, p := range fi.params {
		a := args[i]
		if a == nil && variadicPack {
			if p.dropped {
				continue
			}
			et := elemOf(resolve(p.obj.Type(), nil))
			var es []cx
			for _, x := range packed {
				es = append(es, c.exprAs(x, et))
			}
			as = append(as, c.lift(es, func(v []string) string { return "[" + strings.Join(v, "; ") + "]" }))
			continue
		}
		if fi.oracle && !p.inout && !p.dropped {
			// an oracle must not be handed the address of a local variable it could write
			if u, ok := unparen(a).(*ast.UnaryExpr); ok && u.Op == token.AND {
				if id := c.rootIdent(u.X); id != nil {
					if o := c.objOf(id); o != nil && c.isLocal(o) && c.g.kind(o.Type(), c.sub) != kPtr {
						if _, isLit := unparen(u.X).(*ast.CompositeLit); !isLit {
							c.fail(a, "the oracle %s receives the address of local variable %s and could write it: declare the parameter in OutParams", fi.label, id.Name)
						}
					}
				}
			}
		}
		switch {
		case p.errRecv:
			id, _ := unparen(a).(*ast.Ident)
			var ai *asInfo
			if id != nil {
				ai = c.asTarget[c.objOf(id)]
			}
			if ai == nil {
				c.fail(a, "%s is a method of an error type: its receiver must be the target of an errors.As in this function", fi.label)
			}
			if eid, ok := unparen(ai.errExpr).(*ast.Ident); ok {
				for _, ap := range c.assignPositions()[c.objOf(eid)] {
					if ap > ai.pos && ap < a.Pos() {
						c.fail(a, "%s is assigned between the errors.As and this use of its target", eid.Name)
					}
				}
			}
			found := c.fresh("found")
			c.regLocal(found, "err")
			ev := c.expr(ai.errExpr)
			as = append(as, c.liftO([]cx{ev}, func(v []string) cx {
				return cx{s: found, binds: []bnd{{v: found, term: "(err_find " + CStr(ai.typ) + " " + v[0] + ")"}}}
			}))
		case p.callback:
			// handled by the statement translation (callbackCall)
		case p.dropped && fi.oracle && c.addressOfLocal(a) != "":
			c.fail(a, "the dropped parameter of oracle %s receives the address of local variable %s, which the callee could write: use OutParams instead of DropParams", fi.label, c.addressOfLocal(a))
		case p.dropped && i == 0 && nguard == 1:
			// guarded above
		case p.dropped:
			if r, need := c.argEffect(a); need {
				_ = r
				c.fail(a, "argument for a dropped parameter may panic")
			}
		case p.inout:
			tgt := c.inoutTarget(a)
			if tgt == nil {
				c.fail(a, "%s writes through this argument, which is not a variable this function owns (a local struct / a locally created map or pointer / an own in-out parameter): aliasing is not modelled", fi.label)
			}
			as = append(as, cx{s: c.nameOf(c.objOf(tgt))}) // the variable holds the map / the pointee
		case p.asValue:
			if _, isPtr := c.typeOf(a).(*types.Pointer); isPtr || c.isNilExpr(a) || c.kindOf(a) == kNilable {
				as = append(as, c.pointee(a))
			} else {
				as = append(as, c.expr(a)) // implicit &x of a method call
			}
		default:
			_, argPtr := c.typeOf(a).(*types.Pointer)
			_, parPtr := resolve(p.obj.Type(), nil).(*types.Pointer)
			isRecv := recvE != nil && i == 0
			switch {
			case isRecv && parPtr && !argPtr && c.g.kind(p.obj.Type(), nil) == kPtr:
				as = append(as, c.lift([]cx{c.expr(a)}, func(v []string) string { return "(PNew " + v[0] + ")" }))
			case isRecv && !parPtr && argPtr && c.kindOf(a) == kPtr:
				as = append(as, c.pointee(a)) // implicit *p of a method call
			default:
				as = append(as, c.exprAs(a, c.paramType(fi, p)))
			}
		}
	}
	return c.liftO(as, func(v []string) cx {
		v = v[nguard:]
		if len(v) == 0 {
			return cx{s: fi.name, opt: fi.partial}
		}
		return cx{s: "(" + fi.name + " " + strings.Join(v, " ") + ")", opt: fi.partial}
	})
}

// paramType: the declared type of a callee parameter; type parameters of a
// generic callee stay as they are (exprAs only inspects the kind for nil /
// error conversions, which a type parameter never needs).
func (c *fn) paramType(fi *fnInfo, p paramInfo) types.Type {
	t := p.obj.Type()
	if p.goType != nil {
		t = p.goType
	}
	if _, isTP := types.Unalias(t).(*types.TypeParam); isTP {
		return types.Typ[types.String] // placeholder kind: no implicit conversion applies
	}
	return t
}

// apply applies a function-typed Coq term to Go arguments.
func (c *fn) apply(call *ast.CallExpr, f cx, sig *types.Signature, args []ast.Expr, partial bool) cx {
	if sig.Variadic() || call.Ellipsis.IsValid() {
		c.fail(call, "variadic call through a function value")
	}
	as := []cx{f}
	for i, a := range args {
		pt := sig.Params().At(i).Type()
		if c.g.kind(pt, c.sub) == kDropped {
			continue
		}
		as = append(as, c.exprAs(a, pt))
	}
	if !partial {
		c.g.note(c.fi.label + ": the function / interface value called here is assumed non-nil, pure and total")
	}
	return c.liftO(as, func(v []string) cx {
		if len(v) == 1 {
			return cx{s: "(" + v[0] + " tt)", opt: partial}
		}
		return cx{s: "(" + strings.Join(v, " ") + ")", opt: partial}
	})
}

func (c *fn) conversion(call *ast.CallExpr, to types.Type) cx {
	if len(call.Args) != 1 {
		c.fail(call, "conversion with %d arguments", len(call.Args))
	}
	a := call.Args[0]
	tk := c.g.kind(to, c.sub)
	if c.isNilExpr(a) {
		return c.exprAs(a, to)
	}
	fk := c.kindOf(a)
	switch {
	case tk == kError || tk == kAny || tk == kNilable:
		// a conversion to an interface type is the implicit conversion made explicit
		return c.exprAs(a, to)
	case tk == kString && fk == kString, tk == kInt && fk == kInt, tk == kBool && fk == kBool:
		return c.expr(a)
	case tk == kSlice && fk == kString && isByteSlice(to):
		return c.lift([]cx{c.expr(a)}, func(v []string) string { return "(bytes_of_str " + v[0] + ")" })
	case tk == kString && fk == kSlice && isByteSlice(c.typeOf(a)):
		return c.lift([]cx{c.expr(a)}, func(v []string) string { return "(str_of_bytes " + v[0] + ")" })
	case tk == fk && (tk == kSlice || tk == kMap || tk == kStruct || tk == kPtr) && c.g.typ(to, c.sub) == c.g.typ(c.typeOf(a), c.sub):
		return c.expr(a)
	}
	c.fail(call, "conversion from %s to %s is not supported", types.TypeString(c.typeOf(a), nil), types.TypeString(to, nil))
	return cx{}
}

func (c *fn) builtin(call *ast.CallExpr, name string) cx {
	switch name {
	case "len":
		a := call.Args[0]
		switch c.kindOf(a) {
		case kString:
			return c.lift([]cx{c.expr(a)}, func(v []string) string { return "(str_len " + v[0] + ")" })
		case kSlice:
			return c.lift([]cx{c.expr(a)}, func(v []string) string { return "(list_len " + v[0] + ")" })
		case kMap:
			eqb := c.g.eqbFor(c.typeOf(a).Underlying().(*types.Map).Key(), c.sub)
			return c.lift([]cx{c.expr(a)}, func(v []string) string { return "(map_len " + eqb + " " + v[0] + ")" })
		}
		c.fail(call, "len of a value of type %s", types.TypeString(c.typeOf(a), nil))
	case "make":
		t := c.typeOf(call)
		switch c.g.kind(t, c.sub) {
		case kMap:
			for _, a := range call.Args[1:] {
				if r, need := c.argEffect(a); need {
					_ = r
					c.fail(a, "size argument of make may panic")
				}
			}
			c.g.typ(t, c.sub)
			return cx{s: "[]"}
		case kSlice:
			if len(call.Args) >= 2 {
				if tv, ok := c.info.Types[call.Args[1]]; ok && tv.Value != nil && constant.Sign(tv.Value) == 0 {
					c.g.typ(t, c.sub)
					return cx{s: "[]"}
				}
			}
			c.fail(call, "make of a slice with a non-zero length is not supported")
		}
		c.fail(call, "make of type %s", types.TypeString(t, nil))
	case "new":
		pt := c.typeOf(call).(*types.Pointer)
		return cx{s: "(PNew " + c.g.zero(pt.Elem(), c.sub) + ")"}
	case "append":
		return c.appendCall(call)
	case "min", "max":
		if c.kindOf(call) != kInt {
			c.fail(call, "%s on non-integers", name)
		}
		var as []cx
		for _, a := range call.Args {
			as = append(as, c.expr(a))
		}
		return c.lift(as, func(v []string) string {
			s := v[0]
			for _, x := range v[1:] {
				s = "(Z." + name + " " + s + " " + x + ")"
			}
			return s
		})
	case "panic":
		return cx{s: "None", opt: true}
	}
	c.fail(call, "builtin %s is not supported here", name)
	return cx{}
}

// appendCall: append(x, ...) where x is either freshly created / nil, or a
// local variable the result is assigned back to (x = append(x, ..)). Slices
// are values: the sharing of backing arrays is not modelled, so other uses
// of append are refused.
func (c *fn) appendCall(call *ast.CallExpr) cx {
	first := unparen(call.Args[0])
	okFirst := false
	if c.isNilExpr(first) || c.isCreation(first) {
		okFirst = true
	}
	if cc, ok := first.(*ast.CallExpr); ok {
		if tv, ok := c.info.Types[cc.Fun]; ok && tv.IsType() && len(cc.Args) == 1 && c.isNilExpr(cc.Args[0]) {
			okFirst = true
		}
	}
	if id, ok := first.(*ast.Ident); ok && c.okAppend()[call] == c.objOf(id) && c.objOf(id) != nil {
		okFirst = true
	}
	if _, ok := first.(*ast.SelectorExpr); ok && c.okAppend()[call] != nil {
		okFirst = true
	}
	if !okFirst {
		c.fail(call, "append is only supported as x = append(x, ..) on a local variable or on a fresh / nil first argument (sharing of backing arrays is not modelled)")
	}
	stElem := elemOf(c.typeOf(call))
	base := c.exprAs(call.Args[0], c.typeOf(call))
	if call.Ellipsis.IsValid() {
		if len(call.Args) != 2 {
			c.fail(call, "append with ... and several arguments")
		}
		if c.kindOf(call.Args[1]) != kSlice {
			c.fail(call, "append(x, s...) with s not a slice")
		}
		return c.lift([]cx{base, c.expr(call.Args[1])}, func(v []string) string {
			if v[0] == "[]" {
				return v[1]
			}
			return "(List.app " + v[0] + " " + v[1] + ")"
		})
	}
	as := []cx{base}
	for _, a := range call.Args[1:] {
		as = append(as, c.exprAs(a, stElem))
	}
	return c.lift(as, func(v []string) string {
		return "(List.app " + v[0] + " [" + strings.Join(v[1:], "; ") + "])"
	})
}

var okAppendCache = map[*fn]map[*ast.CallExpr]types.Object{}

// okAppend maps the append calls of the form `x = append(x, ..)` to x.
func (c *fn) okAppend() map[*ast.CallExpr]types.Object {
	if m, ok := okAppendCache[c]; ok {
		return m
	}
	m := map[*ast.CallExpr]types.Object{}
	okAppendCache[c] = m
	if c.decl == nil {
		return m
	}
	ast.Inspect(c.decl.Body, func(n ast.Node) bool {
		as, ok := n.(*ast.AssignStmt)
		if !ok || len(as.Lhs) != len(as.Rhs) {
			return true
		}
		for i := range as.Lhs {
			if _, isSel := unparen(as.Lhs[i]).(*ast.SelectorExpr); isSel {
				// x.f = append(x.f, ..)
				if call, ok := unparen(as.Rhs[i]).(*ast.CallExpr); ok && len(call.Args) > 0 {
					if fid, ok := unparen(call.Fun).(*ast.Ident); ok {
						if b, ok := c.info.Uses[fid].(*types.Builtin); ok && b.Name() == "append" {
							lp, ap := c.pathString(as.Lhs[i]), c.pathString(call.Args[0])
							if lp != "" && lp == ap {
								if id := c.rootIdent(as.Lhs[i]); id != nil && c.isLocal(c.objOf(id)) {
									m[call] = c.objOf(id)
								}
							}
						}
					}
				}
				continue
			}
			lid, ok := unparen(as.Lhs[i]).(*ast.Ident)
			if !ok {
				continue
			}
			call, ok := unparen(as.Rhs[i]).(*ast.CallExpr)
			if !ok || len(call.Args) == 0 {
				continue
			}
			fid, ok := unparen(call.Fun).(*ast.Ident)
			if !ok {
				continue
			}
			if b, ok := c.info.Uses[fid].(*types.Builtin); !ok || b.Name() != "append" {
				continue
			}
			aid, ok := unparen(call.Args[0]).(*ast.Ident)
			if ok && c.objOf(aid) == c.objOf(lid) && c.isLocal(c.objOf(lid)) {
				m[call] = c.objOf(lid)
			}
		}
		return true
	})
	return m
}

// ---------- error values ----------

// msgOf is the Coq string recorded for an error message: a constant, the
// format of a fmt.Sprintf, or the string expression itself.
func (c *fn) msgOf(e ast.Expr) cx {
	c.inMsg++
	defer func() { c.inMsg-- }()
	e = unparen(e)
	if call, ok := e.(*ast.CallExpr); ok {
		if name, _, _ := c.calleeName(call); name == "fmt.Sprintf" && len(call.Args) >= 1 {
			f := c.expr(call.Args[0])
			keep := []cx{f}
			for _, a := range call.Args[1:] {
				if r, need := c.argEffect(a); need {
					keep = append(keep, r)
				}
			}
			return c.lift(keep, func(v []string) string { return v[0] })
		}
	}
	return c.expr(e)
}

func implementsError(t types.Type) bool {
	for _, tt := range []types.Type{t, types.NewPointer(t)} {
		ms := types.NewMethodSet(tt)
		for i := 0; i < ms.Len(); i++ {
			if m := ms.At(i).Obj(); m.Name() == "Error" {
				if sig, ok := m.Type().(*types.Signature); ok && sig.Params().Len() == 0 && sig.Results().Len() == 1 {
					return true
				}
			}
		}
	}
	return false
}

// errorValue: a composite literal (or its address) of a struct type with an
// Error method, used where an error is expected.
func (c *fn) errorValue(e ast.Expr) cx {
	e = unparen(e)
	star := ""
	if u, ok := e.(*ast.UnaryExpr); ok && u.Op == token.AND {
		e = unparen(u.X)
		star = "*"
	}
	tag, ok := c.localErrIdentity(e)
	if _, isLit := e.(*ast.CompositeLit); !ok && !isLit {
		// a value of an error struct type held in a variable / field: its typ is the type, its message the Msg field
		if n, isN := c.typeOf(e).(*types.Named); isN && c.g.kind(n, c.sub) == kStruct && n.Obj().Pkg() != nil && implementsError(n) {
			tag, ok = n.Obj().Pkg().Name()+"."+n.Obj().Name(), true
		}
	}
	if ok {
		// (with Target.LocalErrorIdentity: a local error-struct variable with an identity of its own)
		n, _ := c.typeOf(e).(*types.Named)
		if n == nil || !implementsError(n) || c.g.kind(n, c.sub) != kStruct {
			c.fail(e, "LocalErrorIdentity: %s is not of an error struct type", tag)
		}
		rec := c.g.record(n)
		msg := `""`
		for _, f := range rec.fields {
			if f.goName == "Msg" && c.g.kind(f.typ, nil) == kString {
				msg = "(" + f.name + " " + "%s" + ")"
			}
		}
		uw := c.unwrapField(e, n)
		return c.lift([]cx{c.expr(e)}, func(v []string) string {
			m := strings.Replace(msg, "%s", v[0], 1)
			w := "[]"
			if uw != "" {
				w = "(olist (" + rec.field(c.g, uw).name + " " + v[0] + "))"
			}
			return "(Some (Err " + CStr(star+tag) + " " + m + " " + w + "))"
		})
	}
	lit, ok := e.(*ast.CompositeLit)
	if !ok {
		c.fail(e, "a value of a concrete type is converted to error; only composite literals of error struct types are supported")
	}
	t := c.typeOf(lit)
	n, ok := t.(*types.Named)
	if !ok || !implementsError(n) {
		c.fail(e, "composite literal of type %s does not implement error", types.TypeString(t, nil))
	}
	st, ok := n.Underlying().(*types.Struct)
	if !ok {
		c.fail(e, "error type %s is not a struct", n.Obj().Name())
	}
	typName := star + n.Obj().Pkg().Name() + "." + n.Obj().Name()
	unwrapField := c.unwrapField(e, n)
	msg := cx{s: `""`}
	var wrapped []cx
	var keep []cx
	for i, el := range lit.Elts {
		fname := ""
		var ve ast.Expr
		if kv, ok := el.(*ast.KeyValueExpr); ok {
			fname = kv.Key.(*ast.Ident).Name
			ve = kv.Value
		} else {
			fname = st.Field(i).Name()
			ve = el
		}
		var ft types.Type
		for j := 0; j < st.NumFields(); j++ {
			if st.Field(j).Name() == fname {
				ft = st.Field(j).Type()
			}
		}
		switch {
		case fname == "Msg" && c.g.kind(ft, c.sub) == kString:
			msg = c.msgOf(ve)
		case ft != nil && c.g.kind(ft, c.sub) == kError && fname == unwrapField:
			wrapped = append(wrapped, c.exprAs(ve, ft))
		default:
			if r, need := c.argEffect(ve); need {
				keep = append(keep, r)
			}
		}
	}
	all := append(append([]cx{msg}, wrapped...), keep...)
	return c.lift(all, func(v []string) string {
		w := "[]"
		if len(wrapped) > 0 {
			var ws []string
			for _, x := range v[1 : 1+len(wrapped)] {
				ws = append(ws, "olist "+x)
			}
			w = "(" + strings.Join(ws, " ++ ") + ")"
		}
		return "(Some (Err " + CStr(typName) + " " + v[0] + " " + w + "))"
	})
}

// verbs lists the verbs of a format string in argument order ("" when the
// format uses explicit indexes or * widths).
func formatVerbs(f string) ([]byte, bool) {
	var out []byte
	for i := 0; i < len(f); i++ {
		if f[i] != '%' {
			continue
		}
		i++
		for i < len(f) && strings.IndexByte("+-# 0123456789.", f[i]) >= 0 {
			i++
		}
		if i >= len(f) {
			break
		}
		switch f[i] {
		case '%':
			continue
		case '*', '[':
			return nil, false
		}
		out = append(out, f[i])
	}
	return out, true
}

func libErrorf(c *fn, call *ast.CallExpr, _ ast.Expr) cx {
	if len(call.Args) == 0 || call.Ellipsis.IsValid() {
		c.fail(call, "fmt.Errorf call shape")
	}
	f := c.expr(call.Args[0])
	var wrapped, keep []cx
	tv, isConst := c.info.Types[call.Args[0]]
	if isConst && tv.Value != nil && tv.Value.Kind() == constant.String {
		verbs, ok := formatVerbs(constant.StringVal(tv.Value))
		if !ok {
			c.fail(call, "format string with explicit argument indexes or * is not supported")
		}
		for i, a := range call.Args[1:] {
			if i < len(verbs) && verbs[i] == 'w' {
				wrapped = append(wrapped, c.exprAs(a, types.Universe.Lookup("error").Type()))
				continue
			}
			if r, need := c.argEffect(a); need {
				keep = append(keep, r)
			}
		}
	} else {
		for _, a := range call.Args[1:] {
			if c.kindOf(a) == kError {
				c.fail(call, "fmt.Errorf with a non-constant format and an error argument (cannot tell whether it is wrapped)")
			}
			if r, need := c.argEffect(a); need {
				keep = append(keep, r)
			}
		}
	}
	all := append(append([]cx{f}, wrapped...), keep...)
	return c.lift(all, func(v []string) string {
		w := "[]"
		if len(wrapped) > 0 {
			var ws []string
			for _, x := range v[1 : 1+len(wrapped)] {
				ws = append(ws, "olist "+x)
			}
			w = "(" + strings.Join(ws, " ++ ") + ")"
		}
		return "(Some (Err \"fmt\" " + v[0] + " " + w + "))"
	})
}

// ---------- the GoLib whitelist ----------

type libHandler func(c *fn, call *ast.CallExpr, recv ast.Expr) cx

var goLibCalls map[string]libHandler

// str2 builds a handler for f(s, x) -> (coq x s)
func str2(coq string) libHandler {
	return func(c *fn, call *ast.CallExpr, _ ast.Expr) cx {
		return c.lift([]cx{c.expr(call.Args[0]), c.expr(call.Args[1])}, func(v []string) string {
			return "(" + coq + " " + v[1] + " " + v[0] + ")"
		})
	}
}

func constString(c *fn, e ast.Expr) (string, bool) {
	tv, ok := c.info.Types[e]
	if !ok || tv.Value == nil || tv.Value.Kind() != constant.String {
		return "", false
	}
	return constant.StringVal(tv.Value), true
}

func init() {
	goLibCalls = map[string]libHandler{
		"strings.Cut":        str2("str_cut"),
		"strings.HasPrefix":  str2("str_has_prefix"),
		"strings.HasSuffix":  str2("str_has_suffix"),
		"strings.Contains":   str2("str_contains"),
		"strings.Index":      str2("str_index"),
		"strings.LastIndex":  str2("str_last_index"),
		"strings.TrimPrefix": str2("str_trim_prefix"),
		"strings.TrimSuffix": str2("str_trim_suffix"),
		"strings.CutPrefix":  str2("str_cut_prefix"),
		"strings.CutSuffix":  str2("str_cut_suffix"),
		"strings.TrimSpace": func(c *fn, call *ast.CallExpr, _ ast.Expr) cx {
			return c.lift([]cx{c.expr(call.Args[0])}, func(v []string) string { return "(str_trim_space " + v[0] + ")" })
		},
		"strings.ContainsAny": func(c *fn, call *ast.CallExpr, _ ast.Expr) cx {
			chars, ok := constString(c, call.Args[1])
			if !ok {
				c.fail(call, "strings.ContainsAny with a non-constant chars argument")
			}
			for i := 0; i < len(chars); i++ {
				if chars[i] >= 0x80 {
					c.fail(call, "strings.ContainsAny with non-ASCII chars")
				}
			}
			return c.lift([]cx{c.expr(call.Args[0])}, func(v []string) string { return "(str_contains_any " + CStr(chars) + " " + v[0] + ")" })
		},
		"strings.Split": func(c *fn, call *ast.CallExpr, _ ast.Expr) cx {
			sep, ok := constString(c, call.Args[1])
			if !ok || sep == "" {
				c.fail(call, "strings.Split needs a constant non-empty separator")
			}
			return c.lift([]cx{c.expr(call.Args[0])}, func(v []string) string { return "(str_split " + CStr(sep) + " " + v[0] + ")" })
		},
		"strings.Join": func(c *fn, call *ast.CallExpr, _ ast.Expr) cx {
			return c.lift([]cx{c.expr(call.Args[0]), c.expr(call.Args[1])}, func(v []string) string { return "(str_join " + v[0] + " " + v[1] + ")" })
		},
		"path/filepath.Ext": func(c *fn, call *ast.CallExpr, _ ast.Expr) cx {
			c.g.note("path/filepath.Ext is the Unix version (separator /)")
			return c.lift([]cx{c.expr(call.Args[0])}, func(v []string) string { return "(filepath_ext " + v[0] + ")" })
		},
		"path/filepath.Base": func(c *fn, call *ast.CallExpr, _ ast.Expr) cx {
			c.g.note("path/filepath.Base is the Unix version (separator /)")
			return c.lift([]cx{c.expr(call.Args[0])}, func(v []string) string { return "(filepath_base " + v[0] + ")" })
		},
		"(error).Error": func(c *fn, call *ast.CallExpr, recv ast.Expr) cx {
			if c.inMsg == 0 {
				c.fail(call, "err.Error() is only supported where its result becomes (part of) an error message or a log argument: message texts are not modelled")
			}
			// the text is not modelled (it is recorded as the verb %v); a nil receiver panics
			if id, ok := unparen(recv).(*ast.Ident); ok && c.nonNilErr[c.objOf(id)] {
				return cx{s: `"%v"`}
			}
			return c.liftO([]cx{c.expr(recv)}, func(v []string) cx {
				return cx{s: "(match " + v[0] + " with Some _ => Some \"%v\" | None => None end)", opt: true}
			})
		},
		"errors.New": func(c *fn, call *ast.CallExpr, _ ast.Expr) cx {
			return c.lift([]cx{c.msgOf(call.Args[0])}, func(v []string) string { return "(Some (Err \"errors\" " + v[0] + " []))" })
		},
		"fmt.Errorf": libErrorf,
		"fmt.Sprintf": func(c *fn, call *ast.CallExpr, _ ast.Expr) cx {
			if c.inMsg > 0 {
				return c.msgOf(call) // message text: the format stands for it
			}
			c.fail(call, "fmt.Sprintf is only supported where its result becomes an error message")
			return cx{}
		},
		"regexp.MustCompile": func(c *fn, call *ast.CallExpr, _ ast.Expr) cx {
			src, ok := constString(c, call.Args[0])
			if !ok {
				c.fail(call, "regexp.MustCompile with a non-constant pattern")
			}
			re, err := syntax.Parse(src, syntax.Perl)
			if err != nil {
				c.fail(call, "regexp.MustCompile would panic: %v", err)
			}
			simp := re.Simplify()
			if !goAnchored(simp) {
				c.fail(call, "regular expression is not of the anchored form ^...$ (only whole-string matching is modelled)")
			}
			t, err := reToCoq(simp)
			if err != nil {
				c.fail(call, "%v", err)
			}
			return cx{s: t + "%N"}
		},
		"(regexp.Regexp).MatchString": func(c *fn, call *ast.CallExpr, recv ast.Expr) cx {
			return c.lift([]cx{c.expr(recv), c.expr(call.Args[0])}, func(v []string) string { return "(re_match " + v[0] + " " + v[1] + ")" })
		},
		"(time.Time).IsZero": func(c *fn, call *ast.CallExpr, recv ast.Expr) cx {
			return c.lift([]cx{c.expr(recv)}, func(v []string) string { return "(time_is_zero " + v[0] + ")" })
		},
		"(time.Time).After":  timeCmp("time_after"),
		"(time.Time).Before": timeCmp("time_before"),
		"(time.Time).Equal":  timeCmp("time_equal"),
	}
}

func timeCmp(coq string) libHandler {
	return func(c *fn, call *ast.CallExpr, recv ast.Expr) cx {
		c.g.note("time.Time values are their Unix time in nanoseconds (monotonic readings and locations are not modelled)")
		return c.lift([]cx{c.expr(recv), c.expr(call.Args[0])}, func(v []string) string { return "(" + coq + " " + v[0] + " " + v[1] + ")" })
	}
}

// goAnchored mirrors Regex.anchored: Concat [BeginText; ...; EndText] with no other anchor.
func goAnchored(re *syntax.Regexp) bool {
	if re.Op != syntax.OpConcat || len(re.Sub) < 2 {
		return false
	}
	if re.Sub[0].Op != syntax.OpBeginText || re.Sub[len(re.Sub)-1].Op != syntax.OpEndText {
		return false
	}
	var noAnchor func(r *syntax.Regexp) bool
	noAnchor = func(r *syntax.Regexp) bool {
		switch r.Op {
		case syntax.OpBeginText, syntax.OpEndText, syntax.OpBeginLine, syntax.OpEndLine, syntax.OpWordBoundary, syntax.OpNoWordBoundary:
			return false
		}
		for _, s := range r.Sub {
			if !noAnchor(s) {
				return false
			}
		}
		return true
	}
	for _, s := range re.Sub[1 : len(re.Sub)-1] {
		if !noAnchor(s) {
			return false
		}
	}
	return true
}

// ---------- package-level variables ----------

type globInfo struct {
	name     string
	pointee  string // Coq name of the pointee when the initialiser is &T{..}
	sentinel bool   // an error variable whose value has the variable's name as typ
}

var globInfos = map[*gen]map[string]*globInfo{}

func (g *gen) global(v *types.Var, from *fn) *globInfo {
	path := v.Pkg().Path()
	key := "var:" + path + "." + v.Name()
	infos := globInfos[g]
	if infos == nil {
		infos = map[string]*globInfo{}
		globInfos[g] = infos
	}
	if it, ok := g.byItem[key]; ok {
		g.use(it)
		return infos[key]
	}
	label := v.Pkg().Name() + "." + v.Name()
	it := g.begin("var", key, label)
	gi := &globInfo{}
	infos[key] = gi
	g.protect(it, func() {
		g.L.scan(path)
		vd := g.L.vars[path+"."+v.Name()]
		if vd == nil {
			if msg, ok := g.L.knownSentinels[path+"."+v.Name()]; ok {
				// the selftest corpus: a sentinel of a package loaded without its sources
				gi.name = g.claim(key, pkgBase(path)+"_"+v.Name())
				it.name = gi.name
				gi.sentinel = true
				it.text = fmt.Sprintf("(* var %s (sentinel of a package loaded without sources) *)\nDefinition %s : (option err) :=\n  (Some (Err %s %s [])).", cmt(label), gi.name, CStr(label), CStr(msg))
				return
			}
			g.fail("package-level variable %s: declaration not found in the loaded sources", label)
		}
		if g.L.mutated[path+"."+v.Name()] {
			g.fail("package-level variable %s is assigned or has its address taken in its package (%s)", label, g.L.pos(vd.spec.Pos(), vd.pkg))
		}
		if len(vd.spec.Values) != len(vd.spec.Names) {
			g.fail("package-level variable %s has no initialiser of its own (%s)", label, g.L.pos(vd.spec.Pos(), vd.pkg))
		}
		init := unparen(vd.spec.Values[vd.index])
		ipkg := vd.pkg
		// `var X = f()` where f is `func f() T { return Y }` with Y a package-level variable: X is Y
		for hop := 0; hop < 4; hop++ {
			call, ok := init.(*ast.CallExpr)
			if !ok || len(call.Args) != 0 {
				break
			}
			var fo *types.Func
			switch f := unparen(call.Fun).(type) {
			case *ast.Ident:
				fo, _ = ipkg.TypesInfo.Uses[f].(*types.Func)
			case *ast.SelectorExpr:
				fo, _ = ipkg.TypesInfo.Uses[f.Sel].(*types.Func)
			}
			if fo == nil || fo.Pkg() == nil {
				break
			}
			g.L.scan(fo.Pkg().Path())
			fd := g.L.funcs[fo.FullName()]
			if fd == nil || fd.decl.Body == nil || len(fd.decl.Body.List) != 1 {
				break
			}
			ret, ok := fd.decl.Body.List[0].(*ast.ReturnStmt)
			if !ok || len(ret.Results) != 1 {
				break
			}
			switch unparen(ret.Results[0]).(type) {
			case *ast.Ident, *ast.SelectorExpr:
				init, ipkg = unparen(ret.Results[0]), fd.pkg
				continue
			}
			break
		}
		c := &fn{g: g, pkg: ipkg, info: ipkg.TypesInfo, opts: &Target{}, fi: &fnInfo{label: label},
			names: map[types.Object]string{}, used: map[string]bool{}, views: map[types.Object]string{},
			asValue: map[types.Object]bool{}, mutable: map[types.Object]bool{}, freshFields: map[types.Object]map[string]bool{}, isInout: map[types.Object]bool{}}
		gi.name = g.claim(key, pkgBase(path)+"_"+v.Name())
		it.name = gi.name
		ty := g.typ(v.Type(), nil)
		where := g.L.pos(vd.spec.Pos(), vd.pkg)
		if u, ok := init.(*ast.UnaryExpr); ok && u.Op == token.AND {
			if lit, ok := unparen(u.X).(*ast.CompositeLit); ok && g.kind(v.Type(), nil) == kPtr {
				val := c.expr(lit)
				if val.isOpt() {
					g.fail("initialiser of %s may panic", label)
				}
				gi.pointee = g.claim(key+"#v", gi.name+"_v")
				et := g.typ(v.Type().(*types.Pointer).Elem(), nil)
				it.text = fmt.Sprintf("(* var %s  [%s] *)\nDefinition %s : %s :=\n  %s.\nDefinition %s : %s := PGlob %s %s.",
					cmt(label), where, gi.pointee, et, val.s, gi.name, ty, CStr(label), gi.pointee)
				return
			}
		}
		val := c.exprAs(init, v.Type())
		if val.isOpt() {
			g.fail("initialiser of %s may panic", label)
		}
		if g.kind(v.Type(), nil) == kError {
			// a sentinel: its identity is its name
			for _, pre := range []string{`(Some (Err "errors" `, `(Some (Err "fmt" `} {
				if strings.HasPrefix(val.s, pre) {
					val.s = "(Some (Err " + CStr(label) + " " + val.s[len(pre):]
					gi.sentinel = true
				}
			}
			if id := c.globalIdent(init); id != nil {
				if other := g.global(id, from); other.sentinel {
					gi.sentinel = true
				}
			}
		}
		it.text = fmt.Sprintf("(* var %s  [%s] *)\nDefinition %s : %s :=\n  %s.", cmt(label), where, gi.name, ty, val.s)
	})
	g.use(it)
	return gi
}

func (g *gen) globalVar(v *types.Var, from *fn) string { return g.global(v, from).name }

func (g *gen) globalPointee(v *types.Var, from *fn) string {
	if v.Pkg() == nil || v.Parent() != v.Pkg().Scope() {
		return ""
	}
	if g.kind(v.Type(), nil) != kPtr {
		return ""
	}
	return g.global(v, from).pointee
}

// globalIdent: e names a package-level variable.
func (c *fn) globalIdent(e ast.Expr) *types.Var {
	var v *types.Var
	switch x := unparen(e).(type) {
	case *ast.Ident:
		v, _ = c.objOf(x).(*types.Var)
	case *ast.SelectorExpr:
		if id, ok := x.X.(*ast.Ident); ok {
			if _, isPkg := c.info.Uses[id].(*types.PkgName); isPkg {
				v, _ = c.info.Uses[x.Sel].(*types.Var)
			}
		}
	}
	if v == nil || v.Pkg() == nil || v.Parent() != v.Pkg().Scope() {
		return nil
	}
	return v
}

// sentinel: e names a package-level error variable created by errors.New / fmt.Errorf.
func (c *fn) sentinel(e ast.Expr) (string, bool) {
	v := c.globalIdent(e)
	if v == nil || c.g.kind(v.Type(), nil) != kError {
		return "", false
	}
	gi := c.g.global(v, c)
	return gi.name, gi.sentinel
}

// asTargetType: the dynamic type errors.As(err, target) looks for.
func (c *fn) asTargetType(target ast.Expr) string {
	t := c.typeOf(target)
	p, ok := t.(*types.Pointer)
	if !ok {
		c.fail(target, "errors.As target is not a pointer")
	}
	et := resolve(p.Elem(), c.sub)
	star := ""
	if pp, ok := et.(*types.Pointer); ok {
		star = "*"
		et = resolve(pp.Elem(), c.sub)
	}
	n, ok := et.(*types.Named)
	if !ok || !implementsError(n) {
		c.fail(target, "errors.As target type %s is not an error struct type", types.TypeString(et, nil))
	}
	return star + n.Obj().Pkg().Name() + "." + n.Obj().Name()
}

func init() {
	goLibCalls["reflect.DeepEqual"] = deepEqualCall
	goLibCalls["errors.Is"] = func(c *fn, call *ast.CallExpr, _ ast.Expr) cx {
		name, ok := c.sentinel(call.Args[1])
		if !ok {
			if _, isLocal := c.localErrIdentity(call.Args[1]); isLocal {
				tgt := c.exprAs(call.Args[1], types.Universe.Lookup("error").Type())
				return c.lift([]cx{c.expr(call.Args[0]), tgt}, func(v []string) string { return "(err_is " + v[0] + " " + v[1] + ")" })
			}
			c.fail(call, "errors.Is is only supported with a package-level sentinel (var ErrX = errors.New(..)) or a local declared in LocalErrorIdentity as target")
		}
		c.g.note("errors.Is / errors.As follow Unwrap chains only (custom Is / As methods are not modelled)")
		return c.lift([]cx{c.expr(call.Args[0])}, func(v []string) string { return "(err_is " + v[0] + " " + name + ")" })
	}
	goLibCalls["errors.As"] = func(c *fn, call *ast.CallExpr, _ ast.Expr) cx {
		target := unparen(call.Args[1])
		u, ok := target.(*ast.UnaryExpr)
		if !ok || u.Op != token.AND {
			c.fail(call, "errors.As target must be &T{..} or &v")
		}
		switch x := unparen(u.X).(type) {
		case *ast.CompositeLit:
		case *ast.Ident:
			// the variable must not be read afterwards: its fields are not filled in
			o := c.objOf(x)
			uses := 0
			if c.decl != nil {
				ast.Inspect(c.decl.Body, func(n ast.Node) bool {
					if id, ok := n.(*ast.Ident); ok && c.info.Uses[id] == o {
						uses++
					}
					return true
				})
			}
			if uses > 1 {
				// allowed when every other use is the receiver of a method that is an oracle over the found error
				c.asTargetUses(call, x, o)
			}
		default:
			c.fail(call, "errors.As target must be &T{..} or &v")
		}
		ty := c.asTargetType(target)
		c.g.note("errors.Is / errors.As follow Unwrap chains only (custom Is / As methods are not modelled)")
		return c.lift([]cx{c.expr(call.Args[0])}, func(v []string) string { return "(err_as " + CStr(ty) + " " + v[0] + ")" })
	}
	goLibCalls["errors.Join"] = func(c *fn, call *ast.CallExpr, _ ast.Expr) cx {
		if call.Ellipsis.IsValid() {
			if len(call.Args) != 1 {
				c.fail(call, "errors.Join call shape")
			}
			return c.lift([]cx{c.expr(call.Args[0])}, func(v []string) string { return "(err_join " + v[0] + ")" })
		}
		var as []cx
		for _, a := range call.Args {
			as = append(as, c.exprAs(a, types.Universe.Lookup("error").Type()))
		}
		return c.lift(as, func(v []string) string { return "(err_join [" + strings.Join(v, "; ") + "])" })
	}
}

// unwrapField: the field an error struct's Unwrap method returns ("" when the
// type has no Unwrap method: errors.Is / As then do not look inside it).
func (c *fn) unwrapField(at ast.Node, n *types.Named) string {
	var m *types.Func
	for _, tt := range []types.Type{n, types.NewPointer(n)} {
		ms := types.NewMethodSet(tt)
		for i := 0; i < ms.Len(); i++ {
			if f, ok := ms.At(i).Obj().(*types.Func); ok && f.Name() == "Unwrap" {
				m = f
			}
		}
	}
	if m == nil {
		return ""
	}
	c.g.L.scan(m.Pkg().Path())
	fd := c.g.L.funcs[m.Origin().FullName()]
	bad := func() string {
		c.fail(at, "error type %s has an Unwrap method that is not of the form `return e.Field`", n.Obj().Name())
		return ""
	}
	if fd == nil || fd.decl.Body == nil || len(fd.decl.Body.List) != 1 || fd.decl.Recv == nil || len(fd.decl.Recv.List) != 1 || len(fd.decl.Recv.List[0].Names) != 1 {
		return bad()
	}
	ret, ok := fd.decl.Body.List[0].(*ast.ReturnStmt)
	if !ok || len(ret.Results) != 1 {
		return bad()
	}
	se, ok := unparen(ret.Results[0]).(*ast.SelectorExpr)
	if !ok {
		return bad()
	}
	id, ok := unparen(se.X).(*ast.Ident)
	if !ok || id.Name != fd.decl.Recv.List[0].Names[0].Name {
		return bad()
	}
	return se.Sel.Name
}

// addressOfLocal: e is &x (or &x.f..) with x a local variable that is not a
// pointer: storage of this function the callee could write. Returns x's name.
func (c *fn) addressOfLocal(e ast.Expr) string {
	u, ok := unparen(e).(*ast.UnaryExpr)
	if !ok || u.Op != token.AND {
		return ""
	}
	if _, isLit := unparen(u.X).(*ast.CompositeLit); isLit {
		return ""
	}
	id := c.rootIdent(u.X)
	if id == nil {
		return ""
	}
	o := c.objOf(id)
	if o == nil || !c.isLocal(o) || c.g.kind(o.Type(), c.sub) == kPtr {
		return ""
	}
	return id.Name
}

// inoutTarget: the variable of this function an in/out argument stands for:
// `&x` with x a local struct variable, or a variable holding a map / pointer
// this function owns (created here, or an in/out parameter of its own).
func (c *fn) inoutTarget(a ast.Expr) *ast.Ident {
	a = unparen(a)
	if u, ok := a.(*ast.UnaryExpr); ok && u.Op == token.AND {
		id, ok := unparen(u.X).(*ast.Ident)
		if !ok {
			return nil
		}
		o := c.objOf(id)
		if o == nil || !c.isLocal(o) {
			return nil
		}
		switch c.g.kind(o.Type(), c.sub) {
		case kPtr, kMap:
			return nil
		}
		return id
	}
	id, ok := a.(*ast.Ident)
	if !ok {
		return nil
	}
	o := c.objOf(id)
	if o == nil || !c.mutable[o] {
		return nil
	}
	if c.g.kind(o.Type(), c.sub) == kPtr && !c.asValue[o] {
		return nil
	}
	return id
}

// pathString prints an identifier / field path (x.f.g) canonically ("" otherwise).
func (c *fn) pathString(e ast.Expr) string {
	switch x := unparen(e).(type) {
	case *ast.Ident:
		if o := c.objOf(x); o != nil {
			return fmt.Sprintf("%s@%d", x.Name, o.Pos())
		}
	case *ast.SelectorExpr:
		if _, ok := c.info.Selections[x]; ok {
			if p := c.pathString(x.X); p != "" {
				return p + "." + x.Sel.Name
			}
		}
	}
	return ""
}

func isByteSlice(t types.Type) bool {
	e := elemOf(t)
	if e == nil {
		return false
	}
	b, ok := e.Underlying().(*types.Basic)
	return ok && (b.Kind() == types.Uint8)
}

// localErrIdentity: e is a local variable listed in Target.LocalErrorIdentity;
// returns the typ that identifies its value ("<pkg>.<Type>#<var>").
func (c *fn) localErrIdentity(e ast.Expr) (string, bool) {
	e = unparen(e)
	if ce, ok := e.(*ast.CallExpr); ok && len(ce.Args) == 1 {
		// the conversion error(x)
		if tv, ok := c.pkg.TypesInfo.Types[ce.Fun]; ok && tv.IsType() && types.Identical(tv.Type, types.Universe.Lookup("error").Type()) {
			e = unparen(ce.Args[0])
		}
	}
	id, ok := e.(*ast.Ident)
	if !ok || c.opts == nil {
		return "", false
	}
	listed := false
	for _, n := range c.opts.LocalErrorIdentity {
		if n == id.Name {
			listed = true
		}
	}
	o := c.objOf(id)
	if !listed || o == nil || !c.isLocal(o) {
		return "", false
	}
	if len(c.assignPositions()[o]) > 0 {
		c.fail(e, "LocalErrorIdentity: %s is assigned again after its declaration", id.Name)
	}
	t := resolve(o.Type(), c.sub)
	name := "error"
	if n, ok := t.(*types.Named); ok && n.Obj().Pkg() != nil {
		name = n.Obj().Pkg().Name() + "." + n.Obj().Name()
	}
	c.assumes = append(c.assumes, fmt.Sprintf("no other error that Go's == finds equal to the value of %s (same type, identical message text) reaches a comparison with it (%s)",
		id.Name, c.g.L.pos(o.Pos(), c.pkg)))
	c.g.note(c.fi.label + ": the error held by local " + id.Name + " has an identity of its own (option LocalErrorIdentity): comparisons with it assume that no other equal error exists")
	return name + "#" + id.Name, true
}

// ---------- reflect.DeepEqual ----------

// deepEqualCall: reflect.DeepEqual(x, G) with G a package-level variable that is never assigned and
// whose initialiser gives every map / slice inside it a non-empty literal: then the comparison never
// depends on the difference between nil and empty, which the translation does not keep.
func deepEqualCall(c *fn, call *ast.CallExpr, _ ast.Expr) cx {
	if len(call.Args) != 2 {
		c.fail(call, "reflect.DeepEqual with %d arguments", len(call.Args))
	}
	a, b := call.Args[0], call.Args[1]
	gv, x, gx := c.globalIdent(b), a, b
	if gv == nil {
		gv, x, gx = c.globalIdent(a), b, a
	}
	if gv == nil {
		c.fail(call, "reflect.DeepEqual is only supported against a package-level variable (whose maps and slices are non-empty literals)")
	}
	if !types.Identical(c.typeOf(x), resolve(gv.Type(), nil)) {
		c.fail(call, "reflect.DeepEqual of values of different static types (%s, %s)", types.TypeString(c.typeOf(x), nil), types.TypeString(gv.Type(), nil))
	}
	path := gv.Pkg().Path()
	c.g.L.scan(path)
	vd := c.g.L.vars[path+"."+gv.Name()]
	if vd == nil || len(vd.spec.Values) != len(vd.spec.Names) {
		c.fail(call, "reflect.DeepEqual: the initialiser of %s is not available", gv.Name())
	}
	if c.g.L.mutated[path+"."+gv.Name()] {
		c.fail(call, "reflect.DeepEqual: %s is assigned somewhere in its package", gv.Name())
	}
	if why := deepSafeInit(vd.pkg.TypesInfo, unparen(vd.spec.Values[vd.index])); why != "" {
		c.fail(call, "reflect.DeepEqual against %s: %s (nil and empty maps / slices are one value in the translation)", gv.Name(), why)
	}
	eq := c.g.deepEqb(c.typeOf(x), c.sub, map[string]bool{})
	c.g.note("reflect.DeepEqual(x, " + gv.Pkg().Name() + "." + gv.Name() + ") compares field by field; it is exact because every map and slice inside " + gv.Name() + " is a non-empty literal")
	return c.lift([]cx{c.expr(x), c.expr(gx)}, func(v []string) string { return "(" + eq + " " + v[0] + " " + v[1] + ")" })
}

// deepSafeInit: "" when the expression is built from composite literals in which every map / slice is a
// non-empty literal and every field of map / slice / pointer / struct type is given explicitly.
func deepSafeInit(info *types.Info, e ast.Expr) string {
	e = unparen(e)
	if u, ok := e.(*ast.UnaryExpr); ok && u.Op == token.AND {
		e = unparen(u.X)
	}
	lit, ok := e.(*ast.CompositeLit)
	if !ok {
		if tv, ok := info.Types[e]; ok && tv.Value != nil {
			return "" // a constant
		}
		if t := info.TypeOf(e); t != nil {
			switch t.Underlying().(type) {
			case *types.Basic:
				return ""
			}
		}
		return "a part of its initialiser is not a composite literal"
	}
	t := info.TypeOf(lit)
	if t == nil {
		return "untyped literal"
	}
	switch u := t.Underlying().(type) {
	case *types.Struct:
		given := map[string]bool{}
		for i, el := range lit.Elts {
			name := ""
			val := el
			if kv, ok := el.(*ast.KeyValueExpr); ok {
				name = kv.Key.(*ast.Ident).Name
				val = kv.Value
			} else if i < u.NumFields() {
				name = u.Field(i).Name()
			}
			given[name] = true
			if why := deepSafeInit(info, val); why != "" {
				return why
			}
		}
		for i := 0; i < u.NumFields(); i++ {
			f := u.Field(i)
			if given[f.Name()] {
				continue
			}
			switch f.Type().Underlying().(type) {
			case *types.Basic:
			default:
				return "field " + f.Name() + " is left at its zero value"
			}
		}
		return ""
	case *types.Map, *types.Slice, *types.Array:
		if len(lit.Elts) == 0 {
			return "it contains an empty map / slice literal"
		}
		for _, el := range lit.Elts {
			if kv, ok := el.(*ast.KeyValueExpr); ok {
				if _, isLit := unparen(kv.Key).(*ast.CompositeLit); isLit {
					if why := deepSafeInit(info, kv.Key); why != "" {
						return why
					}
				}
				el = kv.Value
			}
			if why := deepSafeInit(info, el); why != "" {
				return why
			}
		}
		return ""
	}
	return "unsupported literal type"
}

// deepEqb: the Coq function comparing two values of type t field by field.
func (g *gen) deepEqb(t types.Type, sub tsubst, busy map[string]bool) string {
	t = resolve(t, sub)
	switch g.kind(t, sub) {
	case kString:
		return "String.eqb"
	case kInt:
		return "Z.eqb"
	case kBool:
		return "Bool.eqb"
	case kPtr:
		return "(ptr_deep_eqb " + g.deepEqb(t.(*types.Pointer).Elem(), sub, busy) + ")"
	case kSlice:
		return "(list_deep_eqb " + g.deepEqb(elemOf(t), sub, busy) + ")"
	case kMap:
		m := t.Underlying().(*types.Map)
		return "(map_deep_eqb " + g.eqbFor(m.Key(), sub) + " " + g.deepEqb(m.Elem(), sub, busy) + ")"
	case kStruct:
		n := t.(*types.Named)
		key := namedPath(n)
		if busy[key] {
			g.fail("reflect.DeepEqual on the recursive type %s", key)
		}
		busy[key] = true
		defer delete(busy, key)
		rec := g.record(n)
		if len(rec.omitted) > 0 {
			g.fail("reflect.DeepEqual on %s, which has fields outside the subset", key)
		}
		var parts []string
		for _, f := range rec.fields {
			if f.nilable {
				g.fail("reflect.DeepEqual on %s, which has a nilable field", key)
			}
			parts = append(parts, "("+g.deepEqb(f.typ, sub, busy)+" ("+f.name+" a) ("+f.name+" b))")
		}
		if len(parts) == 0 {
			ty := g.typ(t, sub)
			return "(fun (_ : " + ty + ") (_ : " + ty + ") => true)"
		}
		ty := g.typ(t, sub)
		return "(fun (a : " + ty + ") (b : " + ty + ") => " + strings.Join(parts, " && ") + ")"
	}
	g.fail("reflect.DeepEqual on a value of type %s", types.TypeString(t, nil))
	return ""
}


// asTargetUses: the errors.As target v is used elsewhere; every such use must be the receiver of a call
// of an oracle method of the error type (the oracle then gets the error errors.As found).
func (c *fn) asTargetUses(asCall *ast.CallExpr, v *ast.Ident, o types.Object) {
	errExpr := unparen(asCall.Args[0])
	if _, ok := errExpr.(*ast.Ident); !ok {
		c.fail(asCall, "the errors.As target %s is used afterwards and the error is not a plain variable", v.Name)
	}
	ok := true
	var stack []ast.Node
	ast.Inspect(c.decl.Body, func(n ast.Node) bool {
		if n == nil {
			stack = stack[:len(stack)-1]
			return true
		}
		stack = append(stack, n)
		id, isId := n.(*ast.Ident)
		if !isId || c.info.Uses[id] != o || id == v {
			return true
		}
		// v.M(..): Ident <- SelectorExpr <- CallExpr
		good := false
		if len(stack) >= 3 {
			if se, isSel := stack[len(stack)-2].(*ast.SelectorExpr); isSel && se.X == ast.Expr(id) {
				if call, isCall := stack[len(stack)-3].(*ast.CallExpr); isCall && call.Fun == ast.Expr(se) && id.Pos() > asCall.Pos() {
					if fi, _, _ := c.calleeInfoSafe(call); fi != nil && fi.oracle && len(fi.params) > 0 && fi.params[0].errRecv {
						good = true
					}
				}
			}
		}
		if !good {
			ok = false
		}
		return true
	})
	if !ok {
		c.fail(asCall, "the errors.As target %s is used afterwards (only calls of its methods declared as oracles are supported: the found error is not copied into it)", v.Name)
	}
	if c.asTarget == nil {
		c.asTarget = map[types.Object]*asInfo{}
	}
	c.asTarget[o] = &asInfo{errExpr: errExpr, typ: c.asTargetType(asCall.Args[1]), pos: asCall.Pos()}
}
