package main

// GoLite: calls (targets, oracles, builtins, conversions, the GoLib
// whitelist, droppable logging calls), error values, package-level variables.

import (
	"fmt"
	"go/ast"
	"go/constant"
	"go/token"
	"go/types"
	"regexp/syntax"
	"strings"

	. "vh/kit"
)

// calleeName returns pkgpath.Name or (pkgpath.Type).Name of a called function.
func (c *fn) calleeName(call *ast.CallExpr) (string, *types.Func, ast.Expr) {
	fun := unparen(call.Fun)
	if ix, ok := fun.(*ast.IndexExpr); ok {
		fun = unparen(ix.X)
	}
	switch f := fun.(type) {
	case *ast.Ident:
		if fo, ok := c.info.Uses[f].(*types.Func); ok && fo.Pkg() != nil {
			return fo.Pkg().Path() + "." + fo.Name(), fo, nil
		}
	case *ast.SelectorExpr:
		fo, ok := c.info.Uses[f.Sel].(*types.Func)
		if !ok {
			return "", nil, nil
		}
		if sel, ok := c.info.Selections[f]; ok {
			if sel.Kind() != types.MethodVal {
				return "", nil, nil
			}
			rt := resolve(sel.Recv(), c.sub)
			if p, ok := rt.(*types.Pointer); ok {
				rt = resolve(p.Elem(), c.sub)
			}
			return "(" + namedPath(rt) + ")." + fo.Name(), fo, f.X
		}
		if fo.Pkg() != nil {
			return fo.Pkg().Path() + "." + fo.Name(), fo, nil
		}
	}
	return "", nil, nil
}

// droppableCall: logging. A call of a method on a dropped type (log.Logger),
// or a function whose only result has a dropped type (log.GetLogger).
func (c *fn) droppableCall(call *ast.CallExpr) bool {
	if se, ok := unparen(call.Fun).(*ast.SelectorExpr); ok {
		if sel, ok := c.info.Selections[se]; ok && sel.Kind() == types.MethodVal {
			if c.g.kind(sel.Recv(), c.sub) == kDropped {
				return namedPath(resolve(sel.Recv(), c.sub)) != "context.Context"
			}
		}
	}
	if t := c.info.TypeOf(call); t != nil {
		if _, isTuple := t.(*types.Tuple); !isTuple && c.g.kind(t, c.sub) == kDropped {
			name, _, _ := c.calleeName(call)
			return name == "github.com/notaryproject/notation-go/log.GetLogger"
		}
	}
	return false
}

// dropCall drops a logging call; its arguments must be total (or their
// partiality is kept).
func (c *fn) dropCall(call *ast.CallExpr, k kont) string {
	var keep []cx
	for _, a := range call.Args {
		if r, need := c.argEffect(a); need {
			keep = append(keep, r)
		}
	}
	return c.bindAll(keep, "u", func([]string) string { return k() })
}

// argEffect examines an argument whose value is not modelled (message
// arguments, logging): it returns the translated term when its evaluation can
// panic, and fails when nothing can be said about it.
func (c *fn) argEffect(a ast.Expr) (cx, bool) {
	if t := c.info.TypeOf(a); t != nil && c.g.kind(t, c.sub) == kDropped {
		return cx{}, false
	}
	if r, ok := c.tryExpr(a); ok {
		return r, r.isOpt()
	}
	if !c.totalSyntactically(a) {
		c.fail(a, "cannot establish that this (unmodelled) argument evaluates without a panic")
	}
	return cx{}, false
}

func (c *fn) totalSyntactically(e ast.Expr) bool {
	switch x := unparen(e).(type) {
	case *ast.Ident, *ast.BasicLit:
		return true
	case *ast.SelectorExpr:
		if _, ok := c.info.Selections[x]; !ok {
			return true // qualified identifier
		}
		t := c.info.TypeOf(x.X)
		if t == nil {
			return false
		}
		if _, isPtr := resolve(t, c.sub).(*types.Pointer); isPtr && c.g.kind(t, c.sub) != kOpaque {
			if id, ok := unparen(x.X).(*ast.Ident); ok {
				o := c.objOf(id)
				if _, has := c.views[o]; has || c.asValue[o] {
					return true
				}
			}
			return false
		}
		return c.totalSyntactically(x.X)
	case *ast.BinaryExpr:
		switch x.Op {
		case token.ADD, token.SUB, token.MUL, token.EQL, token.NEQ, token.LSS, token.GTR, token.LEQ, token.GEQ:
			return c.totalSyntactically(x.X) && c.totalSyntactically(x.Y)
		}
	case *ast.CallExpr:
		if tv, ok := c.info.Types[x.Fun]; ok && tv.IsType() && len(x.Args) == 1 {
			return c.totalSyntactically(x.Args[0])
		}
	}
	return false
}

// ---------- calls ----------

func (c *fn) call(call *ast.CallExpr) cx {
	// conversion
	if tv, ok := c.info.Types[call.Fun]; ok && tv.IsType() {
		return c.conversion(call, resolve(tv.Type, c.sub))
	}
	// builtin
	if id, ok := unparen(call.Fun).(*ast.Ident); ok {
		if b, ok := c.info.Uses[id].(*types.Builtin); ok {
			return c.builtin(call, b.Name())
		}
	}
	if r, ok := c.tryView(call); ok {
		return r
	}
	name, fo, recv := c.calleeName(call)
	if h, ok := goLibCalls[name]; ok {
		return h(c, call, recv)
	}
	// a value of a one-method interface or of a function type is applied
	if se, ok := unparen(call.Fun).(*ast.SelectorExpr); ok {
		if sel, ok := c.info.Selections[se]; ok && sel.Kind() == types.MethodVal && c.g.kind(sel.Recv(), c.sub) == kIfaceFn {
			if fo != nil && c.g.byKey[fo.Origin().FullName()] != nil {
				// declared as an oracle in the table: one function for every value of the interface
			} else {
				sig := fo.Type().(*types.Signature)
				return c.apply(call, c.expr(se.X), sig, call.Args, false)
			}
		}
	}
	if fo == nil {
		if c.kindOf(call.Fun) == kFunc {
			sig := c.typeOf(call.Fun).Underlying().(*types.Signature)
			return c.apply(call, c.expr(call.Fun), sig, call.Args, false)
		}
		c.fail(call, "call of something that is not a declared function")
	}
	fi, origin, recvE := c.calleeInfo(call)
	if fi == nil {
		label := name
		if origin != nil {
			label = origin.FullName()
		}
		c.fail(call, "call of %s, which is neither a target, nor an oracle, nor in the GoLib whitelist", label)
	}
	args := call.Args
	if recvE != nil {
		args = append([]ast.Expr{recvE}, args...)
	}
	if call.Ellipsis.IsValid() {
		c.fail(call, "call with ... is not supported")
	}
	if len(args) != len(fi.params) {
		c.fail(call, "call of %s with %d arguments for %d parameters", fi.label, len(args), len(fi.params))
	}
	var as []cx
	for i, p := range fi.params {
		a := args[i]
		switch {
		case p.dropped:
			if r, need := c.argEffect(a); need {
				_ = r
				c.fail(a, "argument for a dropped parameter may panic")
			}
		case p.inout:
			id, ok := unparen(a).(*ast.Ident)
			if !ok || !c.mutable[c.objOf(id)] {
				c.fail(a, "%s mutates this map argument, which was not created in the calling function (aliasing is not modelled)", fi.label)
			}
			as = append(as, cx{s: c.nameOf(c.objOf(id))})
		case p.asValue:
			if _, isPtr := c.typeOf(a).(*types.Pointer); isPtr || c.isNilExpr(a) {
				as = append(as, c.pointee(a))
			} else {
				as = append(as, c.expr(a)) // implicit &x of a method call
			}
		default:
			_, argPtr := c.typeOf(a).(*types.Pointer)
			_, parPtr := resolve(p.obj.Type(), nil).(*types.Pointer)
			isRecv := recvE != nil && i == 0
			switch {
			case isRecv && parPtr && !argPtr && c.g.kind(p.obj.Type(), nil) == kPtr:
				as = append(as, c.lift([]cx{c.expr(a)}, func(v []string) string { return "(PNew " + v[0] + ")" }))
			case isRecv && !parPtr && argPtr && c.kindOf(a) == kPtr:
				as = append(as, c.pointee(a)) // implicit *p of a method call
			default:
				as = append(as, c.exprAs(a, c.paramType(fi, p)))
			}
		}
	}
	return c.liftO(as, func(v []string) cx {
		if len(v) == 0 {
			if fi.oracle && len(fi.params) > 0 {
				return cx{s: fi.name, opt: fi.partial}
			}
			return cx{s: fi.name, opt: fi.partial}
		}
		return cx{s: "(" + fi.name + " " + strings.Join(v, " ") + ")", opt: fi.partial}
	})
}

// paramType: the declared type of a callee parameter; type parameters of a
// generic callee stay as they are (exprAs only inspects the kind for nil /
// error conversions, which a type parameter never needs).
func (c *fn) paramType(fi *fnInfo, p paramInfo) types.Type {
	t := p.obj.Type()
	if _, isTP := types.Unalias(t).(*types.TypeParam); isTP {
		return types.Typ[types.String] // placeholder kind: no implicit conversion applies
	}
	return t
}

// apply applies a function-typed Coq term to Go arguments.
func (c *fn) apply(call *ast.CallExpr, f cx, sig *types.Signature, args []ast.Expr, partial bool) cx {
	if sig.Variadic() || call.Ellipsis.IsValid() {
		c.fail(call, "variadic call through a function value")
	}
	as := []cx{f}
	for i, a := range args {
		pt := sig.Params().At(i).Type()
		if c.g.kind(pt, c.sub) == kDropped {
			continue
		}
		as = append(as, c.exprAs(a, pt))
	}
	c.g.note(c.fi.label + ": the function / interface value called here is assumed non-nil, pure and total")
	return c.lift(as, func(v []string) string {
		if len(v) == 1 {
			return "(" + v[0] + " tt)"
		}
		return "(" + strings.Join(v, " ") + ")"
	})
}

func (c *fn) conversion(call *ast.CallExpr, to types.Type) cx {
	if len(call.Args) != 1 {
		c.fail(call, "conversion with %d arguments", len(call.Args))
	}
	a := call.Args[0]
	tk := c.g.kind(to, c.sub)
	if c.isNilExpr(a) {
		return c.exprAs(a, to)
	}
	fk := c.kindOf(a)
	switch {
	case tk == kString && fk == kString, tk == kInt && fk == kInt, tk == kBool && fk == kBool:
		return c.expr(a)
	case tk == fk && (tk == kSlice || tk == kMap || tk == kStruct || tk == kPtr) && c.g.typ(to, c.sub) == c.g.typ(c.typeOf(a), c.sub):
		return c.expr(a)
	}
	c.fail(call, "conversion from %s to %s is not supported", types.TypeString(c.typeOf(a), nil), types.TypeString(to, nil))
	return cx{}
}

func (c *fn) builtin(call *ast.CallExpr, name string) cx {
	switch name {
	case "len":
		a := call.Args[0]
		switch c.kindOf(a) {
		case kString:
			return c.lift([]cx{c.expr(a)}, func(v []string) string { return "(str_len " + v[0] + ")" })
		case kSlice:
			return c.lift([]cx{c.expr(a)}, func(v []string) string { return "(list_len " + v[0] + ")" })
		case kMap:
			eqb := c.g.eqbFor(c.typeOf(a).Underlying().(*types.Map).Key(), c.sub)
			return c.lift([]cx{c.expr(a)}, func(v []string) string { return "(map_len " + eqb + " " + v[0] + ")" })
		}
		c.fail(call, "len of a value of type %s", types.TypeString(c.typeOf(a), nil))
	case "make":
		t := c.typeOf(call)
		switch c.g.kind(t, c.sub) {
		case kMap:
			for _, a := range call.Args[1:] {
				if r, need := c.argEffect(a); need {
					_ = r
					c.fail(a, "size argument of make may panic")
				}
			}
			c.g.typ(t, c.sub)
			return cx{s: "[]"}
		case kSlice:
			if len(call.Args) >= 2 {
				if tv, ok := c.info.Types[call.Args[1]]; ok && tv.Value != nil && constant.Sign(tv.Value) == 0 {
					c.g.typ(t, c.sub)
					return cx{s: "[]"}
				}
			}
			c.fail(call, "make of a slice with a non-zero length is not supported")
		}
		c.fail(call, "make of type %s", types.TypeString(t, nil))
	case "new":
		pt := c.typeOf(call).(*types.Pointer)
		return cx{s: "(PNew " + c.g.zero(pt.Elem(), c.sub) + ")"}
	case "append":
		return c.appendCall(call)
	case "min", "max":
		if c.kindOf(call) != kInt {
			c.fail(call, "%s on non-integers", name)
		}
		var as []cx
		for _, a := range call.Args {
			as = append(as, c.expr(a))
		}
		return c.lift(as, func(v []string) string {
			s := v[0]
			for _, x := range v[1:] {
				s = "(Z." + name + " " + s + " " + x + ")"
			}
			return s
		})
	case "panic":
		return cx{s: "None", opt: true}
	}
	c.fail(call, "builtin %s is not supported here", name)
	return cx{}
}

// appendCall: append(x, ...) where x is either freshly created / nil, or a
// local variable the result is assigned back to (x = append(x, ..)). Slices
// are values: the sharing of backing arrays is not modelled, so other uses
// of append are refused.
func (c *fn) appendCall(call *ast.CallExpr) cx {
	first := unparen(call.Args[0])
	okFirst := false
	if c.isNilExpr(first) || c.isCreation(first) {
		okFirst = true
	}
	if cc, ok := first.(*ast.CallExpr); ok {
		if tv, ok := c.info.Types[cc.Fun]; ok && tv.IsType() && len(cc.Args) == 1 && c.isNilExpr(cc.Args[0]) {
			okFirst = true
		}
	}
	if id, ok := first.(*ast.Ident); ok && c.okAppend()[call] == c.objOf(id) && c.objOf(id) != nil {
		okFirst = true
	}
	if !okFirst {
		c.fail(call, "append is only supported as x = append(x, ..) on a local variable or on a fresh / nil first argument (sharing of backing arrays is not modelled)")
	}
	st := c.typeOf(call).Underlying().(*types.Slice)
	base := c.exprAs(call.Args[0], c.typeOf(call))
	if call.Ellipsis.IsValid() {
		if len(call.Args) != 2 {
			c.fail(call, "append with ... and several arguments")
		}
		if c.kindOf(call.Args[1]) != kSlice {
			c.fail(call, "append(x, s...) with s not a slice")
		}
		return c.lift([]cx{base, c.expr(call.Args[1])}, func(v []string) string {
			if v[0] == "[]" {
				return v[1]
			}
			return "(List.app " + v[0] + " " + v[1] + ")"
		})
	}
	as := []cx{base}
	for _, a := range call.Args[1:] {
		as = append(as, c.exprAs(a, st.Elem()))
	}
	return c.lift(as, func(v []string) string {
		return "(List.app " + v[0] + " [" + strings.Join(v[1:], "; ") + "])"
	})
}

var okAppendCache = map[*fn]map[*ast.CallExpr]types.Object{}

// okAppend maps the append calls of the form `x = append(x, ..)` to x.
func (c *fn) okAppend() map[*ast.CallExpr]types.Object {
	if m, ok := okAppendCache[c]; ok {
		return m
	}
	m := map[*ast.CallExpr]types.Object{}
	okAppendCache[c] = m
	if c.decl == nil {
		return m
	}
	ast.Inspect(c.decl.Body, func(n ast.Node) bool {
		as, ok := n.(*ast.AssignStmt)
		if !ok || len(as.Lhs) != len(as.Rhs) {
			return true
		}
		for i := range as.Lhs {
			lid, ok := unparen(as.Lhs[i]).(*ast.Ident)
			if !ok {
				continue
			}
			call, ok := unparen(as.Rhs[i]).(*ast.CallExpr)
			if !ok || len(call.Args) == 0 {
				continue
			}
			fid, ok := unparen(call.Fun).(*ast.Ident)
			if !ok {
				continue
			}
			if b, ok := c.info.Uses[fid].(*types.Builtin); !ok || b.Name() != "append" {
				continue
			}
			aid, ok := unparen(call.Args[0]).(*ast.Ident)
			if ok && c.objOf(aid) == c.objOf(lid) && c.isLocal(c.objOf(lid)) {
				m[call] = c.objOf(lid)
			}
		}
		return true
	})
	return m
}

// ---------- error values ----------

// msgOf is the Coq string recorded for an error message: a constant, the
// format of a fmt.Sprintf, or the string expression itself.
func (c *fn) msgOf(e ast.Expr) cx {
	e = unparen(e)
	if call, ok := e.(*ast.CallExpr); ok {
		if name, _, _ := c.calleeName(call); name == "fmt.Sprintf" && len(call.Args) >= 1 {
			f := c.expr(call.Args[0])
			keep := []cx{f}
			for _, a := range call.Args[1:] {
				if r, need := c.argEffect(a); need {
					keep = append(keep, r)
				}
			}
			return c.lift(keep, func(v []string) string { return v[0] })
		}
	}
	return c.expr(e)
}

func implementsError(t types.Type) bool {
	for _, tt := range []types.Type{t, types.NewPointer(t)} {
		ms := types.NewMethodSet(tt)
		for i := 0; i < ms.Len(); i++ {
			if m := ms.At(i).Obj(); m.Name() == "Error" {
				if sig, ok := m.Type().(*types.Signature); ok && sig.Params().Len() == 0 && sig.Results().Len() == 1 {
					return true
				}
			}
		}
	}
	return false
}

// errorValue: a composite literal (or its address) of a struct type with an
// Error method, used where an error is expected.
func (c *fn) errorValue(e ast.Expr) cx {
	e = unparen(e)
	if u, ok := e.(*ast.UnaryExpr); ok && u.Op == token.AND {
		e = unparen(u.X)
	}
	lit, ok := e.(*ast.CompositeLit)
	if !ok {
		c.fail(e, "a value of a concrete type is converted to error; only composite literals of error struct types are supported")
	}
	t := c.typeOf(lit)
	n, ok := t.(*types.Named)
	if !ok || !implementsError(n) {
		c.fail(e, "composite literal of type %s does not implement error", types.TypeString(t, nil))
	}
	st, ok := n.Underlying().(*types.Struct)
	if !ok {
		c.fail(e, "error type %s is not a struct", n.Obj().Name())
	}
	typName := n.Obj().Pkg().Name() + "." + n.Obj().Name()
	msg := cx{s: `""`}
	var wrapped []cx
	var keep []cx
	for i, el := range lit.Elts {
		fname := ""
		var ve ast.Expr
		if kv, ok := el.(*ast.KeyValueExpr); ok {
			fname = kv.Key.(*ast.Ident).Name
			ve = kv.Value
		} else {
			fname = st.Field(i).Name()
			ve = el
		}
		var ft types.Type
		for j := 0; j < st.NumFields(); j++ {
			if st.Field(j).Name() == fname {
				ft = st.Field(j).Type()
			}
		}
		switch {
		case fname == "Msg" && c.g.kind(ft, c.sub) == kString:
			msg = c.msgOf(ve)
		case ft != nil && c.g.kind(ft, c.sub) == kError:
			wrapped = append(wrapped, c.exprAs(ve, ft))
		default:
			if r, need := c.argEffect(ve); need {
				keep = append(keep, r)
			}
		}
	}
	all := append(append([]cx{msg}, wrapped...), keep...)
	return c.lift(all, func(v []string) string {
		w := "[]"
		if len(wrapped) > 0 {
			var ws []string
			for _, x := range v[1 : 1+len(wrapped)] {
				ws = append(ws, "olist "+x)
			}
			w = "(" + strings.Join(ws, " ++ ") + ")"
		}
		return "(Some (Err " + CStr(typName) + " " + v[0] + " " + w + "))"
	})
}

// verbs lists the verbs of a format string in argument order ("" when the
// format uses explicit indexes or * widths).
func formatVerbs(f string) ([]byte, bool) {
	var out []byte
	for i := 0; i < len(f); i++ {
		if f[i] != '%' {
			continue
		}
		i++
		for i < len(f) && strings.IndexByte("+-# 0123456789.", f[i]) >= 0 {
			i++
		}
		if i >= len(f) {
			break
		}
		switch f[i] {
		case '%':
			continue
		case '*', '[':
			return nil, false
		}
		out = append(out, f[i])
	}
	return out, true
}

func libErrorf(c *fn, call *ast.CallExpr, _ ast.Expr) cx {
	if len(call.Args) == 0 || call.Ellipsis.IsValid() {
		c.fail(call, "fmt.Errorf call shape")
	}
	f := c.expr(call.Args[0])
	var wrapped, keep []cx
	tv, isConst := c.info.Types[call.Args[0]]
	if isConst && tv.Value != nil && tv.Value.Kind() == constant.String {
		verbs, ok := formatVerbs(constant.StringVal(tv.Value))
		if !ok {
			c.fail(call, "format string with explicit argument indexes or * is not supported")
		}
		for i, a := range call.Args[1:] {
			if i < len(verbs) && verbs[i] == 'w' {
				if c.kindOf(a) != kError {
					c.fail(a, "%%w argument is not of type error")
				}
				wrapped = append(wrapped, c.expr(a))
				continue
			}
			if r, need := c.argEffect(a); need {
				keep = append(keep, r)
			}
		}
	} else {
		for _, a := range call.Args[1:] {
			if c.kindOf(a) == kError {
				c.fail(call, "fmt.Errorf with a non-constant format and an error argument (cannot tell whether it is wrapped)")
			}
			if r, need := c.argEffect(a); need {
				keep = append(keep, r)
			}
		}
	}
	all := append(append([]cx{f}, wrapped...), keep...)
	return c.lift(all, func(v []string) string {
		w := "[]"
		if len(wrapped) > 0 {
			var ws []string
			for _, x := range v[1 : 1+len(wrapped)] {
				ws = append(ws, "olist "+x)
			}
			w = "(" + strings.Join(ws, " ++ ") + ")"
		}
		return "(Some (Err \"fmt\" " + v[0] + " " + w + "))"
	})
}

// ---------- the GoLib whitelist ----------

type libHandler func(c *fn, call *ast.CallExpr, recv ast.Expr) cx

var goLibCalls map[string]libHandler

// str2 builds a handler for f(s, x) -> (coq x s)
func str2(coq string) libHandler {
	return func(c *fn, call *ast.CallExpr, _ ast.Expr) cx {
		return c.lift([]cx{c.expr(call.Args[0]), c.expr(call.Args[1])}, func(v []string) string {
			return "(" + coq + " " + v[1] + " " + v[0] + ")"
		})
	}
}

func constString(c *fn, e ast.Expr) (string, bool) {
	tv, ok := c.info.Types[e]
	if !ok || tv.Value == nil || tv.Value.Kind() != constant.String {
		return "", false
	}
	return constant.StringVal(tv.Value), true
}

func init() {
	goLibCalls = map[string]libHandler{
		"strings.Cut":        str2("str_cut"),
		"strings.HasPrefix":  str2("str_has_prefix"),
		"strings.HasSuffix":  str2("str_has_suffix"),
		"strings.Contains":   str2("str_contains"),
		"strings.Index":      str2("str_index"),
		"strings.LastIndex":  str2("str_last_index"),
		"strings.TrimPrefix": str2("str_trim_prefix"),
		"strings.TrimSuffix": str2("str_trim_suffix"),
		"strings.CutPrefix":  str2("str_cut_prefix"),
		"strings.CutSuffix":  str2("str_cut_suffix"),
		"strings.TrimSpace": func(c *fn, call *ast.CallExpr, _ ast.Expr) cx {
			return c.lift([]cx{c.expr(call.Args[0])}, func(v []string) string { return "(str_trim_space " + v[0] + ")" })
		},
		"strings.ContainsAny": func(c *fn, call *ast.CallExpr, _ ast.Expr) cx {
			chars, ok := constString(c, call.Args[1])
			if !ok {
				c.fail(call, "strings.ContainsAny with a non-constant chars argument")
			}
			for i := 0; i < len(chars); i++ {
				if chars[i] >= 0x80 {
					c.fail(call, "strings.ContainsAny with non-ASCII chars")
				}
			}
			return c.lift([]cx{c.expr(call.Args[0])}, func(v []string) string { return "(str_contains_any " + CStr(chars) + " " + v[0] + ")" })
		},
		"strings.Split": func(c *fn, call *ast.CallExpr, _ ast.Expr) cx {
			sep, ok := constString(c, call.Args[1])
			if !ok || sep == "" {
				c.fail(call, "strings.Split needs a constant non-empty separator")
			}
			return c.lift([]cx{c.expr(call.Args[0])}, func(v []string) string { return "(str_split " + CStr(sep) + " " + v[0] + ")" })
		},
		"strings.Join": func(c *fn, call *ast.CallExpr, _ ast.Expr) cx {
			return c.lift([]cx{c.expr(call.Args[0]), c.expr(call.Args[1])}, func(v []string) string { return "(str_join " + v[0] + " " + v[1] + ")" })
		},
		"path/filepath.Ext": func(c *fn, call *ast.CallExpr, _ ast.Expr) cx {
			c.g.note("path/filepath.Ext is the Unix version (separator /)")
			return c.lift([]cx{c.expr(call.Args[0])}, func(v []string) string { return "(filepath_ext " + v[0] + ")" })
		},
		"errors.New": func(c *fn, call *ast.CallExpr, _ ast.Expr) cx {
			return c.lift([]cx{c.msgOf(call.Args[0])}, func(v []string) string { return "(Some (Err \"errors\" " + v[0] + " []))" })
		},
		"fmt.Errorf": libErrorf,
		"fmt.Sprintf": func(c *fn, call *ast.CallExpr, _ ast.Expr) cx {
			c.fail(call, "fmt.Sprintf is only supported where its result becomes an error message")
			return cx{}
		},
		"regexp.MustCompile": func(c *fn, call *ast.CallExpr, _ ast.Expr) cx {
			src, ok := constString(c, call.Args[0])
			if !ok {
				c.fail(call, "regexp.MustCompile with a non-constant pattern")
			}
			re, err := syntax.Parse(src, syntax.Perl)
			if err != nil {
				c.fail(call, "regexp.MustCompile would panic: %v", err)
			}
			simp := re.Simplify()
			if !goAnchored(simp) {
				c.fail(call, "regular expression is not of the anchored form ^...$ (only whole-string matching is modelled)")
			}
			t, err := reToCoq(simp)
			if err != nil {
				c.fail(call, "%v", err)
			}
			return cx{s: t + "%N"}
		},
		"(regexp.Regexp).MatchString": func(c *fn, call *ast.CallExpr, recv ast.Expr) cx {
			return c.lift([]cx{c.expr(recv), c.expr(call.Args[0])}, func(v []string) string { return "(re_match " + v[0] + " " + v[1] + ")" })
		},
		"(time.Time).IsZero": func(c *fn, call *ast.CallExpr, recv ast.Expr) cx {
			return c.lift([]cx{c.expr(recv)}, func(v []string) string { return "(time_is_zero " + v[0] + ")" })
		},
		"(time.Time).After":  timeCmp("time_after"),
		"(time.Time).Before": timeCmp("time_before"),
		"(time.Time).Equal":  timeCmp("time_equal"),
	}
}

func timeCmp(coq string) libHandler {
	return func(c *fn, call *ast.CallExpr, recv ast.Expr) cx {
		c.g.note("time.Time values are their Unix time in nanoseconds (monotonic readings and locations are not modelled)")
		return c.lift([]cx{c.expr(recv), c.expr(call.Args[0])}, func(v []string) string { return "(" + coq + " " + v[0] + " " + v[1] + ")" })
	}
}

// goAnchored mirrors Regex.anchored: Concat [BeginText; ...; EndText] with no other anchor.
func goAnchored(re *syntax.Regexp) bool {
	if re.Op != syntax.OpConcat || len(re.Sub) < 2 {
		return false
	}
	if re.Sub[0].Op != syntax.OpBeginText || re.Sub[len(re.Sub)-1].Op != syntax.OpEndText {
		return false
	}
	var noAnchor func(r *syntax.Regexp) bool
	noAnchor = func(r *syntax.Regexp) bool {
		switch r.Op {
		case syntax.OpBeginText, syntax.OpEndText, syntax.OpBeginLine, syntax.OpEndLine, syntax.OpWordBoundary, syntax.OpNoWordBoundary:
			return false
		}
		for _, s := range r.Sub {
			if !noAnchor(s) {
				return false
			}
		}
		return true
	}
	for _, s := range re.Sub[1 : len(re.Sub)-1] {
		if !noAnchor(s) {
			return false
		}
	}
	return true
}

// ---------- package-level variables ----------

type globInfo struct {
	name    string
	pointee string // Coq name of the pointee when the initialiser is &T{..}
}

var globInfos = map[*gen]map[string]*globInfo{}

func (g *gen) global(v *types.Var, from *fn) *globInfo {
	path := v.Pkg().Path()
	key := "var:" + path + "." + v.Name()
	infos := globInfos[g]
	if infos == nil {
		infos = map[string]*globInfo{}
		globInfos[g] = infos
	}
	if it, ok := g.byItem[key]; ok {
		g.use(it)
		return infos[key]
	}
	label := v.Pkg().Name() + "." + v.Name()
	it := g.begin("var", key, label)
	gi := &globInfo{}
	infos[key] = gi
	g.protect(it, func() {
		g.L.scan(path)
		vd := g.L.vars[path+"."+v.Name()]
		if vd == nil {
			g.fail("package-level variable %s: declaration not found in the loaded sources", label)
		}
		if g.L.mutated[path+"."+v.Name()] {
			g.fail("package-level variable %s is assigned or has its address taken in its package (%s)", label, g.L.pos(vd.spec.Pos(), vd.pkg))
		}
		if len(vd.spec.Values) != len(vd.spec.Names) {
			g.fail("package-level variable %s has no initialiser of its own (%s)", label, g.L.pos(vd.spec.Pos(), vd.pkg))
		}
		init := unparen(vd.spec.Values[vd.index])
		c := &fn{g: g, pkg: vd.pkg, info: vd.pkg.TypesInfo, opts: &Target{}, fi: &fnInfo{label: label},
			names: map[types.Object]string{}, used: map[string]bool{}, views: map[types.Object]string{},
			asValue: map[types.Object]bool{}, mutable: map[types.Object]bool{}, freshFields: map[types.Object]map[string]bool{}, isInout: map[types.Object]bool{}}
		gi.name = g.claim(key, pkgBase(path)+"_"+v.Name())
		it.name = gi.name
		ty := g.typ(v.Type(), nil)
		where := g.L.pos(vd.spec.Pos(), vd.pkg)
		if u, ok := init.(*ast.UnaryExpr); ok && u.Op == token.AND {
			if lit, ok := unparen(u.X).(*ast.CompositeLit); ok && g.kind(v.Type(), nil) == kPtr {
				val := c.expr(lit)
				if val.isOpt() {
					g.fail("initialiser of %s may panic", label)
				}
				gi.pointee = g.claim(key+"#v", gi.name+"_v")
				et := g.typ(v.Type().(*types.Pointer).Elem(), nil)
				it.text = fmt.Sprintf("(* var %s  [%s] *)\nDefinition %s : %s :=\n  %s.\nDefinition %s : %s := PGlob %s %s.",
					cmt(label), where, gi.pointee, et, val.s, gi.name, ty, CStr(label), gi.pointee)
				return
			}
		}
		val := c.exprAs(init, v.Type())
		if val.isOpt() {
			g.fail("initialiser of %s may panic", label)
		}
		it.text = fmt.Sprintf("(* var %s  [%s] *)\nDefinition %s : %s :=\n  %s.", cmt(label), where, gi.name, ty, val.s)
	})
	g.use(it)
	return gi
}

func (g *gen) globalVar(v *types.Var, from *fn) string { return g.global(v, from).name }

func (g *gen) globalPointee(v *types.Var, from *fn) string {
	if v.Pkg() == nil || v.Parent() != v.Pkg().Scope() {
		return ""
	}
	if g.kind(v.Type(), nil) != kPtr {
		return ""
	}
	return g.global(v, from).pointee
}
