// Package synth is the regression corpus of the GoLite translator: small
// functions, each exercising one point of Go semantics the translation must
// preserve (evaluation order, short-circuit, shadowing, range copying its
// element, switch without fallthrough, break/continue targets, map and struct
// value semantics, panics). `vh-gen --selftest` translates this file (its
// source is embedded in the binary), runs every function of Funcs on generated
// inputs by reflection and lets Coq evaluate the translations on the same
// inputs (cases_gen_T00.v). Functions named Refused* must be refused.
package synth

import (
	"errors"
	"fmt"
	"regexp"
	"strings"
)

type Rec struct {
	Name string
	N    int
	Tags []string
	M    map[string]string
}

var table = []string{"alpha", "beta", "gamma"}

var defaultRec = &Rec{Name: "default", N: 7}

const limit = 3

// Shadow: an inner declaration does not touch the outer variable.
func Shadow(a string, b bool) string {
	x := a
	if b {
		x := "inner" + x
		if len(x) > 7 {
			return x
		}
	}
	return x + "!"
}

// ShortAnd: the right operand is only evaluated (and may only panic) when the left holds.
func ShortAnd(xs []string, i int) bool {
	return i >= 0 && i < len(xs) && xs[i] == "a"
}

func ShortOr(xs []string, i int) bool {
	return i < 0 || i >= len(xs) || xs[i] == ""
}

// UnguardedIndex panics out of range.
func UnguardedIndex(xs []string, i int) string {
	return xs[i] + "."
}

// RangeCopy: the loop variable is a copy.
func RangeCopy(xs []string) (string, int) {
	acc := ""
	for _, x := range xs {
		x = x + "!"
		acc += x
	}
	return acc, len(xs)
}

// RangeIndex: index and value, continue and break.
func RangeIndex(xs []string) string {
	out := ""
	for i, x := range xs {
		if x == "" {
			continue
		}
		if x == "stop" {
			break
		}
		if i > 0 {
			out += ","
		}
		out += x
	}
	return out
}

// NestedBreak: break leaves the inner loop only.
func NestedBreak(xs []string, ys []string) int {
	n := 0
	for _, x := range xs {
		for _, y := range ys {
			if x == y {
				break
			}
			n++
		}
		n += 100
	}
	return n
}

// SwitchNoFall: no fallthrough, default not last, break inside a switch inside a loop.
func SwitchNoFall(xs []string) string {
	out := ""
	for _, x := range xs {
		switch x {
		case "a", "b":
			out += "1"
		default:
			out += "d"
		case "skip":
			break
		case "c":
			out += "3"
			if len(out) > 4 {
				break
			}
			out += "+"
		}
		out += ";"
	}
	return out
}

// SwitchTagless with an init statement.
func SwitchTagless(s string) int {
	switch n := len(s); {
	case n == 0:
		return 0
	case n < limit:
		return 1
	case strings.HasPrefix(s, "ab"):
		return 2
	}
	return 3
}

// MapCount: a map created here, updated, read with and without comma-ok, deleted from.
func MapCount(xs []string) (int, int, bool, int) {
	m := make(map[string]int)
	for _, x := range xs {
		m[x]++
	}
	delete(m, "gone")
	v, ok := m["a"]
	return len(m), m["b"], ok, v
}

// MapParamSum: a result that does not depend on the iteration order.
func MapParamSum(m map[string]int) (int, int) {
	sum, n := 0, 0
	for k, v := range m {
		if k == "" {
			continue
		}
		sum += v
		n++
	}
	return sum, n
}

// MapCopy: copying a map parameter into a fresh map, then changing the copy.
func MapCopy(m map[string]string, k string) (string, string, int) {
	c := map[string]string{}
	for key, v := range m {
		c[key] = v
	}
	c[k] = "new"
	return c[k], m[k], len(c)
}

// DownLoop: counted loop downwards.
func DownLoop(xs []string) string {
	out := ""
	for i := len(xs) - 1; i >= 0; i-- {
		out += xs[i]
	}
	return out
}

// UpLoop: counted loop with <=, indexes may run out of range.
func UpLoop(xs []string, n int) string {
	out := ""
	for i := 1; i <= n; i++ {
		if i == 3 {
			continue
		}
		out += xs[i]
	}
	return out
}

// Slice: string slicing panics outside the bounds.
func Slice(s string, i, j int) string {
	return s[i:j] + "|" + s[:i]
}

// Divide: truncated division and remainder, division by zero panics.
func Divide(a, b int) (int, int) {
	return a / b, a % b
}

func DivConst(a int) (int, int) {
	return a / 4, a % -3
}

func parse(s string) (int, error) {
	if s == "" {
		return 0, errors.New("empty")
	}
	if strings.ContainsAny(s, "xyz") {
		return -1, fmt.Errorf("bad character in %q", s)
	}
	return len(s), nil
}

// Wrap: multi-valued call, error wrapping, early return.
func Wrap(s string) (int, error) {
	n, err := parse(s)
	if err != nil {
		return 0, fmt.Errorf("wrap: %w", err)
	}
	if n > 2 {
		return n * 2, nil
	}
	return n, nil
}

// Named results and a bare return.
func Named(s string) (n int, tag string) {
	tag = "t"
	if s == "" {
		return
	}
	n = len(s)
	tag += s
	return
}

// Compound assignment operators.
func Compound(a, b int) int {
	a += b
	a *= 2
	a -= 3
	a++
	b--
	return a*10 + b
}

// Swap: parallel assignment evaluates the right-hand sides first.
func Swap(a, b string) string {
	a, b = b, a+b
	return a + "/" + b
}

// StructCopy: assignment copies a struct.
func StructCopy(r Rec) (string, int) {
	c := r
	c.Name = "changed"
	c.N += 1
	return r.Name, c.N
}

// PtrLocal: a pointer created here is mutated; a nil parameter is guarded.
func PtrLocal(p *Rec, s string) (string, int) {
	q := &Rec{Name: s, M: map[string]string{}}
	q.N = len(s)
	q.M["k"] = s
	if p == nil {
		return q.Name + q.M["k"], q.N
	}
	return p.Name + q.Name, p.N + q.N
}

// PtrDeref: an unguarded dereference panics on nil.
func PtrDeref(p *Rec) int {
	return p.N + 1
}

// PtrGuardAnd: the guard protects the right operand.
func PtrGuardAnd(p *Rec) bool {
	return p != nil && p.N > 2
}

// GlobalPtr: comparison with a package-level pointer.
func GlobalPtr(useDefault bool) (string, bool) {
	p := defaultRec
	if !useDefault {
		p = &Rec{Name: "other"}
	}
	return p.Name, p == defaultRec
}

// Appends and len.
func Appends(xs []string, s string) ([]string, int) {
	var out []string
	for _, x := range xs {
		if x != s {
			out = append(out, x)
		}
	}
	out = append(out, s, "end")
	out = append(out, xs...)
	return out, len(out)
}

// Strs: the whitelisted string functions.
func Strs(s string) (string, string, bool, int, int, string, []string, bool) {
	a, b, ok := strings.Cut(s, ":")
	return a, strings.TrimSpace(b), ok, strings.Index(s, "b"), strings.LastIndex(s, "b"),
		strings.Join(strings.Split(s, "a"), "-"), strings.Split(strings.TrimPrefix(strings.TrimSuffix(s, "c"), "a"), ":"),
		strings.HasSuffix(s, "bc") || strings.ContainsAny(s, " /")
}

// Joins: several paths reach what follows, with several assigned variables.
func Joins(a, b int) (int, string) {
	x, y := 0, "n"
	if a > 0 {
		x = a
		if b > 0 {
			y = "p"
		} else if b == 0 {
			y = "z"
			x += 10
		}
	} else {
		if b > a {
			return -1, "early"
		}
		x = -a
	}
	x += 1
	return x, y
}

// Zero values.
func Zeros() (string, int, bool, int, int) {
	var s string
	var n int
	var b bool
	var xs []string
	var m map[string]int
	return s, n, b, len(xs), len(m) + m["q"]
}

func MinMax(a, b, c int) (int, int) {
	return min(a, b, c), max(a, b)
}

// Index is generic.
func Index[T comparable](xs []T, x T) int {
	for i, v := range xs {
		if v == x {
			return i
		}
	}
	return -1
}

func IndexBoth(xs []string, s string, ns []int, n int) (int, int) {
	return Index(xs, s), Index(ns, n)
}

// Methods with value and pointer receivers.
func (r Rec) Label() string { return r.Name + ":" + strings.Join(r.Tags, ",") }

func (r *Rec) Bump(k int) int {
	return r.N + k
}

func Methods(r Rec, k int) (int, string) {
	return r.Bump(k), r.Label()
}

// addAll mutates the map it is given.
func addAll(m map[string]int, xs []string) {
	for _, x := range xs {
		m[x] += 2
	}
}

func InOut(xs []string) (int, int) {
	m := map[string]int{"a": 1}
	addAll(m, xs)
	return len(m), m["a"]
}

// TableScan reads package-level data.
func TableScan(s string) (int, string) {
	for i, t := range table {
		if strings.HasPrefix(t, s) {
			return i, t
		}
	}
	return -1, defaultRec.Name
}

// LoopState threads several variables through a loop with an early return.
func LoopState(xs []string) (string, int, error) {
	last, n := "", 0
	for _, x := range xs {
		if x == "err" {
			return last, n, errors.New("found err")
		}
		if x == last {
			continue
		}
		last = x
		n++
	}
	return last, n, nil
}

// ---- second batch: errors as structs, regular expressions, interfaces, named map types ----

type CodeError struct {
	Msg   string
	Inner error
}

func (e CodeError) Error() string { return e.Msg }

var nameRe = regexp.MustCompile(`^[a-z][a-z0-9]*(?:-[a-z0-9]+)*$`)

var kinds = map[string]int{"x": 1, "y": 2, "z": 3}

// StructErr: an error struct literal with a formatted message and a wrapped error.
func StructErr(s string) (int, error) {
	if _, err := parse(s); err != nil {
		return 0, CodeError{Msg: fmt.Sprintf("code error for %q", s), Inner: err}
	}
	if !nameRe.MatchString(s) {
		return 1, &CodeError{Msg: "not a name"}
	}
	return 2, nil
}

// LocalRegex: a regular expression compiled inside the function.
func LocalRegex(s string) bool {
	digits := regexp.MustCompile(`^[0-9]+(?:\.[0-9]+)?$`)
	return digits.MatchString(s) || regexp.MustCompile(`^v[0-9]$`).MatchString(s)
}

// Getter is a one-method interface: a function parameter of the translation.
type Getter interface {
	Get(key string) (string, error)
}

func UseGetter(g Getter, keys []string) (string, error) {
	out := ""
	for _, k := range keys {
		v, err := g.Get(k)
		if err != nil {
			return out, fmt.Errorf("key %q: %w", k, err)
		}
		out += v
	}
	return out, nil
}

// StrSet is a named map type with methods, one of them mutating.
type StrSet map[string]struct{}

func (s StrSet) Add(x string)      { s[x] = struct{}{} }
func (s StrSet) Has(x string) bool { _, ok := s[x]; return ok }

func NewStrSet() StrSet { return make(StrSet) }

func Dedup(xs []string) ([]string, int) {
	seen := NewStrSet()
	var out []string
	for _, x := range xs {
		if seen.Has(x) {
			continue
		}
		seen.Add(x)
		out = append(out, x)
	}
	return out, len(seen)
}

// GlobalMap: a package-level map literal.
func GlobalMap(k string) (int, bool, int) {
	v, ok := kinds[k]
	return v, ok, len(kinds)
}

// RangeKeysOnly and `for i := range`.
func RangeForms(xs []string, m map[string]int) (int, int) {
	a, b := 0, 0
	for i := range xs {
		a += i
	}
	for k := range m {
		b += len(k)
	}
	return a, b
}

// ElseIfNil: nil guards in an else-if chain.
func ElseIfNil(p *Rec, q *Rec) string {
	if p == nil {
		return "p-nil"
	} else if q != nil && q.N > p.N {
		return q.Name
	} else if p.N > 0 {
		return p.Name
	}
	return "none"
}

// ReturnStruct: results that are structs, pointers and maps.
func ReturnStruct(s string, n int) (Rec, *Rec, map[string]int) {
	r := Rec{Name: s, N: n, Tags: []string{s, "t"}}
	var p *Rec
	if n > 0 {
		p = &Rec{Name: s + "p", N: n - 1}
	}
	m := map[string]int{}
	m[s] = n
	m["k"] += 2
	return r, p, m
}

// SwitchInit: a switch with an init statement and a tag; the tag is evaluated once.
func SwitchInit(xs []string) string {
	switch n := len(xs); n {
	case 0:
		return "none"
	case 1, 2:
		return xs[0]
	default:
		return xs[n-1]
	}
}

// EvalOrder: operands are evaluated left to right; the panic of the first wins (both are panics).
func EvalOrder(xs []string, a, b int) string {
	return xs[a] + xs[b]
}

// NilSlices: nil and empty slices behave alike for len / range / append.
func NilSlices(use bool) (int, []string) {
	var xs []string
	if use {
		xs = []string{}
	}
	xs = append(xs, "v")
	return len(xs), xs
}

// ---- constructs that must be refused ----

func RefusedLabel(xs []string) int {
	n := 0
outer:
	for _, x := range xs {
		for _, y := range xs {
			if x == y {
				continue outer
			}
			n++
		}
	}
	return n
}

func RefusedClosure(xs []string) int {
	n := 0
	f := func() { n++ }
	for range xs {
		f()
	}
	return n
}

func RefusedAlias(m map[string]int) int {
	m["x"] = 1 // a write to the caller's map, made by a function that also returns something: fine (in/out);
	c := m     // but an alias of it that is written to is not
	c["y"] = 2
	return len(m)
}

// a pointer created here is copied, then the original is changed: the copy must see it
func RefusedPtrAlias(s string) int {
	p := &Rec{Name: s}
	r := p
	p.N = 5
	return r.N
}

func RefusedMapAlias2(k string) int {
	m := map[string]int{}
	hold := Rec{}
	other := map[string]map[string]int{"m": m}
	m[k] = 1
	return len(other["m"]) + hold.N
}

func RefusedStructMapAlias(k string) int {
	a := Rec{M: map[string]string{}}
	b := a
	a.M[k] = "v"
	return len(b.M)
}

// two slices that may share a backing array are both appended to
func RefusedAppendAlias(xs []string) string {
	var a []string
	a = append(a, xs...)
	b := a
	a = append(a, "x")
	b = append(b, "y")
	return a[len(a)-1] + b[len(b)-1]
}

func RefusedWhile(n int) int {
	for n > 10 {
		n -= 3
	}
	return n
}

func RefusedSliceWrite(xs []string) []string {
	if len(xs) > 0 {
		xs[0] = "w"
	}
	return xs
}

// Funcs lists the functions the selftest calls by reflection.
var Funcs = map[string]any{
	"Shadow": Shadow, "ShortAnd": ShortAnd, "ShortOr": ShortOr, "UnguardedIndex": UnguardedIndex,
	"RangeCopy": RangeCopy, "RangeIndex": RangeIndex, "NestedBreak": NestedBreak, "SwitchNoFall": SwitchNoFall,
	"SwitchTagless": SwitchTagless, "MapCount": MapCount, "MapParamSum": MapParamSum, "MapCopy": MapCopy,
	"DownLoop": DownLoop, "UpLoop": UpLoop, "Slice": Slice, "Divide": Divide, "DivConst": DivConst, "Wrap": Wrap,
	"Named": Named, "Compound": Compound, "Swap": Swap, "StructCopy": StructCopy, "PtrLocal": PtrLocal,
	"PtrDeref": PtrDeref, "PtrGuardAnd": PtrGuardAnd, "GlobalPtr": GlobalPtr, "Appends": Appends, "Strs": Strs,
	"Joins": Joins, "Zeros": Zeros, "MinMax": MinMax, "IndexBoth": IndexBoth, "Methods": Methods, "InOut": InOut,
	"TableScan": TableScan, "LoopState": LoopState,
	"StructErr": StructErr, "LocalRegex": LocalRegex, "UseGetter": UseGetter, "Dedup": Dedup, "GlobalMap": GlobalMap,
	"RangeForms": RangeForms, "ElseIfNil": ElseIfNil, "ReturnStruct": ReturnStruct, "SwitchInit": SwitchInit,
	"EvalOrder": EvalOrder, "NilSlices": NilSlices,
}

// MapGetter implements Getter for the selftest.
type MapGetter map[string]string

func (m MapGetter) Get(k string) (string, error) {
	if v, ok := m[k]; ok {
		return v, nil
	}
	return "", errors.New("missing")
}
