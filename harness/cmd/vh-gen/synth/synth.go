// Package synth is the regression corpus of the GoLite translator: small
// functions, each exercising one point of Go semantics the translation must
// preserve (evaluation order, short-circuit, shadowing, range copying its
// element, switch without fallthrough, break/continue targets, map and struct
// value semantics, panics). `vh-gen --selftest` translates this file (its
// source is embedded in the binary), runs every function of Funcs on generated
// inputs by reflection and lets Coq evaluate the translations on the same
// inputs (cases_gen_T00.v). Functions named Refused* must be refused.
package synth

import (
	"errors"
	"fmt"
	"io/fs"
	"path"
	"reflect"
	"regexp"
	"strings"
	"testing/fstest"
	"time"
)

type Rec struct {
	Name string
	N    int
	Tags []string
	M    map[string]string
}

var table = []string{"alpha", "beta", "gamma"}

var defaultRec = &Rec{Name: "default", N: 7}

const limit = 3

// Shadow: an inner declaration does not touch the outer variable.
func Shadow(a string, b bool) string {
	x := a
	if b {
		x := "inner" + x
		if len(x) > 7 {
			return x
		}
	}
	return x + "!"
}

// ShortAnd: the right operand is only evaluated (and may only panic) when the left holds.
func ShortAnd(xs []string, i int) bool {
	return i >= 0 && i < len(xs) && xs[i] == "a"
}

func ShortOr(xs []string, i int) bool {
	return i < 0 || i >= len(xs) || xs[i] == ""
}

// UnguardedIndex panics out of range.
func UnguardedIndex(xs []string, i int) string {
	return xs[i] + "."
}

// RangeCopy: the loop variable is a copy.
func RangeCopy(xs []string) (string, int) {
	acc := ""
	for _, x := range xs {
		x = x + "!"
		acc += x
	}
	return acc, len(xs)
}

// RangeIndex: index and value, continue and break.
func RangeIndex(xs []string) string {
	out := ""
	for i, x := range xs {
		if x == "" {
			continue
		}
		if x == "stop" {
			break
		}
		if i > 0 {
			out += ","
		}
		out += x
	}
	return out
}

// NestedBreak: break leaves the inner loop only.
func NestedBreak(xs []string, ys []string) int {
	n := 0
	for _, x := range xs {
		for _, y := range ys {
			if x == y {
				break
			}
			n++
		}
		n += 100
	}
	return n
}

// SwitchNoFall: no fallthrough, default not last, break inside a switch inside a loop.
func SwitchNoFall(xs []string) string {
	out := ""
	for _, x := range xs {
		switch x {
		case "a", "b":
			out += "1"
		default:
			out += "d"
		case "skip":
			break
		case "c":
			out += "3"
			if len(out) > 4 {
				break
			}
			out += "+"
		}
		out += ";"
	}
	return out
}

// SwitchTagless with an init statement.
func SwitchTagless(s string) int {
	switch n := len(s); {
	case n == 0:
		return 0
	case n < limit:
		return 1
	case strings.HasPrefix(s, "ab"):
		return 2
	}
	return 3
}

// MapCount: a map created here, updated, read with and without comma-ok, deleted from.
func MapCount(xs []string) (int, int, bool, int) {
	m := make(map[string]int)
	for _, x := range xs {
		m[x]++
	}
	delete(m, "gone")
	v, ok := m["a"]
	return len(m), m["b"], ok, v
}

// MapParamSum: a result that does not depend on the iteration order.
func MapParamSum(m map[string]int) (int, int) {
	sum, n := 0, 0
	for k, v := range m {
		if k == "" {
			continue
		}
		sum += v
		n++
	}
	return sum, n
}

// MapCopy: copying a map parameter into a fresh map, then changing the copy.
func MapCopy(m map[string]string, k string) (string, string, int) {
	c := map[string]string{}
	for key, v := range m {
		c[key] = v
	}
	c[k] = "new"
	return c[k], m[k], len(c)
}

// DownLoop: counted loop downwards.
func DownLoop(xs []string) string {
	out := ""
	for i := len(xs) - 1; i >= 0; i-- {
		out += xs[i]
	}
	return out
}

// UpLoop: counted loop with <=, indexes may run out of range.
func UpLoop(xs []string, n int) string {
	out := ""
	for i := 1; i <= n; i++ {
		if i == 3 {
			continue
		}
		out += xs[i]
	}
	return out
}

// Slice: string slicing panics outside the bounds.
func Slice(s string, i, j int) string {
	return s[i:j] + "|" + s[:i]
}

// Divide: truncated division and remainder, division by zero panics.
func Divide(a, b int) (int, int) {
	return a / b, a % b
}

func DivConst(a int) (int, int) {
	return a / 4, a % -3
}

func parse(s string) (int, error) {
	if s == "" {
		return 0, errors.New("empty")
	}
	if strings.ContainsAny(s, "xyz") {
		return -1, fmt.Errorf("bad character in %q", s)
	}
	return len(s), nil
}

// Wrap: multi-valued call, error wrapping, early return.
func Wrap(s string) (int, error) {
	n, err := parse(s)
	if err != nil {
		return 0, fmt.Errorf("wrap: %w", err)
	}
	if n > 2 {
		return n * 2, nil
	}
	return n, nil
}

// Named results and a bare return.
func Named(s string) (n int, tag string) {
	tag = "t"
	if s == "" {
		return
	}
	n = len(s)
	tag += s
	return
}

// Compound assignment operators.
func Compound(a, b int) int {
	a += b
	a *= 2
	a -= 3
	a++
	b--
	return a*10 + b
}

// Swap: parallel assignment evaluates the right-hand sides first.
func Swap(a, b string) string {
	a, b = b, a+b
	return a + "/" + b
}

// StructCopy: assignment copies a struct.
func StructCopy(r Rec) (string, int) {
	c := r
	c.Name = "changed"
	c.N += 1
	return r.Name, c.N
}

// PtrLocal: a pointer created here is mutated; a nil parameter is guarded.
func PtrLocal(p *Rec, s string) (string, int) {
	q := &Rec{Name: s, M: map[string]string{}}
	q.N = len(s)
	q.M["k"] = s
	if p == nil {
		return q.Name + q.M["k"], q.N
	}
	return p.Name + q.Name, p.N + q.N
}

// PtrDeref: an unguarded dereference panics on nil.
func PtrDeref(p *Rec) int {
	return p.N + 1
}

// PtrGuardAnd: the guard protects the right operand.
func PtrGuardAnd(p *Rec) bool {
	return p != nil && p.N > 2
}

// GlobalPtr: comparison with a package-level pointer.
func GlobalPtr(useDefault bool) (string, bool) {
	p := defaultRec
	if !useDefault {
		p = &Rec{Name: "other"}
	}
	return p.Name, p == defaultRec
}

// Appends and len.
func Appends(xs []string, s string) ([]string, int) {
	var out []string
	for _, x := range xs {
		if x != s {
			out = append(out, x)
		}
	}
	out = append(out, s, "end")
	out = append(out, xs...)
	return out, len(out)
}

// Strs: the whitelisted string functions.
func Strs(s string) (string, string, bool, int, int, string, []string, bool) {
	a, b, ok := strings.Cut(s, ":")
	return a, strings.TrimSpace(b), ok, strings.Index(s, "b"), strings.LastIndex(s, "b"),
		strings.Join(strings.Split(s, "a"), "-"), strings.Split(strings.TrimPrefix(strings.TrimSuffix(s, "c"), "a"), ":"),
		strings.HasSuffix(s, "bc") || strings.ContainsAny(s, " /")
}

// Joins: several paths reach what follows, with several assigned variables.
func Joins(a, b int) (int, string) {
	x, y := 0, "n"
	if a > 0 {
		x = a
		if b > 0 {
			y = "p"
		} else if b == 0 {
			y = "z"
			x += 10
		}
	} else {
		if b > a {
			return -1, "early"
		}
		x = -a
	}
	x += 1
	return x, y
}

// Zero values.
func Zeros() (string, int, bool, int, int) {
	var s string
	var n int
	var b bool
	var xs []string
	var m map[string]int
	return s, n, b, len(xs), len(m) + m["q"]
}

func MinMax(a, b, c int) (int, int) {
	return min(a, b, c), max(a, b)
}

// Index is generic.
func Index[T comparable](xs []T, x T) int {
	for i, v := range xs {
		if v == x {
			return i
		}
	}
	return -1
}

func IndexBoth(xs []string, s string, ns []int, n int) (int, int) {
	return Index(xs, s), Index(ns, n)
}

// Methods with value and pointer receivers.
func (r Rec) Label() string { return r.Name + ":" + strings.Join(r.Tags, ",") }

func (r *Rec) Bump(k int) int {
	return r.N + k
}

func Methods(r Rec, k int) (int, string) {
	return r.Bump(k), r.Label()
}

// addAll mutates the map it is given.
func addAll(m map[string]int, xs []string) {
	for _, x := range xs {
		m[x] += 2
	}
}

func InOut(xs []string) (int, int) {
	m := map[string]int{"a": 1}
	addAll(m, xs)
	return len(m), m["a"]
}

// TableScan reads package-level data.
func TableScan(s string) (int, string) {
	for i, t := range table {
		if strings.HasPrefix(t, s) {
			return i, t
		}
	}
	return -1, defaultRec.Name
}

// LoopState threads several variables through a loop with an early return.
func LoopState(xs []string) (string, int, error) {
	last, n := "", 0
	for _, x := range xs {
		if x == "err" {
			return last, n, errors.New("found err")
		}
		if x == last {
			continue
		}
		last = x
		n++
	}
	return last, n, nil
}

// ---- second batch: errors as structs, regular expressions, interfaces, named map types ----

type CodeError struct {
	Msg   string
	Inner error
}

func (e CodeError) Error() string { return e.Msg }

// WrapError has an Unwrap method: errors.Is / As look inside it (not inside CodeError).
type WrapError struct {
	Msg   string
	Inner error
}

func (e WrapError) Error() string { return e.Msg }
func (e WrapError) Unwrap() error { return e.Inner }

var nameRe = regexp.MustCompile(`^[a-z][a-z0-9]*(?:-[a-z0-9]+)*$`)

var kinds = map[string]int{"x": 1, "y": 2, "z": 3}

// StructErr: an error struct literal with a formatted message and a wrapped error.
func StructErr(s string) (int, error) {
	if _, err := parse(s); err != nil {
		return 0, CodeError{Msg: fmt.Sprintf("code error for %q", s), Inner: err}
	}
	if !nameRe.MatchString(s) {
		return 1, &CodeError{Msg: "not a name"}
	}
	return 2, nil
}

// LocalRegex: a regular expression compiled inside the function.
func LocalRegex(s string) bool {
	digits := regexp.MustCompile(`^[0-9]+(?:\.[0-9]+)?$`)
	return digits.MatchString(s) || regexp.MustCompile(`^v[0-9]$`).MatchString(s)
}

// Getter is a one-method interface: a function parameter of the translation.
type Getter interface {
	Get(key string) (string, error)
}

func UseGetter(g Getter, keys []string) (string, error) {
	out := ""
	for _, k := range keys {
		v, err := g.Get(k)
		if err != nil {
			return out, fmt.Errorf("key %q: %w", k, err)
		}
		out += v
	}
	return out, nil
}

// StrSet is a named map type with methods, one of them mutating.
type StrSet map[string]struct{}

func (s StrSet) Add(x string)      { s[x] = struct{}{} }
func (s StrSet) Has(x string) bool { _, ok := s[x]; return ok }

func NewStrSet() StrSet { return make(StrSet) }

func Dedup(xs []string) ([]string, int) {
	seen := NewStrSet()
	var out []string
	for _, x := range xs {
		if seen.Has(x) {
			continue
		}
		seen.Add(x)
		out = append(out, x)
	}
	return out, len(seen)
}

// GlobalMap: a package-level map literal.
func GlobalMap(k string) (int, bool, int) {
	v, ok := kinds[k]
	return v, ok, len(kinds)
}

// RangeKeysOnly and `for i := range`.
func RangeForms(xs []string, m map[string]int) (int, int) {
	a, b := 0, 0
	for i := range xs {
		a += i
	}
	for k := range m {
		b += len(k)
	}
	return a, b
}

// ElseIfNil: nil guards in an else-if chain.
func ElseIfNil(p *Rec, q *Rec) string {
	if p == nil {
		return "p-nil"
	} else if q != nil && q.N > p.N {
		return q.Name
	} else if p.N > 0 {
		return p.Name
	}
	return "none"
}

// ReturnStruct: results that are structs, pointers and maps.
func ReturnStruct(s string, n int) (Rec, *Rec, map[string]int) {
	r := Rec{Name: s, N: n, Tags: []string{s, "t"}}
	var p *Rec
	if n > 0 {
		p = &Rec{Name: s + "p", N: n - 1}
	}
	m := map[string]int{}
	m[s] = n
	m["k"] += 2
	return r, p, m
}

// SwitchInit: a switch with an init statement and a tag; the tag is evaluated once.
func SwitchInit(xs []string) string {
	switch n := len(xs); n {
	case 0:
		return "none"
	case 1, 2:
		return xs[0]
	default:
		return xs[n-1]
	}
}

// EvalOrder: operands are evaluated left to right; the panic of the first wins (both are panics).
func EvalOrder(xs []string, a, b int) string {
	return xs[a] + xs[b]
}

// NilSlices: nil and empty slices behave alike for len / range / append.
func NilSlices(use bool) (int, []string) {
	var xs []string
	if use {
		xs = []string{}
	}
	xs = append(xs, "v")
	return len(xs), xs
}

// ---- third batch: any, sentinels and errors.Is / As / Join, closures ----

type Label string

type Attr struct {
	Key      any
	Critical bool
	Value    any
}

// AnyKinds: comma-ok assertions distinguish the dynamic types exactly.
func AnyKinds(x any) (string, bool, int, bool, int64, bool, bool, bool, Label, bool) {
	s, ok1 := x.(string)
	i, ok2 := x.(int)
	j, ok3 := x.(int64)
	b, ok4 := x.(bool)
	l, ok5 := x.(Label)
	return s, ok1, i, ok2, j, ok3, b && ok4, x == nil, l, ok5
}

// AnyAssert: an unchecked assertion panics on any other dynamic type.
func AnyAssert(x any) string {
	return x.(string) + "!"
}

// AnyEq: an interface value against constants and against another interface value
// (comparing two values of the same uncomparable type panics).
func AnyEq(x, y any) (bool, bool, bool, bool) {
	return x == "a", x == 3, x != y, x == Label("a")
}

// AnyFields: any-typed fields, conversion of concrete values to any.
func AnyFields(attrs []Attr, key string) (any, bool, int) {
	n := 0
	for _, a := range attrs {
		if k, ok := a.Key.(string); ok && k != "" {
			n++
		}
		if a.Key == key {
			return a.Value, a.Critical, n
		}
	}
	var none any = key
	return none, false, n
}

func containsAny(s []any, v any) bool {
	for _, vs := range s {
		if vs == v {
			return true
		}
	}
	return false
}

func ContainsAnyOf(s []any, v any) bool { return containsAny(s, v) }

var ErrNotFound = errors.New("not found")
var ErrOther = fmt.Errorf("other %d", 1)
var errAlias = ErrNotFound

// MakeErr builds the errors the next functions examine.
func MakeErr(k int) error {
	switch k {
	case 0:
		return nil
	case 1:
		return ErrNotFound
	case 2:
		return fmt.Errorf("wrapped: %w", ErrNotFound)
	case 3:
		return errors.New("not found")
	case 4:
		return CodeError{Msg: "code", Inner: ErrOther}
	case 5:
		return &CodeError{Msg: "ptr"}
	case 6:
		return fmt.Errorf("both: %w and %w", ErrOther, CodeError{Msg: "in"})
	case 7:
		return errors.Join(nil, fmt.Errorf("j: %w", ErrNotFound), ErrOther)
	case 8:
		return errors.Join(nil, nil)
	case 9:
		return WrapError{Msg: "w", Inner: fmt.Errorf("deep: %w", ErrNotFound)}
	case 10:
		return &WrapError{Msg: "w", Inner: CodeError{Msg: "c"}}
	}
	return errAlias
}

// ErrQueries: identity, Is through wrap chains and joins, As by dynamic type.
func ErrQueries(k int) (bool, bool, bool, bool, bool, bool, bool) {
	err := MakeErr(k)
	var ce CodeError
	return err == ErrNotFound, err != ErrOther, errors.Is(err, ErrNotFound), errors.Is(err, ErrOther),
		errors.As(err, &CodeError{}), errors.As(err, &ce), err == errAlias
}

func AsPointer(k int) bool {
	var target *CodeError
	return errors.As(MakeErr(k), &target)
}

// Closures: function literals that only read variables that no longer change.
func Closures(xs []string, sep string) (string, int) {
	prefix := "<" + sep
	wrap := func(s string) string { return prefix + s + ">" }
	count := func(s string) int {
		n := 0
		for _, x := range xs {
			if x == s {
				n++
			}
		}
		return n
	}
	out := ""
	for _, x := range xs {
		out += wrap(x)
	}
	return out, count(sep)
}

// ClosurePanics: a closure with a partial operation, called only when guarded.
func ClosurePanics(xs []string, i int) string {
	at := func(k int) string { return xs[k] }
	if i < 0 {
		return "neg"
	}
	return at(i) + at(0)
}

func apply2(f func(string) string, s string) string { return f(f(s)) }

// ClosureArg: a closure handed to another function.
func ClosureArg(s, t string) string {
	return apply2(func(x string) string { return x + t }, s)
}

// ---- fourth batch: arrays, time literals, a join point that collapses ----

var prefixes = [...]string{"io.x", "io.yy"}

func ArrayRange(s string) (bool, int, string) {
	for i, p := range prefixes {
		if strings.HasPrefix(s, p) {
			return true, i, prefixes[1]
		}
	}
	return false, len(prefixes), prefixes[0]
}

func TimeZero() (bool, bool) {
	t := time.Time{}
	var u time.Time
	return t.IsZero(), t.Equal(u)
}

// JoinCollapse: what follows the if is reached from a loop (break and end) and
// from the else path; the loop after it uses variables declared before the if.
func JoinCollapse(xs []string, flag bool) (string, int) {
	a := "A" + strings.Join(xs, "")
	b := len(xs)
	n := 0
	if flag && b > 1 {
		for _, x := range xs {
			if x == "stop" {
				break
			}
			n++
		}
	}
	out := a
	for _, x := range xs {
		out += x + a
		n += b
	}
	return out, n
}

// ---- fifth batch: in/out pointers, variadic functions ----

type Counter struct {
	N   int
	Log []string
}

// Bump writes through its pointer receiver.
func (c *Counter) Bump(k int) int {
	c.N += k
	c.Log = append(c.Log, "b")
	return c.N
}

func (c *Counter) Reset() { *c = Counter{N: 1} }

// fill writes through a pointer parameter (NonNil in the table).
func fill(r *Rec, s string) error {
	if s == "" {
		return errors.New("empty")
	}
	r.Name = s
	r.N++
	return nil
}

func InOutPtr(s string, k int) (int, string, int, error) {
	var r Rec
	err := fill(&r, s)
	c := &Counter{}
	a := c.Bump(k)
	if k > 2 {
		c.Reset()
	}
	b := c.Bump(1)
	if err := fill(&r, s+s); err != nil {
		return a + b, r.Name, -1, err
	}
	return a + b, r.Name, r.N + len(c.Log), err
}

func joinAll(sep string, parts ...string) string { return strings.Join(parts, sep) }

func Variadic(a, b string) (string, string, string) {
	xs := []string{a, b}
	return joinAll("-", a, b, "c"), joinAll("+"), joinAll("/", xs...)
}

// ---- sixth batch: type switches, err.Error() in messages, bytes, bit operators, slices of slices ----

func ErrKind(k int) (string, error) {
	err := MakeErr(k)
	switch err.(type) {
	case nil:
		return "nil", nil
	case CodeError, *WrapError:
		return "code", CodeError{Msg: "again: " + err.Error()}
	case *CodeError:
		return "ptr", fmt.Errorf("ptr %s", err.Error())
	default:
		if err != nil {
			return "other", errors.New("other: " + err.Error())
		}
		return "never", nil
	}
}

func AnySwitch(x any) int {
	switch x.(type) {
	case nil:
		return 0
	case string, Label:
		return 1
	case int:
		return 2
	case bool:
		return 3
	}
	return 4
}

func Bytes(s string, n int) (int, string, []byte, string) {
	b := []byte(s)
	h := [3]byte{1, 2, 3}
	all := h[:]
	pre := b[:n]
	return len(b) + len(all), string(pre), b[n:], string(b[1:n])
}

func Bits(a, b int) (int, int, int, int, int, int, bool) {
	const mode = 0111
	return a & b, a | b, a ^ b, a &^ b, a << 3, a >> 1, a&mode != 0
}

type Holder struct{ ch chan int }

// Empty: a struct none of whose fields is translatable.
func (h *Holder) Tag(s string) string { return "h:" + s }

func UseHolder(s string) string {
	h := &Holder{}
	return h.Tag(s)
}

// ---- seventh batch: a callback handed to an oracle, owned pointers that may be nil, nilable interfaces ----

// PagesOf is what the oracle listPages delivers for n (also used by the selftest to build the Coq oracle).
func PagesOf(n int) ([][]string, error) {
	var pages [][]string
	for i := 0; i < n && i < 4; i++ {
		pages = append(pages, []string{fmt.Sprint("p", i), "x", fmt.Sprint("q", i)}[:1+i%3])
	}
	if n%3 == 2 {
		return pages, errors.New("listing failed")
	}
	return pages, nil
}

// listPages is an oracle of the translation (Callback: "fn"): it calls fn on every page in
// order, stops at the first error fn returns and returns it, else returns its own error.
func listPages(n int, fn func(page []string) error) error {
	pages, ferr := PagesOf(n)
	for _, p := range pages {
		if err := fn(p); err != nil {
			return err
		}
	}
	return ferr
}

var errStop = errors.New("stop")

// UsePages: the callback assigns captured variables, returns from inside a loop, and stops early.
func UsePages(n, limit int) (string, int, bool, error) {
	seen := 0
	out := ""
	done := false
	err := listPages(n, func(page []string) error {
		for _, s := range page {
			if seen >= limit {
				break
			}
			seen++
			if s == "x" {
				continue
			}
			out += s + ";"
			if len(out) > 12 {
				done = true
				return errStop
			}
		}
		if seen >= limit {
			return fmt.Errorf("limit %d reached", limit)
		}
		return nil
	})
	if err != nil && !errors.Is(err, errStop) {
		return out, seen, done, err
	}
	return out + "|", seen, done, nil
}

// LocalIdentity: a local error value with an identity of its own (option LocalErrorIdentity on errLimit
// and errHalt): errors.Is and == against it recognise exactly the value the function itself produced.
// No other error with the same type and text occurs here, which is what the option assumes.
func LocalIdentity(n, limit int) (string, int, error) {
	errLimit := CodeError{Msg: fmt.Sprintf("limit %d reached", limit)}
	errHalt := errors.New("halt")
	seen := 0
	err := listPages(n, func(page []string) error {
		for _, s := range page {
			if seen >= limit {
				break
			}
			seen++
			if s == "q2" {
				return errHalt
			}
			if s == "p1" && limit%3 == 1 {
				return WrapError{Msg: "wrapped", Inner: errLimit}
			}
		}
		if seen >= limit {
			return errLimit
		}
		return nil
	})
	if err != nil {
		if errors.Is(err, errLimit) {
			if err == error(errLimit) {
				return "limit", seen, err
			}
			return "limit inside", seen, err
		}
		if err == errHalt {
			return "halt", seen, nil
		}
		return "other", seen, err
	}
	return "ok", seen, nil
}

// Store is an interface type declared Opaque in the table; its method Load is an oracle,
// which takes the receiver: calls on two different stores are two different applications.
type Store interface {
	Load(k string) (string, error)
	Name() string
}

// MemStore implements Store for the selftest.
type MemStore struct{ Prefix string }

func (m MemStore) Load(k string) (string, error) {
	if k == "" {
		return "", errors.New("empty key")
	}
	return m.Prefix + ":" + k, nil
}
func (m MemStore) Name() string { return m.Prefix }

func UseStores(a, b Store, k string) (string, error) {
	x, err := a.Load(k)
	if err != nil {
		return "", err
	}
	y, err := b.Load(k + "2")
	if err != nil {
		return x, err
	}
	return x + "|" + y, nil
}

// StoreOf: concrete values (a struct, a pointer to a fresh struct) converted to the opaque interface Store.
func StoreOf(prefix string, k string) (string, error) {
	m := MemStore{Prefix: prefix}
	return UseStores(m, &MemStore{Prefix: prefix + "2"}, k)
}

// RefusedNilableToIface: a pointer that may be nil is converted to an interface.
func RefusedNilableToIface(p *MemStore, k string) (string, error) {
	return UseStores(p, p, k)
}

func makeCode(s string) (CodeError, bool) { return CodeError{Msg: s}, s != "" }

// RefusedTupleConv: the first component of the call is converted to error implicitly.
func RefusedTupleConv(s string) (error, bool) {
	return makeCode(s)
}

// ---- effects: oracles that act on the outside world (here: an event log) ----

var events []string

func ResetEvents()     { events = nil }
func Events() []string { return append([]string{}, events...) }

// emit and tryEmit are Effect oracles: the world of the selftest is the event log.
func emit(s string) { events = append(events, s) }

func tryEmit(s string) (int, error) {
	if s == "" {
		return 0, errors.New("empty event")
	}
	events = append(events, "try:"+s)
	return len(events), nil
}

// emitTwice is a target that acts on the world because it calls effect oracles.
func emitTwice(s string) error {
	emit(s + "1")
	if _, err := tryEmit(s); err != nil {
		return err
	}
	emit(s + "2")
	return nil
}

// Effects: effect calls as statements, in an if-init, in a loop, in a deferred literal that
// reads the named result and runs at every return after the defer statement.
func Effects(names []string, tail string) (n int, err error) {
	if tail == "early" {
		return -1, nil
	}
	emit("start")
	defer func() {
		if err != nil {
			emit("cleanup")
			return
		}
		emit("done")
	}()
	for _, s := range names {
		if s == "x" {
			continue
		}
		if err := emitTwice(s); err != nil {
			return n, fmt.Errorf("name %d: %w", n, err)
		}
		n++
	}
	k, err := tryEmit(tail)
	if err != nil {
		return n, err
	}
	emit("tail")
	return n + k, nil
}

// EffectTail: return f() of an effectful call, two deferred literals (last registered runs first).
func EffectTail(s string) (int, error) {
	defer func() { emit("bye") }()
	emit("hi")
	defer func() {
		emit("first")
	}()
	return tryEmit(s)
}

// EffectPages: effect oracles called inside the callback literal handed to a Callback oracle.
func EffectPages(n int) (int, error) {
	seen := 0
	emit("list")
	err := listPages(n, func(page []string) error {
		for _, s := range page {
			seen++
			if s == "x" {
				continue
			}
			if _, err := tryEmit(s); err != nil {
				return err
			}
		}
		emit("page")
		if seen > 5 {
			return errStop
		}
		return nil
	})
	emit("end")
	return seen, err
}

// RefusedEffectInExpr: an effectful call inside an expression.
func RefusedEffectInExpr(s string) bool {
	return emitTwice(s) == nil
}

// RefusedDeferAssign: the deferred literal assigns the named result.
func RefusedDeferAssign(s string) (err error) {
	defer func() {
		if s == "" {
			err = errors.New("late")
		}
	}()
	return nil
}

// ---- a parameter of type any instantiated per call site (InstantiateAny) ----

// decode is an oracle with OutParams "v": it writes through v (here: only a *Rec or a *Counter).
func decode(data string, v any) error {
	if data == "" {
		return errors.New("no data")
	}
	switch p := v.(type) {
	case *Rec:
		p.Name, p.N = data, len(data)
	case *Counter:
		p.N, p.Log = len(data), append(p.Log, data)
	}
	return nil
}

// fillFrom has InstantiateAny "out" and NonNil: inside, out is the caller's pointer.
func fillFrom(data string, out any) error {
	if strings.HasPrefix(data, "#") {
		return fmt.Errorf("comment %q", data)
	}
	if err := decode(data, out); err != nil {
		return fmt.Errorf("decode: %w", err)
	}
	return nil
}

func UseFill(data string) (string, int, int, []string, error) {
	var r Rec
	if err := fillFrom(data, &r); err != nil {
		return "", 0, 0, nil, err
	}
	a := Counter{Log: []string{"first"}}
	err := fillFrom(data+"!", &a)
	return r.Name, r.N, a.N, a.Log, err
}

// ---- element links: a pointer appended to a list field and written through afterwards ----

type Step struct {
	Kind string
	Err  error
}

type Report struct {
	Name  string
	Steps []*Step
}

func stepFailed(s *Step) bool { return s.Err != nil && s.Kind != "soft" }

// record has NonNil: it writes through rep (in/out) and keeps the element it appended in step with the list.
func record(rep *Report, kind string, n int) error {
	rep.Steps = append(rep.Steps, &Step{Kind: "first"})
	var st *Step
	if n < 0 {
		st = &Step{Kind: kind, Err: errors.New("negative")}
	} else {
		st = &Step{Kind: kind}
	}
	rep.Steps = append(rep.Steps, st)
	if stepFailed(st) {
		return st.Err
	}
	if n > 3 {
		st.Err = fmt.Errorf("too large: %d", n)
		if stepFailed(st) {
			return st.Err
		}
		st.Kind = st.Kind + "!"
	}
	rep.Steps = append(rep.Steps, &Step{Kind: "last"})
	for i := 0; i < n; i++ {
		st.Kind += "+"
	}
	rep.Name = kind
	return nil
}

func LinkedElem(kind string, n int) (string, []string, []string, error) {
	rep := Report{Name: "r"}
	err := record(&rep, kind, n)
	var kinds, errs []string
	for _, s := range rep.Steps {
		kinds = append(kinds, s.Kind)
		if s.Err != nil {
			errs = append(errs, "err")
		} else {
			errs = append(errs, "")
		}
	}
	return rep.Name, kinds, errs, err
}

// RefusedLinkReset: the list is replaced between the append and the write.
func RefusedLinkReset(kind string) int {
	rep := Report{}
	st := &Step{Kind: kind}
	rep.Steps = append(rep.Steps, st)
	rep.Steps = nil
	st.Kind = "x"
	return len(rep.Steps)
}

// RefusedAppendThenWrite: a pointer put in a plain list and written through afterwards.
func RefusedAppendThenWrite(kind string) string {
	var list []*Step
	st := &Step{Kind: kind}
	list = append(list, st)
	st.Kind = "changed"
	return list[0].Kind
}

// RefusedLinkTwice: the same pointer sits in two lists.
func RefusedLinkTwice(kind string) int {
	a, b := Report{}, Report{}
	st := &Step{Kind: kind}
	a.Steps = append(a.Steps, st)
	b.Steps = append(b.Steps, st)
	st.Kind = "x"
	return len(a.Steps) + len(b.Steps)
}

// counterOf returns a pointer of another type than its argument: by its type it cannot refer to the Rec.
func counterOf(r *Rec) *Counter { return &Counter{N: r.N} }

// sameRec may return its argument.
func sameRec(r *Rec, pick bool) *Rec {
	if pick {
		return r
	}
	return &Rec{Name: "other"}
}

// TypeAlias: the result of a callee that received r cannot alias r (types), so r may be written afterwards.
func TypeAlias(s string) (int, int, string) {
	r := &Rec{Name: s, N: len(s)}
	c := counterOf(r)
	r.N = r.N + 5
	var q *Rec
	if s == "" {
		q = &Rec{Name: "empty"}
	} else {
		q = &Rec{Name: s + "?"}
	}
	q.N = c.N
	return r.N, q.N, q.Name
}

// RefusedSameTypeResult: the result could be r itself.
func RefusedSameTypeResult(s string) int {
	r := &Rec{Name: s}
	q := sameRec(r, s == "")
	r.N = 7
	return q.N
}

// ---- reflect.DeepEqual against a package-level value whose maps and slices are non-empty ----

type Level struct {
	Name  string
	Rules map[string]string
	Tags  []string
}

var levelSkip = &Level{Name: "skip", Rules: map[string]string{"a": "skip", "b": "skip"}, Tags: []string{"t"}}
var levelEmpty = &Level{Name: "e", Rules: map[string]string{}, Tags: []string{"t"}}

func IsSkip(name string, keys []string, val string, tag string) (bool, bool) {
	if len(name)%2 == 0 {
		name, keys, val = "skip", []string{"b", "a", "b"}, "skip"
		if len(tag) < 3 {
			tag = "t"
		}
	}
	l := &Level{Name: name, Rules: map[string]string{}, Tags: []string{tag}}
	for _, k := range keys {
		l.Rules[k] = val
	}
	var none *Level
	return reflect.DeepEqual(l, levelSkip), reflect.DeepEqual(levelSkip, none)
}

// RefusedDeepEqualEmpty: the package-level value holds an empty map (nil and empty would have to be told apart).
func RefusedDeepEqualEmpty(name string) bool {
	return reflect.DeepEqual(&Level{Name: name}, levelEmpty)
}

// ---- a Sprintf result held in a local that only becomes a message ----

func MsgLocal(name string, n int) (int, error) {
	if n < 0 {
		msg := fmt.Sprintf("negative count %d for %q", n, name)
		return 0, errors.New(msg)
	}
	var text string
	if name == "" {
		text = fmt.Sprintf("no name (count %d)", n)
	} else {
		text = "fixed text"
	}
	if n > 5 {
		return n, CodeError{Msg: text}
	}
	if n == 3 {
		return n, fmt.Errorf("wrapped: %s", text)
	}
	return n + len(name), nil
}

// RefusedMsgMeasured: the Sprintf result is measured.
func RefusedMsgMeasured(n int) (int, error) {
	msg := fmt.Sprintf("count %d", n)
	return len(msg), errors.New(msg)
}

// RefusedMsgReturned: the Sprintf result is returned as a string.
func RefusedMsgReturned(n int) string {
	msg := fmt.Sprintf("count %d", n)
	return msg
}

// ---- nilable fields: a slice / map field whose nil-ness is tested (NilableFields on the type row) ----

type Blob struct {
	Name  string
	Delta []byte
	Meta  map[string]string
}

// parseBlob is an oracle with OutParams "v" (think json.Unmarshal): nil, empty and non-empty fields.
func parseBlob(data string, v *Blob) error {
	if data == "" {
		return errors.New("no data")
	}
	switch {
	case strings.HasPrefix(data, "nil"):
		*v = Blob{Name: data}
	case strings.HasPrefix(data, "empty"):
		*v = Blob{Name: data, Delta: []byte{}, Meta: map[string]string{}}
	default:
		*v = Blob{Name: data, Delta: []byte{1, 2}, Meta: map[string]string{"k": data}}
	}
	return nil
}

// UseBlob tells nil from empty on the two nilable fields, reads them as slice / map, copies and resets them.
func UseBlob(data string) (string, int, int, bool, bool, error) {
	var b Blob
	if len(data)%3 == 1 {
		data = "nil" + data
	} else if len(data)%3 == 2 {
		data = "empty" + data
	}
	if err := parseBlob(data, &b); err != nil {
		return "", 0, 0, false, false, err
	}
	kind := "both"
	if b.Delta == nil && b.Meta == nil {
		kind = "incomplete"
	} else if b.Delta != nil && len(b.Delta) == 0 {
		kind = "empty delta"
	}
	c := Blob{Name: "copy", Delta: b.Delta}
	c.Meta = b.Meta
	if len(c.Meta) > 0 {
		c.Meta = nil
		c.Delta = []byte("x" + data)
	}
	d := Blob{Meta: map[string]string{}}
	return kind, len(b.Delta) + len(c.Delta), len(b.Meta), c.Meta == nil, d.Meta != nil && d.Delta == nil, nil
}

// RefusedNilableUnknown: a value whose nil-ness is not known goes into a nilable field.
func RefusedNilableUnknown(raw []byte) bool {
	b := Blob{}
	b.Delta = raw
	return b.Delta == nil
}

// ---- an interface type that only ever holds one pointer type (row option Concrete): typed nil kept exactly ----

type Handle interface{ Path() string }

type FileHandle struct{ P string }

func (f *FileHandle) Path() string { return f.P }

func openFile(p string) (*FileHandle, error) {
	if p == "" {
		return nil, errors.New("no path")
	}
	return &FileHandle{P: p}, nil
}

// OpenHandle returns openFile's results as (Handle, error): a nil *FileHandle becomes a NON-nil Handle.
func OpenHandle(p string) (Handle, error) {
	if p == "x" {
		return nil, errors.New("x is reserved")
	}
	return openFile(p)
}

func HandleNil(p string) (bool, bool, bool) {
	h, err := OpenHandle(p)
	var h2 Handle
	if err == nil {
		h2 = &FileHandle{P: p + "!"}
	}
	var f *FileHandle
	var h3 Handle = f
	return h == nil, h2 == nil, h3 == nil
}

// RefusedHandleCall: a method call through the interface value (it may hold a nil pointer).
func RefusedHandleCall(p string) string {
	h, _ := OpenHandle(p)
	if h == nil {
		return ""
	}
	return h.Path()
}

// ---- path-sensitive ownership of a map field ----

type Desc struct {
	Name string
	Ann  map[string]string
}

// AddMeta writes d.Ann only where, on every path, it was replaced by a map created here.
func AddMeta(d Desc, meta map[string]string) (Desc, error) {
	if len(meta) > 0 {
		ann := make(map[string]string, len(d.Ann)+len(meta))
		for k, v := range d.Ann {
			ann[k] = v
		}
		d.Ann = ann
	}
	for k, v := range meta {
		if strings.HasPrefix(k, "io.") {
			return d, fmt.Errorf("reserved key %q", k)
		}
		if _, ok := d.Ann[k]; ok {
			return d, fmt.Errorf("key %q already present", k)
		}
		d.Ann[k] = v
	}
	return d, nil
}

func UseAddMeta(name string, keys []string, val string) (string, int, string, int, error) {
	orig := Desc{Name: name, Ann: map[string]string{"a": "1", "gone": "x"}}
	meta := map[string]string{}
	for _, k := range keys {
		meta[k] = val
	}
	out, err := AddMeta(orig, meta)
	if err != nil {
		// how far the loop got depends on Go's map order: only what does not
		return out.Name, -1, "", len(orig.Ann), err
	}
	return out.Name, len(out.Ann), out.Ann["a"] + out.Ann[name], len(orig.Ann), err
}

// RefusedOwnOutside: the write is not under the guard that made the map fresh.
func RefusedOwnOutside(d Desc, meta map[string]string) Desc {
	if len(meta) > 0 {
		d.Ann = make(map[string]string)
	}
	d.Ann["x"] = "y"
	return d
}

// RefusedOwnGuardChanged: the guard expression is assigned between the test and the loop.
func RefusedOwnGuardChanged(d Desc, meta, other map[string]string) Desc {
	if len(meta) > 0 {
		d.Ann = make(map[string]string)
	}
	meta = other
	for k, v := range meta {
		d.Ann[k] = v
	}
	return d
}

// RefusedOwnLostInLoop: the field is given a foreign map inside the loop: later iterations write to it.
func RefusedOwnLostInLoop(d Desc, meta, other map[string]string) Desc {
	d.Ann = make(map[string]string)
	for k, v := range meta {
		d.Ann[k] = v
		d.Ann = other
	}
	return d
}

// RefusedOwnReassigned: the fresh map is replaced by the caller's before the write.
func RefusedOwnReassigned(d Desc, other map[string]string) Desc {
	d.Ann = make(map[string]string)
	if len(other) > 2 {
		d.Ann = other
	}
	d.Ann["k"] = "v"
	return d
}

// ---- promoted fields, a map parameter written and replaced, an errors.As target used through an oracle method ----

type Inner struct {
	Media string
	N     int
}

type Outer struct {
	Inner
	Name string
}

func Promoted(media, name string, n int) (string, int) {
	o := Outer{Inner: Inner{Media: media, N: n}, Name: name}
	return o.Media + "/" + o.Name, o.N + len(o.Inner.Media)
}

// genAnn (NilIsEmpty) writes its map parameter and replaces it by a fresh map when it is nil.
func genAnn(ann map[string]string, k string) (map[string]string, error) {
	if k == "" {
		return nil, errors.New("no key")
	}
	if ann == nil {
		ann = make(map[string]string)
	}
	ann[k] = "v"
	return ann, nil
}

func UseGenAnn(k string, pre bool) (int, string, error) {
	var given map[string]string
	if pre {
		given = map[string]string{"p": "q"}
	}
	out, err := genAnn(given, k)
	return len(out), out["p"] + out[k], err
}

// RefusedUseAfterConsume: the caller looks at its variable after genAnn may have replaced the map.
func RefusedUseAfterConsume(k string) int {
	given := map[string]string{}
	_, _ = genAnn(given, k)
	return len(given)
}

type RefError struct {
	Op  string
	Err error
}

func (e *RefError) Error() string { return e.Op }
func (e *RefError) Unwrap() error { return e.Err }

// IsDelete is an oracle over the error errors.As finds.
func (e *RefError) IsDelete() bool { return e.Op == "delete" }

// pushIt is an oracle: a *RefError, one wrapped by %w, another error, or nil.
func pushIt(op string) error {
	switch {
	case op == "":
		return nil
	case strings.HasPrefix(op, "w:"):
		return fmt.Errorf("push: %w", &RefError{Op: op[2:]})
	case strings.HasPrefix(op, "a"):
		return errors.New(op)
	}
	return &RefError{Op: op}
}

func AsTarget(op string) string {
	if len(op) == 2 {
		op = "delete"
	} else if len(op) == 3 {
		op = "w:delete"
	}
	err := pushIt(op)
	if err != nil {
		var re *RefError
		if errors.As(err, &re) && re.IsDelete() {
			return "deleted"
		}
		return "failed"
	}
	return "ok"
}

// ---- fs.WalkDir with the SkipDir / SkipAll protocol (oracle option Walk) ----

// WalkFS is the file system the selftest walks: a MapFS whose directories named locked* fail to
// list after their first entry.
type WalkFS struct{ M fstest.MapFS }

func (w WalkFS) Open(name string) (fs.File, error) { return w.M.Open(name) }

func (w WalkFS) ReadDir(name string) ([]fs.DirEntry, error) {
	es, err := w.M.ReadDir(name)
	if err != nil {
		return es, err
	}
	if strings.HasPrefix(path.Base(name), "locked") {
		if len(es) > 1 {
			es = es[:1]
		}
		return es, errors.New("locked")
	}
	return es, nil
}

// WalkList: every way the callback can answer: nil, an error, fs.SkipDir on a directory, fs.SkipDir on a
// file (skips the rest of its directory), fs.SkipAll, and the second call that reports a ReadDir error.
func WalkList(fsys fs.FS, root string) ([]string, int, error) {
	if len(root)%4 != 1 {
		root = "." // most of the time the whole tree
	} else if len(root) == 1 {
		root = "lockedx"
	}
	var seen []string
	n := 0
	err := fs.WalkDir(fsys, root, func(p string, d fs.DirEntry, err error) error {
		n++
		if err != nil {
			if d == nil {
				return fmt.Errorf("root: %w", err)
			}
			seen = append(seen, "!"+p)
			if strings.HasSuffix(p, "x") {
				return fs.SkipDir
			}
			return nil
		}
		name := d.Name()
		if strings.HasPrefix(name, "skip") {
			return fs.SkipDir
		}
		if name == "stop" {
			return fs.SkipAll
		}
		if name == "bad" {
			return errors.New("bad entry")
		}
		if d.IsDir() {
			seen = append(seen, p+"/")
		} else {
			seen = append(seen, p)
		}
		return nil
	})
	return seen, n, err
}

// newRec is an oracle with FreshResults: the record it returns may be nil and is owned by the caller.
func newRec(s string) (*Rec, error) {
	if s == "" {
		return nil, errors.New("no name")
	}
	if s == "nil" {
		return nil, nil
	}
	return &Rec{Name: s, N: len(s)}, nil
}

func OwnedPtr(s string) (string, int, error) {
	r, err := newRec(s)
	if err != nil {
		return "", 0, err
	}
	if r == nil {
		return "nil", -1, nil
	}
	r.Name = r.Name + "!"
	r.N++
	return r.Name, r.N, nil
}

// OwnedPtrPanics writes through the fresh pointer without a nil check.
func OwnedPtrPanics(s string) int {
	r, _ := newRec(s)
	r.N += 2
	return r.N
}

// Finder is a one-method interface declared Nilable in the table: a value may be nil.
type Finder interface {
	Find(k string) (string, bool)
}

type MapFinder map[string]string

func (m MapFinder) Find(k string) (string, bool) { v, ok := m[k]; return v, ok }

func UseFinder(f Finder, k string) (string, bool, bool) {
	if f == nil {
		return "none", false, true
	}
	v, ok := f.Find(k)
	return v, ok, f == nil
}

// UseFinderPanics calls a method on a possibly nil interface value.
func UseFinderPanics(f Finder, k string) string {
	v, _ := f.Find(k)
	return v
}

// ---- constructs that must be refused ----

func RefusedLabel(xs []string) int {
	n := 0
outer:
	for _, x := range xs {
		for _, y := range xs {
			if x == y {
				continue outer
			}
			n++
		}
	}
	return n
}

func RefusedClosure(xs []string) int {
	n := 0
	f := func() { n++ }
	for range xs {
		f()
	}
	return n
}

// the captured variable changes after the literal was created
func RefusedCaptureLater(s string) string {
	p := "a"
	f := func() string { return p + s }
	p = "b"
	return f()
}

func RefusedErrCompare(k int) bool {
	return MakeErr(k) == MakeErr(1)
}

func RefusedAssertStruct(x any) bool {
	_, ok := x.(Rec)
	return ok
}

func RefusedAlias(m map[string]int) int {
	m["x"] = 1 // a write to the caller's map, made by a function that also returns something: fine (in/out);
	c := m     // but an alias of it that is written to is not
	c["y"] = 2
	return len(m)
}

// a pointer created here is copied, then the original is changed: the copy must see it
func RefusedPtrAlias(s string) int {
	p := &Rec{Name: s}
	r := p
	p.N = 5
	return r.N
}

func RefusedMapAlias2(k string) int {
	m := map[string]int{}
	hold := Rec{}
	other := map[string]map[string]int{"m": m}
	m[k] = 1
	return len(other["m"]) + hold.N
}

func RefusedStructMapAlias(k string) int {
	a := Rec{M: map[string]string{}}
	b := a
	a.M[k] = "v"
	return len(b.M)
}

// two slices that may share a backing array are both appended to
func RefusedAppendAlias(xs []string) string {
	var a []string
	a = append(a, xs...)
	b := a
	a = append(a, "x")
	b = append(b, "y")
	return a[len(a)-1] + b[len(b)-1]
}

func RefusedWhile(n int) int {
	for n > 10 {
		n -= 3
	}
	return n
}

func RefusedSliceWrite(xs []string) []string {
	if len(xs) > 0 {
		xs[0] = "w"
	}
	return xs
}

// Funcs lists the functions the selftest calls by reflection.
var Funcs = map[string]any{
	"Shadow": Shadow, "ShortAnd": ShortAnd, "ShortOr": ShortOr, "UnguardedIndex": UnguardedIndex,
	"RangeCopy": RangeCopy, "RangeIndex": RangeIndex, "NestedBreak": NestedBreak, "SwitchNoFall": SwitchNoFall,
	"SwitchTagless": SwitchTagless, "MapCount": MapCount, "MapParamSum": MapParamSum, "MapCopy": MapCopy,
	"DownLoop": DownLoop, "UpLoop": UpLoop, "Slice": Slice, "Divide": Divide, "DivConst": DivConst, "Wrap": Wrap,
	"Named": Named, "Compound": Compound, "Swap": Swap, "StructCopy": StructCopy, "PtrLocal": PtrLocal,
	"PtrDeref": PtrDeref, "PtrGuardAnd": PtrGuardAnd, "GlobalPtr": GlobalPtr, "Appends": Appends, "Strs": Strs,
	"Joins": Joins, "Zeros": Zeros, "MinMax": MinMax, "IndexBoth": IndexBoth, "Methods": Methods, "InOut": InOut,
	"TableScan": TableScan, "LoopState": LoopState,
	"StructErr": StructErr, "LocalRegex": LocalRegex, "UseGetter": UseGetter, "Dedup": Dedup, "GlobalMap": GlobalMap,
	"RangeForms": RangeForms, "ElseIfNil": ElseIfNil, "ReturnStruct": ReturnStruct, "SwitchInit": SwitchInit,
	"EvalOrder": EvalOrder, "NilSlices": NilSlices,
	"AnyKinds": AnyKinds, "AnyAssert": AnyAssert, "AnyEq": AnyEq, "AnyFields": AnyFields, "ContainsAnyOf": ContainsAnyOf,
	"MakeErr": MakeErr, "ErrQueries": ErrQueries, "AsPointer": AsPointer, "Closures": Closures, "ClosurePanics": ClosurePanics,
	"ClosureArg": ClosureArg,
	"ArrayRange": ArrayRange, "TimeZero": TimeZero, "JoinCollapse": JoinCollapse,
	"InOutPtr": InOutPtr, "Variadic": Variadic,
	"ErrKind": ErrKind, "AnySwitch": AnySwitch, "Bytes": Bytes, "Bits": Bits, "UseHolder": UseHolder,
	"UsePages": UsePages, "LocalIdentity": LocalIdentity, "UseStores": UseStores, "WalkList": WalkList, "Promoted": Promoted, "UseGenAnn": UseGenAnn, "AsTarget": AsTarget, "UseAddMeta": UseAddMeta, "HandleNil": HandleNil, "UseBlob": UseBlob, "MsgLocal": MsgLocal, "IsSkip": IsSkip, "LinkedElem": LinkedElem, "TypeAlias": TypeAlias, "StoreOf": StoreOf, "UseFill": UseFill, "Effects": Effects, "EffectPages": EffectPages, "EffectTail": EffectTail, "OwnedPtr": OwnedPtr, "OwnedPtrPanics": OwnedPtrPanics,
	"UseFinder": UseFinder, "UseFinderPanics": UseFinderPanics,
}

// NewRec re-exports the oracle newRec for the selftest.
func NewRec(s string) (*Rec, error) { return newRec(s) }

// MapGetter implements Getter for the selftest.
type MapGetter map[string]string

func (m MapGetter) Get(k string) (string, error) {
	if v, ok := m[k]; ok {
		return v, nil
	}
	return "", errors.New("missing")
}
