package main

// GoLite: statements, in continuation-passing style. Every statement is
// translated given the continuation `k` that produces the Gallina term of what
// follows it.

import (
	"fmt"
	"go/ast"
	"go/token"
	"go/types"
	"regexp"
	"strings"

	. "vh/kit"
)

var bindRe = regexp.MustCompile(`\| ([A-Za-z_0-9']+) :: ([A-Za-z_0-9']+) =>|let '\(([^)]*)\) :=|\(([A-Za-z_0-9']+) : `)

func (c *fn) block(list []ast.Stmt, k kont) string {
	if len(list) == 0 {
		return k()
	}
	return c.stmt(list[0], func() string { return c.block(list[1:], k) })
}

func (c *fn) saveViews() map[types.Object]string {
	m := map[types.Object]string{}
	for k, v := range c.views {
		m[k] = v
	}
	return m
}

// scoped runs f and restores the non-nil views afterwards.
func (c *fn) scoped(f func() string) string {
	saved := c.saveViews()
	bk, ck := len(c.breakK), len(c.contK)
	defer func() { c.views = saved; c.breakK = c.breakK[:bk]; c.contK = c.contK[:ck] }()
	return f()
}

// bind consumes an expression: f receives a Coq term of the plain type.
func (c *fn) bind(e cx, hint string, f func(v string) string) string {
	if !e.isOpt() {
		return f(e.s)
	}
	if !c.partial {
		panic(needPartial{})
	}
	saved := c.saveViews()
	defer func() { c.views = saved }()
	var rec func(i int) string
	rec = func(i int) string {
		if i < len(e.binds) {
			if o := e.binds[i].obj; o != nil {
				if cur, has := c.views[o]; has && cur != e.binds[i].v {
					// already known non-nil on this path: no second test
					return "let " + e.binds[i].v + " := " + cur + " in " + rec(i+1)
				}
				c.views[o] = e.binds[i].v
			}
			return "match " + e.binds[i].term + " with | Some " + e.binds[i].v + " => " + rec(i+1) + " | None => None end"
		}
		if e.opt {
			v := c.fresh(hint)
			return "match " + e.s + " with | Some " + v + " => " + f(v) + " | None => None end"
		}
		return f(e.s)
	}
	return rec(0)
}

// withJoin translates a statement whose continuation k may be reached from
// several places: k becomes a let-bound function of the variables assigned in
// the statement when it is used more than once, and is inlined otherwise.
func (c *fn) withJoin(n ast.Node, assigned []types.Object, k kont, body func(k2 kont) string) string {
	return c.withJoinF(n, assigned, k, false, body)
}

func (c *fn) withJoinF(n ast.Node, assigned []types.Object, k kont, force bool, body func(k2 kont) string) string {
	count := 0
	func() {
		saved := c.saveViews()
		nf := c.nfresh
		bk, ck := len(c.breakK), len(c.contK)
		defer func() { c.views = saved; c.nfresh = nf; c.breakK = c.breakK[:bk]; c.contK = c.contK[:ck] }()
		usedSaved := map[string]bool{}
		for k, v := range c.used {
			usedSaved[k] = v
		}
		namesSaved := map[types.Object]string{}
		for k, v := range c.names {
			namesSaved[k] = v
		}
		defer func() { c.used = usedSaved; c.names = namesSaved }()
		nl, nlo, nlf := c.nloops, len(c.localOrder), len(c.lifted)
		defer func() {
			for _, x := range c.localOrder[nlo:] {
				delete(c.localTypes, x)
			}
			c.localOrder, c.nloops, c.lifted = c.localOrder[:nlo], nl, c.lifted[:nlf]
		}()
		if !force {
			body(func() string { count++; return "" })
		}
	}()
	if count <= 1 && !force {
		return body(k)
	}
	name := c.fresh("k")
	var params, args []string
	for _, o := range assigned {
		params = append(params, fmt.Sprintf("(%s : %s)", c.nameOf(o), c.varType(o)))
		args = append(args, c.nameOf(o))
	}
	if len(params) == 0 {
		params = []string{"(_ : unit)"}
		args = []string{"tt"}
	}
	nl, nlo, nlf, nf := c.nloops, len(c.localOrder), len(c.lifted), c.nfresh
	usedSaved2 := map[string]bool{}
	for k, v := range c.used {
		usedSaved2[k] = v
	}
	namesSaved2 := map[types.Object]string{}
	for k, v := range c.names {
		namesSaved2[k] = v
	}
	kbody := c.scoped(func() string {
		for _, o := range assigned {
			delete(c.views, o)
		}
		return k()
	})
	var ptys []string
	for _, o := range assigned {
		ptys = append(ptys, c.varType(o))
	}
	if len(ptys) == 0 {
		ptys = []string{"unit"}
	}
	c.regLocal(name, "("+strings.Join(append(ptys, c.retType), " -> ")+")")
	call := "(" + name + " " + strings.Join(args, " ") + ")"
	if force {
		return "let " + name + " := (fun " + strings.Join(params, " ") + " => " + kbody + ") in " + body(func() string { return call })
	}
	inner := body(func() string { return call })
	if strings.Count(inner, call) <= 1 {
		for _, x := range c.localOrder[nlo:] {
			delete(c.localTypes, x)
		}
		c.localOrder, c.nloops, c.lifted, c.nfresh = c.localOrder[:nlo], nl, c.lifted[:nlf], nf
		c.used, c.names = usedSaved2, namesSaved2
		// the uses collapsed (e.g. branches that only log): inline after all
		return body(k)
	}
	return "let " + name + " := (fun " + strings.Join(params, " ") + " => " + kbody + ") in " + inner
}

func (c *fn) stmt(s ast.Stmt, k kont) string {
	switch s := s.(type) {
	case *ast.ReturnStmt:
		return c.returnStmt(s)
	case *ast.BlockStmt:
		return c.block(s.List, k)
	case *ast.EmptyStmt:
		return k()
	case *ast.IfStmt:
		return c.ifStmt(s, k)
	case *ast.SwitchStmt:
		return c.switchStmt(s, k)
	case *ast.TypeSwitchStmt:
		return c.typeSwitchStmt(s, k)
	case *ast.ForStmt:
		return c.forStmt(s, k)
	case *ast.RangeStmt:
		return c.rangeStmt(s, k)
	case *ast.AssignStmt:
		return c.assignStmt(s, k)
	case *ast.IncDecStmt:
		one := cx{s: "1"}
		op := token.ADD
		if s.Tok == token.DEC {
			op = token.SUB
		}
		return c.update(s.X, func(old cx) cx { return c.arith(s, op, old, one, c.tyOf(s.X)) }, k)
	case *ast.DeclStmt:
		return c.declStmt(s, k)
	case *ast.ExprStmt:
		return c.exprStmt(s, k)
	case *ast.BranchStmt:
		if s.Label != nil {
			c.fail(s, "labelled %s is not supported", s.Tok)
		}
		switch s.Tok {
		case token.BREAK:
			if len(c.breakK) == 0 {
				c.fail(s, "break outside a loop or switch")
			}
			return c.breakK[len(c.breakK)-1]()
		case token.CONTINUE:
			if len(c.contK) == 0 {
				c.fail(s, "continue outside a loop")
			}
			return c.contK[len(c.contK)-1]()
		}
		c.fail(s, "%s is not supported", s.Tok)
	case *ast.DeferStmt:
		if c.droppableCall(s.Call) {
			return c.dropCall(s.Call, k)
		}
		if lit, ok := unparen(s.Call.Fun).(*ast.FuncLit); ok {
			return c.deferLit(s, lit, k)
		}
		c.fail(s, "defer of a call that is neither droppable nor a function literal")
	}
	c.fail(s, "statement %T is not in the GoLite subset", s)
	return ""
}

func (c *fn) returnStmt(s *ast.ReturnStmt) string {
	if n := len(c.cbRet); n > 0 {
		// a return of the callback literal whose body is being folded over the pages
		if len(s.Results) != 1 {
			c.fail(s, "return of a callback with %d values", len(s.Results))
		}
		return c.cbRet[n-1](c.exprAs(s.Results[0], types.Universe.Lookup("error").Type()))
	}
	if n := len(c.deferRet); n > 0 {
		// a return of the deferred literal whose body is being run
		if len(s.Results) != 0 {
			c.fail(s, "return with values inside a deferred function literal")
		}
		return c.deferRet[n-1]()
	}
	res := c.sig.Results()
	if len(s.Results) == 0 {
		return c.finish(s, nil)
	}
	// return f(..) where f rebinds variables of this function (the world, in/out arguments): the call first
	for i, r := range s.Results {
		call, ok := unparen(r).(*ast.CallExpr)
		if !ok {
			continue
		}
		if tv, isT := c.info.Types[call.Fun]; isT && tv.IsType() {
			continue
		}
		fi, _, recv := c.calleeInfoSafe(call)
		if fi == nil || !fi.rebinds() || fi.cbPage != "" {
			continue
		}
		if len(s.Results) == 1 {
			if cv := c.checkTupleRepr(s, call, func(j int) types.Type { return res.At(j).Type() }); cv != nil {
				c.fail(s, "return of a call that changes the world / an in-out argument with an interface conversion of a result")
			}
			var tmps []ast.Expr
			var names []string
			for j := 0; j < fi.nres; j++ {
				id := &ast.Ident{Name: "t"}
				c.synthIdent[id] = c.fresh("t")
				tmps = append(tmps, id)
				names = append(names, c.synthIdent[id])
			}
			if fi.nres != res.Len() {
				c.fail(s, "return with %d values for %d results", fi.nres, res.Len())
			}
			return c.inoutCall(s, call, fi, recv, tmps, func() string { return c.finish(s, names) })
		}
		_ = i
		c.fail(r, "a call that changes the world or an in/out argument among several returned values")
	}
	if len(s.Results) == 1 && res.Len() > 1 {
		// return f(): the tuple of a call
		if convs := c.checkTupleRepr(s, s.Results[0], func(i int) types.Type { return res.At(i).Type() }); convs != nil {
			e := c.expr(s.Results[0])
			return c.bind(e, "t", func(tv string) string {
				var pats, vals []string
				for i := range convs {
					t := c.fresh("t")
					pats = append(pats, t)
					if convs[i] != nil {
						vals = append(vals, convs[i](t))
					} else {
						vals = append(vals, t)
					}
				}
				return "let '(" + strings.Join(pats, ", ") + ") := " + tv + " in " + c.finish(s, vals)
			})
		}
		e := c.expr(s.Results[0])
		if len(c.inout) > 0 {
			c.fail(s, "return of a multi-valued call in a function with mutated map parameters")
		}
		if len(c.deferred) > 0 {
			c.fail(s, "return of a multi-valued call with deferred function literals pending")
		}
		if e.isOpt() {
			if !c.partial {
				panic(needPartial{})
			}
			return c.render(e)
		}
		if c.partial {
			return "(Some " + e.s + ")"
		}
		return e.s
	}
	if len(s.Results) != res.Len() {
		c.fail(s, "return with %d values for %d results", len(s.Results), res.Len())
	}
	var es []cx
	for i, r := range s.Results {
		es = append(es, c.exprAs(r, res.At(i).Type()))
	}
	return c.bindAll(es, "r", func(vs []string) string { return c.finish(s, vs) })
}

// deferLit registers `defer func() { .. }()`: the body of the literal runs at
// every return generated after this point (the statement must be at the top
// level of the function body, so "after" is also "later in time"). The
// literal may read the named results and the locals; it must not assign
// variables declared outside itself, nor recover.
func (c *fn) deferLit(s *ast.DeferStmt, lit *ast.FuncLit, k kont) string {
	top := false
	for _, st := range c.decl.Body.List {
		if st == ast.Stmt(s) {
			top = true
		}
	}
	if !top || c.loopDepth > 0 || len(c.cbRet) > 0 || c.noEffect > 0 || len(c.deferRet) > 0 {
		c.fail(s, "defer of a function literal that is not at the top level of the function body")
	}
	if len(s.Call.Args) != 0 || lit.Type.Params.NumFields() != 0 || (lit.Type.Results != nil && lit.Type.Results.NumFields() != 0) {
		c.fail(s, "deferred function literal with parameters or results")
	}
	if as := c.assignedIn(lit); len(as) > 0 {
		for _, o := range as {
			if o != types.Object(c.worldObj) {
				c.fail(s, "the deferred function literal assigns %s, which is declared outside it", o.Name())
			}
		}
	}
	ast.Inspect(lit.Body, func(n ast.Node) bool {
		switch x := n.(type) {
		case *ast.CallExpr:
			if id, ok := unparen(x.Fun).(*ast.Ident); ok {
				if b, ok := c.info.Uses[id].(*types.Builtin); ok && b.Name() == "recover" {
					c.fail(x, "recover is not supported")
				}
			}
		case *ast.DeferStmt, *ast.GoStmt:
			c.fail(n, "defer / go inside a deferred function literal")
		}
		return true
	})
	n := len(c.deferred)
	c.deferred = append(c.deferred, lit)
	defer func() { c.deferred = c.deferred[:n] }()
	return k()
}

// finish: what a return yields. The pending deferred literals run first (last
// registered first), after the returned values were stored in the named
// results (or in temporaries).
func (c *fn) finish(n ast.Node, vals []string) string {
	ds := c.deferred
	if len(ds) == 0 {
		return c.returnTerm(n, vals)
	}
	pre := ""
	if vals != nil {
		if len(c.namedRes) > 0 {
			if len(vals) != len(c.namedRes) {
				c.fail(n, "return with %d values for %d named results", len(vals), len(c.namedRes))
			}
			tmps := make([]string, len(vals))
			for i, v := range vals {
				tmps[i] = c.fresh("r")
				pre += "let " + tmps[i] + " := " + v + " in "
			}
			for i, r := range c.namedRes {
				pre += c.letVar(r, tmps[i])
			}
			vals = nil
		} else {
			tmps := make([]string, len(vals))
			for i, v := range vals {
				tmps[i] = c.fresh("r")
				pre += "let " + tmps[i] + " := " + v + " in "
			}
			vals = tmps
		}
	}
	c.deferred = nil
	defer func() { c.deferred = ds }()
	var rec func(i int) string
	rec = func(i int) string {
		if i < 0 {
			return c.returnTerm(n, vals)
		}
		nd := len(c.deferRet)
		c.deferRet = append(c.deferRet, func() string {
			saved := c.deferRet
			c.deferRet = c.deferRet[:nd]
			defer func() { c.deferRet = saved }()
			return rec(i - 1)
		})
		defer func() { c.deferRet = c.deferRet[:nd] }()
		return c.scoped(func() string {
			return c.block(ds[i].Body.List, func() string { return c.deferRet[nd]() })
		})
	}
	return pre + rec(len(ds)-1)
}

func (c *fn) bindAll(es []cx, hint string, f func(vs []string) string) string {
	vs := make([]string, len(es))
	var rec func(i int) string
	rec = func(i int) string {
		if i == len(es) {
			return f(vs)
		}
		return c.bind(es[i], hint, func(v string) string { vs[i] = v; return rec(i + 1) })
	}
	return rec(0)
}

// nilTest recognises `p == nil` / `p != nil` on a pointer variable that is
// represented as a ptr (returns the object and whether the test is ==).
func (c *fn) nilTest(e ast.Expr) (types.Object, bool, bool) {
	be, ok := unparen(e).(*ast.BinaryExpr)
	if !ok || (be.Op != token.EQL && be.Op != token.NEQ) {
		return nil, false, false
	}
	x, y := unparen(be.X), unparen(be.Y)
	if c.isNilExpr(x) {
		x, y = y, x
	}
	if !c.isNilExpr(y) {
		return nil, false, false
	}
	id, ok := x.(*ast.Ident)
	if !ok {
		return nil, false, false
	}
	o := c.objOf(id)
	if o == nil || !c.isLocal(o) || c.asValue[o] || (c.g.kind(o.Type(), c.sub) != kPtr && c.g.kind(o.Type(), c.sub) != kNilable) {
		return nil, false, false
	}
	return o, be.Op == token.EQL, true
}

func (c *fn) isNilExpr(e ast.Expr) bool {
	id, ok := unparen(e).(*ast.Ident)
	if !ok {
		return false
	}
	_, isNil := c.info.Uses[id].(*types.Nil)
	return isNil
}

func (c *fn) ifStmt(s *ast.IfStmt, k kont) string {
	assigned := c.assignedIn(s)
	return c.withJoin(s, assigned, k, func(k2 kont) string {
		core := func() string {
			branch := func(st ast.Stmt) string {
				return c.scoped(func() string {
					if st == nil {
						return k2()
					}
					return c.stmt(st, k2)
				})
			}
			var elseSt ast.Stmt
			if s.Else != nil {
				elseSt = s.Else
			}
			if o, isEq, ok := c.nilTest(s.Cond); ok {
				v := c.fresh(c.nameOf(o) + "_v")
				c.regLocal(v, c.g.ptrElemType(o.Type(), c.sub))
				nilBranch, someBranch := ast.Stmt(s.Body), elseSt
				if !isEq {
					nilBranch, someBranch = elseSt, ast.Stmt(s.Body)
				}
				if cur, has := c.views[o]; has {
					// already known non-nil
					_ = cur
					return branch(someBranch)
				}
				noneT := branch(nilBranch)
				someT := c.scoped(func() string {
					c.views[o] = v
					if someBranch == nil {
						return k2()
					}
					return c.stmt(someBranch, k2)
				})
				return "match ptr_val " + c.nameOf(o) + " with | Some " + v + " => " + someT + " | None => " + noneT + " end"
			}
			// `if err != nil {..}` / `if err == nil {..} else {..}`: the error variable is non-nil in that branch
			var errObj types.Object
			errInThen := false
			if be, ok := unparen(s.Cond).(*ast.BinaryExpr); ok && (be.Op == token.NEQ || be.Op == token.EQL) {
				x, y := unparen(be.X), unparen(be.Y)
				if c.isNilExpr(x) {
					x, y = y, x
				}
				if id, ok := x.(*ast.Ident); ok && c.isNilExpr(y) && c.kindOf(x) == kError {
					errObj, errInThen = c.objOf(id), be.Op == token.NEQ
				}
			}
			withErr := func(inThen bool, f func() string) string {
				if errObj == nil || inThen != errInThen || c.nonNilErr[errObj] {
					return f()
				}
				c.nonNilErr[errObj] = true
				defer delete(c.nonNilErr, errObj)
				return f()
			}
			cond := c.expr(s.Cond)
			if s.Else == nil && c.onlyLogs(s.Body) {
				// a branch that only logs: the condition is evaluated (it may panic), nothing else happens
				return c.bind(cond, "c", func(string) string { return branch(nil) })
			}
			return c.bind(cond, "c", func(cv string) string {
				thenT := withErr(true, func() string { return branch(s.Body) })
				elseT := withErr(false, func() string { return branch(elseSt) })
				if thenT == elseT {
					return thenT // e.g. a branch that only logs
				}
				return "if " + cv + " then " + thenT + " else " + elseT
			})
		}
		if s.Init != nil {
			return c.stmt(s.Init, core)
		}
		return core()
	})
}

// onlyLogs: the block consists of droppable (logging) calls whose arguments
// evaluate without a panic.
func (c *fn) onlyLogs(b *ast.BlockStmt) bool {
	if len(b.List) == 0 {
		return false
	}
	for _, st := range b.List {
		es, ok := st.(*ast.ExprStmt)
		if !ok {
			return false
		}
		call, ok := unparen(es.X).(*ast.CallExpr)
		if !ok || !c.droppableCall(call) {
			return false
		}
		for _, a := range call.Args {
			if _, need := c.argEffect(a); need {
				return false
			}
		}
	}
	return true
}

func (c *fn) switchStmt(s *ast.SwitchStmt, k kont) string {
	assigned := c.assignedIn(s)
	return c.withJoin(s, assigned, k, func(k2 kont) string {
		core := func() string {
			var clauses []*ast.CaseClause
			var def *ast.CaseClause
			for _, st := range s.Body.List {
				cc := st.(*ast.CaseClause)
				for _, b := range cc.Body {
					if br, ok := b.(*ast.BranchStmt); ok && br.Tok == token.FALLTHROUGH {
						c.fail(br, "fallthrough is not supported")
					}
				}
				if cc.List == nil {
					def = cc
				} else {
					clauses = append(clauses, cc)
				}
			}
			body := func(cc *ast.CaseClause) string {
				return c.scoped(func() string {
					c.breakK = append(c.breakK, k2)
					if cc == nil {
						return k2()
					}
					return c.block(cc.Body, k2)
				})
			}
			chain := func(tag string, tagType types.Type) string {
				var rec func(i int) string
				rec = func(i int) string {
					if i == len(clauses) {
						return body(def)
					}
					cc := clauses[i]
					var conds []cx
					for _, e := range cc.List {
						if tag == "" {
							conds = append(conds, c.expr(e))
						} else {
							conds = append(conds, c.equal(e, cx{s: tag}, c.exprAs(e, tagType), tagType, true))
						}
					}
					cond := conds[0]
					for _, x := range conds[1:] {
						cond = c.shortCircuit(token.LOR, cond, x)
					}
					return c.bind(cond, "c", func(cv string) string {
						return "if " + cv + " then " + body(cc) + " else " + rec(i+1)
					})
				}
				return rec(0)
			}
			if s.Tag == nil {
				return chain("", nil)
			}
			tagT := c.tyOf(s.Tag)
			return c.bind(c.expr(s.Tag), "tag", func(tv string) string {
				if !isSimpleTerm(tv) {
					t := c.fresh("tag")
					return "let " + t + " := " + tv + " in " + chain(t, tagT)
				}
				return chain(tv, tagT)
			})
		}
		if s.Init != nil {
			return c.stmt(s.Init, core)
		}
		return core()
	})
}

func isSimpleTerm(s string) bool {
	for _, r := range s {
		if !(r == '_' || r == '\'' || r >= '0' && r <= '9' || r >= 'a' && r <= 'z' || r >= 'A' && r <= 'Z') {
			return false
		}
	}
	return s != ""
}

// loop builds the loop over a list as a top-level Fixpoint (lambda-lifted: the
// local variables it mentions become parameters) and returns the call.
// elemT is the Coq type of the list elements; bindElem receives the element
// variable and wraps the body term. A loop nested in another loop receives
// what follows it as a continuation parameter.
func (c *fn) loop(n ast.Node, list cx, elemT string, withIdx bool, bindElem func(x, idx string, body func() string) string, body *ast.BlockStmt, k kont) string {
	carried := c.assignedIn(n)
	nested := c.loopDepth > 0
	return c.withJoinF(n, carried, k, nested, func(kAfter kont) string {
		return c.bind(list, "l", func(lv string) string {
			snapshot := len(c.localOrder)
			c.nloops++
			id := c.nloops
			rec := fmt.Sprintf("@REC%d@", id)
			l := c.fresh("l")
			x := c.fresh("x")
			idx := ""
			if withIdx {
				idx = c.fresh("i")
			}
			var params, args, next []string
			own := map[string]bool{l: true, l + "'": true, x: true}
			params = append(params, fmt.Sprintf("(%s : list %s)", l, elemT))
			if withIdx {
				params = append(params, fmt.Sprintf("(%s : Z)", idx))
				next = append(next, "("+idx+" + 1)")
				own[idx] = true
			}
			for _, o := range carried {
				params = append(params, fmt.Sprintf("(%s : %s)", c.nameOf(o), c.varType(o)))
				args = append(args, c.nameOf(o))
				own[c.nameOf(o)] = true
			}
			inner := c.scoped(func() string {
				for _, o := range carried {
					delete(c.views, o)
				}
				c.loopDepth++
				defer func() { c.loopDepth-- }()
				nilCase := kAfter()
				cont := func() string {
					return "(" + strings.Join(append(append([]string{rec, l + "'"}, next...), args...), " ") + ")"
				}
				consCase := c.scoped(func() string {
					c.breakK = append(c.breakK, kAfter)
					c.contK = append(c.contK, cont)
					return bindElem(x, idx, func() string { return c.block(body.List, cont) })
				})
				return "match " + l + " with | [] => " + nilCase + " | " + x + " :: " + l + "' => " + consCase + " end"
			})
			// the free local names of the body become parameters
			var free, freeParams []string
			seen := map[string]bool{}
			for _, tok := range coqIdents(inner) {
				if seen[tok] || own[tok] {
					continue
				}
				seen[tok] = true
				ty, ok := c.localTypes[tok]
				if !ok {
					if _, isVar := c.nameObj[tok]; isVar {
						c.fail(n, "internal: the type of local %s is not known while lifting a loop", tok)
					}
					continue
				}
				external := false
				if o, isVar := c.nameObj[tok]; isVar {
					external = o.Pos() < n.Pos()
				} else {
					for _, nm := range c.localOrder[:snapshot] {
						if nm == tok {
							external = true
						}
					}
				}
				if external {
					free = append(free, tok)
					freeParams = append(freeParams, fmt.Sprintf("(%s : %s)", tok, ty))
				}
			}
			fname := fmt.Sprintf("%s_loop%d", c.fi.name, id)
			if owner, taken := c.g.names[fname]; taken && owner != "loop:"+c.fi.name {
				c.fail(n, "name %s is taken", fname)
			}
			c.g.names[fname] = "loop:" + c.fi.name
			head := strings.Join(append([]string{fname}, free...), " ")
			inner = strings.ReplaceAll(inner, rec, head)
			if strings.Contains(inner, "@REC") {
				c.fail(n, "internal: a loop body refers to the recursion of an enclosing loop")
			}
			c.checkClosed(n, inner, append(append([]string{}, free...), keys(own)...))
			def := fmt.Sprintf("(* loop %d of %s  [%s] *)\nFixpoint %s %s {struct %s} : %s :=\n  %s.",
				id, cmt(c.fi.label), c.g.L.pos(n.Pos(), c.pkg), fname, strings.Join(append(freeParams, params...), " "), l, c.retType, indentTerm(inner))
			c.lifted = append(c.lifted, def)
			init := []string{lv}
			if withIdx {
				init = append(init, "0")
			}
			return "(" + strings.Join(append(append([]string{head}, init...), args...), " ") + ")"
		})
	})
}

func keys(m map[string]bool) []string {
	var out []string
	for k := range m {
		out = append(out, k)
	}
	return out
}

// coqIdents lists the identifier tokens of a generated term (string literals
// and comments skipped), in order of occurrence.
func coqIdents(s string) []string {
	var out []string
	i := 0
	for i < len(s) {
		ch := s[i]
		switch {
		case ch == '"':
			i++
			for i < len(s) {
				if s[i] == '"' {
					if i+1 < len(s) && s[i+1] == '"' {
						i += 2
						continue
					}
					break
				}
				i++
			}
			i++
		case ch == '(' && i+1 < len(s) && s[i+1] == '*':
			j := strings.Index(s[i:], "*)")
			if j < 0 {
				return out
			}
			i += j + 2
		case ch == '_' || ch >= 'a' && ch <= 'z' || ch >= 'A' && ch <= 'Z':
			j := i
			for j < len(s) && (s[j] == '_' || s[j] == '\'' || s[j] == '.' || s[j] >= 'a' && s[j] <= 'z' || s[j] >= 'A' && s[j] <= 'Z' || s[j] >= '0' && s[j] <= '9') {
				j++
			}
			out = append(out, s[i:j])
			i = j
		default:
			i++
		}
	}
	return out
}

// checkClosed is the scope check of an emitted definition: every identifier
// of the text is a parameter, is bound inside the text, is a global this file
// defines, or belongs to Coq / GoLib. A function whose text fails the check
// is unsupported (never an ill-scoped Cxx_Gen.v).
func (c *fn) checkClosed(n ast.Node, text string, params []string) {
	ok := map[string]bool{"_": true}
	for _, p := range params {
		ok[p] = true
	}
	toks := coqIdents(text)
	for i, t := range toks {
		if i > 0 && (toks[i-1] == "fun" || toks[i-1] == "let" || toks[i-1] == "Some") {
			ok[t] = true
		}
	}
	// binders of patterns: | x :: l' =>   let '(a, b) :=   (x : T)
	for _, m := range bindRe.FindAllStringSubmatch(text, -1) {
		for _, g := range m[1:] {
			for _, t := range coqIdents(g) {
				ok[t] = true
			}
		}
	}
	for _, t := range toks {
		if ok[t] || strings.Contains(t, ".") || reservedCoq[t] {
			continue
		}
		if _, global := c.g.names[t]; global {
			continue
		}
		c.fail(n, "internal: identifier %s would be unbound in the generated definition", t)
	}
}

func (c *fn) rangeStmt(s *ast.RangeStmt, k kont) string {
	xt := resolve(c.tyOf(s.X), c.sub)
	kind := c.g.kind(xt, c.sub)
	keyObj, valObj := types.Object(nil), types.Object(nil)
	getVar := func(e ast.Expr) types.Object {
		if e == nil {
			return nil
		}
		id, ok := unparen(e).(*ast.Ident)
		if !ok {
			c.fail(e, "range variable is not an identifier")
		}
		if id.Name == "_" {
			return nil
		}
		if s.Tok != token.DEFINE {
			c.fail(s, "range with = (assignment to existing variables) is not supported")
		}
		return c.objOf(id)
	}
	keyObj, valObj = getVar(s.Key), getVar(s.Value)
	let := func(o types.Object, v string, rest string) string {
		if o == nil {
			return rest
		}
		return "let " + c.nameOf(o) + " := " + v + " in " + rest
	}
	switch kind {
	case kSlice:
		elemT := c.g.typ(elemOf(xt), c.sub)
		return c.loop(s, c.expr(s.X), elemT, keyObj != nil, func(x, idx string, body func() string) string {
			// names are bound before the body is translated
			a := func() string { return body() }
			if keyObj != nil {
				c.nameOf(keyObj)
			}
			if valObj != nil {
				c.nameOf(valObj)
			}
			return let(keyObj, idx, let(valObj, x, a()))
		}, s.Body, k)
	case kMap:
		m := xt.Underlying().(*types.Map)
		if id := c.rootIdent(s.X); id != nil {
			if o := c.objOf(id); o != nil {
				for _, a := range c.assignedIn(s.Body) {
					if a == o {
						c.fail(s, "the map %s is modified while it is ranged over", id.Name)
					}
				}
			}
		}
		kt, vt := c.g.typ(m.Key(), c.sub), c.g.typ(m.Elem(), c.sub)
		eqb := c.g.eqbFor(m.Key(), c.sub)
		list := c.expr(s.X)
		list = c.lift([]cx{list}, func(v []string) string { return "(map_entries " + eqb + " " + v[0] + ")" })
		return c.loop(s, list, "("+kt+" * "+vt+")", false, func(x, idx string, body func() string) string {
			if keyObj != nil {
				c.nameOf(keyObj)
			}
			if valObj != nil {
				c.nameOf(valObj)
			}
			return let(keyObj, "(fst "+x+")", let(valObj, "(snd "+x+")", body()))
		}, s.Body, k)
	}
	c.fail(s, "range over %s is not supported", types.TypeString(xt, nil))
	return ""
}

// forStmt supports the two counted forms
//
//	for i := a; i < b; i++     and     for i := a; i >= b; i--
//
// (also <= and >) when i and the variables of the bound are not assigned in the body.
func (c *fn) forStmt(s *ast.ForStmt, k kont) string {
	bad := func(why string) string {
		c.fail(s, "for loop is not of a supported counted form: %s", why)
		return ""
	}
	init, ok := s.Init.(*ast.AssignStmt)
	if !ok || init.Tok != token.DEFINE || len(init.Lhs) != 1 || len(init.Rhs) != 1 {
		return bad("init must be i := a")
	}
	iv, ok := init.Lhs[0].(*ast.Ident)
	if !ok {
		return bad("init must be i := a")
	}
	io := c.objOf(iv)
	if c.g.kind(io.Type(), c.sub) != kInt {
		return bad("the counter is not an integer")
	}
	post, ok := s.Post.(*ast.IncDecStmt)
	if !ok {
		return bad("post must be i++ or i--")
	}
	if pid, ok := unparen(post.X).(*ast.Ident); !ok || c.objOf(pid) != io {
		return bad("post must be i++ or i--")
	}
	cond, ok := unparen(s.Cond).(*ast.BinaryExpr)
	if !ok {
		return bad("condition must compare i with a bound")
	}
	if cid, ok := unparen(cond.X).(*ast.Ident); !ok || c.objOf(cid) != io {
		return bad("condition must compare i with a bound")
	}
	// nothing the bound reads, nor i, may be assigned in the body
	assignedBody := map[types.Object]bool{}
	ast.Inspect(s.Body, func(n ast.Node) bool {
		switch x := n.(type) {
		case *ast.AssignStmt:
			for _, l := range x.Lhs {
				if id := c.rootIdent(l); id != nil {
					assignedBody[c.objOf(id)] = true
				}
			}
		case *ast.IncDecStmt:
			if id := c.rootIdent(x.X); id != nil {
				assignedBody[c.objOf(id)] = true
			}
		case *ast.UnaryExpr:
			if x.Op == token.AND {
				if id := c.rootIdent(x.X); id != nil && c.objOf(id) == io {
					c.fail(x, "the address of the loop counter is taken")
				}
			}
		}
		return true
	})
	if assignedBody[io] {
		return bad("the counter is assigned in the body")
	}
	hasCall := false
	ast.Inspect(cond.Y, func(n ast.Node) bool {
		switch x := n.(type) {
		case *ast.Ident:
			if o := c.objOf(x); o != nil && assignedBody[o] {
				hasCall = true
			}
		case *ast.CallExpr:
			if id, ok := unparen(x.Fun).(*ast.Ident); ok {
				if b, ok := c.info.Uses[id].(*types.Builtin); ok && b.Name() == "len" {
					return true
				}
			}
			hasCall = true
		}
		return true
	})
	if hasCall {
		return bad("the bound may change while the loop runs")
	}
	a := c.expr(init.Rhs[0])
	b := c.expr(cond.Y)
	var list cx
	up := post.Tok == token.INC
	switch {
	case up && cond.Op == token.LSS:
		list = c.lift([]cx{a, b}, func(v []string) string { return "(zrange_up " + v[0] + " " + v[1] + ")" })
	case up && cond.Op == token.LEQ:
		list = c.lift([]cx{a, b}, func(v []string) string { return "(zrange_up " + v[0] + " (" + v[1] + " + 1))" })
	case !up && cond.Op == token.GEQ:
		list = c.lift([]cx{a, b}, func(v []string) string { return "(zrange_down " + v[0] + " " + v[1] + ")" })
	case !up && cond.Op == token.GTR:
		list = c.lift([]cx{a, b}, func(v []string) string { return "(zrange_down " + v[0] + " (" + v[1] + " + 1))" })
	default:
		return bad("direction of the counter and comparison do not match")
	}
	return c.loop(s, list, "Z", false, func(x, idx string, body func() string) string {
		n := c.nameOf(io)
		return "let " + n + " := " + x + " in " + body()
	}, s.Body, k)
}

func (c *fn) declStmt(s *ast.DeclStmt, k kont) string {
	gd, ok := s.Decl.(*ast.GenDecl)
	if !ok || gd.Tok != token.VAR {
		if ok && gd.Tok == token.CONST {
			return k() // constants are folded at their uses
		}
		c.fail(s, "declaration is not supported")
	}
	var specs []*ast.ValueSpec
	for _, sp := range gd.Specs {
		specs = append(specs, sp.(*ast.ValueSpec))
	}
	var rec func(i int) string
	rec = func(i int) string {
		if i == len(specs) {
			return k()
		}
		vs := specs[i]
		if len(vs.Values) != 0 && len(vs.Values) != len(vs.Names) {
			c.fail(vs, "var with a multi-valued initialiser is not supported")
		}
		var recN func(j int) string
		recN = func(j int) string {
			if j == len(vs.Names) {
				return rec(i + 1)
			}
			id := vs.Names[j]
			if id.Name == "_" {
				if len(vs.Values) > 0 {
					return c.bind(c.expr(vs.Values[j]), "d", func(string) string { return recN(j + 1) })
				}
				return recN(j + 1)
			}
			o := c.objOf(id)
			if c.g.kind(o.Type(), c.sub) == kDropped {
				return recN(j + 1)
			}
			var val cx
			if len(vs.Values) > 0 {
				val = c.exprForVar(o, vs.Values[j])
			} else {
				val = cx{s: c.g.zero(o.Type(), c.sub)}
			}
			return c.bind(val, "d", func(v string) string {
				delete(c.views, o)
				return c.letVar(o, v) + recN(j+1)
			})
		}
		return recN(0)
	}
	return rec(0)
}

// exprForVar translates the value assigned to variable o (a pointer variable
// held by value receives the pointee).
func (c *fn) exprForVar(o types.Object, e ast.Expr) cx {
	if lit, ok := unparen(e).(*ast.FuncLit); ok {
		if len(c.assignPositions()[o]) > 0 {
			c.fail(e, "the variable %s that holds a function literal is assigned again", o.Name())
		}
		r, isOpt := c.funcLit(lit)
		c.closureVar[o] = true
		c.closureOpt[o] = isOpt
		delete(c.localTypes, c.nameOf(o))
		c.regLocal(c.nameOf(o), c.varType(o))
		return r
	}
	if c.asValue[o] {
		return c.pointee(e)
	}
	if c.msgOnlyVar(o) {
		// a string that only ever becomes (part of) an error message or a log line: it holds the format
		return c.msgOf(e)
	}
	r := c.exprAs(e, o.Type())
	if c.opts != nil && c.g.kind(o.Type(), c.sub) == kError {
		for _, n := range c.opts.LocalErrorIdentity {
			if n == o.Name() {
				// an error-typed local with an identity of its own: the identity replaces the typ
				done := false
				for _, pre := range []string{`(Some (Err "errors" `, `(Some (Err "fmt" `} {
					if strings.HasPrefix(r.s, pre) {
						r.s = "(Some (Err " + CStr("error#"+o.Name()) + " " + r.s[len(pre):]
						done = true
					}
				}
				if !done {
					c.fail(e, "LocalErrorIdentity: %s is not initialised by errors.New / fmt.Errorf", o.Name())
				}
			}
		}
	}
	return r
}

func (c *fn) exprStmt(s *ast.ExprStmt, k kont) string {
	call, ok := unparen(s.X).(*ast.CallExpr)
	if !ok {
		c.fail(s, "expression statement is not a call")
	}
	if c.droppableCall(call) {
		return c.dropCall(call, k)
	}
	if id, ok := unparen(call.Fun).(*ast.Ident); ok {
		if b, ok := c.info.Uses[id].(*types.Builtin); ok {
			switch b.Name() {
			case "delete":
				m := call.Args[0]
				mt := resolve(c.tyOf(m), c.sub).Underlying().(*types.Map)
				eqb := c.g.eqbFor(mt.Key(), c.sub)
				key := c.exprAs(call.Args[1], mt.Key())
				return c.bind(key, "key", func(kv string) string {
					return c.store(m, func(old cx) cx {
						return c.lift([]cx{old}, func(v []string) string { return "(map_del " + eqb + " " + kv + " " + v[0] + ")" })
					}, k)
				})
			case "panic":
				if !c.partial {
					panic(needPartial{})
				}
				return "None"
			}
		}
	}
	fi, _, recv := c.calleeInfo(call)
	if fi == nil {
		if c.kindOf(call.Fun) == kFunc || c.isIfaceFnCall(call) {
			// a function value: it has no effect on the variables of this function, only a panic matters
			return c.bind(c.call(call), "u", func(string) string { return k() })
		}
		c.fail(s, "call statement of a function that is neither a target nor droppable")
	}
	if fi.cbPage != "" {
		return c.callbackCall(s, call, fi, recv, nil, k)
	}
	if fi.walkEnt != "" {
		return c.walkCall(s, call, fi, recv, nil, k)
	}
	if !fi.rebinds() {
		if fi.oracle && !fi.drop {
			// an oracle called for its effect: nothing of it would remain
			args := call.Args
			if recv != nil {
				args = append([]ast.Expr{recv}, args...)
			}
			for i, a := range args {
				if i < len(fi.params) && !fi.params[i].dropped {
					switch c.kindOf(a) {
					case kPtr, kMap, kOpaque:
						c.fail(s, "the oracle %s is called as a statement with a reference argument: its effect would be lost (declare OutParams, or Drop if the effect is irrelevant)", fi.label)
					}
				}
			}
		}
		// no effect: only a possible panic matters
		return c.bind(c.call(call), "u", func(string) string { return k() })
	}
	return c.inoutCall(s, call, fi, recv, nil, k)
}

// inoutCall translates a call of a function that writes through some of its
// arguments: the callee returns the new values first, then its results; the
// variables behind the arguments are rebound, the results go to lhs (nil =
// discarded).
func (c *fn) inoutCall(n ast.Node, call *ast.CallExpr, fi *fnInfo, recv ast.Expr, lhs []ast.Expr, k kont) string {
	args := call.Args
	if recv != nil {
		args = append([]ast.Expr{recv}, args...)
	}
	var targets []ast.Expr
	for i, p := range fi.params {
		if p.inout && i < len(args) {
			tgt := c.inoutTarget(args[i])
			if tgt == nil {
				c.fail(args[i], "%s writes through this argument, which is not a variable this function owns", fi.label)
			}
			targets = append(targets, tgt)
		}
	}
	if lhs != nil && len(lhs) != fi.nres {
		c.fail(n, "%d variables for the %d results of %s", len(lhs), fi.nres, fi.label)
	}
	var convs []func(string) string
	if lhs != nil {
		convs = c.checkTupleRepr(n, call, func(i int) types.Type {
			if i < len(lhs) && lhs[i] != nil {
				return c.lhsType(lhs[i])
			}
			return nil
		})
	}
	for i, p := range fi.params {
		if p.consumed && i < len(args) {
			if id := c.rootIdent(args[i]); id != nil {
				c.requireDeadAfter(c.objOf(id), call, fi.label)
			}
		}
	}
	var all []ast.Expr
	if fi.effect {
		if !c.effect {
			panic(needEffect{})
		}
		if c.noEffect > 0 {
			c.fail(n, "%s acts on the outside world and is called inside a function literal", fi.label)
		}
		all = append(all, c.worldIdent)
	}
	nOwn := len(all) + len(targets)
	all = append(all, targets...)
	for i := 0; i < fi.nres; i++ {
		if lhs != nil {
			all = append(all, lhs[i])
		} else {
			all = append(all, nil)
		}
	}
	for _, tg := range targets {
		if id, ok := unparen(tg).(*ast.Ident); ok {
			if o := c.objOf(id); o != nil {
				if _, linked := c.activeLink[o]; linked {
					k = c.syncLink(o, k)
				}
			}
		}
	}
	return c.bind(c.call(call), "t", func(tv string) string { return c.destructureConv(tv, all, nOwn, convs, k) })
}

// syncLink: after a write through the linked element o, its element of the owner's list is replaced.
func (c *fn) syncLink(o types.Object, k kont) kont {
	l := c.linkOf[o]
	idx := c.activeLink[o]
	return func() string {
		elem := c.nameOf(o)
		if c.asValue[o] {
			elem = "(PNew " + elem + ")"
		}
		return c.store(l.lhs, func(old cx) cx {
			return c.lift([]cx{old}, func(v []string) string { return "(list_set " + idx + " " + elem + " " + v[0] + ")" })
		}, k)
	}
}

// msgOnlyVar: o is a local string variable whose every value is a fmt.Sprintf call or a constant and
// whose every use is a message position: an argument of a dropped (logging) call, of errors.New, of
// fmt.Errorf, or the Msg field of an error struct literal. Such a variable holds the FORMAT of the
// message (the convention for message texts); it is never compared, measured, concatenated or returned.
func (c *fn) msgOnlyVar(o types.Object) bool {
	if o == nil || c.decl == nil || !c.isLocal(o) {
		return false
	}
	if c.msgOnly == nil {
		c.msgOnly = map[types.Object]bool{}
	}
	if r, ok := c.msgOnly[o]; ok {
		return r
	}
	c.msgOnly[o] = false
	if b, ok := o.Type().Underlying().(*types.Basic); !ok || b.Info()&types.IsString == 0 {
		return false
	}
	if v, ok := o.(*types.Var); !ok || v.IsField() {
		return false
	}
	for i := 0; i < c.sig.Params().Len(); i++ {
		if types.Object(c.paramOf(c.sig.Params().At(i))) == o {
			return false
		}
	}
	for i := 0; i < c.sig.Results().Len(); i++ {
		if types.Object(c.sig.Results().At(i)) == o {
			return false
		}
	}
	okValue := func(e ast.Expr) bool {
		e = unparen(e)
		if tv, ok := c.info.Types[e]; ok && tv.Value != nil {
			return true
		}
		if call, ok := e.(*ast.CallExpr); ok {
			if name, _, _ := c.calleeName(call); name == "fmt.Sprintf" {
				return true
			}
		}
		return false
	}
	good, nSprintf := true, 0
	var stack []ast.Node
	ast.Inspect(c.decl.Body, func(n ast.Node) bool {
		if n == nil {
			stack = stack[:len(stack)-1]
			return true
		}
		stack = append(stack, n)
		id, ok := n.(*ast.Ident)
		if !ok || !good {
			return good
		}
		if obj := c.objOf(id); obj != o {
			return true
		}
		// the closest ancestor that is not a parenthesis
		pi := len(stack) - 2
		for pi > 0 {
			if _, isP := stack[pi].(*ast.ParenExpr); !isP {
				break
			}
			pi--
		}
		child := ast.Node(id)
		if pi+1 < len(stack)-1 {
			child = stack[pi+1]
		}
		switch p := stack[pi].(type) {
		case *ast.AssignStmt:
			for i, l := range p.Lhs {
				if ast.Node(l) == child {
					if len(p.Lhs) != len(p.Rhs) || (p.Tok != token.DEFINE && p.Tok != token.ASSIGN) || !okValue(p.Rhs[i]) {
						good = false
					} else if _, isCall := unparen(p.Rhs[i]).(*ast.CallExpr); isCall {
						nSprintf++
					}
					return true
				}
			}
			good = false
		case *ast.ValueSpec:
			for i, nm := range p.Names {
				if nm == id {
					if len(p.Values) == 0 {
						return true
					}
					if len(p.Values) != len(p.Names) || !okValue(p.Values[i]) {
						good = false
					} else if _, isCall := unparen(p.Values[i]).(*ast.CallExpr); isCall {
						nSprintf++
					}
					return true
				}
			}
			good = false
		case *ast.CallExpr:
			if ast.Node(p.Fun) == child {
				good = false
				return true
			}
			if c.droppableCall(p) {
				return true
			}
			switch name, _, _ := c.calleeName(p); name {
			case "errors.New", "fmt.Errorf":
				return true
			}
			good = false
		case *ast.KeyValueExpr:
			key, isId := p.Key.(*ast.Ident)
			lit, _ := stack[pi-1].(*ast.CompositeLit)
			if ast.Node(p.Value) == child && isId && key.Name == "Msg" && lit != nil {
				if t := c.tyOf(lit); t != nil {
					if n, isN := resolve(t, c.sub).(*types.Named); isN && implementsError(n) {
						return true
					}
				}
			}
			good = false
		default:
			good = false
		}
		return true
	})
	// a variable that never holds a Sprintf result is an ordinary string
	c.msgOnly[o] = good && nSprintf > 0
	if c.msgOnly[o] {
		c.g.note(c.fi.label + ": the string " + o.Name() + " only ever becomes an error message or a log line: it holds the format of the message, not its text")
	}
	return c.msgOnly[o]
}

// requireDeadAfter: the variable o handed to a callee that consumes it is not mentioned after the call
// (nor anywhere in a loop around the call that does not declare it).
func (c *fn) requireDeadAfter(o types.Object, call *ast.CallExpr, callee string) {
	if o == nil || c.decl == nil {
		return
	}
	for _, l := range c.enclosingLoops(call) {
		if !(o.Pos() >= l.Pos() && o.Pos() < l.End()) {
			c.fail(call, "%s consumes its map argument %s, which outlives the loop around the call", callee, o.Name())
		}
	}
	ast.Inspect(c.decl.Body, func(n ast.Node) bool {
		if id, ok := n.(*ast.Ident); ok && id.Pos() >= call.End() && c.objOf(id) == o {
			c.fail(id, "%s is used after it was handed to %s, which may have replaced the map (the caller's variable is not updated by Go)", o.Name(), callee)
		}
		return true
	})
}

// lhsType: the type of an lvalue (nil for the blank identifier).
func (c *fn) lhsType(l ast.Expr) types.Type {
	if id, ok := unparen(l).(*ast.Ident); ok {
		if id.Name == "_" {
			return nil
		}
		if o := c.objOf(id); o != nil {
			return o.Type()
		}
		return nil
	}
	return c.tyOf(l)
}

// checkTupleRepr refuses the use of a multi-valued call whose i-th result goes
// to a place of another type with a different Coq representation: Go converts
// implicitly there (a concrete value to an interface, an interface to a wider
// one), and on the components of a tuple the translation does not insert the
// conversion.
func (c *fn) checkTupleRepr(n ast.Node, call ast.Expr, want func(i int) types.Type) []func(string) string {
	tup, ok := c.tyOf(unparen(call)).(*types.Tuple)
	if !ok {
		return nil
	}
	var convs []func(string) string
	any := false
	for i := 0; i < tup.Len(); i++ {
		convs = append(convs, nil)
		wt := want(i)
		if wt == nil {
			continue
		}
		from := tup.At(i).Type()
		if types.Identical(resolve(from, c.sub), resolve(wt, c.sub)) {
			continue
		}
		if c.g.kind(from, c.sub) == kDropped || c.g.kind(wt, c.sub) == kDropped {
			continue
		}
		if c.g.typ(from, c.sub) != c.g.typ(wt, c.sub) {
			if n := c.g.concreteOf(wt, c.sub); n != nil && c.g.kind(wt, c.sub) == kNilable {
				if p, ok := resolve(from, c.sub).(*types.Pointer); ok && types.Identical(resolve(p.Elem(), c.sub), n) {
					// a *T result used as the interface that only ever holds *T
					convs[i] = func(v string) string { return "(PNew " + v + ")" }
					any = true
					continue
				}
			}
			if c.g.isOpaqueIface(from, c.sub) && c.g.isOpaqueIface(wt, c.sub) {
				// an interface value used as a wider / other opaque interface: the same dynamic value
				from, wt := from, wt
				convs[i] = func(v string) string { return c.g.ifaceConv(v, from, wt, c.sub, false) }
				convs[i]("x") // refuse now what cannot be converted
				any = true
				continue
			}
			c.fail(n, "result %d of the call has type %s and is used as %s: the implicit conversion of a component of a multi-valued call is not supported",
				i+1, types.TypeString(from, nil), types.TypeString(wt, nil))
		}
	}
	if !any {
		return nil
	}
	return convs
}

// destructureConv is destructure with conversions applied to some components.
func (c *fn) destructureConv(tv string, lhs []ast.Expr, nOwn int, convs []func(string) string, k kont) string {
	if convs == nil {
		return c.destructure(tv, lhs, nOwn, k)
	}
	lhs2 := append([]ast.Expr{}, lhs...)
	type pend struct {
		lhs ast.Expr
		val string
	}
	var later []pend
	for i := nOwn; i < len(lhs); i++ {
		j := i - nOwn
		if j < len(convs) && convs[j] != nil && lhs[i] != nil {
			if id, ok := unparen(lhs[i]).(*ast.Ident); ok && id.Name == "_" {
				continue
			}
			id := &ast.Ident{Name: "t"}
			c.synthIdent[id] = c.fresh("t")
			lhs2[i] = id
			later = append(later, pend{lhs[i], convs[j](c.synthIdent[id])})
		}
	}
	return c.destructure(tv, lhs2, nOwn, func() string {
		var rec func(i int) string
		rec = func(i int) string {
			if i == len(later) {
				return k()
			}
			return c.store(later[i].lhs, func(cx) cx { return cx{s: later[i].val} }, func() string { return rec(i + 1) })
		}
		return rec(0)
	})
}

// destructure binds the components of a tuple-valued term to lvalues (nil = discarded).
// The first nOwn entries are in/out targets (they receive pointees).
func (c *fn) destructure(tv string, lhs []ast.Expr, nOwn int, k kont) string {
	synth := func(l ast.Expr) (string, bool) {
		id, ok := l.(*ast.Ident)
		if !ok {
			return "", false
		}
		if c.worldIdent != nil && id == c.worldIdent {
			return c.nameOf(c.worldObj), true
		}
		if n, ok := c.synthIdent[id]; ok {
			return n, true
		}
		return "", false
	}
	if len(lhs) == 1 {
		if lhs[0] == nil {
			return k()
		}
		if n, ok := synth(lhs[0]); ok {
			return "let " + n + " := " + tv + " in " + k()
		}
		return c.store(lhs[0], func(cx) cx { return cx{s: tv} }, k)
	}
	var pats []string
	type pend struct {
		lhs ast.Expr
		tmp string
	}
	var later []pend
	for li, l := range lhs {
		if l == nil {
			pats = append(pats, "_")
			continue
		}
		if n, ok := synth(l); ok {
			pats = append(pats, n)
			continue
		}
		id, isId := unparen(l).(*ast.Ident)
		switch {
		case isId && id.Name == "_":
			pats = append(pats, "_")
		case isId && c.g.kind(c.objOf(id).Type(), c.sub) == kDropped:
			pats = append(pats, "_")
		case isId && c.isLocal(c.objOf(id)):
			o := c.objOf(id)
			if c.asValue[o] && li >= nOwn {
				c.fail(l, "multi-valued assignment to the pointer variable %s, which is held by value", id.Name)
			}
			delete(c.views, o)
			delete(c.nonNilErr, o)
			pats = append(pats, c.nameOf(o))
		default:
			t := c.fresh("t")
			pats = append(pats, t)
			later = append(later, pend{l, t})
		}
	}
	var rec func(i int) string
	rec = func(i int) string {
		if i == len(later) {
			return k()
		}
		return c.store(later[i].lhs, func(cx) cx { return cx{s: later[i].tmp} }, func() string { return rec(i + 1) })
	}
	return "let '(" + strings.Join(pats, ", ") + ") := " + tv + " in " + rec(0)
}

// ---------- assignments ----------

func (c *fn) assignStmt(s *ast.AssignStmt, k kont) string {
	if l := c.linkAt[s]; l != nil && !c.linkBusy[s] {
		// X.F = append(X.F, p) with p written through later: remember where p sits
		idx := c.fresh("n")
		c.regLocal(idx, "Z")
		return c.bind(c.expr(l.lhs), "l", func(lv string) string {
			if c.activeLink == nil {
				c.activeLink, c.linkBusy = map[types.Object]string{}, map[*ast.AssignStmt]bool{}
			}
			c.linkBusy[s] = true
			defer delete(c.linkBusy, s)
			k2 := func() string {
				c.activeLink[l.elem] = idx
				defer delete(c.activeLink, l.elem)
				return k()
			}
			return "let " + idx + " := (list_len " + lv + ") in " + c.assignStmt(s, k2)
		})
	}
	switch s.Tok {
	case token.DEFINE, token.ASSIGN:
	default:
		if len(s.Lhs) != 1 || len(s.Rhs) != 1 {
			c.fail(s, "compound assignment with several operands")
		}
		var op token.Token
		switch s.Tok {
		case token.ADD_ASSIGN:
			op = token.ADD
		case token.SUB_ASSIGN:
			op = token.SUB
		case token.MUL_ASSIGN:
			op = token.MUL
		default:
			c.fail(s, "assignment operator %s is not supported", s.Tok)
		}
		rhs := c.expr(s.Rhs[0])
		return c.bind(rhs, "r", func(rv string) string {
			return c.update(s.Lhs[0], func(old cx) cx { return c.arith(s, op, old, cx{s: rv}, c.tyOf(s.Lhs[0])) }, k)
		})
	}
	// dropped values (loggers, contexts)
	if len(s.Lhs) == 1 && len(s.Rhs) == 1 {
		if t := c.tyOf(s.Lhs[0]); t != nil && c.g.kind(t, c.sub) == kDropped {
			if call, ok := unparen(s.Rhs[0]).(*ast.CallExpr); ok {
				return c.dropCall(call, k)
			}
			return k()
		}
	}
	if len(s.Rhs) == 1 {
		if call, ok := unparen(s.Rhs[0]).(*ast.CallExpr); ok {
			if tv, isT := c.info.Types[call.Fun]; !(isT && tv.IsType()) {
				if fi, _, recv := c.calleeInfo(call); fi != nil && fi.cbPage != "" {
					if len(s.Lhs) != 1 {
						c.fail(s, "assignment shape of a callback call")
					}
					return c.callbackCall(s, call, fi, recv, s.Lhs[0], k)
				}
				if fi, _, recv := c.calleeInfo(call); fi != nil && fi.walkEnt != "" {
					if len(s.Lhs) != 1 {
						c.fail(s, "assignment shape of a walk call")
					}
					return c.walkCall(s, call, fi, recv, s.Lhs[0], k)
				}
				if fi, _, recv := c.calleeInfo(call); fi != nil && fi.rebinds() {
					return c.inoutCall(s, call, fi, recv, s.Lhs, k)
				}
			}
		}
	}
	if len(s.Lhs) == len(s.Rhs) {
		if len(s.Lhs) == 1 {
			return c.assignOne(s, s.Lhs[0], s.Rhs[0], k)
		}
		// parallel assignment: all right-hand sides first
		var vals []cx
		for i := range s.Rhs {
			vals = append(vals, c.rhsFor(s.Lhs[i], s.Rhs[i]))
		}
		return c.bindAll(vals, "t", func(vs []string) string {
			tmps := make([]string, len(vs))
			pre := ""
			for i, v := range vs {
				tmps[i] = c.fresh("t")
				pre += "let " + tmps[i] + " := " + v + " in "
			}
			var rec func(i int) string
			rec = func(i int) string {
				if i == len(s.Lhs) {
					return k()
				}
				return c.store(s.Lhs[i], func(cx) cx { return cx{s: tmps[i]} }, func() string { return rec(i + 1) })
			}
			return pre + rec(0)
		})
	}
	if len(s.Rhs) != 1 {
		c.fail(s, "assignment shape is not supported")
	}
	// a, b := f()   /   v, ok := m[k]
	rhs := unparen(s.Rhs[0])
	var tuple cx
	var convs []func(string) string
	switch r := rhs.(type) {
	case *ast.CallExpr:
		convs = c.checkTupleRepr(s, r, func(i int) types.Type {
			if i < len(s.Lhs) {
				return c.lhsType(s.Lhs[i])
			}
			return nil
		})
		tuple = c.call(r)
	case *ast.IndexExpr:
		mt, ok := resolve(c.tyOf(r.X), c.sub).Underlying().(*types.Map)
		if !ok || len(s.Lhs) != 2 {
			c.fail(s, "comma-ok form on something that is not a map")
		}
		eqb := c.g.eqbFor(mt.Key(), c.sub)
		zero := c.g.zero(mt.Elem(), c.sub)
		tuple = c.lift([]cx{c.expr(r.X), c.exprAs(r.Index, mt.Key())}, func(v []string) string {
			return "(map_get_ok " + eqb + " " + zero + " " + v[1] + " " + v[0] + ")"
		})
	case *ast.TypeAssertExpr:
		if len(s.Lhs) != 2 {
			c.fail(s, "comma-ok form with %d variables", len(s.Lhs))
		}
		if r.Type != nil && c.g.isOpaqueIface(c.typeOf(r.X), c.sub) {
			tt := resolve(c.tyOf(r.Type), c.sub)
			if !c.g.isOpaqueIface(tt, c.sub) || c.g.kind(tt, c.sub) != kNilable {
				c.fail(r, "type assertion of an interface value to %s: the target must be an interface type declared Opaque and Nilable", types.TypeString(tt, nil))
			}
			as := c.g.ifaceAs(c.typeOf(r.X), tt, c.sub)
			nilable := c.kindOf(r.X) == kNilable
			tuple = c.lift([]cx{c.expr(r.X)}, func(v []string) string {
				if nilable {
					return "(iface_assert " + as + " " + v[0] + ")"
				}
				return "(iface_assert " + as + " (PNew " + v[0] + "))"
			})
			break
		}
		fnName, ty := c.assertion(r)
		tuple = c.lift([]cx{c.expr(r.X)}, func(v []string) string { return "(" + fnName + " " + CStr(ty) + " " + v[0] + ")" })
	default:
		c.fail(s, "multi-valued right-hand side %T is not supported", rhs)
	}
	return c.bind(tuple, "t", func(tv string) string { return c.destructureConv(tv, s.Lhs, 0, convs, k) })
}

func (c *fn) rhsFor(lhs, rhs ast.Expr) cx {
	if id, ok := unparen(lhs).(*ast.Ident); ok {
		if id.Name == "_" {
			return c.expr(rhs)
		}
		return c.exprForVar(c.objOf(id), rhs)
	}
	return c.exprAs(rhs, c.tyOf(lhs))
}

func (c *fn) assignOne(s *ast.AssignStmt, lhs, rhs ast.Expr, k kont) string {
	if id, ok := unparen(lhs).(*ast.Ident); ok && id.Name == "_" {
		return c.bind(c.expr(rhs), "u", func(string) string { return k() })
	}
	if c.nilableSel(lhs) {
		val := c.nilableValue(rhs, c.tyOf(lhs))
		return c.bind(val, "r", func(v string) string {
			c.storeOpt = true
			defer func() { c.storeOpt = false }()
			return c.store(lhs, func(cx) cx { return cx{s: v} }, func() string { c.storeOpt = false; return k() })
		})
	}
	// x = append(x, ...) is the only form of append on an existing slice
	val := c.rhsFor(lhs, rhs)
	return c.bind(val, "r", func(v string) string {
		return c.store(lhs, func(cx) cx { return cx{s: v} }, k)
	})
}

// update rewrites the value at an lvalue from its old value (x op= e, x++).
func (c *fn) update(lhs ast.Expr, f func(old cx) cx, k kont) string {
	return c.store(lhs, f, k)
}

// store writes f(old value) to the lvalue and continues with k. The lvalue
// is a variable, a field path of a struct variable / locally created pointer,
// or an element of a locally created map.
func (c *fn) store(lhs ast.Expr, f func(old cx) cx, k kont) string {
	lhs = unparen(lhs)
	if _, plain := lhs.(*ast.Ident); !plain && len(c.activeLink) > 0 {
		if id := c.rootIdent(lhs); id != nil {
			if o := c.objOf(id); o != nil {
				if _, linked := c.activeLink[o]; linked {
					k = c.syncLink(o, k)
				}
			}
		}
	}
	switch l := lhs.(type) {
	case *ast.Ident:
		if l.Name == "_" {
			return k()
		}
		o := c.objOf(l)
		if o == nil || !c.isLocal(o) {
			c.fail(l, "assignment to the package-level variable %s", l.Name)
		}
		old := cx{s: c.nameOfIfBound(o)}
		nv := f(old)
		return c.bind(nv, "r", func(v string) string {
			delete(c.views, o)
			delete(c.nonNilErr, o)
			return c.letVar(o, v) + k()
		})
	case *ast.SelectorExpr:
		sel, ok := c.info.Selections[l]
		if !ok || sel.Kind() != types.FieldVal {
			c.fail(l, "assignment to a qualified identifier")
		}
		if len(sel.Index()) != 1 {
			c.fail(l, "assignment to a promoted field")
		}
		// the container: a struct value (any local) or a locally created pointer held by value
		xt := resolve(c.tyOf(l.X), c.sub)
		var rec *recInfo
		container := l.X
		if p, ok := xt.(*types.Pointer); ok {
			id, isId := unparen(l.X).(*ast.Ident)
			if isId && c.mutable[c.objOf(id)] && !c.asValue[c.objOf(id)] && c.isLocal(c.objOf(id)) {
				// a pointer this function owns but that may be nil (a fresh result of an oracle)
				o := c.objOf(id)
				n, ok := resolve(p.Elem(), c.sub).(*types.Named)
				if !ok || c.g.kind(n, c.sub) != kStruct {
					c.fail(l, "write through a pointer to a non-struct")
				}
				fld := c.g.record(n).field(c.g, l.Sel.Name)
				if fld.nilable && !c.storeOpt {
					c.fail(l, "only a plain assignment `x.%s = value` is supported on a nilable field", l.Sel.Name)
				}
				return c.bind(c.pointee(l.X), "pv", func(v string) string {
					nv := f(cx{s: "(" + fld.name + " " + v + ")"})
					return c.bind(nv, "r", func(nvs string) string {
						nview := c.fresh(c.nameOf(o) + "_v")
						c.regLocal(nview, c.g.typ(n, c.sub))
						c.views[o] = nview
						return "let " + nview + " := (" + fld.setter + " " + nvs + " " + v + ") in let " + c.nameOf(o) + " := (PNew " + nview + ") in " + k()
					})
				})
			}
			if !isId || !c.asValue[c.objOf(id)] || !c.mutable[c.objOf(id)] {
				c.fail(l, "write through a pointer that was not created in this function")
			}
			n, ok := resolve(p.Elem(), c.sub).(*types.Named)
			if !ok || c.g.kind(n, c.sub) != kStruct {
				c.fail(l, "write through a pointer to a non-struct")
			}
			rec = c.g.record(n)
		} else {
			n, ok := xt.(*types.Named)
			if !ok || c.g.kind(n, c.sub) != kStruct {
				c.fail(l, "field assignment on a value of type %s", types.TypeString(xt, nil))
			}
			rec = c.g.record(n)
		}
		fld := rec.field(c.g, l.Sel.Name)
		if fld.nilable && !c.storeOpt {
			c.fail(l, "only a plain assignment `x.%s = value` is supported on a nilable field", l.Sel.Name)
		}
		return c.store(container, func(oldC cx) cx {
			oldF := c.lift([]cx{oldC}, func(v []string) string { return "(" + fld.name + " " + v[0] + ")" })
			nv := f(oldF)
			return c.lift([]cx{nv, oldC}, func(v []string) string { return "(" + fld.setter + " " + v[0] + " " + v[1] + ")" })
		}, k)
	case *ast.StarExpr:
		id, ok := unparen(l.X).(*ast.Ident)
		if !ok || !c.asValue[c.objOf(id)] || !c.mutable[c.objOf(id)] {
			c.fail(l, "store through a pointer that is not owned by this function")
		}
		return c.store(id, f, k)
	case *ast.IndexExpr:
		mt, ok := resolve(c.tyOf(l.X), c.sub).Underlying().(*types.Map)
		if !ok {
			c.fail(l, "assignment to a slice element is not supported")
		}
		c.checkOwnedMap(l.X)
		eqb := c.g.eqbFor(mt.Key(), c.sub)
		zero := c.g.zero(mt.Elem(), c.sub)
		key := c.exprAs(l.Index, mt.Key())
		return c.bind(key, "key", func(kv string) string {
			wrap := func(rest string) string { return rest }
			if !isSimpleTerm(kv) && !strings.HasPrefix(kv, `"`) {
				t := c.fresh("key")
				old := kv
				kv = t
				wrap = func(rest string) string { return "let " + t + " := " + old + " in " + rest }
			}
			return wrap(c.store(l.X, func(oldM cx) cx {
				oldV := c.lift([]cx{oldM}, func(v []string) string { return "(map_get_or " + eqb + " " + zero + " " + kv + " " + v[0] + ")" })
				nv := f(oldV)
				return c.lift([]cx{nv, oldM}, func(v []string) string { return "(map_set " + eqb + " " + kv + " " + v[0] + " " + v[1] + ")" })
			}, k))
		})
	}
	c.fail(lhs, "assignment to %T is not supported", lhs)
	return ""
}

// letVar binds a Go variable; a value whose type Coq could not infer on its
// own (an empty list, nil) is annotated.
func (c *fn) letVar(o types.Object, v string) string {
	if v == "[]" || v == "None" || v == "PNil" {
		return "let " + c.nameOf(o) + " : " + c.varType(o) + " := " + v + " in "
	}
	return "let " + c.nameOf(o) + " := " + v + " in "
}

// nameOfIfBound is the current Coq name of a variable (used as old value).
func (c *fn) nameOfIfBound(o types.Object) string { return c.nameOf(o) }

// checkOwnedMap: the map expression m of `m[k] = v` / delete(m, k) must be a
// map this function owns: a variable created here by make / a literal / a
// fresh-returning call, a mutated map parameter (returned to the caller), or
// a field initialised with a fresh map in the literal that created its holder.
func (c *fn) checkOwnedMap(m ast.Expr) {
	switch x := unparen(m).(type) {
	case *ast.Ident:
		o := c.objOf(x)
		if o != nil && c.mutable[o] {
			return
		}
		c.fail(m, "write to map %s which was not created in this function (aliasing is not modelled)", x.Name)
	case *ast.SelectorExpr:
		if id, ok := unparen(x.X).(*ast.Ident); ok {
			o := c.objOf(id)
			if o != nil && c.mutable[o] && c.freshFields[o] != nil && c.freshFields[o][x.Sel.Name] {
				return
			}
			if o != nil && c.isInout[o] {
				return // the holder is returned to the caller with the new map
			}
		}
		if c.ownedWrites()[unparen(m)] {
			c.g.note(c.fi.label + ": the map in field " + x.Sel.Name + " is written where, on every path, it was created in this function (path-sensitive ownership)")
			return
		}
		c.fail(m, "write to the map in field %s whose holder or map was not created in this function", x.Sel.Name)
	}
	c.fail(m, "write to a map reached through %T", m)
}

func (c *fn) isIfaceFnCall(call *ast.CallExpr) bool {
	if se, ok := unparen(call.Fun).(*ast.SelectorExpr); ok {
		if sel, ok := c.info.Selections[se]; ok && sel.Kind() == types.MethodVal {
			return c.g.kind(sel.Recv(), c.sub) == kIfaceFn
		}
	}
	return false
}

// typeSwitchStmt: `switch x.(type)` on an error value (cases: error struct
// types, pointer or value, and nil) or on a value of type any (cases of string
// / integer / boolean kinds and nil). The bound variable of `switch v :=
// x.(type)` may not be used.
func (c *fn) typeSwitchStmt(s *ast.TypeSwitchStmt, k kont) string {
	var ta *ast.TypeAssertExpr
	switch a := s.Assign.(type) {
	case *ast.ExprStmt:
		ta, _ = unparen(a.X).(*ast.TypeAssertExpr)
	case *ast.AssignStmt:
		if len(a.Rhs) == 1 {
			ta, _ = unparen(a.Rhs[0]).(*ast.TypeAssertExpr)
		}
		// the variable bound in each clause is an implicit object of the clause
		for _, st := range s.Body.List {
			if o := c.info.Implicits[st]; o != nil {
				used := false
				ast.Inspect(st, func(n ast.Node) bool {
					if id, ok := n.(*ast.Ident); ok && c.info.Uses[id] == o {
						used = true
					}
					return true
				})
				if used {
					c.fail(st, "the variable bound by the type switch is used (its concrete value is not modelled)")
				}
			}
		}
	}
	if ta == nil {
		c.fail(s, "type switch of an unsupported shape")
	}
	xk := c.kindOf(ta.X)
	if xk != kError && xk != kAny {
		c.fail(s, "type switch on a value of type %s (only error and any are supported)", types.TypeString(c.typeOf(ta.X), nil))
	}
	assigned := c.assignedIn(s)
	return c.withJoin(s, assigned, k, func(k2 kont) string {
		core := func() string {
			var clauses []*ast.CaseClause
			var def *ast.CaseClause
			for _, st := range s.Body.List {
				cc := st.(*ast.CaseClause)
				if cc.List == nil {
					def = cc
				} else {
					clauses = append(clauses, cc)
				}
			}
			body := func(cc *ast.CaseClause) string {
				return c.scoped(func() string {
					c.breakK = append(c.breakK, k2)
					if cc == nil {
						return k2()
					}
					return c.block(cc.Body, k2)
				})
			}
			return c.bind(c.expr(ta.X), "x", func(xv string) string {
				wrap := func(r string) string { return r }
				if !isSimpleTerm(xv) {
					t := c.fresh("x")
					old := xv
					xv = t
					wrap = func(r string) string { return "let " + t + " := " + old + " in " + r }
				}
				var rec func(i int) string
				rec = func(i int) string {
					if i == len(clauses) {
						return body(def)
					}
					var conds []string
					for _, te := range clauses[i].List {
						if c.isNilExpr(te) {
							if xk == kError {
								conds = append(conds, "(is_none "+xv+")")
							} else {
								conds = append(conds, "(any_is_nil "+xv+")")
							}
							continue
						}
						t := resolve(c.tyOf(te), c.sub)
						if xk == kError {
							star := ""
							et := t
							if p, ok := t.(*types.Pointer); ok {
								star, et = "*", resolve(p.Elem(), c.sub)
							}
							n, ok := et.(*types.Named)
							if !ok || !implementsError(n) {
								c.fail(te, "type switch case %s is not an error struct type", types.TypeString(t, nil))
							}
							conds = append(conds, "(err_dyn_in ["+CStr(star+n.Obj().Pkg().Name()+"."+n.Obj().Name())+"] "+xv+")")
						} else {
							var f string
							switch c.g.kind(t, c.sub) {
							case kString:
								f = "any_str"
							case kInt:
								f = "any_int"
							case kBool:
								f = "any_bool"
							default:
								c.fail(te, "type switch case %s on a value of type any is not supported", types.TypeString(t, nil))
							}
							conds = append(conds, "(snd ("+f+" "+CStr(dynTypeName(t))+" "+xv+"))")
						}
					}
					return "if " + strings.Join(conds, " || ") + " then " + body(clauses[i]) + " else " + rec(i+1)
				}
				return wrap(rec(0))
			})
		}
		if s.Init != nil {
			return c.stmt(s.Init, core)
		}
		return core()
	})
}

// walkCall translates `err = fs.WalkDir(.., root, func(path, d, err) error { BODY })` for an oracle
// declared with Walk: the literal becomes a function of its state (the variables it assigns) and its
// three parameters, GoLib's walk_dir runs it over the tree the oracle supplies.
func (c *fn) walkCall(n ast.Node, call *ast.CallExpr, fi *fnInfo, recv ast.Expr, lhs ast.Expr, k kont) string {
	args := call.Args
	if recv != nil {
		args = append([]ast.Expr{recv}, args...)
	}
	var lit *ast.FuncLit
	var rootArg ast.Expr
	for i, p := range fi.params {
		if i >= len(args) {
			break
		}
		if p.callback {
			lit, _ = unparen(args[i]).(*ast.FuncLit)
		}
		if p.obj != nil && p.obj.Name() == "root" {
			rootArg = args[i]
		}
	}
	if lit == nil {
		c.fail(n, "the callback argument of %s must be a function literal", fi.label)
	}
	if rootArg == nil {
		c.fail(n, "Walk: %s has no parameter named root", fi.label)
	}
	if c.noEffect > 0 || len(c.cbRet) > 0 {
		c.fail(n, "a walk inside a function literal")
	}
	var state []*types.Var
	for _, o := range c.assignedIn(lit) {
		v, ok := o.(*types.Var)
		if !ok || (c.worldObj != nil && v == c.worldObj) {
			c.fail(lit, "the walk callback changes %s, which cannot be threaded as its state", o.Name())
		}
		state = append(state, v)
	}
	var errObj types.Object
	if lhs != nil {
		if id, ok := unparen(lhs).(*ast.Ident); ok && id.Name != "_" {
			errObj = c.objOf(id)
			if errObj == nil || !c.isLocal(errObj) || c.g.kind(errObj.Type(), c.sub) != kError {
				c.fail(lhs, "the result of a walk must be assigned to a local error variable")
			}
		} else if !ok {
			c.fail(lhs, "the result of a walk must be assigned to a local error variable")
		}
	}
	for _, o := range state {
		if types.Object(o) == errObj {
			c.fail(lit, "the walk callback assigns the variable that receives the result of the walk")
		}
	}
	if !c.partial {
		panic(needPartial{}) // the callback may panic (d is nil when the root cannot be examined)
	}
	c.litState, c.litForceOpt = state, true
	fnTerm, _ := c.funcLit(lit)
	// the state as one value
	var stTypes, stNames []string
	for _, o := range state {
		stTypes = append(stTypes, c.varType(o))
		stNames = append(stNames, c.nameOf(o))
	}
	ent := fi.walkEnt
	fn := fnTerm.s
	stInit := "tt"
	switch len(state) {
	case 0:
		fn = "(fun (_ : unit) (p'w : string) (d'w : (ptr " + ent + ")) (e'w : (option err)) => match " + fnTerm.s + " p'w d'w e'w with Some r'w => Some (tt, r'w) | None => None end)"
	case 1:
		stInit = stNames[0]
	default:
		stInit = "(" + strings.Join(stNames, ", ") + ")"
		fn = "(fun (st'w : (" + strings.Join(stTypes, " * ") + ")) (p'w : string) (d'w : (ptr " + ent + ")) (e'w : (option err)) => let '(" + strings.Join(stNames, ", ") + ") := st'w in " + fnTerm.s + " " + strings.Join(stNames, " ") + " p'w d'w e'w)"
	}
	root := c.expr(rootArg)
	tree := c.call(call)
	return c.bindAll([]cx{root, tree}, "w", func(vs []string) string {
		res := cx{s: "(walk_dir " + fn + " " + vs[0] + " " + vs[1] + " " + stInit + ")", opt: true}
		return c.bind(res, "t", func(tv string) string {
			r := c.fresh("werr")
			pats := append(append([]string{}, stNames...), r)
			if len(state) == 0 {
				pats = []string{"_", r}
			}
			for _, o := range state {
				delete(c.views, o)
			}
			out := "let '(" + strings.Join(pats, ", ") + ") := " + tv + " in "
			if errObj != nil {
				delete(c.views, errObj)
				delete(c.nonNilErr, errObj)
				return out + c.letVar(errObj, r) + k()
			}
			return out + k()
		})
	})
}

// callbackCall translates `err = oracle(args, func(page) error { BODY })` for an
// oracle declared with Target.Callback: the oracle yields the pages and its
// final error; BODY is folded over the pages, threading the captured variables
// it assigns; the first non-nil error BODY returns ends the fold and is the result.
func (c *fn) callbackCall(n ast.Node, call *ast.CallExpr, fi *fnInfo, recv ast.Expr, lhs ast.Expr, k kont) string {
	args := call.Args
	if recv != nil {
		args = append([]ast.Expr{recv}, args...)
	}
	var lit *ast.FuncLit
	for i, p := range fi.params {
		if p.callback && i < len(args) {
			lit, _ = unparen(args[i]).(*ast.FuncLit)
		}
	}
	if lit == nil {
		c.fail(n, "the callback argument of %s must be a function literal", fi.label)
	}
	lsig, ok := c.typeOf(lit).Underlying().(*types.Signature)
	if !ok {
		c.fail(lit, "callback literal without a signature")
	}
	state := c.assignedIn(lit)
	// the variable receiving the error
	var errObj types.Object
	if lhs != nil {
		if id, ok := unparen(lhs).(*ast.Ident); ok && id.Name != "_" {
			errObj = c.objOf(id)
			if errObj == nil || !c.isLocal(errObj) || c.g.kind(errObj.Type(), c.sub) != kError {
				c.fail(lhs, "the result of a callback call must be assigned to a local error variable")
			}
		} else if !ok {
			c.fail(lhs, "the result of a callback call must be assigned to a local error variable")
		}
	}
	for _, o := range state {
		if o == errObj {
			c.fail(lit, "the callback assigns the variable that receives the result of the call")
		}
	}
	// what follows the call: a function of the state and of the resulting error
	kname := c.fresh("k")
	resName := c.fresh("cberr")
	var kparams, ktypes, sargs []string
	for _, o := range state {
		kparams = append(kparams, fmt.Sprintf("(%s : %s)", c.nameOf(o), c.varType(o)))
		ktypes = append(ktypes, c.varType(o))
		sargs = append(sargs, c.nameOf(o))
	}
	errParam := resName
	if errObj != nil {
		errParam = c.nameOf(errObj)
	}
	kparams = append(kparams, fmt.Sprintf("(%s : (option err))", errParam))
	ktypes = append(ktypes, "(option err)")
	c.regLocal(kname, "("+strings.Join(append(ktypes, c.retType), " -> ")+")")
	kbody := c.scoped(func() string {
		for _, o := range state {
			delete(c.views, o)
		}
		if errObj != nil {
			delete(c.views, errObj)
			delete(c.nonNilErr, errObj)
		}
		return k()
	})
	after := func(e string) string {
		return "(" + strings.Join(append(append([]string{kname}, sargs...), e), " ") + ")"
	}
	return c.bind(c.call(call), "t", func(tv string) string {
		pages, ferr := c.fresh("pages"), c.fresh("ferr")
		c.regLocal(pages, "(list "+fi.cbPage+")")
		c.regLocal(ferr, "(option err)")
		// the parameters of the literal
		var pnames []string
		for i := 0; i < lsig.Params().Len(); i++ {
			p := lsig.Params().At(i)
			if c.g.kind(p.Type(), c.sub) == kDropped {
				continue
			}
			if p.Name() == "" || p.Name() == "_" {
				pnames = append(pnames, "_")
			} else {
				pnames = append(pnames, c.nameOf(p))
			}
		}
		savedSig := c.sig
		defer func() { c.sig = savedSig }()
		loopT := c.loop(lit, cx{s: pages}, fi.cbPage, false, func(x, idx string, body func() string) string {
			kret := c.fresh("kret")
			c.regLocal(kret, "("+strings.Join(append(append([]string{}, ktypes...), c.retType), " -> ")+")")
			cont := c.contK[len(c.contK)-1]()
			ev := c.fresh("e")
			bindP := ""
			switch len(pnames) {
			case 0:
			case 1:
				if pnames[0] != "_" {
					bindP = "let " + pnames[0] + " := " + x + " in "
				}
			default:
				bindP = "let '(" + strings.Join(pnames, ", ") + ") := " + x + " in "
			}
			c.cbRet = append(c.cbRet, func(e cx) string {
				return c.bind(e, "e", func(v string) string {
					return "(" + strings.Join(append(append([]string{kret}, sargs...), v), " ") + ")"
				})
			})
			defer func() { c.cbRet = c.cbRet[:len(c.cbRet)-1] }()
			inner := body()
			return "let " + kret + " := (fun " + strings.Join(append(append([]string{}, kparams[:len(kparams)-1]...), "("+ev+" : (option err))"), " ") +
				" => match " + ev + " with | Some _ => " + after(ev) + " | None => " + cont + " end) in " + bindP + inner
		}, lit.Body, func() string { return after(ferr) })
		return "let " + kname + " := (fun " + strings.Join(kparams, " ") + " => " + kbody + ") in let '(" + pages + ", " + ferr + ") := " + tv + " in " + loopT
	})
}
