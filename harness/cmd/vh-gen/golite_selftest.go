package main

// GoLite --selftest: the check on the translator and on GoLib.v. The real Go
// functions are run on boundary and random inputs and every result is printed
// as a closed boolean Coq term (Gallina version applied to the same inputs =
// what Go returned); coqc evaluates them with vm_compute and prints the ids
// that disagree (bin/goliteselftest expects none).
//   cases_golib.v     : the GoLib versions of the whitelisted library functions
//   cases_gen_Cxx.v   : translated targets that are reachable from this module
//                       (exported, or re-exported by /repo/verifbridge)

import (
	"fmt"
	"os"
	"path/filepath"
	"regexp"
	"sort"
	"strings"

	"github.com/notaryproject/notation-go/verifbridge"
	"github.com/notaryproject/notation-go/verifier/trustpolicy"
	"golang.org/x/mod/semver"

	. "vh/kit"
)

type stFile struct {
	name    string
	prelude string
	cases   []string
	skipped []string
}

func (f *stFile) add(check string) {
	f.cases = append(f.cases, fmt.Sprintf("(%d%%N, %s)", len(f.cases)+1, check))
}

// write splits the cases into shards of at most 2500 (one coqc process each).
func (f *stFile) write(dir string) (int, error) {
	const per = 2500
	shards := 0
	for start := 0; start == 0 || start < len(f.cases); start += per {
		end := start + per
		if end > len(f.cases) {
			end = len(f.cases)
		}
		var b strings.Builder
		b.WriteString(f.prelude)
		for _, s := range f.skipped {
			b.WriteString("(* selftest skipped: " + cmt(s) + " *)\n")
		}
		b.WriteString("Definition cases : list (N * bool) := [\n")
		b.WriteString(strings.Join(f.cases[start:end], ";\n"))
		b.WriteString("\n].\nDefinition mism : list N := Eval vm_compute in map fst (filter (fun c => negb (snd c)) cases).\n")
		b.WriteString("Definition ncases : nat := Eval vm_compute in List.length cases.\nPrint ncases.\nPrint mism.\n")
		name := f.name
		if len(f.cases) > per {
			name = strings.TrimSuffix(f.name, ".v") + fmt.Sprintf("_%d.v", shards)
		}
		if err := os.WriteFile(filepath.Join(dir, name), []byte(b.String()), 0o644); err != nil {
			return shards, err
		}
		shards++
	}
	return shards, nil
}

const stPrelude = `From Coq Require Import List Bool String Ascii NArith ZArith.
From NV Require Import Base Regex Generated GoLib.
Import ListNotations.
Local Open Scope string_scope.
Local Open Scope list_scope.
Local Open Scope Z_scope.
Local Open Scope bool_scope.
Definition seqb := String.eqb.
Definition sleqb := list_eqb String.eqb.
Definition s3eqb (a b : string * string * bool) : bool :=
  seqb (fst (fst a)) (fst (fst b)) && seqb (snd (fst a)) (snd (fst b)) && Bool.eqb (snd a) (snd b).
Definition s2eqb (a b : string * bool) : bool := seqb (fst a) (fst b) && Bool.eqb (snd a) (snd b).
Definition osteqb := opt_eqb String.eqb.
(* the same any value (dynamic type and abstract identity), uncomparable ones included *)
Definition anyv_same (a b : anyv) : bool :=
  match a, b with
  | AUncmp t i, AUncmp t' i' => String.eqb t t' && Z.eqb i i'
  | _, _ => anyv_eqb a b
  end.
Definition ozeqb := opt_eqb Z.eqb.
(* does message msg arise from format f? every verb is a wild card *)
Fixpoint fmt_pat (l : list ascii) : list (option ascii) :=
  match l with
  | [] => []
  | "%"%char :: "%"%char :: r => Some "%"%char :: fmt_pat r
  | "%"%char :: _ :: r => None :: fmt_pat r
  | c :: r => Some c :: fmt_pat r
  end.
Fixpoint glob (fuel : nat) (p : list (option ascii)) (s : list ascii) : bool :=
  match fuel with
  | O => false
  | S fuel' =>
      match p, s with
      | [], [] => true
      | [], _ => false
      | Some c :: p', d :: s' => Ascii.eqb c d && glob fuel' p' s'
      | Some _ :: _, [] => false
      | None :: p', [] => glob fuel' p' []
      | None :: p', _ :: s' => glob fuel' p' s || glob fuel' p s'
      end
  end.
Definition fmt_matches (f msg : string) : bool :=
  let p := fmt_pat (list_ascii_of_string f) in
  let s := list_ascii_of_string msg in
  glob (2 * (List.length p + List.length s) + 2) p s.
(* an error value against the message Go produced (None = nil error) *)
Definition err_matches (e : option err) (msg : option string) : bool :=
  match e, msg with
  | None, None => true
  | Some (Err t f _), Some m =>
      if String.eqb t "errors.join" then true   (* the messages of the joined errors, one per line *)
      else fmt_matches f m
  | _, _ => false
  end.
`

func cBoolEq(a, b string) string { return "(Bool.eqb " + a + " " + b + ")" }

func cOptStr(ok bool, s string) string {
	if !ok {
		return "None"
	}
	return CSome(CStr(s))
}

func errMsg(err error) string {
	if err == nil {
		return "None"
	}
	return CSome(CStr(err.Error()))
}

// ---------- input generation ----------

var stSpaces = []string{" ", "\t", "\n", "\v", "\f", "\r", "\u0085", "\u00a0", "\u1680", "\u2000", "\u2005", "\u200a", "\u2028", "\u2029", "\u202f", "\u205f", "\u3000",
	"\xc2", "\xe2\x80", "\x85", "\xa0", "\xe1\x9a", "\x80", "\u200b", "\u180e", "\ufeff", "\xe2\x80\x8b", "\xe2\x81", "\x9f", "\xe3\x80"}

func stString(r *Rng, alphabet []string, maxLen int) string {
	n := r.Intn(maxLen + 1)
	var b strings.Builder
	for i := 0; i < n; i++ {
		b.WriteString(alphabet[r.Intn(len(alphabet))])
	}
	return b.String()
}

var stAlpha = []string{"a", "b", "a", ":", "/", ".", "@", "-", "ab", "=", "*", " ", "x", "\x00", "\xff", "\\", "é"}

func selftestGoLib(r *Rng) *stFile {
	f := &stFile{name: "cases_golib.v", prelude: stPrelude}
	strs := []string{"", "a", ":", "a:b", ":a", "a:", "a:b:c", "::", "ab", "aab", "abab", "aaa", "@", "x@y@z", "a/b", "/", "//", "a.b.c", ".", ".."}
	for i := 0; i < 260; i++ {
		strs = append(strs, stString(r, stAlpha, 9))
	}
	seps := []string{":", "/", "@", "", "ab", "a", "::", "aa", ".", "a:b", "*", "=#"}
	for i, s := range strs {
		for j, sep := range seps {
			if i >= 40 && (i+j)%4 != 0 {
				continue
			}
			a, b, ok := strings.Cut(s, sep)
			f.add(fmt.Sprintf("s3eqb (str_cut %s %s) (%s, %s, %s)", CStr(sep), CStr(s), CStr(a), CStr(b), CBool(ok)))
			f.add(fmt.Sprintf("Z.eqb (str_index %s %s) %s", CStr(sep), CStr(s), CZ(int64(strings.Index(s, sep)))))
			f.add(fmt.Sprintf("Z.eqb (str_last_index %s %s) %s", CStr(sep), CStr(s), CZ(int64(strings.LastIndex(s, sep)))))
			f.add(cBoolEq(fmt.Sprintf("(str_contains %s %s)", CStr(sep), CStr(s)), CBool(strings.Contains(s, sep))))
			f.add(cBoolEq(fmt.Sprintf("(str_has_prefix %s %s)", CStr(sep), CStr(s)), CBool(strings.HasPrefix(s, sep))))
			f.add(cBoolEq(fmt.Sprintf("(str_has_suffix %s %s)", CStr(sep), CStr(s)), CBool(strings.HasSuffix(s, sep))))
			f.add(fmt.Sprintf("seqb (str_trim_prefix %s %s) %s", CStr(sep), CStr(s), CStr(strings.TrimPrefix(s, sep))))
			f.add(fmt.Sprintf("seqb (str_trim_suffix %s %s) %s", CStr(sep), CStr(s), CStr(strings.TrimSuffix(s, sep))))
			p1, ok1 := strings.CutPrefix(s, sep)
			f.add(fmt.Sprintf("s2eqb (str_cut_prefix %s %s) (%s, %s)", CStr(sep), CStr(s), CStr(p1), CBool(ok1)))
			p2, ok2 := strings.CutSuffix(s, sep)
			f.add(fmt.Sprintf("s2eqb (str_cut_suffix %s %s) (%s, %s)", CStr(sep), CStr(s), CStr(p2), CBool(ok2)))
			if sep != "" {
				f.add(fmt.Sprintf("sleqb (str_split %s %s) %s", CStr(sep), CStr(s), CStrList(strings.Split(s, sep))))
			}
		}
		f.add(fmt.Sprintf("Z.eqb (str_len %s) %s", CStr(s), CZ(int64(len(s)))))
		f.add(fmt.Sprintf("seqb (filepath_ext %s) %s", CStr(s), CStr(filepath.Ext(s))))
		for _, chars := range []string{"/\\\x00", "", "ab", ":@"} {
			f.add(cBoolEq(fmt.Sprintf("(str_contains_any %s %s)", CStr(chars), CStr(s)), CBool(strings.ContainsAny(s, chars))))
		}
		// slicing and indexing, with the panics
		for k := 0; k < 4; k++ {
			lo, hi := r.Intn(len(s)+3)-1, r.Intn(len(s)+3)-1
			var got string
			ok := func() (ok bool) {
				defer func() {
					if recover() != nil {
						ok = false
					}
				}()
				got = s[lo:hi]
				return true
			}()
			f.add(fmt.Sprintf("osteqb (str_slice %s %s %s) %s", CStr(s), CZ(int64(lo)), CZ(int64(hi)), cOptStr(ok, got)))
			var gb byte
			okb := func() (ok bool) {
				defer func() {
					if recover() != nil {
						ok = false
					}
				}()
				gb = s[lo]
				return true
			}()
			exp := "None"
			if okb {
				exp = CSome(CZ(int64(gb)))
			}
			f.add(fmt.Sprintf("ozeqb (str_get %s %s) %s", CStr(s), CZ(int64(lo)), exp))
		}
	}
	// strings.Join
	for i := 0; i < 60; i++ {
		n := r.Intn(4)
		var xs []string
		for k := 0; k < n; k++ {
			xs = append(xs, stString(r, stAlpha, 4))
		}
		sep := seps[r.Intn(len(seps))]
		f.add(fmt.Sprintf("seqb (str_join %s %s) %s", CStrList(xs), CStr(sep), CStr(strings.Join(xs, sep))))
	}
	// strings.TrimSpace
	tsAlpha := append(append([]string{}, stSpaces...), "a", "b", "\xff", "é")
	for i := 0; i < 400; i++ {
		s := stString(r, tsAlpha, 7)
		f.add(fmt.Sprintf("seqb (str_trim_space %s) %s", CStr(s), CStr(strings.TrimSpace(s))))
	}
	// maps: a script of operations on a Go map and on the association list
	keys := []string{"a", "b", "c", "", "ab"}
	for i := 0; i < 150; i++ {
		gm := map[string]string{}
		term := "([] : list (string * string))"
		n := r.Intn(7)
		for k := 0; k < n; k++ {
			key := keys[r.Intn(len(keys))]
			if r.Intn(4) == 0 {
				delete(gm, key)
				term = fmt.Sprintf("(map_del String.eqb %s %s)", CStr(key), term)
			} else {
				v := stString(r, stAlpha, 2)
				gm[key] = v
				term = fmt.Sprintf("(map_set String.eqb %s %s %s)", CStr(key), CStr(v), term)
			}
		}
		f.add(fmt.Sprintf("Z.eqb (map_len String.eqb %s) %s", term, CZ(int64(len(gm)))))
		for _, key := range keys {
			v, ok := gm[key]
			f.add(fmt.Sprintf("s2eqb (map_get_ok String.eqb \"\" %s %s) (%s, %s)", CStr(key), term, CStr(v), CBool(ok)))
		}
		// the entries, as a set
		var ents []string
		for k, v := range gm {
			ents = append(ents, k+"\x01"+v)
		}
		sort.Strings(ents)
		var items []string
		for _, e := range ents {
			kv := strings.SplitN(e, "\x01", 2)
			items = append(items, CPair(CStr(kv[0]), CStr(kv[1])))
		}
		f.add(fmt.Sprintf("(let es := map_entries String.eqb %s in (Nat.eqb (List.length es) %d) && forallb (fun kv => existsb (fun e => seqb (fst e) (fst kv) && seqb (snd e) (snd kv)) es) %s)", term, len(ents), CList(items)))
	}
	// an association list with shadowed bindings behaves like the map of its first bindings
	f.add(`sleqb (map fst (map_entries String.eqb [("a","1");("b","2");("a","3")])) ["a";"b"]`)
	f.add(`seqb (map_get_or String.eqb "" "a" [("a","1");("b","2");("a","3")]) "1"`)
	// lists
	for i := 0; i < 60; i++ {
		n := r.Intn(5)
		xs := make([]string, n)
		for k := range xs {
			xs[k] = stString(r, stAlpha, 2)
		}
		idx := r.Intn(n+3) - 1
		exp := "None"
		if idx >= 0 && idx < n {
			exp = CSome(CStr(xs[idx]))
		}
		f.add(fmt.Sprintf("osteqb (list_get (%s : list string) %s) %s", CStrList(xs), CZ(int64(idx)), exp))
		f.add(fmt.Sprintf("Z.eqb (list_len (%s : list string)) %s", CStrList(xs), CZ(int64(n))))
	}
	zl := func(xs []int64) string {
		items := make([]string, len(xs))
		for i, x := range xs {
			items[i] = CZ(x)
		}
		return CList(items)
	}
	for lo := int64(-2); lo <= 3; lo++ {
		for hi := int64(-3); hi <= 4; hi++ {
			var up, down []int64
			for i := lo; i < hi; i++ {
				up = append(up, i)
			}
			for i := hi; i >= lo; i-- {
				down = append(down, i)
			}
			f.add(fmt.Sprintf("list_eqb Z.eqb (zrange_up %s %s) %s", CZ(lo), CZ(hi), zl(up)))
			f.add(fmt.Sprintf("list_eqb Z.eqb (zrange_down %s %s) %s", CZ(hi), CZ(lo), zl(down)))
		}
	}
	// regular expressions (Generated.v) through re_match
	res := []struct {
		coq string
		re  *regexp.Regexp
	}{
		{"gen_re_filename", regexp.MustCompile(`^[a-zA-Z0-9_.-]+$`)},
	}
	for _, x := range res {
		for i := 0; i < 80; i++ {
			s := stString(r, []string{"a", "Z", "0", "_", ".", "-", "/", " ", "\n", "é", "\xff"}, 5)
			f.add(cBoolEq(fmt.Sprintf("(re_match %s %s)", x.coq, CStr(s)), CBool(x.re.MatchString(s))))
		}
	}
	return f
}

// ---------- translated targets ----------

func genPrelude(prop string) string {
	return stPrelude + "From NVG Require Import " + prop + "_Gen.\n"
}

func hasFunc(g *gen, coqName string) bool {
	if g == nil {
		return false
	}
	for _, it := range g.items {
		if it.status == "ok" && it.name == coqName {
			return true
		}
	}
	return false
}

func cAssoc(m map[string]string, r *Rng) string {
	keys := make([]string, 0, len(m))
	for k := range m {
		keys = append(keys, k)
	}
	sort.Strings(keys)
	Shuffle(r, keys)
	items := make([]string, len(keys))
	for i, k := range keys {
		items[i] = CPair(CStr(k), CStr(m[k]))
	}
	return CList(items)
}

func selftestTargets(r *Rng, gens map[string]*gen) []*stFile {
	var out []*stFile
	want := func(prop, name string, f *stFile) bool {
		if hasFunc(gens[prop], name) {
			return true
		}
		f.skipped = append(f.skipped, name+" is not available (unsupported or renamed)")
		return false
	}
	fileNames := []string{"", ".", "..", "a", "a.b", "A-b_c.9", "a/b", "..a", "a..", " ", "a b", "é", "a\n", "-", "_", "...", "a\x00"}
	for i := 0; i < 60; i++ {
		fileNames = append(fileNames, stString(r, []string{"a", "Z", "0", "_", ".", "-", "/", " ", "é"}, 5))
	}

	// C04: IsSubsetDN
	{
		f := &stFile{name: "cases_gen_C04.v", prelude: genPrelude("C04")}
		if want("C04", "gen_pkix_IsSubsetDN", f) {
			keys := []string{"C", "ST", "O", "CN", "OU", ""}
			vals := []string{"", "a", "b", "US", "a b"}
			for i := 0; i < 400; i++ {
				a, b := map[string]string{}, map[string]string{}
				for k := r.Intn(4); k > 0; k-- {
					a[Pick(r, keys)] = Pick(r, vals)
				}
				if r.Intn(3) == 0 {
					for k, v := range a {
						b[k] = v
					}
				}
				for k := r.Intn(4); k > 0; k-- {
					b[Pick(r, keys)] = Pick(r, vals)
				}
				f.add(cBoolEq(fmt.Sprintf("(gen_pkix_IsSubsetDN %s %s)", cAssoc(a, r), cAssoc(b, r)), CBool(verifbridge.IsSubsetDN(a, b))))
			}
		}
		out = append(out, f)
	}
	// C13: IsValidFileName, TrimFileExtension
	{
		f := &stFile{name: "cases_gen_C13.v", prelude: genPrelude("C13")}
		if want("C13", "gen_file_IsValidFileName", f) {
			for _, s := range fileNames {
				f.add(cBoolEq(fmt.Sprintf("(gen_file_IsValidFileName %s)", CStr(s)), CBool(verifbridge.IsValidFileName(s))))
			}
		}
		if want("C13", "gen_file_TrimFileExtension", f) {
			for _, s := range fileNames {
				f.add(fmt.Sprintf("seqb (gen_file_TrimFileExtension %s) %s", CStr(s), CStr(verifbridge.TrimFileExtension(s))))
			}
		}
		out = append(out, f)
	}
	// C20: IsValid, ComparePluginVersion (oracle = what x/mod/semver answered)
	{
		f := &stFile{name: "cases_gen_C20.v", prelude: genPrelude("C20")}
		vers := []string{"", "1.0.0", "1.2.3", "01.0.0", "1.0", "1.0.0-alpha", "1.0.0-alpha.1", "1.0.0+build", "1.0.0-0.3.7", "1.0.0-01", "v1.0.0", "1.0.0-", "1.0.0+", "10.20.30", "1.0.0-alpha+b.1", "1.0.0 ", "1.0.0\n", "1.0.0-é"}
		for i := 0; i < 60; i++ {
			vers = append(vers, stString(r, []string{"1", "0", ".", "-", "+", "a", "10"}, 7))
		}
		if want("C20", "gen_semver_IsValid", f) {
			for _, v := range vers {
				f.add(cBoolEq(fmt.Sprintf("(gen_semver_IsValid %s)", CStr(v)), CBool(verifbridge.SemverIsValid(v))))
			}
		}
		if want("C20", "gen_semver_ComparePluginVersion", f) {
			for i := 0; i < 150; i++ {
				v, w := Pick(r, vers), Pick(r, vers)
				got, err := verifbridge.ComparePluginVersion(v, w)
				orc := semver.Compare("v"+v, "v"+w)
				f.add(fmt.Sprintf("(let '(n, e) := gen_semver_ComparePluginVersion (fun _ _ => %s) %s %s in Z.eqb n %s && err_matches e %s)",
					CZ(int64(orc)), CStr(v), CStr(w), CZ(int64(got)), errMsg(err)))
			}
		}
		out = append(out, f)
	}
	out = append(out, selftestC09(r, gens), selftestC08(r, gens))
	for _, p := range []string{"C02", "C03", "C05", "C15", "C16", "C18"} {
		f := &stFile{name: "cases_gen_" + p + ".v", prelude: genPrelude(p)}
		f.skipped = append(f.skipped, "the targets of "+p+" are unexported and not re-exported by /repo/verifbridge: no selftest")
		out = append(out, f)
	}
	return out
}

// ---------- trust policy documents ----------

func cSigVer(sv trustpolicy.SignatureVerification, r *Rng) string {
	ov := map[string]string{}
	for k, v := range sv.Override {
		ov[string(k)] = string(v)
	}
	return fmt.Sprintf("(mk_SignatureVerification %s %s %s)", CStr(sv.VerificationLevel), cAssoc(ov, r), CStr(string(sv.VerifyTimestamp)))
}

func stSigVer(r *Rng) trustpolicy.SignatureVerification {
	levels := []string{"strict", "permissive", "audit", "skip", "", "Strict", "custom"}
	sv := trustpolicy.SignatureVerification{VerificationLevel: Pick(r, levels)}
	if r.Intn(3) != 0 {
		sv.VerificationLevel = Pick(r, levels[:4])
	}
	if r.Intn(2) == 0 {
		sv.Override = map[trustpolicy.ValidationType]trustpolicy.ValidationAction{}
		types := []string{"integrity", "authenticity", "authenticTimestamp", "expiry", "revocation", "bogus", ""}
		acts := []string{"enforce", "log", "skip", "bogus", ""}
		for k := r.Intn(3); k > 0; k-- {
			t, a := Pick(r, types), Pick(r, acts)
			if r.Intn(3) != 0 {
				t, a = Pick(r, types[1:5]), Pick(r, acts[:2])
			}
			sv.Override[trustpolicy.ValidationType(t)] = trustpolicy.ValidationAction(a)
		}
		// Go ranges over the map in a random order: with two offending entries the
		// reported error is not determined, so at most one is kept
		bad := 0
		for t, a := range sv.Override {
			okT := t == "authenticity" || t == "authenticTimestamp" || t == "expiry" || t == "revocation"
			okA := a == "enforce" || a == "log" || (a == "skip" && t == "revocation")
			if !okT || !okA {
				bad++
				if bad > 1 {
					delete(sv.Override, t)
				}
			}
		}
	}
	if r.Intn(3) == 0 {
		sv.VerifyTimestamp = trustpolicy.TimestampOption(Pick(r, []string{"always", "afterCertExpiry", "never", ""}))
	}
	return sv
}

var stStores = []string{"ca:acme", "signingAuthority:sa-1", "tsa:t", "ca:", "ca", "bogus:x", "ca:a/b", ":x", "ca:..", "ca:a:b"}
var stIds = []string{"*", "x509.subject:C=US,ST=WA,O=acme", "x509.subject:C=US,ST=WA,O=acme,CN=x", "x509.subject:C=DE,ST=BY,O=other", "x509.subject:", "x509.subject:bad", "did:example", "noseparator", "", "x509.subject:C=US,ST=WA"}
var stScopes = []string{"*", "registry.io/repo", "registry.io/repo/sub", "localhost:5000/a", "registry.io", "Registry.io/Repo", "registry.io/repo*", "", "reg.io/a_b", "reg.io/a__b", "reg.io/a--b"}

func stList(r *Rng, pool []string, max int) []string {
	n := r.Intn(max + 1)
	var out []string
	for i := 0; i < n; i++ {
		out = append(out, Pick(r, pool))
	}
	return out
}

// dnOracle prints the oracle for ParseDistinguishedName: a table of what the
// real function answers for every identity value that can be asked.
func dnOracle() string {
	var items []string
	for _, id := range stIds {
		_, v, ok := strings.Cut(id, ":")
		if !ok {
			continue
		}
		m, err := verifbridge.ParseDistinguishedName(v)
		mm := "[]"
		if err == nil {
			mm = CMap(m)
		}
		e := "None"
		if err != nil {
			e = "(Some (Err \"fmt\" \"%s\" []))"
		}
		items = append(items, fmt.Sprintf("(%s, (%s, %s))", CStr(v), mm, e))
	}
	return "Definition dn_oracle (s : string) : list (string * string) * option err :=\n  match map_get String.eqb s " + CList(items) + " with Some r => r | None => ([], Some (Err \"fmt\" \"%s\" [])) end.\n"
}

func selftestC09(r *Rng, gens map[string]*gen) *stFile {
	f := &stFile{name: "cases_gen_C09.v", prelude: genPrelude("C09") + dnOracle()}
	g := gens["C09"]
	if hasFunc(g, "gen_trustpolicy_SignatureVerification_GetVerificationLevel") {
		for i := 0; i < 300; i++ {
			sv := stSigVer(r)
			lvl, err := sv.GetVerificationLevel()
			name, enf := "", "[]"
			nilp := "true"
			if lvl != nil {
				nilp = "false"
				name = lvl.Name
				m := map[string]string{}
				for k, v := range lvl.Enforcement {
					m[string(k)] = string(v)
				}
				enf = CMap(m)
			}
			// the level is compared as a map: every key of the Go map has the same binding, and the sizes agree
			f.add(fmt.Sprintf(`(match gen_trustpolicy_SignatureVerification_GetVerificationLevel %s with
  | Some (p, e) => err_matches e %s && Bool.eqb (ptr_is_nil p) %s &&
      match ptr_val p with
      | None => true
      | Some l => seqb (VerificationLevel_Name l) %s && Z.eqb (map_len String.eqb (VerificationLevel_Enforcement l)) %d
                  && forallb (fun kv => osteqb (map_get String.eqb (fst kv) (VerificationLevel_Enforcement l)) (Some (snd kv))) %s
      end
  | None => false end)`, cSigVer(sv, r), errMsg(err), nilp, CStr(name), lenEnf(lvl), enf))
		}
	} else {
		f.skipped = append(f.skipped, "GetVerificationLevel is not available")
	}
	okOCI := hasFunc(g, "gen_trustpolicy_OCIDocument_Validate")
	okBlob := hasFunc(g, "gen_trustpolicy_BlobDocument_Validate")
	if !okOCI {
		f.skipped = append(f.skipped, "OCIDocument.Validate is not available")
	}
	if !okBlob {
		f.skipped = append(f.skipped, "BlobDocument.Validate is not available")
	}
	names := []string{"p1", "p2", "p3", "", "p1"}
	for i := 0; i < 500; i++ {
		valid := r.Intn(3) != 0 // mostly valid statements, each rule broken by its own edit
		n := r.Intn(4)
		if valid && n == 0 {
			n = 1
		}
		version := "1.0"
		if r.Intn(10) == 0 {
			version = Pick(r, []string{"", "2.0", "1"})
		}
		var oci trustpolicy.OCIDocument
		var blob trustpolicy.BlobDocument
		oci.Version, blob.Version = version, version
		for k := 0; k < n; k++ {
			var name string
			var sv trustpolicy.SignatureVerification
			var stores, ids, scopes []string
			if valid {
				name = fmt.Sprintf("s%d", k)
				sv = trustpolicy.SignatureVerification{VerificationLevel: Pick(r, []string{"strict", "permissive", "audit"})}
				stores = []string{Pick(r, stStores[:3])}
				ids = []string{Pick(r, stIds[:4])}
				scopes = []string{fmt.Sprintf("registry.io/repo%d", k)}
				switch r.Intn(12) {
				case 0:
					name = Pick(r, names)
				case 1:
					sv = stSigVer(r)
				case 2:
					stores = stList(r, stStores, 3)
				case 3:
					ids = stList(r, stIds, 3)
				case 4:
					scopes = stList(r, stScopes, 3)
				case 5:
					sv.VerificationLevel = "skip"
					stores, ids = nil, nil
				}
			} else {
				name = Pick(r, names)
				sv = stSigVer(r)
				stores, ids, scopes = stList(r, stStores, 3), stList(r, stIds, 3), stList(r, stScopes, 3)
			}
			oci.TrustPolicies = append(oci.TrustPolicies, trustpolicy.OCITrustPolicy{Name: name, SignatureVerification: sv, TrustStores: stores, TrustedIdentities: ids, RegistryScopes: scopes})
			blob.TrustPolicies = append(blob.TrustPolicies, trustpolicy.BlobTrustPolicy{Name: name, SignatureVerification: sv, TrustStores: stores, TrustedIdentities: ids, GlobalPolicy: r.Intn(4) == 0})
		}
		if okOCI {
			var sts []string
			for _, s := range oci.TrustPolicies {
				sts = append(sts, fmt.Sprintf("(mk_OCITrustPolicy %s %s %s %s %s)", CStr(s.Name), cSigVer(s.SignatureVerification, r), CStrList(s.TrustStores), CStrList(s.TrustedIdentities), CStrList(s.RegistryScopes)))
			}
			err := oci.Validate()
			f.add(fmt.Sprintf("(match gen_trustpolicy_OCIDocument_Validate dn_oracle (PNew (mk_OCIDocument %s %s)) with Some e => err_matches e %s | None => false end)", CStr(oci.Version), CList(sts), errMsg(err)))
		}
		if okBlob {
			var sts []string
			for _, s := range blob.TrustPolicies {
				sts = append(sts, fmt.Sprintf("(mk_BlobTrustPolicy %s %s %s %s %s)", CStr(s.Name), cSigVer(s.SignatureVerification, r), CStrList(s.TrustStores), CStrList(s.TrustedIdentities), CBool(s.GlobalPolicy)))
			}
			err := blob.Validate()
			f.add(fmt.Sprintf("(match gen_trustpolicy_BlobDocument_Validate dn_oracle (PNew (mk_BlobDocument %s %s)) with Some e => err_matches e %s | None => false end)", CStr(blob.Version), CList(sts), errMsg(err)))
		}
	}
	if okOCI {
		var d *trustpolicy.OCIDocument
		f.add(fmt.Sprintf("(match gen_trustpolicy_OCIDocument_Validate dn_oracle PNil with Some e => err_matches e %s | None => false end)", errMsg(d.Validate())))
	}
	if okBlob {
		var d *trustpolicy.BlobDocument
		f.add(fmt.Sprintf("(match gen_trustpolicy_BlobDocument_Validate dn_oracle PNil with Some e => err_matches e %s | None => false end)", errMsg(d.Validate())))
	}
	return f
}

func lenEnf(l *trustpolicy.VerificationLevel) int {
	if l == nil {
		return 0
	}
	return len(l.Enforcement)
}

func selftestC08(r *Rng, gens map[string]*gen) *stFile {
	f := &stFile{name: "cases_gen_C08.v", prelude: genPrelude("C08")}
	g := gens["C08"]
	refs := []string{"registry.io/repo@sha256:abc", "registry.io/repo/sub@sha256:abc", "localhost:5000/a@x", "registry.io/repo", "registry.io/repo@", "@", "a@b@c", "registry.io/other@d", "Registry.io/repo@d", "", "registry.io/repo0@d", "registry.io/repo1@d"}
	if hasFunc(g, "gen_trustpolicy_OCIDocument_GetApplicableTrustPolicy") {
		for i := 0; i < 300; i++ {
			var doc trustpolicy.OCIDocument
			doc.Version = "1.0"
			var sts []string
			for k := r.Intn(4); k > 0; k-- {
				s := trustpolicy.OCITrustPolicy{Name: fmt.Sprintf("s%d", k), SignatureVerification: stSigVer(r), TrustStores: stList(r, stStores, 2), TrustedIdentities: stList(r, stIds, 2), RegistryScopes: stList(r, append([]string{"registry.io/repo0", "registry.io/repo1"}, stScopes[:4]...), 3)}
				doc.TrustPolicies = append(doc.TrustPolicies, s)
				sts = append(sts, fmt.Sprintf("(mk_OCITrustPolicy %s %s %s %s %s)", CStr(s.Name), cSigVer(s.SignatureVerification, r), CStrList(s.TrustStores), CStrList(s.TrustedIdentities), CStrList(s.RegistryScopes)))
			}
			ref := Pick(r, refs)
			p, err := doc.GetApplicableTrustPolicy(ref)
			exp := "None"
			if p != nil {
				exp = CSome(CStr(p.Name + "|" + strings.Join(p.RegistryScopes, ",") + "|" + strings.Join(p.TrustStores, ",") + "|" + p.SignatureVerification.VerificationLevel))
			}
			f.add(fmt.Sprintf(`(match gen_trustpolicy_OCIDocument_GetApplicableTrustPolicy (mk_OCIDocument "1.0" %s) %s with
  | Some (p, e) => err_matches e %s && osteqb (match ptr_val p with Some s => Some (String.concat "|" [OCITrustPolicy_Name s; String.concat "," (OCITrustPolicy_RegistryScopes s); String.concat "," (OCITrustPolicy_TrustStores s); SignatureVerification_VerificationLevel (OCITrustPolicy_SignatureVerification s)]) | None => None end) %s
  | None => false end)`, CList(sts), CStr(ref), errMsg(err), exp))
		}
	} else {
		f.skipped = append(f.skipped, "OCIDocument.GetApplicableTrustPolicy is not available")
	}
	if hasFunc(g, "gen_trustpolicy_BlobDocument_GetApplicableTrustPolicy") {
		for i := 0; i < 150; i++ {
			var doc trustpolicy.BlobDocument
			var sts []string
			for k := r.Intn(4); k > 0; k-- {
				s := trustpolicy.BlobTrustPolicy{Name: Pick(r, []string{"p1", "p2", " p1", ""}), SignatureVerification: stSigVer(r), TrustStores: stList(r, stStores, 2), GlobalPolicy: r.Intn(3) == 0}
				doc.TrustPolicies = append(doc.TrustPolicies, s)
				sts = append(sts, fmt.Sprintf("(mk_BlobTrustPolicy %s %s %s %s %s)", CStr(s.Name), cSigVer(s.SignatureVerification, r), CStrList(s.TrustStores), CStrList(s.TrustedIdentities), CBool(s.GlobalPolicy)))
			}
			name := Pick(r, []string{"p1", "p2", "", " ", " p1", " ", "p3"})
			p, err := doc.GetApplicableTrustPolicy(name)
			exp := "None"
			if p != nil {
				exp = CSome(CStr(p.Name + "|" + strings.Join(p.TrustStores, ",")))
			}
			f.add(fmt.Sprintf(`(let '(p, e) := gen_trustpolicy_BlobDocument_GetApplicableTrustPolicy (mk_BlobDocument "1.0" %s) %s in
  err_matches e %s && osteqb (match ptr_val p with Some s => Some (String.concat "|" [BlobTrustPolicy_Name s; String.concat "," (BlobTrustPolicy_TrustStores s)]) | None => None end) %s)`, CList(sts), CStr(name), errMsg(err), exp))
			gp, gerr := doc.GetGlobalTrustPolicy()
			gexp := "None"
			if gp != nil {
				gexp = CSome(CStr(gp.Name))
			}
			if hasFunc(g, "gen_trustpolicy_BlobDocument_GetGlobalTrustPolicy") {
				f.add(fmt.Sprintf(`(let '(p, e) := gen_trustpolicy_BlobDocument_GetGlobalTrustPolicy (mk_BlobDocument "1.0" %s) in
  err_matches e %s && osteqb (match ptr_val p with Some s => Some (BlobTrustPolicy_Name s) | None => None end) %s)`, CList(sts), errMsg(gerr), gexp))
			}
		}
	} else {
		f.skipped = append(f.skipped, "BlobDocument.GetApplicableTrustPolicy is not available")
	}
	return f
}

// extraSelftests: generators registered by files under additional build tags (golite_selftest_hooks.go).
var extraSelftests []func(r *Rng, gens map[string]*gen) []*stFile

func runSelftest(repo, out string, gens map[string]*gen) {
	r := NewRng(20260928)
	files := append([]*stFile{selftestGoLib(r)}, selftestTargets(r, gens)...)
	for _, extra := range extraSelftests {
		files = append(files, extra(r, gens)...)
	}
	if len(extraSelftests) == 0 {
		fmt.Println("golite-selftest: hooks: absent (built without the tag verifhooks): the unexported targets are skipped")
	}
	sg, sf := selftestSynth(r)
	files = append(files, sf)
	if sg != nil {
		for _, it := range sg.items {
			if it.kind == "func" {
				if it.status == "ok" {
					fmt.Println("golite-selftest: synth ok " + it.label)
				} else {
					fmt.Println("golite-selftest: synth refused " + it.label + ": " + it.reason)
				}
			}
		}
		if err := os.WriteFile(filepath.Join(out, "T00_Gen.v"), []byte(sg.render()), 0o644); err != nil {
			fmt.Println("golite-selftest: cannot write T00_Gen.v:", err)
		}
	}
	total := 0
	for _, f := range files {
		shards, err := f.write(out)
		if err != nil {
			fmt.Println("golite-selftest: cannot write", f.name, err)
			continue
		}
		total += len(f.cases)
		fmt.Printf("golite-selftest: %s cases=%d shards=%d skipped=%d\n", f.name, len(f.cases), shards, len(f.skipped))
	}
	fmt.Printf("golite-selftest: total cases=%d\n", total)
}
