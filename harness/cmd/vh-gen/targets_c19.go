package main

// C19: GoLite targets (docs/GOLITE_NOTES.md). Theorems: coq/props/C19_Generated.v
// (proofs in coq/theories/C19_GenProofs.v), table and what stays outside:
// docs/audit/C19.md section "GoLite".
//
// registry/repository.go speaks to the store through oras interfaces; the store
// itself (oci.Store, a stateful object) is outside the subset, so every call into
// it is an oracle ("a pure function of its non-dropped arguments": the state of the
// store at the moment of the call is part of the oracle, see the hypotheses
// push_agrees / cfg_agrees / pack_agrees of C19_GenProofs.v). The pusher / store
// argument a function merely hands on is dropped like a context.
func init() {
	const reg = ".../registry"
	const oc = "oras.land/oras-go/v2/content"
	const oras = "oras.land/oras-go/v2"
	Register("C19", []Target{
		// subject comparison (signatureReferrers: content.Equal(*x.Subject, desc)) and the
		// key of the predecessor graph of oci.Store (graph.Memory keys by descriptor.FromOCI)
		{Pkg: oc, Func: "Equal"},
		{Pkg: "oras.land/oras-go/v2/internal/descriptor", Func: "FromOCI"},

		// PushSignature, first half: oras.PushBytes (descriptor of the envelope: media type
		// default, digest, length; the error of Push, ErrAlreadyExists included, is returned)
		{Pkg: "github.com/opencontainers/go-digest", Func: "FromBytes", Oracle: true},
		{Pkg: oc, Func: "NewDescriptorFromBytes"},
		{Pkg: oc, Type: "Pusher", Opaque: true},
		{Pkg: "bytes", Type: "Reader", Opaque: true},
		{Pkg: "bytes", Func: "NewReader", Oracle: true},
		{Pkg: oc, Func: "Pusher.Push", Oracle: true, AnyReceiver: true, DropParams: []string{"content"}},
		{Pkg: oras, Func: "PushBytes"},

		// PushSignature, second half: the request uploadSignatureManifest hands to
		// oras.PackManifest (subject, the one layer, annotations, config descriptor)
		{Pkg: oras, Func: "PackManifest", Oracle: true, DropParams: []string{"pusher"}},
		// oracle only because its package variable notationEmptyConfigDesc depends on
		// ocispec.DescriptorEmptyJSON, whose initialiser has `Data: []byte("{}")`
		// (image-spec specs-go/v1/descriptor.go:79: conversion from string to []byte)
		{Pkg: reg, Func: "pushNotationManifestConfig", Oracle: true, DropParams: []string{"pusher"}},
		{Pkg: reg, Func: "(*repositoryClient).uploadSignatureManifest"},

		// the creation time PackManifest adds to the annotations (oras pack.go)
		{Pkg: "time", Func: "Now", Oracle: true},
		{Pkg: "time", Func: "Parse", Oracle: true},
		{Pkg: "time", Func: "Time.UTC", Oracle: true},
		{Pkg: "time", Func: "Time.Format", Oracle: true},
		{Pkg: "maps", Func: "Copy"},
		{Pkg: oras, Func: "ensureAnnotationCreated"},

		// Refused by the translator; kept because the reason documents what C19 still ties
		// to the code by the correspondence harness only (docs/audit/C19.md, GoLite):
		// json.Unmarshal(fetched, &artifact): `any` and a callee writing through a pointer
		// (registry/repository.go:261, 278); content.FetchAll(ctx, target, node) passes a
		// ReadOnlyGraphStorage where a Fetcher is expected (interface upcast, :256, :273)
		{Pkg: reg, Func: "signatureReferrers"},
		// comma-ok type assertion c.GraphTarget.(registry.Repository) / (registry.ReferrerLister)
		// (registry/repository.go:108, 131, 146, 172) and `var fetcher content.Fetcher = c.GraphTarget` (:130, :145, :171)
		{Pkg: reg, Func: "(*repositoryClient).getSignatureBlobDesc"},
		{Pkg: reg, Func: "(*repositoryClient).FetchSignatureBlob"},
		{Pkg: reg, Func: "(*repositoryClient).PushSignature"},
		{Pkg: reg, Func: "(*repositoryClient).ListSignatures"},
	})
}
