package main

// C06: GoLite targets (docs/GOLITE_NOTES.md): expiry and authentic timestamp.
func init() {
	const v = ".../verifier"
	Register("C06", []Target{
		{Pkg: "time", Func: "Now", Oracle: true},
		{Pkg: "crypto/x509", Type: "Certificate", Opaque: true, Views: map[string]string{
			"NotBefore": "time.Time", "NotAfter": "time.Time", "Subject": "string", "Subject.String()": "string"}},
		{Pkg: v, Func: "verifyExpiry"},
		{Pkg: v, Func: "isTSATrustStoreInPolicy"},
		{Pkg: v, Func: "checkRevocationResults"},
		{Pkg: v, Func: "revocationFinalResult"},
		{Pkg: v, Func: "verifyTimestamp"},
		{Pkg: v, Func: "verifyAuthenticTimestamp"},
	})
}
