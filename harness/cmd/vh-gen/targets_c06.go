package main

// C06: GoLite targets (docs/GOLITE_NOTES.md): expiry and authentic timestamp.
// Theorems: coq/props/C06_Generated.v (proofs coq/theories/C06_GenProofs.v); table in docs/audit/C06.md, section GoLite.
func init() {
	const v = ".../verifier"
	Register("C06", []Target{
		{Pkg: "time", Func: "Now", Oracle: true},
		{Pkg: "crypto/x509", Type: "Certificate", Opaque: true, Views: map[string]string{
			"NotBefore": "Z", "NotAfter": "Z", "Subject": "string", "Subject.String()": "string"}},
		// only feeds error messages: needed so that the message arguments are seen to be total
		{Pkg: "time", Func: "Time.Format", Oracle: true},
		{Pkg: v, Func: "verifyExpiry"},
		{Pkg: v, Func: "isTSATrustStoreInPolicy"},
		{Pkg: v, Func: "checkRevocationResults"},
		{Pkg: v, Func: "revocationFinalResult"},
		// the countersignature step: what the dependencies decide is an oracle
		{Pkg: "github.com/notaryproject/tspclient-go", Type: "SignedToken", Opaque: true},
		{Pkg: "github.com/notaryproject/tspclient-go", Type: "TSTInfo", Opaque: true},
		{Pkg: "github.com/notaryproject/tspclient-go", Func: "ParseSignedToken", Oracle: true},
		{Pkg: "github.com/notaryproject/tspclient-go", Func: "(*SignedToken).Info", Oracle: true},
		{Pkg: "github.com/notaryproject/tspclient-go", Func: "(*SignedToken).Verify", Oracle: true},
		{Pkg: "github.com/notaryproject/tspclient-go", Func: "(*TSTInfo).Validate", Oracle: true},
		{Pkg: "time", Func: "Time.Add", Oracle: true},
		{Pkg: "github.com/notaryproject/tspclient-go", Func: "(*Timestamp).BoundedBefore"},
		{Pkg: "github.com/notaryproject/tspclient-go", Func: "(*Timestamp).BoundedAfter"},
		{Pkg: "github.com/notaryproject/tspclient-go", Func: "(*Timestamp).Format", Oracle: true},
		{Pkg: "github.com/notaryproject/notation-core-go/x509", Func: "ValidateTimestampingCertChain", Oracle: true},
		// x509.CertPool is NOT declared opaque: the literal x509.VerifyOptions{CurrentTime, Roots} needs a zero
		// value for the other *CertPool field (Intermediates), which an opaque pointer type does not have.
		// AddCert is called for its effect on the pool; an oracle is pure, so the translation drops the effect:
		// the pool handed to SignedToken.Verify is always NewCertPool() (limitation, docs/audit/C06.md).
		{Pkg: "crypto/x509", Func: "NewCertPool", Oracle: true},
		{Pkg: "crypto/x509", Func: "(*CertPool).AddCert", Oracle: true, Drop: true}, // Drop (added by b-gen): the effect on the pool is declared irrelevant; without it the statement call is now refused
		{Pkg: ".../internal/container", Func: "New"},
		{Pkg: ".../internal/container", Func: "Set.Add"},
		{Pkg: ".../internal/container", Func: "Set.Contains"},
		{Pkg: v, Func: "loadX509TrustStoresWithType"},
		{Pkg: v, Func: "loadX509TSATrustStores"},
		{Pkg: v, Func: "verifyTimestamp"},
		{Pkg: v, Func: "verifyAuthenticTimestamp"},
	})
}
