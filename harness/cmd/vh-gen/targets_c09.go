package main

// C09: trust policy document validation (verifier/trustpolicy).
func init() {
	const tp = ".../verifier/trustpolicy"
	Register("C09", []Target{
		{Pkg: ".../internal/file", Func: "IsValidFileName"},
		{Pkg: tp, Func: "isValidTrustStoreType"},
		{Pkg: tp, Func: "validateTrustStore"},
		{Pkg: ".../internal/slices", Func: "Contains"},
		{Pkg: ".../internal/pkix", Func: "IsSubsetDN"},
		{Pkg: ".../internal/pkix", Func: "ParseDistinguishedName", Oracle: true},
		{Pkg: tp, Func: "validateOverlappingDNs"},
		{Pkg: tp, Func: "validateTrustedIdentities"},
		{Pkg: tp, Func: "(*SignatureVerification).GetVerificationLevel"},
		{Pkg: tp, Func: "validatePolicyCore"},
		{Pkg: ".../internal/container", Func: "New"},
		{Pkg: ".../internal/container", Func: "Set.Add"},
		{Pkg: ".../internal/container", Func: "Set.Contains"},
		{Pkg: tp, Func: "validateRegistryScopeFormat"},
		{Pkg: tp, Func: "validateRegistryScopes", NonNil: true},
		{Pkg: tp, Func: "(*OCIDocument).Validate", NilableRecv: true},
		{Pkg: tp, Func: "(*BlobDocument).Validate", NilableRecv: true},
		// Not listed (tried, refused by the translator; docs/audit/C09.md, section GoLite):
		//   verifier.NewVerifierWithOptions - the forced validation at construction starts with `trustStore == nil`
		//   on an interface value (verifier/verifier.go:150); as a refused row it would also pull ~250 lines of
		//   crypto/x509 records into C09_Gen.v (the row is kept, with the same reason, in targets_c12.go).
		//   verifier.New / NewWithOptions - take a plugin.Manager (multi-method interface, verifier/verifier.go:139,
		//   192) and only forward to NewVerifierWithOptions.
		// The constructors stay tied by the correspondence family `constructors` of vh-c09 (C09_Model.construct).
	})
}
