package main

// C09: trust policy document validation (verifier/trustpolicy).
func init() {
	const tp = ".../verifier/trustpolicy"
	Register("C09", []Target{
		{Pkg: ".../internal/file", Func: "IsValidFileName"},
		{Pkg: tp, Func: "isValidTrustStoreType"},
		{Pkg: tp, Func: "validateTrustStore"},
		{Pkg: ".../internal/slices", Func: "Contains"},
		{Pkg: ".../internal/pkix", Func: "IsSubsetDN"},
		{Pkg: ".../internal/pkix", Func: "ParseDistinguishedName", Oracle: true},
		{Pkg: tp, Func: "validateOverlappingDNs"},
		{Pkg: tp, Func: "validateTrustedIdentities"},
		{Pkg: tp, Func: "(*SignatureVerification).GetVerificationLevel"},
		{Pkg: tp, Func: "validatePolicyCore"},
		{Pkg: ".../internal/container", Func: "New"},
		{Pkg: ".../internal/container", Func: "Set.Add"},
		{Pkg: ".../internal/container", Func: "Set.Contains"},
		{Pkg: tp, Func: "validateRegistryScopeFormat"},
		{Pkg: tp, Func: "validateRegistryScopes", NonNil: true},
		{Pkg: tp, Func: "(*OCIDocument).Validate", NilableRecv: true},
		{Pkg: tp, Func: "(*BlobDocument).Validate", NilableRecv: true},
	})
}
