package main

// GoLite --selftest, part 2: the synthetic regression corpus (synth/synth.go).
// Its source is embedded, type-checked with go/types, translated like any
// other package into T00_Gen.v, and every function of synth.Funcs is called
// by reflection on generated inputs; the results (or the panic) are printed as
// Coq checks in cases_gen_T00.v.

import (
	_ "embed"
	"fmt"
	"go/ast"
	"go/importer"
	"go/parser"
	"go/token"
	"go/types"
	"io/fs"
	"path"
	"reflect"
	"sort"
	"strings"
	"testing/fstest"
	"time"

	"golang.org/x/tools/go/packages"

	"vh/cmd/vh-gen/synth"
	. "vh/kit"
)

//go:embed synth/synth.go
var synthSource []byte

const synthPath = "vh/cmd/vh-gen/synth"

func loadSynth() (*packages.Package, error) {
	fset := token.NewFileSet()
	f, err := parser.ParseFile(fset, "harness/cmd/vh-gen/synth/synth.go", synthSource, parser.ParseComments)
	if err != nil {
		return nil, err
	}
	info := &types.Info{
		Types: map[ast.Expr]types.TypeAndValue{}, Defs: map[*ast.Ident]types.Object{}, Uses: map[*ast.Ident]types.Object{},
		Selections: map[*ast.SelectorExpr]*types.Selection{}, Instances: map[*ast.Ident]types.Instance{},
		Implicits: map[ast.Node]types.Object{}, Scopes: map[ast.Node]*types.Scope{},
	}
	conf := types.Config{Importer: importer.ForCompiler(fset, "source", nil)}
	pkg, err := conf.Check(synthPath, fset, []*ast.File{f}, info)
	if err != nil {
		return nil, err
	}
	return &packages.Package{ID: synthPath, PkgPath: synthPath, Name: "synth", Fset: fset, Syntax: []*ast.File{f}, Types: pkg, TypesInfo: info}, nil
}

// synthOpts: target options of the functions of the corpus that need some.
var synthOpts = map[string]Target{
	"fill":                 {NonNil: true},
	"listPages":            {Oracle: true, Callback: "fn"},
	"newRec":               {Oracle: true, FreshResults: true},
	"LocalIdentity":        {LocalErrorIdentity: []string{"errLimit", "errHalt"}},
	"decode":               {Oracle: true, OutParams: []string{"v"}},
	"fillFrom":             {NonNil: true, InstantiateAny: []string{"out"}},
	"record":               {NonNil: true},
	"stepFailed":           {NonNil: true},
	"counterOf":            {NonNil: true},
	"parseBlob":            {Oracle: true, OutParams: []string{"v"}},
	"genAnn":               {NilIsEmpty: true},
	"pushIt":               {Oracle: true},
	"(*RefError).IsDelete": {Oracle: true},
	"WalkList":             {DropParams: []string{"fsys"}},
	"emit":                 {Oracle: true, Effect: true},
	"tryEmit":              {Oracle: true, Effect: true},
}

// synthOracles: the Coq terms of the oracles a corpus function depends on (in
// the order of their Variables), computed by running the real Go oracle on the
// arguments of the case.
var synthOracles = map[string]func(g *gen, args []reflect.Value) []string{
	"UseFill": func(g *gen, args []reflect.Value) []string {
		return []string{
			`(fun (d : string) (r : synth_Rec) => if String.eqb d "" then (r, Some (Err "errors" "no data" [])) else (mk_Rec d (str_len d) (Rec_Tags r) (Rec_M r), None))`,
			`(fun (d : string) (c : synth_Counter) => if String.eqb d "" then (c, Some (Err "errors" "no data" [])) else (mk_Counter (str_len d) (List.app (Counter_Log c) [d]), None))`}
	},
	"StoreOf": func(g *gen, args []reflect.Value) []string {
		return []string{"string", storeLoad, "(fun m => MemStore_Prefix m)", "(fun m => MemStore_Prefix m)"}
	},
	"EffectPages": func(g *gen, args []reflect.Value) []string {
		return append(pagesOracle(g, args), eventOracles(g, args)...)
	},
	"UseBlob": func(g *gen, args []reflect.Value) []string {
		// parseBlob as a Coq function of the text: see synth.ParseBlobInto
		return []string{`(fun (d : string) (b : synth_Blob) =>
  if String.eqb d "" then (b, Some (Err "errors" "no data" []))
  else if str_has_prefix "nil" d then (mk_Blob d None None, None)
  else if str_has_prefix "empty" d then (mk_Blob d (Some []) (Some []), None)
  else (mk_Blob d (Some [1; 2]) (Some [("k", d)]), None))`}
	},
	"AsTarget": func(g *gen, args []reflect.Value) []string {
		return []string{`(fun (e : err) => match e with Err _ f _ => String.eqb f "delete" end)`,
			`(fun (op : string) => if String.eqb op "" then None
  else if str_has_prefix "w:" op then Some (Err "fmt" "push: %w" [Err "*synth.RefError" (match str_slice op 2 (str_len op) with Some t => t | None => "" end) []])
  else if str_has_prefix "a" op then Some (Err "errors" op [])
  else Some (Err "*synth.RefError" op []))`}
	},
	"WalkList": func(g *gen, args []reflect.Value) []string {
		fsys := args[0].Interface().(fs.FS)
		root := args[1].String()
		if len(root)%4 != 1 {
			root = "."
		} else if len(root) == 1 {
			root = "lockedx"
		}
		// an entry is (name, is a directory)
		return []string{"(string * bool)%type", "(fun (e : string * bool) => fst e)", "(fun (e : string * bool) => snd e)",
			"(fun (_ : string) => " + walkTop(fsys, root) + ")"}
	},
	"Effects":    eventOracles,
	"EffectTail": eventOracles,
	"UsePages":   pagesOracle,
	"UseStores": func(g *gen, args []reflect.Value) []string {
		return []string{"string", storeLoad}
	},
	"LocalIdentity":  pagesOracle,
	"OwnedPtr":       newRecOracle,
	"OwnedPtrPanics": newRecOracle,
}

// synthHelpers: exported functions of the corpus that are tested through their callers only.
var synthHelpers = map[string]bool{"AddMeta": true, "OpenHandle": true, "NewRec": true, "NewStrSet": true, "PagesOf": true}

const storeLoad = `(fun (p k : string) => if String.eqb k "" then ("", Some (Err "errors" "empty key" [])) else (String.append p (String.append ":" k), None))`

// walkTop prints what fs.WalkDir(fsys, root, ..) sees as a GoLib walk_tree (or the error of the root's Stat).
func walkTop(fsys fs.FS, root string) string {
	info, err := fs.Stat(fsys, root)
	if err != nil {
		return "(inr (Err \"errors\" " + CStr(err.Error()) + " []) : (walk_tree (string * bool)) + err)"
	}
	return "(inl " + walkNode(fsys, root, fs.FileInfoToDirEntry(info)) + " : (walk_tree (string * bool)) + err)"
}

func walkNode(fsys fs.FS, name string, d fs.DirEntry) string {
	ent := "(" + CStr(d.Name()) + ", " + CBool(d.IsDir()) + ")"
	if !d.IsDir() {
		return "(WNode " + CStr(name) + " " + ent + " false None [])"
	}
	es, rerr := fs.ReadDir(fsys, name)
	var kids []string
	for _, e := range es {
		kids = append(kids, walkNode(fsys, path.Join(name, e.Name()), e))
	}
	re := "None"
	if rerr != nil {
		re = "(Some (Err \"errors\" " + CStr(rerr.Error()) + " []))"
	}
	return "(WNode " + CStr(name) + " " + ent + " true " + re + " " + CList(kids) + ")"
}

// eventOracles: the world of the corpus is the event log (a list of strings).
func eventOracles(g *gen, args []reflect.Value) []string {
	return []string{"(list string)",
		"(fun (w : list string) (s : string) => List.app w [s])",
		`(fun (w : list string) (s : string) => if String.eqb s "" then (w, 0, Some (Err "errors" "empty event" [])) else (List.app w [String.append "try:" s], Z.of_nat (List.length w) + 1, None))`}
}

func pagesOracle(g *gen, args []reflect.Value) []string {
	{
		pages, ferr := synth.PagesOf(int(args[0].Int()))
		var ps []string
		for _, p := range pages {
			ps = append(ps, CStrList(p))
		}
		e := "None"
		if ferr != nil {
			e = "(Some (Err \"errors\" " + CStr(ferr.Error()) + " []))"
		}
		return []string{"(fun _ => ((" + CList(ps) + " : list (list string)), " + e + "))"}
	}
}

func newRecOracle(g *gen, args []reflect.Value) []string {
	r, err := synth.NewRec(args[0].String())
	e := "None"
	if err != nil {
		e = "(Some (Err \"errors\" " + CStr(err.Error()) + " []))"
	}
	return []string{"(fun _ => (" + g.coqValue(reflect.ValueOf(r), nil) + ", " + e + "))"}
}

// synthGen translates the whole corpus as property T00.
func synthGen() (*gen, error) {
	p, err := loadSynth()
	if err != nil {
		return nil, err
	}
	L := &loader{repo: "/", pkgs: map[string]*packages.Package{synthPath: p}, funcs: map[string]*funcDecl{}, vars: map[string]*varDecl{},
		mutated: map[string]bool{}, scanned: map[string]bool{}}
	L.knownSentinels = map[string]string{"io/fs.SkipDir": fs.SkipDir.Error(), "io/fs.SkipAll": fs.SkipAll.Error()}
	for _, imp := range p.Types.Imports() {
		// the packages the corpus imports: their types are enough for oracle rows on their functions
		L.pkgs[imp.Path()] = &packages.Package{ID: imp.Path(), PkgPath: imp.Path(), Name: imp.Name(), Types: imp}
	}
	table := []Target{{Pkg: "io/fs", Type: "DirEntry", Opaque: true, Nilable: true},
		{Pkg: "io/fs", Func: "DirEntry.Name", Oracle: true}, {Pkg: "io/fs", Func: "DirEntry.IsDir", Oracle: true},
		{Pkg: "io/fs", Func: "WalkDir", Oracle: true, Walk: "fn", DropParams: []string{"fsys"}},
		{Pkg: synthPath, Type: "Finder", Nilable: true}, {Pkg: synthPath, Type: "Handle", Nilable: true, Concrete: synthPath + ".FileHandle"}, {Pkg: synthPath, Type: "Blob", NilableFields: []string{"Delta", "Meta"}},
		{Pkg: synthPath, Type: "Store", Opaque: true}, {Pkg: synthPath, Func: "Store.Load", Oracle: true}}
	for _, d := range p.Syntax[0].Decls {
		fd, ok := d.(*ast.FuncDecl)
		if !ok {
			continue
		}
		name := fd.Name.Name
		if fd.Recv != nil {
			rt := fd.Recv.List[0].Type
			if st, ok := rt.(*ast.StarExpr); ok {
				name = "(*" + st.X.(*ast.Ident).Name + ")." + name
			} else {
				name = rt.(*ast.Ident).Name + "." + name
			}
		}
		t := synthOpts[name]
		t.Pkg, t.Func = synthPath, name
		table = append(table, t)
	}
	return runGoLiteProp(L, "T00", table), nil
}

// ---------- reflection: values as Coq terms ----------

// dynName mirrors golite_types.dynTypeName for a reflect.Type.
func dynName(t reflect.Type) string {
	if t.PkgPath() != "" && t.Name() != "" {
		return t.PkgPath() + "." + t.Name()
	}
	switch t.Kind() {
	case reflect.Slice:
		return "[]" + dynName(t.Elem())
	case reflect.Map:
		return "map[" + dynName(t.Key()) + "]" + dynName(t.Elem())
	case reflect.Struct:
		return t.String()
	}
	return t.String()
}

var synthIDs = map[string]int{}

// anyValue prints a Go value held in an interface as an anyv.
func anyValue(v reflect.Value) string {
	if !v.IsValid() {
		return "ANil"
	}
	t := v.Type()
	switch t.Kind() {
	case reflect.String:
		return "(AStr " + CStr(dynName(t)) + " " + CStr(v.String()) + ")"
	case reflect.Int, reflect.Int64, reflect.Int32:
		return "(AInt " + CStr(dynName(t)) + " " + CZ(v.Int()) + ")"
	case reflect.Bool:
		return "(ABool " + CStr(dynName(t)) + " " + CBool(v.Bool()) + ")"
	}
	key := fmt.Sprintf("%s|%#v", dynName(t), v.Interface())
	id, ok := synthIDs[key]
	if !ok {
		id = len(synthIDs) + 1
		synthIDs[key] = id
	}
	if t.Comparable() {
		return "(AOther " + CStr(dynName(t)) + " " + CZ(int64(id)) + ")"
	}
	return "(AUncmp " + CStr(dynName(t)) + " " + CZ(int64(id)) + ")"
}

func (g *gen) coqValue(v reflect.Value, r *Rng) string {
	if v.IsValid() && g.opaquePrint != nil {
		if pr := g.opaquePrint[v.Type().String()]; pr != nil {
			t, _ := pr(v)
			return t
		}
	}
	if v.Kind() == reflect.Interface && v.Type().NumMethod() == 0 {
		if v.IsNil() {
			return "ANil"
		}
		return anyValue(v.Elem())
	}
	if v.IsValid() && v.Type() == errorType {
		if v.IsNil() {
			return "None"
		}
		return "(Some (Err \"fmt\" " + CStr(v.Interface().(error).Error()) + " []))"
	}
	if v.IsValid() && v.Type().String() == "time.Time" {
		tm := v.Interface().(time.Time)
		if tm.IsZero() {
			return "time_zero"
		}
		return CZ(tm.UnixNano())
	}
	if !v.IsValid() {
		return "ANil"
	}
	if v.Kind() == reflect.Interface && v.Type().Name() == "Finder" {
		if v.IsNil() {
			return "PNil"
		}
		v = v.Elem()
	}
	if mf, ok := v.Interface().(synth.MapFinder); ok {
		return "(PNew (fun k => match map_get String.eqb k " + g.coqValue(reflect.ValueOf(map[string]string(mf)), r) +
			" with Some v => (v, true) | None => (\"\", false) end))"
	}
	if mg, ok := v.Interface().(synth.MapGetter); ok {
		return "(fun k => match map_get String.eqb k " + g.coqValue(reflect.ValueOf(map[string]string(mg)), r) +
			" with Some v => (v, None) | None => (\"\", Some (Err \"errors\" \"missing\" [])) end)"
	}
	switch v.Kind() {
	case reflect.String:
		return CStr(v.String())
	case reflect.Bool:
		return CBool(v.Bool())
	case reflect.Int, reflect.Int64, reflect.Int32:
		return CZ(v.Int())
	case reflect.Uint8:
		return CZ(int64(v.Uint()))
	case reflect.Slice:
		items := make([]string, v.Len())
		for i := range items {
			items[i] = g.coqValue(v.Index(i), r)
		}
		return "(" + CList(items) + " : " + g.coqType(v.Type()) + ")"
	case reflect.Map:
		keys := v.MapKeys()
		sort.Slice(keys, func(i, j int) bool { return fmt.Sprint(keys[i]) < fmt.Sprint(keys[j]) })
		if r != nil {
			Shuffle(r, keys)
		}
		items := make([]string, len(keys))
		for i, k := range keys {
			items[i] = CPair(g.coqValue(k, r), g.coqValue(v.MapIndex(k), r))
		}
		return "(" + CList(items) + " : " + g.coqType(v.Type()) + ")"
	case reflect.Struct:
		rec := g.recordOf(v.Type())
		args := append([]string{rec.ctor}, g.sectionInst(rec.ctor)...)
		for _, f := range rec.fields {
			fv := v.FieldByName(f.goName)
			if f.nilable {
				if fv.IsNil() {
					args = append(args, "None")
				} else {
					args = append(args, "(Some "+g.coqValue(fv, r)+")")
				}
				continue
			}
			args = append(args, g.coqValue(fv, r))
		}
		return "(" + strings.Join(args, " ") + ")"
	case reflect.Ptr:
		if v.IsNil() {
			return "PNil"
		}
		return "(PNew " + g.coqValue(v.Elem(), r) + ")"
	}
	panic("synth: value of kind " + v.Kind().String())
}

func (g *gen) coqType(t reflect.Type) string {
	if t.String() == "time.Time" {
		return "Z"
	}
	if g.opaquePrint != nil {
		if pr := g.opaquePrint[t.String()]; pr != nil {
			_, ty := pr(reflect.Zero(t))
			return ty
		}
	}
	switch t.Kind() {
	case reflect.String:
		return "string"
	case reflect.Bool:
		return "bool"
	case reflect.Int, reflect.Int64, reflect.Int32, reflect.Uint8:
		return "Z"
	case reflect.Slice:
		return "list " + g.coqTypeP(t.Elem())
	case reflect.Map:
		return "list (" + g.coqTypeP(t.Key()) + " * " + g.coqTypeP(t.Elem()) + ")"
	case reflect.Struct:
		rn := g.recordOf(t).name
		if inst := g.sectionInst(rn); len(inst) > 0 {
			return "(" + rn + " " + strings.Join(inst, " ") + ")"
		}
		return rn
	case reflect.Ptr:
		return "ptr " + g.coqTypeP(t.Elem())
	case reflect.Interface:
		if t.NumMethod() == 0 {
			return "anyv"
		}
		if t == errorType {
			return "option err"
		}
	}
	panic("synth: type of kind " + t.Kind().String())
}

func (g *gen) coqTypeP(t reflect.Type) string {
	s := g.coqType(t)
	if strings.Contains(s, " ") {
		return "(" + s + ")"
	}
	return s
}

// recordOf finds the generated Record of a Go struct type.
func (g *gen) recordOf(t reflect.Type) *recInfo {
	r := recCache[g]["type:"+t.PkgPath()+"."+t.Name()]
	if r == nil {
		panic("selftest: record " + t.PkgPath() + "." + t.Name() + " was not generated")
	}
	return r
}

// sectionVars maps a generated global name to the Section Variables it
// (transitively) depends on, in order of declaration: after the Section is
// closed these are its leading arguments.
func (g *gen) sectionVars(name string) []string {
	if g.secDeps == nil {
		g.secDeps = map[string][]string{}
		var vars []string
		isVar := map[string]bool{}
		defs := map[string]string{} // global name -> text of the item that defines it
		for _, it := range g.items {
			if it.status != "ok" {
				continue
			}
			if it.kind == "oracle" {
				vars = append(vars, it.name)
				isVar[it.name] = true
			}
			for n, owner := range g.names {
				_ = owner
				if strings.Contains(it.text, n) {
					if _, seen := defs[n]; !seen && definesName(it.text, n) {
						defs[n] = it.text
					}
				}
			}
		}
		g.secVarOrder = vars
		memo := map[string]map[string]bool{}
		var deps func(n string) map[string]bool
		deps = func(n string) map[string]bool {
			if m, ok := memo[n]; ok {
				return m
			}
			m := map[string]bool{}
			memo[n] = m
			if isVar[n] {
				m[n] = true
			}
			text, ok := defs[n]
			if !ok {
				return m
			}
			for _, tok := range coqIdents(text) {
				if tok == n {
					continue
				}
				if _, global := g.names[tok]; global {
					for d := range deps(tok) {
						m[d] = true
					}
				}
			}
			return m
		}
		for n := range g.names {
			d := deps(n)
			var out []string
			for _, v := range vars {
				if d[v] {
					out = append(out, v)
				}
			}
			g.secDeps[n] = out
		}
	}
	return g.secDeps[name]
}

// definesName: the item text defines the global n (Definition / Fixpoint / Record / Variable / constructor / field).
func definesName(text, n string) bool {
	for _, kw := range []string{"Definition " + n + " ", "Fixpoint " + n + " ", "Record " + n + " ", "Variable " + n + " ", "Inductive " + n + " ", ":= " + n + " {", ":= " + n + ".", "  " + n + " : "} {
		if strings.Contains(text, kw) {
			return true
		}
	}
	return false
}

// sectionInst: the instantiation of the Section Variables name depends on.
func (g *gen) sectionInst(name string) []string {
	var out []string
	for _, v := range g.sectionVars(name) {
		inst, ok := g.secInst[v]
		if !ok {
			panic("selftest: no instantiation for Section variable " + v + " needed by " + name)
		}
		out = append(out, inst)
	}
	return out
}

var errorType = reflect.TypeOf((*error)(nil)).Elem()

// eqCheck builds a boolean Coq term comparing the Coq expression x (of the
// translated type of t) with the Go value v.
func (g *gen) eqCheck(x string, v reflect.Value, t reflect.Type) string {
	if t == errorType {
		if v.IsNil() {
			return "(err_matches " + x + " None)"
		}
		return "(err_matches " + x + " " + CSome(CStr(v.Interface().(error).Error())) + ")"
	}
	if t.Kind() == reflect.Interface && t.NumMethod() == 0 {
		return "(anyv_same " + x + " " + g.coqValue(v, nil) + ")"
	}
	switch t.Kind() {
	case reflect.String:
		return "(String.eqb " + x + " " + g.coqValue(v, nil) + ")"
	case reflect.Bool:
		return "(Bool.eqb " + x + " " + g.coqValue(v, nil) + ")"
	case reflect.Int, reflect.Int64, reflect.Int32:
		return "(Z.eqb " + x + " " + g.coqValue(v, nil) + ")"
	case reflect.Slice:
		if t.Elem().Kind() == reflect.String {
			return "(list_eqb String.eqb " + x + " " + g.coqValue(v, nil) + ")"
		}
		if t.Elem().Kind() == reflect.Int || t.Elem().Kind() == reflect.Uint8 {
			return "(list_eqb Z.eqb " + x + " " + g.coqValue(v, nil) + ")"
		}
	}
	switch t.Kind() {
	case reflect.Slice:
		// any other element type: the same length, element by element
		var pats, cs []string
		for i := 0; i < v.Len(); i++ {
			e := fmt.Sprintf("%s_%d", strings.ReplaceAll(strings.Trim(x, "()"), " ", "_"), i)
			e = coqIdent(e)
			pats = append(pats, e)
			cs = append(cs, g.eqCheck(e, v.Index(i), t.Elem()))
		}
		if len(cs) == 0 {
			return "(match " + x + " with [] => true | _ => false end)"
		}
		return "(match " + x + " with [" + strings.Join(pats, "; ") + "] => " + strings.Join(cs, " && ") + " | _ => false end)"
	case reflect.Struct:
		rec := g.recordOf(t)
		var cs []string
		for _, f := range rec.fields {
			sf, _ := t.FieldByName(f.goName)
			if f.nilable {
				if v.FieldByName(f.goName).IsNil() {
					cs = append(cs, "(is_none ("+f.name+" "+x+"))")
				} else {
					cs = append(cs, "(match ("+f.name+" "+x+") with Some fv => "+g.eqCheck("fv", v.FieldByName(f.goName), sf.Type)+" | None => false end)")
				}
				continue
			}
			cs = append(cs, g.eqCheck("("+f.name+" "+x+")", v.FieldByName(f.goName), sf.Type))
		}
		return "(" + strings.Join(cs, " && ") + ")"
	case reflect.Ptr:
		if v.IsNil() {
			return "(ptr_is_nil " + x + ")"
		}
		return "(match ptr_val " + x + " with Some pv => " + g.eqCheck("pv", v.Elem(), t.Elem()) + " | None => false end)"
	case reflect.Map:
		// equal as maps: same number of keys, every Go binding found
		var cs []string
		eqb := map[reflect.Kind]string{reflect.String: "String.eqb", reflect.Int: "Z.eqb"}[t.Key().Kind()]
		cs = append(cs, fmt.Sprintf("(Z.eqb (map_len %s %s) %d)", eqb, x, v.Len()))
		keys := v.MapKeys()
		sort.Slice(keys, func(i, j int) bool { return fmt.Sprint(keys[i]) < fmt.Sprint(keys[j]) })
		for _, k := range keys {
			cs = append(cs, "(match map_get "+eqb+" "+g.coqValue(k, nil)+" "+x+" with Some mv => "+g.eqCheck("mv", v.MapIndex(k), t.Elem())+" | None => false end)")
		}
		return "(" + strings.Join(cs, " && ") + ")"
	}
	panic("synth: no equality for result type " + t.String())
}

// ---------- inputs ----------

var synthStrings = []string{"", "a", "b", "ab", "abc", "a:b", " a b ", "stop", "skip", "c", "err", "gone", "x", "al", "be", "bca", "a:bc"}
var synthInts = []int{-7, -3, -1, 0, 1, 2, 3, 4, 5, 6, 7, 8, 9, 10}

func synthArg(t reflect.Type, r *Rng) reflect.Value {
	if t.Kind() == reflect.Interface && t.NumMethod() == 0 {
		pool := []any{nil, "a", "", "b", 3, 0, int64(3), true, false, synth.Label("a"), synth.Label(""), struct{ A int }{1}, struct{ A int }{2},
			synth.Rec{Name: "r"}, []int{1}, []int{2}, map[string]int{}, int32(3)}
		v := pool[r.Intn(len(pool))]
		if v == nil {
			return reflect.Zero(t)
		}
		return reflect.ValueOf(v)
	}
	if t.Kind() == reflect.Interface && t.Name() == "Finder" {
		if r.Intn(3) == 0 {
			return reflect.Zero(t)
		}
		m := synth.MapFinder{}
		for i := r.Intn(4); i > 0; i-- {
			m[Pick(r, synthStrings)] = Pick(r, synthStrings)
		}
		return reflect.ValueOf(m)
	}
	if t.Kind() == reflect.Interface && t.String() == "fs.FS" {
		files := []string{"a/one", "a/skipme/in", "a/two", "b/skipfile", "b/zed", "c/stop", "d/after", "lockedx/p", "lockedx/q", "lockedy/r", "lockedy/s", "e/bad", "f/last", "skipdir/hidden", "top"}
		m := fstest.MapFS{}
		for _, f := range files {
			if r.Intn(3) > 0 {
				m[f] = &fstest.MapFile{Data: []byte("x")}
			}
		}
		return reflect.ValueOf(synth.WalkFS{M: m})
	}
	if t.Kind() == reflect.Interface && t.Name() == "Store" {
		return reflect.ValueOf(synth.MemStore{Prefix: Pick(r, synthStrings)})
	}
	if t.Kind() == reflect.Interface && t.Name() == "Getter" {
		m := synth.MapGetter{}
		for i := r.Intn(4); i > 0; i-- {
			m[Pick(r, synthStrings)] = Pick(r, synthStrings)
		}
		return reflect.ValueOf(m).Convert(reflect.TypeOf(m))
	}
	switch t.Kind() {
	case reflect.String:
		return reflect.ValueOf(Pick(r, synthStrings)).Convert(t)
	case reflect.Bool:
		return reflect.ValueOf(r.Bool())
	case reflect.Int:
		return reflect.ValueOf(Pick(r, synthInts))
	case reflect.Slice:
		n := r.Intn(5)
		s := reflect.MakeSlice(t, 0, n)
		for i := 0; i < n; i++ {
			s = reflect.Append(s, synthArg(t.Elem(), r))
		}
		return s
	case reflect.Map:
		m := reflect.MakeMap(t)
		for i := r.Intn(4); i > 0; i-- {
			m.SetMapIndex(synthArg(t.Key(), r), synthArg(t.Elem(), r))
		}
		return m
	case reflect.Struct:
		v := reflect.New(t).Elem()
		for i := 0; i < t.NumField(); i++ {
			v.Field(i).Set(synthArg(t.Field(i).Type, r))
		}
		return v
	case reflect.Ptr:
		if r.Intn(3) == 0 {
			return reflect.Zero(t)
		}
		p := reflect.New(t.Elem())
		p.Elem().Set(synthArg(t.Elem(), r))
		return p
	}
	panic("synth: no generator for " + t.String())
}

func selftestSynth(r *Rng) (*gen, *stFile) {
	f := &stFile{name: "cases_gen_T00.v", prelude: genPrelude("T00")}
	g, err := synthGen()
	if err != nil {
		f.skipped = append(f.skipped, "the synthetic corpus does not load: "+err.Error())
		return nil, f
	}
	g.opaquePrint = map[string]func(v reflect.Value) (string, string){
		"synth.MemStore": func(v reflect.Value) (string, string) { return CStr(v.Interface().(synth.MemStore).Prefix), "string" },
	}
	// every Refused* function must be refused, every other one translated
	status := map[string]*item{}
	for _, it := range g.items {
		if it.kind == "func" {
			status[strings.TrimPrefix(it.label, "synth.")] = it
		}
	}
	names := make([]string, 0, len(synth.Funcs))
	for n := range synth.Funcs {
		names = append(names, n)
	}
	sort.Strings(names)
	for n, it := range status {
		if strings.HasPrefix(n, "Refused") && it.status == "ok" {
			f.add("false (* " + n + " should have been refused by the translator *)")
		}
		if _, listed := synth.Funcs[n]; !listed && it.status == "ok" && ast.IsExported(n) && !strings.ContainsAny(n, ".[") && !strings.HasPrefix(n, "Refused") {
			if _, helper := synthHelpers[n]; !helper {
				f.add("false (* synth." + n + " is translated but missing from synth.Funcs: it would go untested *)")
			}
		}
	}
	for _, n := range names {
		it := status[n]
		if it == nil || it.status != "ok" {
			reason := "not found"
			if it != nil {
				reason = it.reason
			}
			f.add("false (* synth." + n + " was not translated: " + cmt(reason) + " *)")
			continue
		}
		fi := fnInfos[g]["func:"+synthPath+"."+n]
		fv := reflect.ValueOf(synth.Funcs[n])
		ft := fv.Type()
		ncases := 60
		if ft.NumIn() == 0 {
			ncases = 1
		}
		for k := 0; k < ncases; k++ {
			args := make([]reflect.Value, ft.NumIn())
			for i := range args {
				args[i] = synthArg(ft.In(i), r)
			}
			var lead []string
			if mk := synthOracles[n]; mk != nil {
				lead = mk(g, args)
			}
			g.emitReflectCase(f, "synth."+n, fi, fv, args, lead, r)
		}
	}
	return g, f
}

// emitReflectCase calls the real function fv on args (panics recovered) and
// adds the check that the translation fi, applied to the same arguments, gives
// the same results. lead = the instantiations of the Section Variables the
// translation depends on. Dropped parameters are not printed; a NonNil pointer
// parameter is printed as its pointee (a nil argument skips the case).
func (g *gen) emitReflectCase(f *stFile, label string, fi *fnInfo, fv reflect.Value, args []reflect.Value, lead []string, r *Rng) {
	ft := fv.Type()
	terms := append([]string{fi.name}, lead...)
	if fi.effect {
		terms = append(terms, "[]") // the initial world: an empty event log
		synth.ResetEvents()
	}
	for i := range args {
		var pi *paramInfo
		if i < len(fi.params) {
			pi = &fi.params[i]
		}
		if pi != nil && pi.dropped {
			continue
		}
		if pi != nil && pi.asValue {
			if args[i].Kind() == reflect.Ptr && args[i].IsNil() {
				return
			}
			terms = append(terms, g.coqValue(args[i].Elem(), r))
			continue
		}
		if ft.In(i).Kind() == reflect.Interface && ft.In(i).NumMethod() == 0 && args[i].Kind() != reflect.Interface {
			terms = append(terms, anyValue(args[i]))
			continue
		}
		terms = append(terms, g.coqValue(args[i], r))
	}
	var outs []reflect.Value
	panicked := func() (p bool) {
		defer func() {
			if recover() != nil {
				p = true
			}
		}()
		outs = fv.Call(args)
		return false
	}()
	app := "(" + strings.Join(terms, " ") + ")"
	if len(terms) == 1 {
		app = fi.name
	}
	if panicked {
		if fi.partial {
			f.add("(match " + app + " with None => true | Some _ => false end)")
		} else {
			f.add("false (* " + label + " panicked but its translation is total *)")
		}
		return
	}
	var pats, checks []string
	if fi.effect {
		pats = append(pats, "rw")
		ev := synth.Events()
		checks = append(checks, g.eqCheck("rw", reflect.ValueOf(ev), reflect.TypeOf(ev)))
	}
	for i, o := range outs {
		v := fmt.Sprintf("r%d", i)
		pats = append(pats, v)
		checks = append(checks, g.eqCheck(v, o, ft.Out(i)))
	}
	body := "let '(" + strings.Join(pats, ", ") + ") := res in " + strings.Join(checks, " && ")
	if len(pats) == 1 {
		body = "let " + pats[0] + " := res in " + checks[0]
	}
	if len(pats) == 0 {
		body = "true"
	}
	if fi.partial {
		f.add("(match " + app + " with Some res => " + body + " | None => false end)")
	} else {
		f.add("(let res := " + app + " in " + body + ")")
	}
}
