package main

// GoLite --selftest, part 2: the synthetic regression corpus (synth/synth.go).
// Its source is embedded, type-checked with go/types, translated like any
// other package into T00_Gen.v, and every function of synth.Funcs is called
// by reflection on generated inputs; the results (or the panic) are printed as
// Coq checks in cases_gen_T00.v.

import (
	_ "embed"
	"fmt"
	"go/ast"
	"go/importer"
	"go/parser"
	"go/token"
	"go/types"
	"reflect"
	"sort"
	"strings"

	"golang.org/x/tools/go/packages"

	"vh/cmd/vh-gen/synth"
	. "vh/kit"
)

//go:embed synth/synth.go
var synthSource []byte

const synthPath = "vh/cmd/vh-gen/synth"

func loadSynth() (*packages.Package, error) {
	fset := token.NewFileSet()
	f, err := parser.ParseFile(fset, "harness/cmd/vh-gen/synth/synth.go", synthSource, parser.ParseComments)
	if err != nil {
		return nil, err
	}
	info := &types.Info{
		Types: map[ast.Expr]types.TypeAndValue{}, Defs: map[*ast.Ident]types.Object{}, Uses: map[*ast.Ident]types.Object{},
		Selections: map[*ast.SelectorExpr]*types.Selection{}, Instances: map[*ast.Ident]types.Instance{},
		Implicits: map[ast.Node]types.Object{}, Scopes: map[ast.Node]*types.Scope{},
	}
	conf := types.Config{Importer: importer.ForCompiler(fset, "source", nil)}
	pkg, err := conf.Check(synthPath, fset, []*ast.File{f}, info)
	if err != nil {
		return nil, err
	}
	return &packages.Package{ID: synthPath, PkgPath: synthPath, Name: "synth", Fset: fset, Syntax: []*ast.File{f}, Types: pkg, TypesInfo: info}, nil
}

// synthGen translates the whole corpus as property T00.
func synthGen() (*gen, error) {
	p, err := loadSynth()
	if err != nil {
		return nil, err
	}
	L := &loader{repo: "/", pkgs: map[string]*packages.Package{synthPath: p}, funcs: map[string]*funcDecl{}, vars: map[string]*varDecl{},
		mutated: map[string]bool{}, scanned: map[string]bool{}}
	var table []Target
	for _, d := range p.Syntax[0].Decls {
		fd, ok := d.(*ast.FuncDecl)
		if !ok {
			continue
		}
		name := fd.Name.Name
		if fd.Recv != nil {
			rt := fd.Recv.List[0].Type
			if st, ok := rt.(*ast.StarExpr); ok {
				name = "(*" + st.X.(*ast.Ident).Name + ")." + name
			} else {
				name = rt.(*ast.Ident).Name + "." + name
			}
		}
		table = append(table, Target{Pkg: synthPath, Func: name})
	}
	return runGoLiteProp(L, "T00", table), nil
}

// ---------- reflection: values as Coq terms ----------

func (g *gen) coqValue(v reflect.Value, r *Rng) string {
	if mg, ok := v.Interface().(synth.MapGetter); ok {
		return "(fun k => match map_get String.eqb k " + g.coqValue(reflect.ValueOf(map[string]string(mg)), r) +
			" with Some v => (v, None) | None => (\"\", Some (Err \"errors\" \"missing\" [])) end)"
	}
	switch v.Kind() {
	case reflect.String:
		return CStr(v.String())
	case reflect.Bool:
		return CBool(v.Bool())
	case reflect.Int, reflect.Int64, reflect.Int32:
		return CZ(v.Int())
	case reflect.Slice:
		items := make([]string, v.Len())
		for i := range items {
			items[i] = g.coqValue(v.Index(i), r)
		}
		return "(" + CList(items) + " : " + g.coqType(v.Type()) + ")"
	case reflect.Map:
		keys := v.MapKeys()
		sort.Slice(keys, func(i, j int) bool { return fmt.Sprint(keys[i]) < fmt.Sprint(keys[j]) })
		if r != nil {
			Shuffle(r, keys)
		}
		items := make([]string, len(keys))
		for i, k := range keys {
			items[i] = CPair(g.coqValue(k, r), g.coqValue(v.MapIndex(k), r))
		}
		return "(" + CList(items) + " : " + g.coqType(v.Type()) + ")"
	case reflect.Struct:
		rec := g.synthRecord(v.Type().Name())
		args := []string{rec.ctor}
		for _, f := range rec.fields {
			args = append(args, g.coqValue(v.FieldByName(f.goName), r))
		}
		return "(" + strings.Join(args, " ") + ")"
	case reflect.Ptr:
		if v.IsNil() {
			return "PNil"
		}
		return "(PNew " + g.coqValue(v.Elem(), r) + ")"
	}
	panic("synth: value of kind " + v.Kind().String())
}

func (g *gen) coqType(t reflect.Type) string {
	switch t.Kind() {
	case reflect.String:
		return "string"
	case reflect.Bool:
		return "bool"
	case reflect.Int, reflect.Int64, reflect.Int32:
		return "Z"
	case reflect.Slice:
		return "list " + g.coqTypeP(t.Elem())
	case reflect.Map:
		return "list (" + g.coqTypeP(t.Key()) + " * " + g.coqTypeP(t.Elem()) + ")"
	case reflect.Struct:
		return g.synthRecord(t.Name()).name
	case reflect.Ptr:
		return "ptr " + g.coqTypeP(t.Elem())
	}
	panic("synth: type of kind " + t.Kind().String())
}

func (g *gen) coqTypeP(t reflect.Type) string {
	s := g.coqType(t)
	if strings.Contains(s, " ") {
		return "(" + s + ")"
	}
	return s
}

func (g *gen) synthRecord(name string) *recInfo {
	r := recCache[g]["type:"+synthPath+"."+name]
	if r == nil {
		panic("synth: record " + name + " was not generated")
	}
	return r
}

var errorType = reflect.TypeOf((*error)(nil)).Elem()

// eqCheck builds a boolean Coq term comparing the Coq expression x (of the
// translated type of t) with the Go value v.
func (g *gen) eqCheck(x string, v reflect.Value, t reflect.Type) string {
	if t == errorType {
		if v.IsNil() {
			return "(err_matches " + x + " None)"
		}
		return "(err_matches " + x + " " + CSome(CStr(v.Interface().(error).Error())) + ")"
	}
	switch t.Kind() {
	case reflect.String:
		return "(String.eqb " + x + " " + g.coqValue(v, nil) + ")"
	case reflect.Bool:
		return "(Bool.eqb " + x + " " + g.coqValue(v, nil) + ")"
	case reflect.Int, reflect.Int64, reflect.Int32:
		return "(Z.eqb " + x + " " + g.coqValue(v, nil) + ")"
	case reflect.Slice:
		if t.Elem().Kind() == reflect.String {
			return "(list_eqb String.eqb " + x + " " + g.coqValue(v, nil) + ")"
		}
		if t.Elem().Kind() == reflect.Int {
			return "(list_eqb Z.eqb " + x + " " + g.coqValue(v, nil) + ")"
		}
	}
	switch t.Kind() {
	case reflect.Struct:
		rec := g.synthRecord(t.Name())
		var cs []string
		for _, f := range rec.fields {
			sf, _ := t.FieldByName(f.goName)
			cs = append(cs, g.eqCheck("("+f.name+" "+x+")", v.FieldByName(f.goName), sf.Type))
		}
		return "(" + strings.Join(cs, " && ") + ")"
	case reflect.Ptr:
		if v.IsNil() {
			return "(ptr_is_nil " + x + ")"
		}
		return "(match ptr_val " + x + " with Some pv => " + g.eqCheck("pv", v.Elem(), t.Elem()) + " | None => false end)"
	case reflect.Map:
		// equal as maps: same number of keys, every Go binding found
		var cs []string
		eqb := map[reflect.Kind]string{reflect.String: "String.eqb", reflect.Int: "Z.eqb"}[t.Key().Kind()]
		cs = append(cs, fmt.Sprintf("(Z.eqb (map_len %s %s) %d)", eqb, x, v.Len()))
		keys := v.MapKeys()
		sort.Slice(keys, func(i, j int) bool { return fmt.Sprint(keys[i]) < fmt.Sprint(keys[j]) })
		for _, k := range keys {
			cs = append(cs, "(match map_get "+eqb+" "+g.coqValue(k, nil)+" "+x+" with Some mv => "+g.eqCheck("mv", v.MapIndex(k), t.Elem())+" | None => false end)")
		}
		return "(" + strings.Join(cs, " && ") + ")"
	}
	panic("synth: no equality for result type " + t.String())
}

// ---------- inputs ----------

var synthStrings = []string{"", "a", "b", "ab", "abc", "a:b", " a b ", "stop", "skip", "c", "err", "gone", "x", "al", "be", "bca", "a:bc"}
var synthInts = []int{-7, -3, -1, 0, 1, 2, 3, 4, 5, 9}

func synthArg(t reflect.Type, r *Rng) reflect.Value {
	if t.Kind() == reflect.Interface && t.Name() == "Getter" {
		m := synth.MapGetter{}
		for i := r.Intn(4); i > 0; i-- {
			m[Pick(r, synthStrings)] = Pick(r, synthStrings)
		}
		return reflect.ValueOf(m).Convert(reflect.TypeOf(m))
	}
	switch t.Kind() {
	case reflect.String:
		return reflect.ValueOf(Pick(r, synthStrings)).Convert(t)
	case reflect.Bool:
		return reflect.ValueOf(r.Bool())
	case reflect.Int:
		return reflect.ValueOf(Pick(r, synthInts))
	case reflect.Slice:
		n := r.Intn(5)
		s := reflect.MakeSlice(t, 0, n)
		for i := 0; i < n; i++ {
			s = reflect.Append(s, synthArg(t.Elem(), r))
		}
		return s
	case reflect.Map:
		m := reflect.MakeMap(t)
		for i := r.Intn(4); i > 0; i-- {
			m.SetMapIndex(synthArg(t.Key(), r), synthArg(t.Elem(), r))
		}
		return m
	case reflect.Struct:
		v := reflect.New(t).Elem()
		for i := 0; i < t.NumField(); i++ {
			v.Field(i).Set(synthArg(t.Field(i).Type, r))
		}
		return v
	case reflect.Ptr:
		if r.Intn(3) == 0 {
			return reflect.Zero(t)
		}
		p := reflect.New(t.Elem())
		p.Elem().Set(synthArg(t.Elem(), r))
		return p
	}
	panic("synth: no generator for " + t.String())
}

func selftestSynth(r *Rng) (*gen, *stFile) {
	f := &stFile{name: "cases_gen_T00.v", prelude: genPrelude("T00")}
	g, err := synthGen()
	if err != nil {
		f.skipped = append(f.skipped, "the synthetic corpus does not load: "+err.Error())
		return nil, f
	}
	// every Refused* function must be refused, every other one translated
	status := map[string]*item{}
	for _, it := range g.items {
		if it.kind == "func" {
			status[strings.TrimPrefix(it.label, "synth.")] = it
		}
	}
	names := make([]string, 0, len(synth.Funcs))
	for n := range synth.Funcs {
		names = append(names, n)
	}
	sort.Strings(names)
	for n, it := range status {
		if strings.HasPrefix(n, "Refused") && it.status == "ok" {
			f.add("false (* " + n + " should have been refused by the translator *)")
		}
	}
	for _, n := range names {
		it := status[n]
		if it == nil || it.status != "ok" {
			reason := "not found"
			if it != nil {
				reason = it.reason
			}
			f.add("false (* synth." + n + " was not translated: " + cmt(reason) + " *)")
			continue
		}
		fi := fnInfos[g]["func:"+synthPath+"."+n]
		fv := reflect.ValueOf(synth.Funcs[n])
		ft := fv.Type()
		ncases := 60
		if ft.NumIn() == 0 {
			ncases = 1
		}
		for k := 0; k < ncases; k++ {
			args := make([]reflect.Value, ft.NumIn())
			terms := []string{fi.name}
			for i := range args {
				args[i] = synthArg(ft.In(i), r)
				terms = append(terms, g.coqValue(args[i], r))
			}
			var outs []reflect.Value
			panicked := func() (p bool) {
				defer func() {
					if recover() != nil {
						p = true
					}
				}()
				outs = fv.Call(args)
				return false
			}()
			app := "(" + strings.Join(terms, " ") + ")"
			if len(terms) == 1 {
				app = fi.name
			}
			if panicked {
				if fi.partial {
					f.add("(match " + app + " with None => true | Some _ => false end)")
				} else {
					f.add("false (* synth." + n + " panicked but its translation is total *)")
				}
				continue
			}
			var pats, checks []string
			for i, o := range outs {
				v := fmt.Sprintf("r%d", i)
				pats = append(pats, v)
				checks = append(checks, g.eqCheck(v, o, ft.Out(i)))
			}
			body := "let '(" + strings.Join(pats, ", ") + ") := res in " + strings.Join(checks, " && ")
			if len(outs) == 1 {
				body = "let r0 := res in " + checks[0]
			}
			if fi.partial {
				f.add("(match " + app + " with Some res => " + body + " | None => false end)")
			} else {
				f.add("(let res := " + app + " in " + body + ")")
			}
		}
	}
	return g, f
}
