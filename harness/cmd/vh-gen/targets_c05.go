package main

// C05: GoLite targets (docs/GOLITE_NOTES.md): revocation of the signing chain.
func init() {
	const v = ".../verifier"
	Register("C05", []Target{
		{Pkg: "crypto/x509", Type: "Certificate", Opaque: true, Views: map[string]string{"Subject.String()": "string"}},
		{Pkg: v, Func: "checkRevocationResults"},
		{Pkg: v, Func: "revocationFinalResult"},
		// the step itself: the two validator interfaces are fields of the verifier (function
		// values), what notation-core-go reads from the envelope is an oracle
		{Pkg: "github.com/notaryproject/notation-core-go/signature", Func: "(*SignerInfo).AuthenticSigningTime", Oracle: true},
		{Pkg: v, Func: "(*verifier).verifyRevocation"},
	})
}
