package main

// C05: GoLite targets (docs/GOLITE_NOTES.md).
func init() {
	Register("C05", []Target{
		{Pkg: "crypto/x509", Type: "Certificate", Opaque: true, Views: map[string]string{"Subject.String()": "string"}},
		{Pkg: ".../verifier", Func: "revocationFinalResult"},
	})
}
