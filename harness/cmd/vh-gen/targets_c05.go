package main

// C05: GoLite targets (docs/GOLITE_NOTES.md): revocation of the signing chain.
// Theorems: coq/props/C05_Generated.v (proofs in coq/theories/C05_GenProofs.v), table in docs/audit/C05.md section 6.
func init() {
	const v = ".../verifier"
	const rev = "github.com/notaryproject/notation-core-go/revocation"
	Register("C05", []Target{
		{Pkg: "crypto/x509", Type: "Certificate", Opaque: true, Views: map[string]string{"Subject.String()": "string"}},
		{Pkg: v, Func: "checkRevocationResults"},
		{Pkg: v, Func: "revocationFinalResult"},
		// the step itself: the two validator interfaces are (nilable) function fields of the verifier,
		// what notation-core-go reads from the envelope is an oracle
		{Pkg: rev, Type: "Validator", Nilable: true},
		{Pkg: rev, Type: "Revocation", Nilable: true},
		{Pkg: "github.com/notaryproject/notation-core-go/signature", Func: "(*SignerInfo).AuthenticSigningTime", Oracle: true},
		{Pkg: v, Func: "(*verifier).verifyRevocation"},
	})
}
