//go:build verifhooks

package main

// GoLite --selftest, part 3: unexported targets reached through the verif
// hooks proposed in docs/proposed_hooks (files `//go:build verif` that
// re-export them). This file is only compiled with the additional build tag
// `verifhooks`; bin/goliteselftest falls back to a build without it when the
// hooks are not in /repo. The real functions are called by reflection on
// generated inputs (emitReflectCase), the results checked in cases_gen_hooks.v.

import (
	"context"
	"crypto/x509"
	"crypto/x509/pkix"
	"fmt"
	"reflect"
	"strings"

	"github.com/notaryproject/notation-core-go/revocation/result"
	"github.com/notaryproject/notation-core-go/signature"
	notation "github.com/notaryproject/notation-go"
	"github.com/notaryproject/notation-go/log"
	nplugin "github.com/notaryproject/notation-go/plugin"
	"github.com/notaryproject/notation-go/signer"
	"github.com/notaryproject/notation-go/verifbridge"
	"github.com/notaryproject/notation-go/verifier"
	"github.com/notaryproject/notation-go/verifier/trustpolicy"
	"github.com/notaryproject/notation-go/verifier/truststore"
	"github.com/opencontainers/go-digest"
	ocispec "github.com/opencontainers/image-spec/specs-go/v1"
	xsemver "golang.org/x/mod/semver"

	. "vh/kit"
)

func init() { extraSelftests = append(extraSelftests, selftestHooks) }

const repoMod = "github.com/notaryproject/notation-go"

// findFn finds the translation of a function in some property file.
func findFn(gens map[string]*gen, fullName string) (*gen, *fnInfo) {
	var props []string
	for p := range gens {
		props = append(props, p)
	}
	sortStrings(props)
	for _, p := range props {
		g := gens[p]
		if fi := fnInfos[g]["func:"+fullName]; fi != nil {
			if it := g.byItem["func:"+fullName]; it != nil && it.status == "ok" && !fi.oracle {
				return g, fi
			}
		}
	}
	return nil, nil
}

func sortStrings(xs []string) {
	for i := 1; i < len(xs); i++ {
		for j := i; j > 0 && xs[j] < xs[j-1]; j-- {
			xs[j], xs[j-1] = xs[j-1], xs[j]
		}
	}
}

type hookCase struct {
	name string // full name of the Go function
	fn   any
	n    int
	args func(r *Rng) []reflect.Value
	inst map[string]string // instantiation of Section Variables
	// instOf: an instantiation that depends on the arguments of the case (oracles)
	instOf func(args []reflect.Value) map[string]string
}

func vals(xs ...any) []reflect.Value {
	out := make([]reflect.Value, len(xs))
	for i, x := range xs {
		out[i] = reflect.ValueOf(x)
	}
	return out
}

func selftestHooks(r *Rng, gens map[string]*gen) []*stFile {
	byProp := map[string]*stFile{}
	var order []string
	file := func(g *gen) *stFile {
		if f, ok := byProp[g.prop]; ok {
			return f
		}
		f := &stFile{name: "cases_hooks_" + g.prop + ".v", prelude: genPrelude(g.prop)}
		byProp[g.prop] = f
		order = append(order, g.prop)
		return f
	}
	stores := []string{"ca:acme", "signingAuthority:sa-1", "tsa:t", "ca:", "ca", "bogus:x", "ca:a/b", ":x", "ca:..", "ca:a:b", "tsa:x", "ca:acme"}
	anyPool := []any{"io.cncf.notary.verificationPlugin", "io.cncf.notary.verificationPluginMinVersion", "other", "", 7, int64(7), true, nil, "1.0.0", " ", "plug", "01.0"}
	pick := func(r *Rng, pool []string, max int) []string {
		var out []string
		for i := r.Intn(max + 1); i > 0; i-- {
			out = append(out, Pick(r, pool))
		}
		return out
	}
	signerInfo := func(r *Rng) *signature.SignerInfo {
		si := &signature.SignerInfo{}
		for i := r.Intn(4); i > 0; i-- {
			si.SignedAttributes.ExtendedAttributes = append(si.SignedAttributes.ExtendedAttributes,
				signature.Attribute{Key: anyPool[r.Intn(len(anyPool))], Critical: r.Intn(3) != 0, Value: anyPool[r.Intn(len(anyPool))]})
		}
		return si
	}
	desc := func(r *Rng) ocispec.Descriptor {
		d := ocispec.Descriptor{MediaType: Pick(r, []string{"m1", "m2"}), Digest: digest.Digest("sha256:" + ocispecDigest(r)), Size: int64(r.Intn(3))}
		if r.Intn(3) != 0 {
			d.Annotations = map[string]string{}
			for i := r.Intn(3); i > 0; i-- {
				d.Annotations[Pick(r, []string{"a", "b", "c"})] = Pick(r, []string{"1", "2"})
			}
		}
		return d
	}
	certInst := map[string]string{"x509_Certificate": "string", "x509_Certificate_Subject_String": "(fun s : string => s)"}
	tp := repoMod + "/verifier/trustpolicy."
	vf := repoMod + "/verifier."
	cases := []hookCase{
		{name: vf + "isCriticalFailure", fn: verifier.VerifIsCriticalFailure, n: 40, args: func(r *Rng) []reflect.Value {
			res := &notation.ValidationResult{Type: "x", Action: trustpolicy.ValidationAction(Pick(r, []string{"enforce", "log", "skip", ""}))}
			if r.Bool() {
				res.Error = fmt.Errorf("e")
			}
			return vals(res)
		}},
		{name: vf + "isTSATrustStoreInPolicy", fn: verifier.VerifIsTSATrustStoreInPolicy, n: 120, args: func(r *Rng) []reflect.Value {
			return vals("p", pick(r, stores, 4))
		}},
		{name: vf + "isRequiredVerificationPluginVer", fn: verifier.VerifIsRequiredVerificationPluginVer, n: 80, args: func(r *Rng) []reflect.Value {
			vs := []string{"1.0.0", "1.2.3", "0.9.0", "1.0.0-alpha", "2.0.0", "1.0.0+b", "10.0.0", "1.10.0", "1.9.0"}
			return vals(Pick(r, vs), Pick(r, vs))
		}, instOf: func(args []reflect.Value) map[string]string {
			return map[string]string{"gen_semver_Compare": fmt.Sprintf("(fun _ _ => %s)", CZ(int64(xsemver.Compare("v"+args[0].String(), "v"+args[1].String()))))}
		}},
		{name: vf + "getNonPluginExtendedCriticalAttributes", fn: verifier.VerifGetNonPluginExtendedCriticalAttributes, n: 150,
			args: func(r *Rng) []reflect.Value { return vals(signerInfo(r)) }, inst: map[string]string{"x509_Certificate": "unit"}},
		{name: vf + "extractCriticalStringExtendedAttribute", fn: verifier.VerifExtractCriticalStringExtendedAttribute, n: 150,
			args: func(r *Rng) []reflect.Value {
				return vals(signerInfo(r), Pick(r, []string{"io.cncf.notary.verificationPlugin", "other", "", "plug"}))
			}, inst: map[string]string{"x509_Certificate": "unit"}},
		{name: vf + "getVerificationPlugin", fn: verifier.VerifGetVerificationPlugin, n: 150,
			args: func(r *Rng) []reflect.Value { return vals(signerInfo(r)) }, inst: map[string]string{"x509_Certificate": "unit"}},
		{name: vf + "getVerificationPluginMinVersion", fn: verifier.VerifGetVerificationPluginMinVersion, n: 150,
			args: func(r *Rng) []reflect.Value { return vals(signerInfo(r)) }, inst: map[string]string{"x509_Certificate": "unit"}},
		{name: vf + "revocationFinalResult", fn: verifier.VerifRevocationFinalResult, n: 200, args: func(r *Rng) []reflect.Value {
			n := r.Intn(4)
			var rs []*result.CertRevocationResult
			var chain []*x509.Certificate
			for i := 0; i < n; i++ {
				cr := &result.CertRevocationResult{Result: result.Result(r.Intn(5)), RevocationMethod: result.RevocationMethod(r.Intn(4))}
				for k := r.Intn(3); k > 0; k-- {
					sr := &result.ServerResult{Result: result.Result(r.Intn(4)), Server: "s", RevocationMethod: result.RevocationMethod(r.Intn(4))}
					if r.Bool() {
						sr.Error = fmt.Errorf("server error")
					}
					cr.ServerResults = append(cr.ServerResults, sr)
				}
				if r.Intn(12) == 0 {
					cr = nil
				}
				rs = append(rs, cr)
			}
			m := n
			if r.Intn(6) == 0 {
				m = r.Intn(n + 2)
			}
			for i := 0; i < m; i++ {
				chain = append(chain, &x509.Certificate{Subject: pkix.Name{CommonName: fmt.Sprintf("c%d", i)}})
			}
			return vals(rs, chain, log.Discard)
		}, inst: certInst},
		{name: tp + "isValidTrustStoreType", fn: trustpolicy.VerifIsValidTrustStoreType, n: 20, args: func(r *Rng) []reflect.Value {
			return vals(Pick(r, []string{"ca", "tsa", "signingAuthority", "", "CA", "x"}))
		}},
		{name: tp + "validateTrustStore", fn: trustpolicy.VerifValidateTrustStore, n: 150, args: func(r *Rng) []reflect.Value {
			return vals("p", pick(r, stores, 4))
		}},
		{name: tp + "validateRegistryScopeFormat", fn: trustpolicy.VerifValidateRegistryScopeFormat, n: 60, args: func(r *Rng) []reflect.Value {
			return vals(Pick(r, []string{"*", "registry.io/repo", "registry.io/repo/sub", "localhost:5000/a", "registry.io", "Registry.io/Repo", "registry.io/repo*", "", "reg.io/a_b", "reg.io/a__b", "reg.io/a--b", "a/", "/a", "reg.io:x/a"}))
		}},
		{name: tp + "getArtifactPathFromReference", fn: trustpolicy.VerifGetArtifactPathFromReference, n: 60, args: func(r *Rng) []reflect.Value {
			return vals(Pick(r, []string{"registry.io/repo@sha256:abc", "registry.io/repo", "@", "a@b@c", "", "registry.io/repo@", "Reg.io/r@x", "localhost:5000/a/b@d", "x@"}))
		}},
		{name: repoMod + "/plugin.validatePluginName", fn: nplugin.VerifValidatePluginName, n: 40, args: func(r *Rng) []reflect.Value {
			return vals(Pick(r, []string{"", ".", "..", "a", "a/b", "a\\b", "a\x00", "foo", "...", " "}))
		}},
		{name: repoMod + "/plugin.parsePluginName", fn: nplugin.VerifParsePluginName, n: 40, args: func(r *Rng) []reflect.Value {
			return vals(Pick(r, []string{"notation-foo", "notation-", "notation", "foo", "", "notation-a.exe", "Notation-x", "notation-notation-y"}))
		}},
		{name: repoMod + "/signer.isDescriptorSubset", fn: signer.VerifIsDescriptorSubset, n: 200, args: func(r *Rng) []reflect.Value {
			a := desc(r)
			b := desc(r)
			if r.Bool() {
				b.MediaType, b.Digest, b.Size = a.MediaType, a.Digest, a.Size
			}
			return vals(a, b)
		}},
		{name: repoMod + "/signer.isPayloadDescriptorValid", fn: signer.VerifIsPayloadDescriptorValid, n: 100, args: func(r *Rng) []reflect.Value {
			a := desc(r)
			b := a
			if r.Bool() {
				b = desc(r)
			}
			return vals(a, b)
		}},
		{name: repoMod + ".validateSigMediaType", fn: notation.VerifValidateSigMediaType, n: 20, args: func(r *Rng) []reflect.Value {
			return vals(Pick(r, []string{"application/jose+json", "application/cose", "", "application/json", "application/cose "}))
		}},
		{name: repoMod + "/internal/slices.ContainsAny", fn: verifbridge.SlicesContainsAny, n: 150, args: func(r *Rng) []reflect.Value {
			var xs []any
			for i := r.Intn(4); i > 0; i-- {
				xs = append(xs, anyPool[r.Intn(len(anyPool))])
			}
			v := anyPool[r.Intn(len(anyPool))]
			rv := reflect.New(reflect.TypeOf((*any)(nil)).Elem()).Elem()
			if v != nil {
				rv.Set(reflect.ValueOf(v))
			}
			return []reflect.Value{reflect.ValueOf(xs), rv}
		}},
	}
	_ = truststore.TypeCA
	_ = context.Background
	for _, hc := range cases {
		g, fi := findFn(gens, hc.name)
		short := hc.name[strings.LastIndex(hc.name, "/")+1:]
		if g == nil {
			f := byProp["-"]
			if f == nil {
				f = &stFile{name: "cases_hooks_none.v", prelude: stPrelude}
				byProp["-"] = f
				order = append(order, "-")
			}
			f.skipped = append(f.skipped, short+" is not translated in any property file")
			continue
		}
		f := file(g)
		g.secInst = map[string]string{}
		for k, v := range hc.inst {
			g.secInst[k] = v
		}
		g.opaquePrint = map[string]func(v reflect.Value) (string, string){
			"*x509.Certificate": func(v reflect.Value) (string, string) {
				if !v.IsValid() || v.IsNil() {
					return `""`, "string"
				}
				return CStr(v.Interface().(*x509.Certificate).Subject.String()), "string"
			},
		}
		if hc.inst["x509_Certificate"] == "unit" {
			g.opaquePrint["*x509.Certificate"] = func(reflect.Value) (string, string) { return "tt", "unit" }
		}
		func() {
			defer func() {
				if x := recover(); x != nil {
					f.skipped = append(f.skipped, fmt.Sprintf("%s: %v", short, x))
				}
			}()
			fv := reflect.ValueOf(hc.fn)
			for k := 0; k < hc.n; k++ {
				args := hc.args(r)
				if hc.instOf != nil {
					for kk, v := range hc.instOf(args) {
						g.secInst[kk] = v
					}
				}
				lead := g.sectionInst(fi.name)
				g.emitReflectCase(f, short, fi, fv, args, lead, r)
			}
		}()
	}
	var out []*stFile
	for _, p := range order {
		out = append(out, byProp[p])
	}
	return out
}

func ocispecDigest(r *Rng) string { return Pick(r, []string{"aa", "bb"}) }
