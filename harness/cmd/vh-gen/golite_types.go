package main

// GoLite: Go types -> Coq types, generated Records, zero values, key equality.

import (
	"fmt"
	"go/types"
	"sort"
	"strings"

	. "vh/kit"
)

type tsubst map[*types.TypeParam]types.Type

type tkind int

const (
	kUnsupported tkind = iota
	kString
	kBool
	kInt
	kSlice
	kMap
	kStruct // named struct -> Record
	kPtr
	kError
	kFunc
	kUnit   // struct{}
	kOpaque // configured abstract type (and the pointer to it)
	kDropped
	kRegexp // *regexp.Regexp
	kTime   // time.Time
	kIfaceFn
	kTuple
	kAny     // interface{} / any
	kNilable // an interface type declared Nilable: ptr to its content
)

// resolve substitutes type parameters and removes aliases.
func resolve(t types.Type, sub tsubst) types.Type {
	t = types.Unalias(t)
	if tp, ok := t.(*types.TypeParam); ok {
		if r, ok := sub[tp]; ok {
			return resolve(r, nil)
		}
	}
	return t
}

func namedPath(t types.Type) string {
	if n, ok := types.Unalias(t).(*types.Named); ok && n.Obj() != nil {
		if n.Obj().Pkg() == nil {
			return n.Obj().Name()
		}
		return n.Obj().Pkg().Path() + "." + n.Obj().Name()
	}
	return ""
}

var droppedTypes = map[string]bool{
	"context.Context": true,
	"github.com/notaryproject/notation-go/log.Logger": true,
}

func (g *gen) kind(t types.Type, sub tsubst) tkind {
	t = resolve(t, sub)
	np := namedPath(t)
	if np != "" {
		if droppedTypes[np] {
			return kDropped
		}
		if tt := g.types[np]; tt != nil && tt.Nilable {
			if _, isIface := t.Underlying().(*types.Interface); isIface {
				return kNilable
			}
		}
		if tt := g.types[np]; tt != nil && tt.Opaque {
			return kOpaque
		}
		switch np {
		case "error":
			return kError
		case "time.Time":
			return kTime
		}
	}
	switch u := t.(type) {
	case *types.Pointer:
		en := namedPath(resolve(u.Elem(), sub))
		if en == "regexp.Regexp" {
			return kRegexp
		}
		if tt := g.types[en]; tt != nil && tt.Opaque {
			return kOpaque
		}
		return kPtr
	case *types.Tuple:
		return kTuple
	}
	switch u := t.Underlying().(type) {
	case *types.Basic:
		switch {
		case u.Info()&types.IsString != 0:
			return kString
		case u.Info()&types.IsBoolean != 0:
			return kBool
		case u.Info()&types.IsInteger != 0 && u.Kind() != types.Uintptr:
			return kInt
		}
	case *types.Slice, *types.Array:
		return kSlice // an array is a list too (a value; element assignment is not supported)
	case *types.Map:
		return kMap
	case *types.Struct:
		if u.NumFields() == 0 {
			return kUnit
		}
		if np != "" {
			return kStruct
		}
	case *types.Signature:
		return kFunc
	case *types.Interface:
		if u.NumMethods() == 0 && u.NumEmbeddeds() == 0 {
			return kAny
		}
		if types.Identical(u, types.Universe.Lookup("error").Type().Underlying()) {
			return kError // `type E error`: an error value under another static type
		}
		if u.NumMethods() == 1 && u.NumEmbeddeds() == 0 {
			return kIfaceFn
		}
	}
	return kUnsupported
}

// typ translates a Go type to a Coq type (parenthesised when compound).
func (g *gen) typ(t types.Type, sub tsubst) string {
	t = resolve(t, sub)
	switch g.kind(t, sub) {
	case kString:
		return "string"
	case kBool:
		return "bool"
	case kInt, kTime:
		return "Z"
	case kUnit:
		return "unit"
	case kError:
		return "(option err)"
	case kRegexp:
		return "re"
	case kAny:
		return "anyv"
	case kNilable:
		return "(ptr " + g.nilableElem(t, sub) + ")"
	case kSlice:
		return "(list " + g.typ(elemOf(t), sub) + ")"
	case kMap:
		m := t.Underlying().(*types.Map)
		g.eqbFor(m.Key(), sub)
		return "(list (" + g.typ(m.Key(), sub) + " * " + g.typ(m.Elem(), sub) + "))"
	case kPtr:
		return "(ptr " + g.typ(t.(*types.Pointer).Elem(), sub) + ")"
	case kStruct:
		return g.record(t.(*types.Named)).name
	case kOpaque:
		return g.opaque(t, sub)
	case kFunc:
		return g.sigType(t.Underlying().(*types.Signature), sub, nil)
	case kIfaceFn:
		m := t.Underlying().(*types.Interface).Method(0)
		return g.sigType(m.Type().(*types.Signature), sub, nil)
	case kTuple:
		tu := t.(*types.Tuple)
		return g.tupleType(tu, sub)
	case kDropped:
		g.fail("a value of the dropped type %s is used", types.TypeString(t, nil))
	}
	g.fail("type %s is not in the GoLite subset", types.TypeString(t, nil))
	return ""
}

func (g *gen) tupleType(tu *types.Tuple, sub tsubst) string {
	switch tu.Len() {
	case 0:
		return "unit"
	case 1:
		return g.typ(tu.At(0).Type(), sub)
	}
	var parts []string
	for i := 0; i < tu.Len(); i++ {
		parts = append(parts, g.typ(tu.At(i).Type(), sub))
	}
	return "(" + strings.Join(parts, " * ") + ")"
}

// sigType is the Coq function type of a signature (dropped parameters omitted).
func (g *gen) sigType(sig *types.Signature, sub tsubst, dropNames map[string]bool) string {
	if sig.Variadic() {
		g.fail("variadic function types are not supported")
	}
	var parts []string
	for i := 0; i < sig.Params().Len(); i++ {
		p := sig.Params().At(i)
		if g.kind(p.Type(), sub) == kDropped || dropNames[p.Name()] {
			continue
		}
		parts = append(parts, g.typ(p.Type(), sub))
	}
	parts = append(parts, g.tupleType(sig.Results(), sub))
	if len(parts) == 1 {
		return "(unit -> " + parts[0] + ")"
	}
	return "(" + strings.Join(parts, " -> ") + ")"
}

// eqbFor returns the boolean equality of a (key / comparable) type.
func (g *gen) eqbFor(t types.Type, sub tsubst) string {
	switch g.kind(t, sub) {
	case kString:
		return "String.eqb"
	case kInt, kTime:
		return "Z.eqb"
	case kBool:
		return "Bool.eqb"
	}
	g.fail("equality on type %s is not supported", types.TypeString(resolve(t, sub), nil))
	return ""
}

// zero is the zero value of a type.
func (g *gen) zero(t types.Type, sub tsubst) string {
	t = resolve(t, sub)
	switch g.kind(t, sub) {
	case kString:
		return `""`
	case kBool:
		return "false"
	case kInt:
		return "0"
	case kTime:
		return "time_zero"
	case kUnit:
		return "tt"
	case kError:
		return "None"
	case kSlice, kMap:
		return "[]"
	case kAny:
		return "ANil"
	case kPtr, kNilable:
		return "PNil"
	case kStruct:
		r := g.record(t.(*types.Named))
		var fs []string
		for i := range r.fields {
			fs = append(fs, r.fields[i].zero(g))
		}
		if len(r.omitted) > 0 {
			g.note(fmt.Sprintf("the zero value of %s is built without its untranslated fields", r.name))
		}
		return "(" + r.ctor + strings.Join(append([]string{""}, fs...), " ") + ")"
	}
	g.fail("no zero value for type %s", types.TypeString(t, nil))
	return ""
}

// ---------- records ----------

type recField struct {
	goName  string
	name    string // Coq projection
	setter  string
	typ     types.Type
	nilable bool // a slice / map field kept as an option (Target.NilableFields)
}

// coqType: the Coq type of the field in the record.
func (f *recField) coqType(g *gen) string {
	if f.nilable {
		return "(option " + g.typ(f.typ, nil) + ")"
	}
	return g.typ(f.typ, nil)
}

// zero: the zero value of the field.
func (f *recField) zero(g *gen) string {
	if f.nilable {
		return "None"
	}
	return g.zero(f.typ, nil)
}

type recInfo struct {
	name    string
	ctor    string
	fields  []recField
	omitted map[string]string // Go field name -> reason
	named   *types.Named
}

var recCache = map[*gen]map[string]*recInfo{}

func (g *gen) record(n *types.Named) *recInfo {
	if n.TypeArgs().Len() > 0 || n.TypeParams().Len() > 0 {
		g.fail("generic struct type %s is not supported", n.Obj().Name())
	}
	key := "type:" + namedPath(n)
	cache := recCache[g]
	if cache == nil {
		cache = map[string]*recInfo{}
		recCache[g] = cache
	}
	if it, ok := g.byItem[key]; ok {
		g.use(it)
		return cache[key]
	}
	st := n.Underlying().(*types.Struct)
	base := pkgBase(n.Obj().Pkg().Path())
	tn := n.Obj().Name()
	it := g.begin("type", key, base+"."+tn)
	r := &recInfo{named: n, omitted: map[string]string{}}
	cache[key] = r
	g.protect(it, func() {
		r.name = g.claim(key, base+"_"+tn, strings.ReplaceAll(strings.TrimPrefix(n.Obj().Pkg().Path(), goliteModule+"/"), "/", "_")+"_"+tn)
		r.ctor = g.claim(key+"#ctor", "mk_"+tn, "mk_"+r.name)
		for i := 0; i < st.NumFields(); i++ {
			f := st.Field(i)
			var ty string
			var reason string
			func() {
				defer func() {
					if x := recover(); x != nil {
						if u, ok := x.(unsup); ok {
							reason = u.msg
							return
						}
						panic(x)
					}
				}()
				if g.kind(f.Type(), nil) == kDropped {
					reason = "dropped type"
					return
				}

				ty = g.typ(f.Type(), nil)
			}()
			if reason != "" {
				r.omitted[f.Name()] = reason
				continue
			}
			_ = ty
			fk := key + "." + f.Name()
			nilable := false
			if tt := g.types[namedPath(n)]; tt != nil {
				for _, nf := range tt.NilableFields {
					if nf == f.Name() {
						if k := g.kind(f.Type(), nil); k != kSlice && k != kMap {
							g.fail("NilableFields: field %s of %s is neither a slice nor a map", nf, tn)
						}
						nilable = true
						g.note("field " + tn + "." + nf + " is kept as an option: None = nil (NilableFields)")
					}
				}
			}
			r.fields = append(r.fields, recField{goName: f.Name(), typ: f.Type(), nilable: nilable,
				name:   g.claim(fk, tn+"_"+f.Name(), r.name+"_"+f.Name()),
				setter: g.claim(fk+"#set", "set_"+tn+"_"+f.Name(), "set_"+r.name+"_"+f.Name())})
		}
		if len(r.fields) == 0 {
			// nothing of it is modelled: a one-element type
			var om []string
			for k, v := range r.omitted {
				om = append(om, k+" ("+v+")")
			}
			sort.Strings(om)
			it.name = r.name
			it.text = fmt.Sprintf("(* %s.%s; no translatable field, fields left out: %s *)\nInductive %s : Set := %s.", base, tn, cmt(strings.Join(om, ", ")), r.name, r.ctor)
			return
		}
		var b strings.Builder
		if len(r.omitted) > 0 {
			var om []string
			for k, v := range r.omitted {
				om = append(om, k+" ("+v+")")
			}
			sort.Strings(om)
			fmt.Fprintf(&b, "(* %s.%s; fields left out: %s *)\n", base, tn, cmt(strings.Join(om, ", ")))
		} else {
			fmt.Fprintf(&b, "(* %s.%s *)\n", base, tn)
		}
		fmt.Fprintf(&b, "Record %s := %s {\n", r.name, r.ctor)
		for i, f := range r.fields {
			sep := ";"
			if i == len(r.fields)-1 {
				sep = " }."
			}
			fmt.Fprintf(&b, "  %s : %s%s\n", f.name, f.coqType(g), sep)
		}
		for i, f := range r.fields {
			var args []string
			for j, f2 := range r.fields {
				if i == j {
					args = append(args, "v")
				} else {
					args = append(args, "("+f2.name+" r)")
				}
			}
			fmt.Fprintf(&b, "Definition %s (v : %s) (r : %s) : %s := %s %s.\n", f.setter, f.coqType(g), r.name, r.name, r.ctor, strings.Join(args, " "))
		}
		it.name = r.name
		it.text = b.String()
	})
	g.use(it)
	return r
}

func (r *recInfo) field(g *gen, name string) *recField {
	for i := range r.fields {
		if r.fields[i].goName == name {
			return &r.fields[i]
		}
	}
	if why, ok := r.omitted[name]; ok {
		g.fail("field %s of %s is not translated: %s", name, r.name, why)
	}
	g.fail("field %s of %s not found", name, r.name)
	return nil
}

// ---------- opaque types and their views ----------

func (g *gen) opaquePath(t types.Type, sub tsubst) string {
	t = resolve(t, sub)
	if p, ok := t.(*types.Pointer); ok {
		t = resolve(p.Elem(), sub)
	}
	return namedPath(t)
}

func (g *gen) opaque(t types.Type, sub tsubst) string {
	np := g.opaquePath(t, sub)
	key := "opaque:" + np
	if it, ok := g.byItem[key]; ok {
		return g.use(it).name
	}
	it := g.begin("oracle", key, np)
	g.protect(it, func() {
		i := strings.LastIndex(np, ".")
		it.name = g.claim(key, pkgBase(np[:i])+"_"+np[i+1:])
		it.text = fmt.Sprintf("(* opaque type %s (and the pointer to it, assumed non-nil) *)\nVariable %s : Type.", cmt(np), it.name)
		g.note("values of type " + np + " are opaque; pointers to it are assumed non-nil")
	})
	return g.use(it).name
}

// world: the Section Variable standing for the state of everything outside the
// program that Effect oracles act on.
func (g *gen) world() string {
	key := "opaque:#world"
	if it, ok := g.byItem[key]; ok {
		return g.use(it).name
	}
	it := g.begin("oracle", key, "world")
	g.protect(it, func() {
		it.name = g.claim(key, "world")
		it.text = "(* the state of the outside world the Effect oracles act on *)\nVariable " + it.name + " : Type."
		g.note("Effect oracles are functions of the world and their arguments; they return the new world. Nothing else changes the world between two calls the translated code makes (no concurrent actor is modelled)")
	})
	return g.use(it).name
}

// view returns the Variable standing for expression suffix `path` on an opaque value.
func (g *gen) view(t types.Type, sub tsubst, path string) (string, bool) {
	np := g.opaquePath(t, sub)
	tt := g.types[np]
	if tt == nil || tt.Views == nil {
		return "", false
	}
	coqT, ok := tt.Views[path]
	if !ok {
		return "", false
	}
	key := "view:" + np + "#" + path
	if it, ok := g.byItem[key]; ok {
		return g.use(it).name, true
	}
	ty := g.opaque(t, sub)
	it := g.begin("oracle", key, np+"."+path)
	g.protect(it, func() {
		it.name = g.claim(key, ty+"_"+coqIdent(strings.NewReplacer("()", "", ".", "_").Replace(path)))
		it.text = fmt.Sprintf("(* %s on a value of %s: an oracle (pure) *)\nVariable %s : %s -> %s.", cmt(path), cmt(np), it.name, ty, coqT)
	})
	return g.use(it).name, true
}

// dynTypeName is the name of a dynamic type inside an anyv value.
func dynTypeName(t types.Type) string { return types.TypeString(types.Unalias(t), nil) }

// toAny converts a translated value of static type t to anyv.
func (g *gen) toAny(v string, t types.Type, sub tsubst) string {
	t = resolve(t, sub)
	switch g.kind(t, sub) {
	case kAny:
		return v
	case kString:
		return "(AStr " + CStr(dynTypeName(t)) + " " + v + ")"
	case kInt:
		return "(AInt " + CStr(dynTypeName(t)) + " " + v + ")"
	case kBool:
		return "(ABool " + CStr(dynTypeName(t)) + " " + v + ")"
	}
	g.fail("conversion of a value of type %s to any is not supported (only string, integer and boolean kinds)", types.TypeString(t, nil))
	return ""
}

// elemOf is the element type of a slice or an array.
func elemOf(t types.Type) types.Type {
	switch u := t.Underlying().(type) {
	case *types.Slice:
		return u.Elem()
	case *types.Array:
		return u.Elem()
	}
	return nil
}

// concreteOf: for an interface type declared Nilable with Concrete: the struct type T whose pointer
// every value of the interface holds.
func (g *gen) concreteOf(t types.Type, sub tsubst) *types.Named {
	t = resolve(t, sub)
	tt := g.types[namedPath(t)]
	if tt == nil || tt.Concrete == "" {
		return nil
	}
	if _, isIface := t.Underlying().(*types.Interface); !isIface {
		return nil
	}
	full := expandPkg(tt.Concrete)
	i := strings.LastIndex(full, ".")
	if i < 0 {
		g.fail("Concrete: %s is not of the form <pkg>.<Type>", tt.Concrete)
	}
	p := g.L.pkgs[full[:i]]
	if p == nil || p.Types == nil {
		g.fail("Concrete: package %s is not loaded", full[:i])
	}
	obj := p.Types.Scope().Lookup(full[i+1:])
	if obj == nil {
		g.fail("Concrete: type %s not found", full)
	}
	n, ok := obj.Type().(*types.Named)
	if !ok || g.kind(n, nil) != kStruct {
		g.fail("Concrete: %s is not a struct type", full)
	}
	if !types.Implements(types.NewPointer(n), t.Underlying().(*types.Interface)) {
		g.fail("Concrete: *%s does not implement %s", full, namedPath(t))
	}
	g.note("every value of interface type " + namedPath(t) + " holds a *" + full + " (or is nil): option Concrete")
	return n
}

// nilableElem: the Coq type of the non-nil content of a Nilable interface type.
func (g *gen) nilableElem(t types.Type, sub tsubst) string {
	t = resolve(t, sub)
	np := namedPath(t)
	tt := g.types[np]
	if n := g.concreteOf(t, sub); n != nil {
		return "(ptr " + g.typ(n, nil) + ")"
	}
	if tt != nil && tt.Opaque {
		return g.opaque(t, sub)
	}
	if u, ok := t.Underlying().(*types.Interface); ok && u.NumMethods() == 1 && u.NumEmbeddeds() == 0 {
		return g.sigType(u.Method(0).Type().(*types.Signature), sub, nil)
	}
	g.fail("Nilable type %s is neither Opaque nor a one-method interface", np)
	return ""
}

// nilableIsFn: the content of the Nilable interface type is a function.
func (g *gen) nilableIsFn(t types.Type, sub tsubst) bool {
	tt := g.types[namedPath(resolve(t, sub))]
	if tt != nil && tt.Concrete != "" {
		return false
	}
	return tt == nil || !tt.Opaque
}

// ptrElemType: the Coq type of what a pointer-like value (a Go pointer or a
// Nilable interface value) points to.
func (g *gen) ptrElemType(t types.Type, sub tsubst) string {
	t = resolve(t, sub)
	if p, ok := t.(*types.Pointer); ok {
		return g.typ(p.Elem(), sub)
	}
	return g.nilableElem(t, sub)
}

// ifaceConv converts a translated interface value between two opaque /
// nilable interface types (an upcast: a Variable up_A__B when the types differ).
func (g *gen) ifaceConv(v string, from, to types.Type, sub tsubst, content bool) string {
	from, to = resolve(from, sub), resolve(to, sub)
	fk, tk := g.kind(from, sub), g.kind(to, sub)
	if content && fk == kNilable {
		fk = kOpaque // v is the non-nil content of the value
	}
	fp, tp := g.opaquePath(from, sub), g.opaquePath(to, sub)
	up := ""
	if fp != tp {
		key := "up:" + fp + "->" + tp
		it, ok := g.byItem[key]
		if !ok {
			fe, te := g.opaqueContent(from, sub), g.opaqueContent(to, sub)
			it = g.begin("oracle", key, "upcast "+fp+" -> "+tp)
			g.protect(it, func() {
				it.name = g.claim(key, "up_"+fe+"__"+te)
				it.text = fmt.Sprintf("(* a value of interface type %s used as a %s (the same dynamic value) *)\nVariable %s : %s -> %s.", cmt(fp), cmt(tp), it.name, fe, te)
			})
		}
		up = g.use(it).name
	}
	app := func(x string) string {
		if up == "" {
			return x
		}
		return "(" + up + " " + x + ")"
	}
	switch {
	case fk == kNilable && tk == kNilable:
		if up == "" {
			return v
		}
		return "(ptr_map " + up + " " + v + ")"
	case fk != kNilable && tk == kNilable:
		return "(PNew " + app(v) + ")"
	case fk != kNilable && tk != kNilable:
		return app(v)
	}
	g.fail("a possibly nil value of type %s is used where the non-nil %s is needed", fp, tp)
	return ""
}

// ifaceOf: the Variable turning a concrete value (the pointee, for a non-nil
// pointer) into the content of the opaque interface type `to`.
func (g *gen) ifaceOf(concrete, to types.Type, sub tsubst) string {
	concrete, to = resolve(concrete, sub), resolve(to, sub)
	cp := types.TypeString(concrete, nil)
	tp := g.opaquePath(to, sub)
	key := "upc:" + cp + "->" + tp
	it, ok := g.byItem[key]
	if !ok {
		elem := concrete
		if p, isPtr := concrete.(*types.Pointer); isPtr {
			elem = p.Elem()
		}
		fe, te := g.typ(elem, sub), g.opaqueContent(to, sub)
		it = g.begin("oracle", key, "conversion "+cp+" -> "+tp)
		g.protect(it, func() {
			pre := "up_"
			if _, isPtr := concrete.(*types.Pointer); isPtr {
				pre = "up_ptr_"
			}
			it.name = g.claim(key, pre+coqIdent(strings.Trim(fe, "()"))+"__"+te)
			it.text = fmt.Sprintf("(* a (non-nil) value of type %s used as a %s: the interface value is a function of the current pointee *)\nVariable %s : %s -> %s.", cmt(cp), cmt(tp), it.name, fe, te)
			g.note("a " + cp + " converted to " + tp + " is a snapshot of its pointee (later writes through the pointer are not seen through the interface value)")
		})
	}
	return g.use(it).name
}

// opaqueContent: the Coq type of the (non-nil) content of an opaque / nilable opaque interface type.
func (g *gen) opaqueContent(t types.Type, sub tsubst) string {
	if g.kind(t, sub) == kNilable {
		return g.nilableElem(t, sub)
	}
	return g.opaque(t, sub)
}

// isOpaqueIface: an interface type declared Opaque (Nilable or not).
func (g *gen) isOpaqueIface(t types.Type, sub tsubst) bool {
	t = resolve(t, sub)
	if _, ok := t.Underlying().(*types.Interface); !ok {
		return false
	}
	tt := g.types[namedPath(t)]
	return tt != nil && tt.Opaque
}

// ifaceAs: the Variable deciding a type assertion between two opaque interface types.
func (g *gen) ifaceAs(from, to types.Type, sub tsubst) string {
	fp, tp := g.opaquePath(from, sub), g.opaquePath(to, sub)
	key := "as:" + fp + "->" + tp
	it, ok := g.byItem[key]
	if !ok {
		fe, te := g.opaqueContent(from, sub), g.opaqueContent(to, sub)
		it = g.begin("oracle", key, "assertion "+fp+" -> "+tp)
		g.protect(it, func() {
			it.name = g.claim(key, "as_"+fe+"__"+te)
			it.text = fmt.Sprintf("(* x.(%s) for a non-nil x of interface type %s: Some = the dynamic value also has that type *)\nVariable %s : %s -> option %s.", cmt(tp), cmt(fp), it.name, fe, te)
		})
	}
	return g.use(it).name
}
