package main

// C11: GoLite targets (docs/GOLITE_NOTES.md). Theorems: coq/props/C11_Generated.v
// (proofs in coq/theories/C11_GenProofs.v), table in docs/audit/C11.md section "GoLite".
func init() {
	const n = "github.com/notaryproject/notation-go"
	Register("C11", []Target{
		{Pkg: "crypto/x509", Type: "Certificate", Opaque: true, Views: map[string]string{"Raw": "list Z"}},
		{Pkg: "crypto/x509", Type: "CertPool", Opaque: true},
		// translated: the argument check of SignOCI / SignBlob (the model's `validate`) and the
		// nil-info / zero-time decisions of generateAnnotations (the model's `gen_ann`)
		{Pkg: n, Func: "validateSigMediaType"},
		{Pkg: n, Func: "validateSignArguments"},
		{Pkg: "time", Func: "Time.UTC", Oracle: true},
		{Pkg: ".../internal/envelope", Func: "SigningTime"},

		// Refused; kept because the reason documents what is outside the subset
		// (docs/audit/C11.md, section GoLite).
		// desc.Annotations[k] = v through a by-value struct parameter whose map is the caller's unless
		// len(userMetadata) > 0 replaced it (notation.go:286): aliasing, outside GoLite's value semantics
		{Pkg: n, Func: "addUserMetadataToDescriptor"},
		// map parameter reassigned when nil and then written (:622-625); sha256.Sum256 array, json.Marshal(any)
		{Pkg: n, Func: "generateAnnotations"},
		// registry.Repository (four-method interface), signer.(signerAnnotation) (:202)
		{Pkg: n, Func: "SignOCI"},
		// content.Storage / content.Pusher interface values (registry/repository.go:145, :225)
		{Pkg: ".../registry", Func: "pushNotationManifestConfig"},
		{Pkg: ".../registry", Func: "(*repositoryClient).PushSignature"},
	})
}
