package main

// C11: GoLite targets (docs/GOLITE_NOTES.md). Theorems: coq/props/C11_Generated.v
// (proofs in coq/theories/C11_GenProofs.v), table in docs/audit/C11.md section "GoLite".
func init() {
	const n = "github.com/notaryproject/notation-go"
	Register("C11", []Target{
		{Pkg: "crypto/x509", Type: "Certificate", Opaque: true, Views: map[string]string{"Raw": "list Z"}},
		{Pkg: "crypto/x509", Type: "CertPool", Opaque: true},
		{Pkg: n, Func: "validateSigMediaType"},
		{Pkg: n, Func: "validateSignArguments", DropParams: []string{"signer"}},
		{Pkg: n, Func: "addUserMetadataToDescriptor"},
		{Pkg: "time", Func: "Time.UTC", Oracle: true},
		{Pkg: ".../internal/envelope", Func: "SigningTime"},
		{Pkg: n, Func: "generateAnnotations"},
		{Pkg: n, Func: "SignOCI"},
		{Pkg: ".../registry", Func: "pushNotationManifestConfig"},
		{Pkg: ".../registry", Func: "(*repositoryClient).PushSignature"},
	})
}
