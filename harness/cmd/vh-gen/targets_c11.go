package main

// C11: GoLite targets (docs/GOLITE_NOTES.md). Theorems: coq/props/C11_Generated.v
// (proofs in coq/theories/C11_GenProofs.v), table in docs/audit/C11.md section "GoLite".
func init() {
	const n = "github.com/notaryproject/notation-go"
	Register("C11", []Target{
		{Pkg: "crypto/x509", Type: "Certificate", Opaque: true, Views: map[string]string{"Raw": "list Z"}},
		{Pkg: "crypto/x509", Type: "CertPool", Opaque: true},
		// translated: the signature media type check (last test of the model's `validate`)
		{Pkg: n, Func: "validateSigMediaType"},

		// Refused on /repo ccdc027; kept because the reason documents what is outside the subset
		// (docs/audit/C11.md, section GoLite). Proofs for the first two are ready in
		// harness/cmd/vh-c11/golite_pending_proofs.v.txt.
		// `signer any` compared with nil (notation.go:247-248)
		{Pkg: n, Func: "validateSignArguments"},
		// composite literal time.Time{} (internal/envelope/envelope.go:61, :65)
		{Pkg: "time", Func: "Time.UTC", Oracle: true},
		{Pkg: ".../internal/envelope", Func: "SigningTime"},
		// range over the array [1]string (notation.go:278); then desc.Annotations[k] = v through a by-value
		// struct parameter whose map is the caller's unless len(userMetadata) > 0 replaced it (:286): aliasing
		{Pkg: n, Func: "addUserMetadataToDescriptor"},
		// map parameter reassigned when nil and then written (:622-625); sha256.Sum256 array, json.Marshal(any)
		{Pkg: n, Func: "generateAnnotations"},
		// registry.Repository (four-method interface), signer.(signerAnnotation) (:202), errors.As (:215)
		{Pkg: n, Func: "SignOCI"},
		// content.Storage / content.Pusher interface values, errors.Is (registry/repository.go:145, :225, :236)
		{Pkg: ".../registry", Func: "pushNotationManifestConfig"},
		{Pkg: ".../registry", Func: "(*repositoryClient).PushSignature"},
	})
}
