package main

// C11: GoLite targets (docs/GOLITE_NOTES.md). Theorems: coq/props/C11_Generated.v
// (proofs in coq/theories/C11_GenProofs.v), table in docs/audit/C11.md section "GoLite".
func init() {
	const n = "github.com/notaryproject/notation-go"
	Register("C11", []Target{
		{Pkg: "crypto/x509", Type: "Certificate", Opaque: true, Views: map[string]string{"Raw": "list Z"}},
		{Pkg: "crypto/x509", Type: "CertPool", Opaque: true},
		// the argument check of SignOCI / SignBlob (the model's `validate`); the plain form (signer : anyv)
		// and the instance SignOCI calls (signer : notation.Signer)
		{Pkg: n, Func: "validateSigMediaType"},
		{Pkg: n, Func: "validateSignArguments", InstantiateAny: []string{"signer"}},
		// user metadata merged into the descriptor to sign (the model's `add_meta false`)
		{Pkg: n, Func: "addUserMetadataToDescriptor"},
		// annotations of the signature manifest (the model's `gen_ann`); SHA-256, hex, JSON and the
		// time format are dependencies: oracles
		{Pkg: "time", Func: "Time.UTC", Oracle: true},
		{Pkg: ".../internal/envelope", Func: "SigningTime"},
		{Pkg: "crypto/sha256", Func: "Sum256", Oracle: true},
		{Pkg: "encoding/hex", Func: "EncodeToString", Oracle: true},
		{Pkg: "encoding/json", Func: "Marshal", Oracle: true},
		{Pkg: "time", Func: "Time.Format", Oracle: true},
		{Pkg: n, Func: "generateAnnotations", NilIsEmpty: true},
		// SignOCI: signer, repository and the reference / digest parsers are oracles
		{Pkg: n, Type: "Signer", Opaque: true, Nilable: true},
		{Pkg: n, Type: "signerAnnotation", Opaque: true, Nilable: true},
		{Pkg: ".../registry", Type: "Repository", Opaque: true, Nilable: true},
		{Pkg: n, Func: "Signer.Sign", Oracle: true},
		// FreshResults: ASSUMPTION that the plugin's map is not shared (generateAnnotations writes into it);
		// the model's heap (PAMap a) and the harness cover the shared case
		{Pkg: n, Func: "signerAnnotation.PluginAnnotations", Oracle: true, FreshResults: true},
		{Pkg: ".../registry", Func: "Repository.Resolve", Oracle: true},
		{Pkg: ".../registry", Func: "Repository.PushSignature", Oracle: true},
		{Pkg: "oras.land/oras-go/v2/registry", Func: "ParseReference", Oracle: true},
		{Pkg: "github.com/opencontainers/go-digest", Func: "Digest.String"},
		{Pkg: "github.com/opencontainers/go-digest", Func: "Parse", Oracle: true},
		{Pkg: "oras.land/oras-go/v2/registry/remote", Func: "(*ReferrersError).IsReferrersIndexDelete", Oracle: true},
		{Pkg: n, Func: "SignOCI"},

		// Refused; kept because the reason documents what is outside the subset
		// (docs/audit/C11.md, section GoLite): content.Storage / content.Pusher interface values
		{Pkg: ".../registry", Func: "pushNotationManifestConfig"},
		{Pkg: ".../registry", Func: "(*repositoryClient).PushSignature"},
	})
}
