package main

// C07: GoLite targets (docs/GOLITE_NOTES.md): what the library signs, it verifies.
// Theorems: coq/props/C07_Generated.v (proofs in coq/theories/C07_GenProofs.v); table in
// docs/audit/C07.md, section "GoLite".
func init() {
	const fw = "github.com/notaryproject/notation-plugin-framework-go/plugin"
	const alg = "github.com/notaryproject/notation-core-go/internal/algorithm"
	const sig = "github.com/notaryproject/notation-core-go/signature"
	Register("C07", []Target{
		// ---- payload construction and sanitisation (clause 8)
		{Pkg: ".../internal/envelope", Func: "SanitizeTargetArtifact"},
		{Pkg: ".../internal/envelope", Func: "ValidatePayloadContentType"},
		// ---- hash bound to the key (clause 9): key spec -> signature algorithm -> crypto.Hash -> digest algorithm
		{Pkg: alg, Func: "KeySpec.SignatureAlgorithm"},
		{Pkg: alg, Func: "Algorithm.Hash"},
		{Pkg: ".../signer", Func: "getDescriptor"}, // reads var signer.algorithms
		{Pkg: ".../plugin/proto", Func: "DecodeKeySpec"},
		{Pkg: ".../plugin/proto", Func: "EncodeKeySpec"},
		{Pkg: ".../plugin/proto", Func: "HashAlgorithmFromKeySpec"},
		// ---- sign-option checks of SignOCI / SignBlob (clauses 2, 4, 6)
		{Pkg: "mime", Func: "ParseMediaType", Oracle: true},
		{Pkg: "...", Func: "validateContentMediaType"},
		{Pkg: "...", Func: "validateSigMediaType"},
		// ---- what an envelope-generating plugin may hand back (clause 8, plugin-backed signers)
		{Pkg: "oras.land/oras-go/v2/content", Func: "Equal"},
		{Pkg: ".../signer", Func: "isDescriptorSubset"},
		{Pkg: ".../signer", Func: "isPayloadDescriptorValid"},
		// ---- plugin-backed signer: dispatch on the capabilities, key spec from describe-key,
		//      generate-signature request (clauses 1, 9, Q)
		{Pkg: fw, Func: "(*GetMetadataResponse).HasCapability"},
		{Pkg: fw, Type: "SignPlugin", Opaque: true},
		{Pkg: fw, Func: "SignPlugin.DescribeKey", Oracle: true, AnyReceiver: true},
		{Pkg: fw, Func: "SignPlugin.GenerateSignature", Oracle: true, AnyReceiver: true},
		{Pkg: fw, Func: "SignPlugin.GetMetadata", Oracle: true},
		{Pkg: ".../signer", Func: "(*PluginSigner).describeKey"},
		{Pkg: ".../signer", Func: "(*PluginSigner).getKeySpec"},
		{Pkg: ".../signer", Func: "(*PluginSigner).mergeConfig"},
		{Pkg: "crypto/x509", Type: "Certificate", Opaque: true},
		{Pkg: ".../signer", Func: "parseCertChain", Oracle: true}, // make([]T, n) + element assignment, crypto/x509
		{Pkg: ".../signer", Func: "(*pluginPrimitiveSigner).Sign"},
		// outside the subset, hence oracles of Sign / SignBlob: json.Marshal(any), json.Unmarshal through a
		// pointer, notation-core-go's Envelope interface, write through the receiver (signer/plugin.go:186-240);
		// GenericSigner holds an interface value with several methods (signer/plugin.go:166)
		{Pkg: ".../signer", Func: "(*PluginSigner).generateSignatureEnvelope", Oracle: true},
		{Pkg: ".../signer", Func: "(*PluginSigner).generateSignature", Oracle: true},
		{Pkg: ".../signer", Func: "(*PluginSigner).Sign"},
		{Pkg: ".../signer", Func: "(*PluginSigner).SignBlob"},
		// ---- verification side (clauses 3, 4, 10, 12): required metadata, expiry
		{Pkg: ".../verifier", Func: "verifyUserMetadata", NonNil: true},
		{Pkg: "time", Func: "Now", Oracle: true},
		{Pkg: "time", Func: "Time.Format", Oracle: true},
		{Pkg: ".../verifier", Func: "verifyExpiry"},
		{Pkg: "...", Func: "validateSignArguments"},
		// ---- what is read back (clause 12): json.Unmarshal(content, &payload) is an oracle that receives the
		//      current payload and returns the one it leaves behind (OutParams; instantiated per argument type,
		//      the un-instantiated row is reported unsupported: harmless)
		{Pkg: "encoding/json", Func: "Unmarshal", Oracle: true, OutParams: []string{"v"}},
		// `Annotations == nil` -> the empty map: nil and empty are one value here
		{Pkg: "...", Func: "(*VerificationOutcome).UserMetadata", NilIsEmpty: true},
		// ---- local signers: the request GenericSigner.Sign hands to notation-core-go (clauses 6, 7, 8, 10),
		//      SignBlob's digest algorithm from the signer's own key spec (clause 9). What core and the
		//      standard library do are oracles; json.Marshal is instantiated per argument type.
		{Pkg: sig, Type: "Signer", Opaque: true},
		{Pkg: "github.com/notaryproject/tspclient-go", Type: "Timestamper", Nilable: true}, // compared with nil (signer.go:119)
		{Pkg: "github.com/notaryproject/notation-core-go/revocation", Type: "Validator", Nilable: true},
		{Pkg: sig, Func: "Signer.KeySpec", Oracle: true, AnyReceiver: true},
		{Pkg: sig, Type: "Envelope", Opaque: true},
		{Pkg: sig, Func: "NewEnvelope", Oracle: true},
		{Pkg: sig, Func: "Envelope.Sign", Oracle: true, AnyReceiver: true},
		{Pkg: sig, Func: "Envelope.Verify", Oracle: true, AnyReceiver: true},
		{Pkg: sig, Func: "(*SignRequest).WithContext", Oracle: true, FreshResults: true}, // returns a shallow copy
		{Pkg: "encoding/json", Func: "Marshal", Oracle: true},
		{Pkg: "time", Func: "Time.Add", Oracle: true},
		{Pkg: ".../signer", Func: "(*GenericSigner).Sign"},
		{Pkg: ".../signer", Func: "(*GenericSigner).SignBlob"},
		// ---- refused on /repo a146158; kept because the reason documents what is outside the subset
		//      (docs/audit/C07.md, section GoLite)
		// desc is a by-value struct parameter whose Annotations map is the caller's unless
		// `len(userMetadata) > 0` replaced it by a fresh one (notation.go:276); the write at :286 is
		// then seen as a write through a parameter
		{Pkg: "...", Func: "addUserMetadataToDescriptor"},
		{Pkg: "...", Func: "getDescriptorFunc"}, // the closure itself is fine; calls addUserMetadataToDescriptor
		{Pkg: "...", Func: "SignBlob"},          // calls getDescriptorFunc
		{Pkg: "...", Func: "VerifyBlob"},        // calls getDescriptorFunc
		// verifier.Verify / VerifyBlob: `outcome` is handed to processSignature, which writes through it,
		// and is assigned afterwards (verifier/verifier.go:296-298, :379-382); this is also where
		// var verifier.algorithms is read (:307-316). notation.Verify: registry.Repository (4 methods)
		{Pkg: ".../verifier", Func: "(*verifier).Verify"},
		{Pkg: ".../verifier", Func: "(*verifier).VerifyBlob"},
		{Pkg: "...", Func: "Verify"},
	})
}
