package main

import "fmt"

var goliteSelftest bool

// goliteMain runs the GoLite pass; a crash of the translator is reported and
// swallowed (Generated.v has been written already, vh-gen must exit 0).
func goliteMain(repo, out string) {
	defer func() {
		if r := recover(); r != nil {
			fmt.Println("golite: internal error:", r)
		}
	}()
	if out == "" {
		return
	}
	gens := runGoLite(repo, out)
	if goliteSelftest {
		runSelftest(repo, out, gens)
	}
}
