package main

// GoLite: translation of selected Go function bodies of /repo into Gallina
// (docs/GOLITE.md). This file: target tables, loading of the packages, the
// per-property generator (items in dependency order, Section variables,
// unsupported propagation) and the emission of coq/theories/Cxx_Gen.v.
//
// The translator is part of the trusted base: whatever it cannot translate
// faithfully comes out as a comment GOLITE-UNSUPPORTED, never as a guess.

import (
	"fmt"
	"go/ast"
	"go/token"
	"go/types"
	"os"
	"path/filepath"
	"reflect"
	"sort"
	"strings"

	"golang.org/x/tools/go/packages"
)

const goliteModule = "github.com/notaryproject/notation-go"

// Target is one row of a target table (harness/cmd/vh-gen/targets_cXX.go).
type Target struct {
	Pkg  string // import path; ".../x" abbreviates github.com/notaryproject/notation-go/x
	Func string // "f", "(*T).m", "T.m"; for an interface method "I.m" (Oracle)
	Name string // Coq name (default gen_<pkgbase>_<Func>)

	// Oracle: the body is not translated; the function becomes a Variable of
	// the file's Section with the translated signature.
	Oracle bool
	// NonNil: pointer parameters are assumed non-nil and passed as plain
	// values. Receivers are NonNil unless NilableRecv is set.
	NonNil      bool
	NilableRecv bool
	// DropParams: parameter names that are dropped (context.Context and
	// loggers are dropped automatically).
	DropParams []string
	// TypeArgs: for a generic function, an instantiation to emit even when no
	// other target calls it ("string", "int", "bool").
	TypeArgs []string
	// NilIsEmpty: inside this function `m == nil` / `m != nil` on a map or a
	// slice is read as len(m) == 0 / len(m) != 0 (nil and empty are one value
	// in the abstraction; only sound when the function treats them alike).
	NilIsEmpty bool

	// LocalErrorIdentity: local variables that hold an error value created once in
	// the function and never reassigned. Such a value gets an identity of its
	// own (typ "<pkg>.<Type>#<var>"), so that `errors.Is(err, v)` / `err == v`
	// can be decided. ASSUMPTION (printed into the generated definition): no
	// OTHER error that Go's == would find equal to it (same type, identical
	// message text) reaches those comparisons.
	LocalErrorIdentity []string
	// Effect (oracles): the callee acts on the outside world (file system,
	// network). The oracle takes the current `world` first and returns the new
	// world first: `world -> args -> world * results`. Every function that calls
	// one (directly or through targets) takes and returns the world in the same
	// way; the order of the effects is the order of evaluation of the Go code.
	Effect bool
	// Walk (oracles fs.WalkDir / filepath.WalkDir): the name of the callback
	// parameter, a func(path string, d fs.DirEntry, err error) error. The
	// oracle supplies what the walk sees of the file system as a tree
	// (GoLib walk_tree, or the error of the root's Stat); the walk itself is
	// GoLib's walk_dir, a transcription of the library's algorithm including
	// the fs.SkipDir / fs.SkipAll protocol. The callback must be a function
	// literal; the variables it assigns are threaded as its state.
	Walk string
	// Concrete (interface type rows with Nilable): "<pkg>.<Type>" of the one struct
	// type whose pointer every value of this interface type holds in the translated
	// code (ASSUMPTION, listed in the generated file). The interface value is then
	// `ptr (ptr T)`: PNil = the nil interface, PNew PNil = a nil *T inside a non-nil
	// interface value (Go's typed nil, kept exactly), PNew (PNew t) = a *T. A *T is
	// converted by PNew; method calls through such an interface value are refused.
	Concrete string
	// NilableFields (struct type rows: Type without Opaque): slice / map fields whose
	// nil-ness the code tests (`x.F == nil`). Such a field is `option (list ..)`
	// in the record (None = nil); read as a slice / map it is `onil (F x)` (nil
	// is empty); it can only be assigned nil, another nilable field, or a value
	// that is certainly not nil (a literal, make, a conversion).
	NilableFields []string
	// InstantiateAny (functions): parameters of type `any` / interface{} that are
	// instantiated with the static type of the argument at each call site (one
	// translation per type, suffix `_Type`), like a type parameter: inside the
	// body the parameter has that type. For `func run(.., resp interface{})`
	// called as `run(.., &metadata)`, whose body hands resp to json.Unmarshal.
	InstantiateAny []string
	// AnyReceiver (oracles that are methods of an interface type declared
	// Opaque): the receiver is NOT an argument of the oracle, which then stands
	// for the method of one fixed receiver. ASSUMPTION (listed at the end of the
	// generated file): all receivers the translated code calls the method on are
	// that one value. Without the option the (non-nil) receiver is the first
	// argument.
	AnyReceiver bool
	// OutParams (oracles): pointer parameters the callee writes through. The
	// oracle receives the current pointee and returns the new pointee first
	// (before its results); the caller's variable is rebound.
	OutParams []string
	// Callback (oracles): the name of a function-typed parameter the callee
	// invokes. Convention: the callee calls it sequentially, zero or more times,
	// on values it produces ("pages"), stops at the first non-nil error the
	// callback returns and returns that error; otherwise it returns its own
	// final error. The oracle then has type `args -> list Page * option err`, and
	// a function literal passed there may assign captured variables: the call is
	// translated as a fold of the literal's body over the pages.
	Callback string
	// FreshResults (oracles): the pointers / maps the oracle returns are freshly
	// allocated and referenced by nobody else: the caller may write through them.
	FreshResults bool
	// Drop: calls of this function have no modelled effect and their result is
	// not used (hooks, tracing): a call statement / deferred call disappears,
	// its arguments are still evaluated for panics.
	Drop bool

	// Type (instead of Func) configures a named type of Pkg.
	Type string
	// Opaque: the type (and the pointer to it) is an abstract type: a Variable
	// of the Section. Pointers to it are assumed non-nil.
	Opaque bool
	// Nilable (with Type, for an interface type): a value of the type may be
	// nil: it is a `ptr` to its non-nil content (the opaque value, or the
	// function of a one-method interface). `x == nil` works, a method call needs
	// a nil guard (or makes the function partial).
	Nilable bool
	// Views: expressions on a value of an opaque type that become Variables,
	// e.g. {"Subject.String()": "string"}.
	Views map[string]string
}

var (
	goliteTables = map[string][]Target{}
	goliteProps  []string
)

// Register adds the target table of one property.
func Register(prop string, ts []Target) {
	if _, ok := goliteTables[prop]; !ok {
		goliteProps = append(goliteProps, prop)
	}
	goliteTables[prop] = append(goliteTables[prop], ts...)
}

func expandPkg(p string) string {
	if strings.HasPrefix(p, ".../") {
		return goliteModule + "/" + p[4:]
	}
	if p == "..." {
		return goliteModule
	}
	return p
}

// ---------- unsupported ----------

type unsup struct{ msg string }

type needPartial struct{}

// ---------- loading ----------

type funcDecl struct {
	pkg  *packages.Package
	decl *ast.FuncDecl
	obj  *types.Func
}

type varDecl struct {
	pkg   *packages.Package
	spec  *ast.ValueSpec
	index int
	obj   *types.Var
}

type loader struct {
	repo           string
	pkgs           map[string]*packages.Package
	funcs          map[string]*funcDecl // (*types.Func).FullName() of the origin
	vars           map[string]*varDecl  // pkgpath.name
	mutated        map[string]bool      // pkgpath.name of package-level variables assigned or address-taken somewhere in their package
	knownSentinels map[string]string    // synthetic corpus only: sentinels of packages loaded without sources -> their text
	scanned        map[string]bool
	loadErr        string
	modRoot        string
}

func goliteLoad(repo string, paths []string) *loader {
	L := &loader{repo: repo, pkgs: map[string]*packages.Package{}, funcs: map[string]*funcDecl{}, vars: map[string]*varDecl{},
		mutated: map[string]bool{}, scanned: map[string]bool{}}
	env := []string{}
	for _, e := range os.Environ() {
		if strings.HasPrefix(e, "GOFLAGS=") || strings.HasPrefix(e, "GOPROXY=") || strings.HasPrefix(e, "GOSUMDB=") || strings.HasPrefix(e, "GOTOOLCHAIN=") || strings.HasPrefix(e, "GOWORK=") {
			continue
		}
		env = append(env, e)
	}
	// the repository is only read: -mod=readonly never rewrites its go.mod / go.sum
	env = append(env, "GOFLAGS=-mod=readonly", "GOPROXY=off", "GOSUMDB=off", "GOTOOLCHAIN=local", "GOWORK=off")
	cfg := &packages.Config{
		Dir:        repo,
		Mode:       packages.NeedTypes | packages.NeedSyntax | packages.NeedTypesInfo | packages.NeedDeps | packages.NeedImports | packages.NeedName | packages.NeedFiles,
		BuildFlags: []string{"-tags=verif"},
		Env:        env,
	}
	roots, err := packages.Load(cfg, paths...)
	if err != nil {
		L.loadErr = "packages.Load: " + err.Error()
		return L
	}
	packages.Visit(roots, nil, func(p *packages.Package) {
		L.pkgs[p.PkgPath] = p
	})
	for _, p := range roots {
		for _, e := range p.Errors {
			if L.loadErr == "" {
				L.loadErr = "package " + p.PkgPath + ": " + e.Error()
			}
		}
	}
	if abs, err := filepath.Abs(repo); err == nil {
		L.repo = abs
	}
	return L
}

// scan indexes the function and variable declarations of one package.
func (L *loader) scan(path string) {
	if L.scanned[path] {
		return
	}
	L.scanned[path] = true
	p := L.pkgs[path]
	if p == nil || p.TypesInfo == nil {
		return
	}
	for _, f := range p.Syntax {
		for _, d := range f.Decls {
			switch d := d.(type) {
			case *ast.FuncDecl:
				if obj, ok := p.TypesInfo.Defs[d.Name].(*types.Func); ok {
					L.funcs[obj.FullName()] = &funcDecl{pkg: p, decl: d, obj: obj}
				}
			case *ast.GenDecl:
				if d.Tok != token.VAR {
					continue
				}
				for _, s := range d.Specs {
					vs := s.(*ast.ValueSpec)
					for i, n := range vs.Names {
						if obj, ok := p.TypesInfo.Defs[n].(*types.Var); ok {
							L.vars[path+"."+n.Name] = &varDecl{pkg: p, spec: vs, index: i, obj: obj}
						}
					}
				}
			}
		}
		// package-level variables that are written or whose address is taken
		ast.Inspect(f, func(n ast.Node) bool {
			mark := func(e ast.Expr) {
				for {
					switch x := e.(type) {
					case *ast.ParenExpr:
						e = x.X
						continue
					case *ast.SelectorExpr:
						if _, ok := p.TypesInfo.Selections[x]; ok {
							e = x.X
							continue
						}
						e = x.Sel
						continue
					case *ast.IndexExpr:
						e = x.X
						continue
					case *ast.StarExpr:
						e = x.X
						continue
					}
					break
				}
				if id, ok := e.(*ast.Ident); ok {
					if v, ok := p.TypesInfo.Uses[id].(*types.Var); ok && v.Pkg() != nil && v.Parent() == v.Pkg().Scope() {
						L.mutated[v.Pkg().Path()+"."+v.Name()] = true
					}
				}
			}
			switch x := n.(type) {
			case *ast.AssignStmt:
				if x.Tok != token.DEFINE {
					for _, l := range x.Lhs {
						mark(l)
					}
				}
			case *ast.IncDecStmt:
				mark(x.X)
			case *ast.UnaryExpr:
				if x.Op == token.AND {
					if _, isLit := x.X.(*ast.CompositeLit); !isLit {
						mark(x.X)
					}
				}
			case *ast.RangeStmt:
				if x.Tok == token.ASSIGN {
					if x.Key != nil {
						mark(x.Key)
					}
					if x.Value != nil {
						mark(x.Value)
					}
				}
			}
			return true
		})
	}
}

func (L *loader) pos(p token.Pos, pkg *packages.Package) string {
	if pkg == nil || pkg.Fset == nil || !p.IsValid() {
		return "?"
	}
	ps := pkg.Fset.Position(p)
	f := ps.Filename
	if rel, err := filepath.Rel(L.repo, f); err == nil && !strings.HasPrefix(rel, "..") {
		f = rel
	} else if i := strings.Index(f, "/pkg/mod/"); i >= 0 {
		f = f[i+len("/pkg/mod/"):]
	} else if i := strings.Index(f, "/src/"); i >= 0 {
		f = f[i+len("/src/"):]
	}
	return fmt.Sprintf("%s:%d", f, ps.Line)
}

// ---------- the generator of one property file ----------

type item struct {
	kind   string // "type" "var" "func" "oracle" "note"
	key    string
	name   string
	text   string
	status string // "" = in progress, "ok", "unsupported"
	reason string
	label  string // <pkg>.<func> for the log line
	target bool   // listed in the table (gets a log line)
	silent bool   // when it cannot be translated nothing is printed (the plain form of an InstantiateAny row)
}

type gen struct {
	prop  string
	L     *loader
	table []Target
	byKey map[string]*Target // function FullName -> table row
	types map[string]*Target // pkgpath.Type -> table row

	items  []*item
	byItem map[string]*item
	names  map[string]string // Coq global name -> key that owns it
	notes  []string

	// selftest: dependencies on Section Variables and their instantiation
	secDeps     map[string][]string
	secVarOrder []string
	secInst     map[string]string
	// selftest: how values of opaque Go types are printed (and their Coq type)
	opaquePrint map[string]func(v reflect.Value) (term, typ string)
}

func (g *gen) fail(format string, a ...any) {
	panic(unsup{fmt.Sprintf(format, a...)})
}

// claim reserves a Coq global name for key; candidates in order of preference.
func (g *gen) claim(key string, cands ...string) string {
	for _, c := range cands {
		c = coqIdent(c)
		if reservedCoq[c] {
			continue
		}
		if owner, ok := g.names[c]; !ok || owner == key {
			g.names[c] = key
			return c
		}
	}
	base := coqIdent(cands[len(cands)-1])
	for i := 2; ; i++ {
		c := fmt.Sprintf("%s_%d", base, i)
		if owner, ok := g.names[c]; !ok || owner == key {
			g.names[c] = key
			return c
		}
	}
}

func coqIdent(s string) string {
	var b strings.Builder
	for i, r := range s {
		switch {
		case r >= 'a' && r <= 'z', r >= 'A' && r <= 'Z', r == '_':
			b.WriteRune(r)
		case r >= '0' && r <= '9':
			if i == 0 {
				b.WriteByte('_')
			}
			b.WriteRune(r)
		default:
			b.WriteByte('_')
		}
	}
	if b.Len() == 0 {
		return "_x"
	}
	return b.String()
}

// begin registers an item in progress (cycle detection); done/failItem close it.
func (g *gen) begin(kind, key, label string) *item {
	it := &item{kind: kind, key: key, label: label}
	g.byItem[key] = it
	return it
}

func (g *gen) finish(it *item) {
	it.status = "ok"
	g.items = append(g.items, it)
}

func (g *gen) failItem(it *item, reason string) {
	it.status = "unsupported"
	it.reason = reason
	it.text = ""
	g.items = append(g.items, it)
}

// protect runs f; an unsupported construct inside becomes the item's status.
func (g *gen) protect(it *item, f func()) {
	defer func() {
		if r := recover(); r != nil {
			switch x := r.(type) {
			case unsup:
				g.failItem(it, x.msg)
			case needPartial:
				panic(r)
			default:
				g.failItem(it, fmt.Sprintf("internal error of the translator: %v", r))
			}
		}
	}()
	f()
	g.finish(it)
}

// use returns the item of key, failing the current translation when it is
// unsupported or still in progress (a dependency cycle).
func (g *gen) use(it *item) *item {
	switch it.status {
	case "":
		g.fail("recursion through %s is not supported", it.label)
	case "unsupported":
		g.fail("depends on %s which is unsupported: %s", it.label, it.reason)
	}
	return it
}

func pkgBase(path string) string {
	if i := strings.LastIndex(path, "/"); i >= 0 {
		path = path[i+1:]
	}
	return path
}

// parseFuncSpec splits "(*T).m" / "T.m" / "f" into receiver type name and name.
func parseFuncSpec(s string) (recv string, ptr bool, name string) {
	s = strings.TrimSpace(s)
	if strings.HasPrefix(s, "(") {
		i := strings.Index(s, ")")
		if i < 0 {
			return "", false, s
		}
		recv = s[1:i]
		name = strings.TrimPrefix(s[i+1:], ".")
		if strings.HasPrefix(recv, "*") {
			ptr = true
			recv = recv[1:]
		}
		return
	}
	if i := strings.Index(s, "."); i >= 0 {
		return s[:i], false, s[i+1:]
	}
	return "", false, s
}

// findFunc resolves a table row to a declaration (or an interface method).
func (g *gen) findFunc(t *Target) (*funcDecl, *types.Func, string) {
	path := expandPkg(t.Pkg)
	p := g.L.pkgs[path]
	if p == nil || p.Types == nil {
		return nil, nil, "package " + path + " is not loaded"
	}
	g.L.scan(path)
	recv, _, name := parseFuncSpec(t.Func)
	if recv == "" {
		obj, _ := p.Types.Scope().Lookup(name).(*types.Func)
		if obj == nil {
			return nil, nil, "function " + name + " not found in " + path
		}
		return g.L.funcs[obj.FullName()], obj, ""
	}
	tn, _ := p.Types.Scope().Lookup(recv).(*types.TypeName)
	if tn == nil {
		return nil, nil, "type " + recv + " not found in " + path
	}
	if iface, ok := tn.Type().Underlying().(*types.Interface); ok {
		for i := 0; i < iface.NumMethods(); i++ {
			if m := iface.Method(i); m.Name() == name {
				return nil, m, ""
			}
		}
		return nil, nil, "interface " + recv + " has no method " + name
	}
	named, ok := types.Unalias(tn.Type()).(*types.Named)
	if !ok {
		return nil, nil, recv + " is not a named type"
	}
	for i := 0; i < named.NumMethods(); i++ {
		if m := named.Method(i); m.Name() == name {
			m = m.Origin()
			return g.L.funcs[m.FullName()], m, ""
		}
	}
	return nil, nil, "method " + name + " of " + recv + " not found in " + path
}

func runGoLiteProp(L *loader, prop string, table []Target) *gen {
	g := &gen{prop: prop, L: L, table: table, byKey: map[string]*Target{}, types: map[string]*Target{},
		byItem: map[string]*item{}, names: map[string]string{}}
	type row struct {
		t   *Target
		fd  *funcDecl
		obj *types.Func
		err string
	}
	var rows []row
	for i := range table {
		t := &table[i]
		if t.Type != "" {
			g.types[expandPkg(t.Pkg)+"."+t.Type] = t
			continue
		}
		if L.loadErr != "" {
			rows = append(rows, row{t: t, err: L.loadErr})
			continue
		}
		fd, obj, e := g.findFunc(t)
		if e == "" {
			g.byKey[obj.FullName()] = t
		}
		rows = append(rows, row{t, fd, obj, e})
	}
	for _, r := range rows {
		label := pkgBase(expandPkg(r.t.Pkg)) + "." + r.t.Func
		if r.err != "" {
			it := &item{kind: "func", key: "row:" + label, label: label, target: true}
			g.failItem(it, r.err)
			continue
		}
		g.translateRow(r.t, r.fd, r.obj, label)
	}
	return g
}

// translateRow translates a table row: every requested instance of the function.
func (g *gen) translateRow(t *Target, fd *funcDecl, obj *types.Func, label string) {
	sig := obj.Type().(*types.Signature)
	generic := sig.TypeParams().Len() > 0 || sig.RecvTypeParams().Len() > 0
	if t.Oracle && len(t.OutParams) > 0 {
		for i := 0; i < sig.Params().Len(); i++ {
			if g.kind(sig.Params().At(i).Type(), nil) == kAny {
				return // instantiated per call site (static type of the `any` argument)
			}
		}
	}
	// an InstantiateAny row is instantiated per call site; its plain form (the parameter as an `any`
	// value) is translated too when that is possible, silently otherwise
	if generic && !t.Oracle {
		if len(t.TypeArgs) == 0 {
			// instances are produced on demand by the callers; the log line is
			// printed for the instances that exist at the end
			return
		}
		var targs []types.Type
		for _, a := range t.TypeArgs {
			switch a {
			case "string":
				targs = append(targs, types.Typ[types.String])
			case "int":
				targs = append(targs, types.Typ[types.Int])
			case "bool":
				targs = append(targs, types.Typ[types.Bool])
			default:
				it := &item{kind: "func", key: "row:" + label, label: label, target: true}
				g.failItem(it, "TypeArgs: unknown type "+a)
				return
			}
		}
		func() {
			defer func() {
				if r := recover(); r != nil {
					if _, ok := r.(unsup); !ok {
						panic(r)
					}
				}
			}()
			g.funcInstance(obj, targs)
		}()
		return
	}
	func() {
		defer func() {
			if r := recover(); r != nil {
				if _, ok := r.(unsup); !ok {
					panic(r)
				}
			}
		}()
		g.funcInstance(obj, nil)
	}()
}

// ---------- output ----------

func (g *gen) render() string {
	var b strings.Builder
	fmt.Fprintf(&b, "(* GENERATED by `vh-gen` (GoLite, docs/GOLITE.md) from the Go sources of /repo on every run.\n")
	fmt.Fprintf(&b, "   Property %s: Gallina translations of the function bodies listed in\n   harness/cmd/vh-gen/targets_%s.go. Do not edit: the theorems of props/%s_Generated.v are\n   re-checked against what the source says now. *)\n", g.prop, strings.ToLower(g.prop), g.prop)
	b.WriteString("From Coq Require Import List Bool String Ascii NArith ZArith.\n")
	b.WriteString("From NV Require Import Base Regex Generated GoLib.\n")
	b.WriteString("Import ListNotations.\nLocal Open Scope string_scope.\nLocal Open Scope list_scope.\nLocal Open Scope Z_scope.\nLocal Open Scope bool_scope.\n\n")
	hasVar := false
	for _, it := range g.items {
		if it.kind == "oracle" && it.status == "ok" {
			hasVar = true
		}
	}
	if hasVar {
		fmt.Fprintf(&b, "Section %s_Gen.\n\n", g.prop)
	}
	for _, it := range g.items {
		if it.status == "ok" {
			b.WriteString(it.text)
			if !strings.HasSuffix(it.text, "\n") {
				b.WriteString("\n")
			}
			b.WriteString("\n")
		} else if !it.silent {
			fmt.Fprintf(&b, "(* GOLITE-UNSUPPORTED %s: %s *)\n\n", cmt(it.label), cmt(it.reason))
		}
	}
	if hasVar {
		fmt.Fprintf(&b, "End %s_Gen.\n", g.prop)
	}
	if len(g.notes) > 0 {
		b.WriteString("\n(* Assumptions made by the translation of this file:\n")
		seen := map[string]bool{}
		for _, n := range g.notes {
			if !seen[n] {
				seen[n] = true
				b.WriteString("   - " + cmt(n) + "\n")
			}
		}
		b.WriteString("*)\n")
	}
	return b.String()
}

func (g *gen) note(s string) { g.notes = append(g.notes, s) }

// cmt makes a text safe inside a Coq comment.
func cmt(s string) string {
	return strings.NewReplacer("(*", "( *", "*)", "* )", "\"", "'").Replace(s)
}

func (g *gen) logLines() []string {
	var out []string
	for _, it := range g.items {
		if it.kind != "func" && it.kind != "oracle" {
			continue
		}
		if !it.target {
			continue
		}
		if it.status == "ok" {
			out = append(out, "golite: ok "+it.label+" ["+g.prop+"]")
		} else if !it.silent {
			out = append(out, "golite: unsupported "+it.label+" ["+g.prop+"]: "+it.reason)
		}
	}
	return out
}

// runGoLite is called by vh-gen after Generated.v has been written. It never
// fails the run: whatever goes wrong becomes an unsupported target.
func runGoLite(repo, out string) map[string]*gen {
	props := append([]string{}, goliteProps...)
	sort.Strings(props)
	pathSet := map[string]bool{}
	for _, p := range props {
		for _, t := range goliteTables[p] {
			pathSet[expandPkg(t.Pkg)] = true
		}
	}
	var paths []string
	for p := range pathSet {
		paths = append(paths, p)
	}
	sort.Strings(paths)
	gens := map[string]*gen{}
	if len(paths) == 0 {
		return gens
	}
	var L *loader
	func() {
		defer func() {
			if r := recover(); r != nil {
				L = &loader{repo: repo, pkgs: map[string]*packages.Package{}, loadErr: fmt.Sprintf("loading the packages failed: %v", r)}
			}
		}()
		L = goliteLoad(repo, paths)
	}()
	for _, p := range props {
		var g *gen
		func() {
			defer func() {
				if r := recover(); r != nil {
					g = &gen{prop: p}
					for _, t := range goliteTables[p] {
						if t.Type != "" {
							continue
						}
						label := pkgBase(expandPkg(t.Pkg)) + "." + t.Func
						g.items = append(g.items, &item{kind: "func", label: label, target: true, status: "unsupported", reason: fmt.Sprintf("internal error of the translator: %v", r)})
					}
				}
			}()
			g = runGoLiteProp(L, p, append([]Target{}, goliteTables[p]...))
		}()
		gens[p] = g
		for _, l := range g.logLines() {
			fmt.Println(l)
		}
		if out != "" {
			if err := os.WriteFile(filepath.Join(out, p+"_Gen.v"), []byte(g.render()), 0o644); err != nil {
				fmt.Println("golite: cannot write", p+"_Gen.v:", err)
			}
		}
	}
	return gens
}

var reservedCoq = map[string]bool{}

func init() {
	for _, w := range strings.Fields(`as at cofix else end exists exists2 fix for forall fun if IF in let match mod Prop return Set then Type using where with
		Definition Fixpoint Lemma Theorem Record Inductive Section End Variable Import Export Require From Local Open Scope
		list nil cons app length map filter fold_left fold_right rev nth nth_error seq repeat existsb forallb find combine flat_map skipn firstn hd tl In
		option Some None bool true false negb andb orb xorb unit tt pair fst snd prod sum inl inr nat O S Z N positive
		string String EmptyString append concat get substring prefix index ascii Ascii
		eq refl eq_refl and or not True False I conj ex sig
		err Err err_typ err_fmt err_wrapped olist is_none is_some obind ptr PNil PGlob PNew ptr_val ptr_is_nil ptr_eqb_glob
		map_get map_has map_get_ok map_get_or map_del map_set map_entries map_len map_unique
		list_len list_get zrange_up zrange_down str_len take drop str_cut str_cut_opt str_index str_last_index str_contains
		str_has_prefix str_has_suffix str_trim_prefix str_trim_suffix str_cut_prefix str_cut_suffix str_contains_any str_split str_join
		ptr_map iface_assert bytes_of_str str_of_bytes list_slice list_set onil err_find walk_dir walk_node walk_tree WNode inl inr sum ptr_deep_eqb list_deep_eqb map_deep_eqb err_dyn_in filepath_base strip_trailing_slashes take_until_slash err_has_typ err_same err_is err_as err_join anyv ANil AStr AInt ABool AOther AUncmp any_is_nil any_str any_int any_bool any_str_opt any_int_opt any_bool_opt anyv_eqb anyv_cmp_panics anyv_eq_opt str_slice str_get str_trim_space filepath_ext ext_rev re_match matches re time_zero time_is_zero time_after time_before time_equal
		B bytes str_eqb has_prefix cut_byte contains_byte amap lookup lookup_default remove_key set_key mem_str opt_eqb list_eqb run_cases
		RNone REps RBegin REnd RChar RClass RSeq RAlt RStar RPlus ROpt id plus minus mult le lt ge gt max min`) {
		reservedCoq[w] = true
	}
}
