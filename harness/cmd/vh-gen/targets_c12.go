package main

// C12: GoLite targets (docs/GOLITE_NOTES.md). Theorems: coq/props/C12_Generated.v
// (proofs in coq/theories/C12_GenProofs.v), table in docs/audit/C12.md section "GoLite".
//
// C12 is "no input crashes the library". A function the translator emits as a PURE Gallina function
// contains no construct that can panic (index, slice expression, nil dereference, division, panic());
// a function emitted in the option monad has one, `None` is the run-time panic, and the theorems say
// exactly when it is reached (`_total`, `_panics_iff`).
func init() {
	const v = ".../verifier"
	const tp = ".../verifier/trustpolicy"
	Register("C12", []Target{
		// ---- notation.VerifyBlob / Sign*: the two media type guards (model: b_stype_bad, b_ctype_bad)
		{Pkg: "...", Func: "validateSigMediaType"},
		{Pkg: "mime", Func: "ParseMediaType", Oracle: true},
		{Pkg: "...", Func: "validateContentMediaType"},

		// ---- verifier: the steps of processSignature that index or dereference
		{Pkg: v, Func: "isCriticalFailure"}, // model: crit
		{Pkg: v, Func: "verifyUserMetadata"},
		{Pkg: "crypto/x509", Type: "Certificate", Opaque: true, Views: map[string]string{"Subject.String()": "string"}},
		// fix d78db00: the shape test that protects certChain[i] / certResults[i] of revocationFinalResult
		{Pkg: v, Func: "checkRevocationResults"},
		{Pkg: v, Func: "revocationFinalResult"},
		// certs[0] (verifier/verifier.go:1020)
		{Pkg: ".../internal/slices", Func: "Contains"},
		{Pkg: ".../internal/pkix", Func: "ParseDistinguishedName", Oracle: true},
		{Pkg: ".../internal/pkix", Func: "IsSubsetDN"},
		{Pkg: v, Func: "verifyX509TrustedIdentities"},
		// outcome.EnvelopeContent / outcome.VerificationLevel dereferenced without a guard: the level pointer is
		// nil when GetVerificationLevel failed and its error was ignored (model: SelBadLevel => OPanic)
		{Pkg: "time", Func: "Now", Oracle: true},
		{Pkg: "time", Func: "Time.Format", Oracle: true},
		{Pkg: v, Func: "verifyExpiry"},

		// ---- policy selection on an arbitrary (also never validated, also nil) document: artifactReference[:i],
		// policyDoc.TrustPolicies on the nil document the guards of SkipVerify / Verify / VerifyBlob keep away
		// (fix 87f7f59; model: skip_verify_v0)
		{Pkg: tp, Func: "validateRegistryScopeFormat"},
		{Pkg: tp, Func: "getArtifactPathFromReference"},
		{Pkg: tp, Func: "SignatureVerification.clone", NilIsEmpty: true},
		{Pkg: tp, Func: "(*OCITrustPolicy).clone"},
		{Pkg: tp, Func: "(*BlobTrustPolicy).clone"},
		{Pkg: tp, Func: "(*OCIDocument).GetApplicableTrustPolicy", NilableRecv: true},
		{Pkg: tp, Func: "(*BlobDocument).GetApplicableTrustPolicy", NilableRecv: true},
		{Pkg: tp, Func: "(*BlobDocument).GetGlobalTrustPolicy", NilableRecv: true},
		{Pkg: tp, Func: "(*SignatureVerification).GetVerificationLevel"},

		// ---- signingkeys.json: *config.Default, key.Name (seed C12-5 put a promoted field of a nil embedded
		// pointer here)
		{Pkg: ".../internal/container", Func: "NewWithSize"},
		{Pkg: ".../internal/container", Func: "Set.Add"},
		{Pkg: ".../internal/container", Func: "Set.Contains"},
		{Pkg: ".../config", Func: "validateKeys"},

		// ---- CRL file cache: the decision after decoding
		{Pkg: ".../verifier/crl", Func: "checkExpiry"},

		// ---- Refused by the translator; kept because the reason documents what stays outside (the API-boundary
		// guards themselves; docs/audit/C12.md section GoLite lists construct and file:line):
		// `blobVerifier == nil`, `blobReader == nil` on interface values (notation.go:442, 445)
		{Pkg: "...", Func: "VerifyBlob"},
		// closure handed to repo.ListSignatures (notation.go:541); `verifier == nil`, `repo == nil` (:484, :487),
		// verifier.(verifySkipper) (:501)
		{Pkg: "...", Func: "Verify"},
		// `signer any` (notation.go:247)
		{Pkg: "...", Func: "validateSignArguments"},
		// json.Unmarshal(.., &payload) (notation.go:336)
		{Pkg: "...", Func: "(*VerificationOutcome).UserMetadata"},
		// `trustStore == nil` on an interface value (verifier/verifier.go:150)
		{Pkg: v, Func: "NewVerifierWithOptions"},
		// err.Error() (verifier/verifier.go:249), reflect.DeepEqual(any, any) (:256)
		{Pkg: v, Func: "(*verifier).SkipVerify"},
		// outcome escapes into processSignature and is written afterwards (verifier/verifier.go:379/382, 296/298)
		{Pkg: v, Func: "(*verifier).Verify"},
		{Pkg: v, Func: "(*verifier).VerifyBlob"},
		// &outcome.EnvelopeContent.SignerInfo (verifier/verifier.go:652), attr.Key of type any, stores through
		// pointers found in outcome.VerificationResults (:686) and through the parameter outcome (:707)
		{Pkg: v, Func: "extractCriticalStringExtendedAttribute", Oracle: true}, // attr.Value.(string), helpers.go:101
		{Pkg: v, Func: "getVerificationPlugin"},
		{Pkg: v, Func: "processPluginResponse"},
		// multi-method interface pluginframework.VerifyPlugin, attr.Key.(string) (verifier/verifier.go:926, 938)
		{Pkg: v, Func: "executePlugin"},
		// the size caps: `var fetcher content.Fetcher = c.GraphTarget` (registry/repository.go:171, 131),
		// c.GraphTarget.(registry.Repository), json.Unmarshal; content.ReadOnlyGraphStorage (:244).
		// The caps stay tied by Generated.v (C12_caps_generated) and the `registry` correspondence family.
		{Pkg: ".../registry", Func: "(*repositoryClient).getSignatureBlobDesc"},
		{Pkg: ".../registry", Func: "(*repositoryClient).FetchSignatureBlob"},
		{Pkg: ".../registry", Func: "signatureReferrers"},
		// s.Keys[idx] behind slices.IndexIsser: method call through a type parameter's constraint
		// (internal/slices/slices.go:50)
		{Pkg: ".../internal/slices", Func: "IndexIsser"},
		{Pkg: ".../config", Func: "(*SigningKeys).Get"},
	})
}
