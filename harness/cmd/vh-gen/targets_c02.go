package main

// C02: GoLite targets (docs/GOLITE_NOTES.md).
func init() {
	Register("C02", []Target{
		{Pkg: ".../verifier", Func: "isCriticalFailure", NonNil: true},
	})
}
