package main

// C02: GoLite targets (docs/GOLITE_NOTES.md). Theorems: coq/props/C02_Generated.v
// (proofs in coq/theories/C02_GenProofs.v), table in docs/audit/C02.md section "GoLite".
func init() {
	const v = ".../verifier"
	const tp = ".../verifier/trustpolicy"
	const fw = "github.com/notaryproject/notation-plugin-framework-go/plugin"
	const sig = "github.com/notaryproject/notation-core-go/signature"
	Register("C02", []Target{
		{Pkg: v, Func: "isCriticalFailure", NonNil: true},
		// the level tables and the override logic
		{Pkg: tp, Func: "(*SignatureVerification).GetVerificationLevel"},
		// version gate
		{Pkg: "golang.org/x/mod/semver", Func: "Compare", Oracle: true},
		{Pkg: v, Func: "isRequiredVerificationPluginVer"},
		{Pkg: ".../internal/semver", Func: "IsValid"},
		// revocation answer shape
		{Pkg: "crypto/x509", Type: "Certificate", Opaque: true, Views: map[string]string{"Subject.String()": "string", "Raw": "list Z"}},
		{Pkg: v, Func: "checkRevocationResults"},
		{Pkg: v, Func: "revocationFinalResult"},
		// extended attributes
		{Pkg: ".../internal/slices", Func: "Contains"},
		{Pkg: ".../internal/slices", Func: "ContainsAny"},
		{Pkg: sig, Func: "(*SignerInfo).ExtendedAttribute"},
		{Pkg: v, Func: "extractCriticalStringExtendedAttribute", NonNil: true},
		{Pkg: v, Func: "getVerificationPlugin", NonNil: true},
		{Pkg: v, Func: "getVerificationPluginMinVersion", NonNil: true},
		{Pkg: v, Func: "getNonPluginExtendedCriticalAttributes", NonNil: true},
		// plugin answer
		{Pkg: fw, Type: "VerifyPlugin", Opaque: true, Nilable: true},
		{Pkg: "github.com/notaryproject/notation-core-go/revocation", Type: "Validator", Nilable: true},
		{Pkg: "github.com/notaryproject/notation-core-go/revocation", Type: "Revocation", Nilable: true},
		{Pkg: fw, Func: "VerifyPlugin.GetMetadata", Oracle: true},
		{Pkg: fw, Type: "Plugin", Opaque: true},
		{Pkg: ".../plugin", Type: "Manager", Opaque: true, Nilable: true},
		{Pkg: ".../plugin", Func: "Manager.Get", Oracle: true, AnyReceiver: true},
		// the plugin request and the nil answer (the plugin itself is the oracle VerifySignature)
		{Pkg: fw, Func: "VerifyPlugin.VerifySignature", Oracle: true, AnyReceiver: true},
		{Pkg: v, Func: "executePlugin"},
		{Pkg: v, Func: "verifyIntegrity", Oracle: true},
		{Pkg: v, Func: "loadX509TrustStores", Oracle: true},
		{Pkg: v, Func: "verifyAuthenticity", Oracle: true, FreshResults: true},
		{Pkg: v, Func: "verifyX509TrustedIdentities", Oracle: true},
		{Pkg: v, Func: "verifyExpiry", Oracle: true},
		{Pkg: v, Func: "verifyAuthenticTimestamp", Oracle: true},
		// native revocation validation: the validator is a (nilable) function field of the verifier
		{Pkg: sig, Func: "(*SignerInfo).AuthenticSigningTime", Oracle: true},
		{Pkg: v, Func: "(*verifier).verifyRevocation"},
		{Pkg: v, Func: "logVerificationResult", NonNil: true},
		// processPluginResponse finds the authenticity result in outcome.VerificationResults and writes its Error through
		// that pointer (verifier/verifier.go:680-687): refused as a real target ("write through a pointer that was not
		// created in this function"), hence an oracle of processSignature that takes and returns the outcome.
		{Pkg: v, Func: "processPluginResponse", Oracle: true, OutParams: []string{"outcome"}},
		// THE function: every call that leaves it is one of the oracle rows above (verifyIntegrity ..
		// verifyAuthenticTimestamp are owned by C03 C04 C06). authenticityResult.Error = err (:513) after the pointer was
		// appended to outcome.VerificationResults (:501) is translated by the "element link" (list_set at the index of the append).
		{Pkg: v, Func: "(*verifier).processSignature", NonNil: true},
	})
}
