package main

// C14: GoLite targets (docs/GOLITE_NOTES.md). Theorems: coq/props/C14_Generated.v (proofs in
// coq/theories/C14_GenProofs.v; the writer as a program over an explicit world and its relation to the
// directory semantics: coq/theories/C14_Writer.v). Table: docs/audit/C14.md, section "GoLite".
//
// The five os calls of internal/file.WriteFile are EFFECT oracles: the translator threads an abstract
// `world` through them in Go's evaluation order, so that the ORDER of the file-system steps (create temp in
// the cache dir, write, close, rename over the key; Close + Remove(temp) after the first failure) is a
// statement about the generated term. (*os.File).Name is pure; the verif-tag hook calls are dropped.
//
// The order of the rows fixes the order of the Section variables, hence of the leading arguments of the
// generated functions the theorems name: append new rows at the end of their group only after checking.
func init() {
	Register("C14", []Target{
		// the key of a URL
		{Pkg: "crypto/sha256", Func: "Sum256", Oracle: true},
		{Pkg: "encoding/hex", Func: "EncodeToString", Oracle: true},
		{Pkg: ".../verifier/crl", Func: "(*FileCache).fileName"},
		// the writer
		{Pkg: "os", Type: "File", Opaque: true},
		{Pkg: "os", Func: "CreateTemp", Oracle: true, Effect: true},
		{Pkg: "os", Func: "(*File).Write", Oracle: true, Effect: true},
		{Pkg: "os", Func: "(*File).Close", Oracle: true, Effect: true},
		{Pkg: "os", Func: "(*File).Name", Oracle: true},
		{Pkg: "os", Func: "Rename", Oracle: true, Effect: true},
		{Pkg: "os", Func: "Remove", Oracle: true, Effect: true},
		{Pkg: ".../internal/file", Func: "verifHook", Oracle: true, Drop: true},
		{Pkg: ".../internal/file", Func: "WriteFile"},
		// the names of temporary files: how the Go standard library (of the pinned toolchain) splits the
		// pattern of os.CreateTemp. os.CreateTemp itself is a `for {}` loop around a random number: not a target
		{Pkg: "os", Func: "IsPathSeparator"},
		{Pkg: "internal/bytealg", Func: "LastIndexByteString"},
		{Pkg: "os", Func: "prefixAndSuffix"},
		// Set and Get. os.ReadFile stays a pure oracle (it is the only call Get makes to the file system).
		// NilIsEmpty on Get: crl.go:104 `content.DeltaCRL != nil` is read as len != 0, which differs from Go
		// on `"deltaCRL":""`; the C14 theorems concern the part of Get before the decoding and do not depend
		// on it (the decoding is C15's).
		{Pkg: "path/filepath", Func: "Join", Oracle: true},
		{Pkg: "os", Func: "ReadFile", Oracle: true},
		{Pkg: "encoding/json", Func: "Marshal", Oracle: true},
		{Pkg: "encoding/json", Func: "Unmarshal", Oracle: true, OutParams: []string{"v"}},
		{Pkg: "crypto/x509", Func: "ParseRevocationList", Oracle: true},
		{Pkg: "time", Func: "Now", Oracle: true},
		{Pkg: ".../verifier/crl", Func: "checkExpiry"},
		{Pkg: ".../verifier/crl", Func: "(*FileCache).Set"},
		{Pkg: ".../verifier/crl", Func: "(*FileCache).Get", NilIsEmpty: true},
	})
}
