package main

// C14: GoLite targets (docs/GOLITE_NOTES.md). Theorems: coq/props/C14_Generated.v.
func init() {
	Register("C14", []Target{
		{Pkg: "crypto/sha256", Func: "Sum256", Oracle: true},
		{Pkg: "encoding/hex", Func: "EncodeToString", Oracle: true},
		{Pkg: ".../verifier/crl", Func: "(*FileCache).fileName"},
		{Pkg: "os", Type: "File", Opaque: true},
		{Pkg: "os", Func: "CreateTemp", Oracle: true, Effect: true},
		{Pkg: "os", Func: "(*File).Write", Oracle: true, Effect: true},
		{Pkg: "os", Func: "(*File).Close", Oracle: true, Effect: true},
		{Pkg: "os", Func: "(*File).Name", Oracle: true},
		{Pkg: "os", Func: "Rename", Oracle: true, Effect: true},
		{Pkg: "os", Func: "Remove", Oracle: true, Effect: true},
		{Pkg: ".../internal/file", Func: "verifHook", Oracle: true, Drop: true},
		{Pkg: ".../internal/file", Func: "WriteFile"},
		{Pkg: "os", Func: "IsPathSeparator"},
		{Pkg: "internal/bytealg", Func: "LastIndexByteString"},
		{Pkg: "os", Func: "prefixAndSuffix"},
		{Pkg: "path/filepath", Func: "Join", Oracle: true},
		{Pkg: "os", Func: "ReadFile", Oracle: true},
		{Pkg: "encoding/json", Func: "Marshal", Oracle: true},
		{Pkg: "encoding/json", Func: "Unmarshal", Oracle: true, OutParams: []string{"v"}},
		{Pkg: "crypto/x509", Func: "ParseRevocationList", Oracle: true},
		{Pkg: "time", Func: "Now", Oracle: true},
		{Pkg: ".../verifier/crl", Func: "checkExpiry"},
		{Pkg: ".../verifier/crl", Func: "(*FileCache).Set"},
		{Pkg: ".../verifier/crl", Func: "(*FileCache).Get", NilIsEmpty: true},
	})
}
