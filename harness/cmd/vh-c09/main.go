package main

// C09 driver: feeds trust policy documents of both kinds to the real
// (*OCIDocument).Validate / (*BlobDocument).Validate (as Go structs and decoded
// from JSON text written with literal field names), to
// verifier.NewVerifierWithOptions (and, in the constructors family, to the same
// with a nil trust store and to the deprecated verifier.New /
// verifier.NewWithOptions) and, for accepted documents, to
// SignatureVerification.GetVerificationLevel of every statement; prints
// (input, observation) cases for C09_Model.

import (
	"encoding/json"
	"fmt"
	"reflect"
	"sort"
	"strings"
	. "vh/kit"

	"github.com/notaryproject/notation-go/verifier"
	"github.com/notaryproject/notation-go/verifier/trustpolicy"
)

func main() { Main("c09", runC09) }

// ---------- documents as the harness sees them ----------

type hSV struct {
	Level string      `json:"level"`
	Ov    [][2]string `json:"override"` // unique keys, in generation order
	TS    string      `json:"verifyTimestamp"`
}

type hStmt struct {
	Name   string   `json:"name"`
	SV     hSV      `json:"sv"`
	Stores []string `json:"stores"`
	Ids    []string `json:"ids"`
	Scopes []string `json:"scopes"`
	Global bool     `json:"global"`
}

type hDoc struct {
	Version string  `json:"version"`
	Stmts   []hStmt `json:"stmts"`
}

func (d *hDoc) clone() *hDoc {
	if d == nil {
		return nil
	}
	b, _ := json.Marshal(d)
	var c hDoc
	json.Unmarshal(b, &c)
	return &c
}

// normalise drops the field the kind does not have.
func normalise(kind string, d *hDoc) {
	if d == nil {
		return
	}
	for i := range d.Stmts {
		if kind == "oci" {
			d.Stmts[i].Global = false
		} else {
			d.Stmts[i].Scopes = nil
		}
	}
}

func toSV(s hSV) trustpolicy.SignatureVerification {
	sv := trustpolicy.SignatureVerification{VerificationLevel: s.Level, VerifyTimestamp: trustpolicy.TimestampOption(s.TS)}
	if len(s.Ov) > 0 {
		sv.Override = map[trustpolicy.ValidationType]trustpolicy.ValidationAction{}
		for _, kv := range s.Ov {
			sv.Override[trustpolicy.ValidationType(kv[0])] = trustpolicy.ValidationAction(kv[1])
		}
	}
	return sv
}

func cp(xs []string) []string {
	if xs == nil {
		return nil
	}
	return append([]string{}, xs...)
}

func toOCI(d *hDoc) *trustpolicy.OCIDocument {
	if d == nil {
		return nil
	}
	o := &trustpolicy.OCIDocument{Version: d.Version}
	for _, s := range d.Stmts {
		o.TrustPolicies = append(o.TrustPolicies, trustpolicy.OCITrustPolicy{Name: s.Name, SignatureVerification: toSV(s.SV),
			TrustStores: cp(s.Stores), TrustedIdentities: cp(s.Ids), RegistryScopes: cp(s.Scopes)})
	}
	return o
}

func toBlob(d *hDoc) *trustpolicy.BlobDocument {
	if d == nil {
		return nil
	}
	o := &trustpolicy.BlobDocument{Version: d.Version}
	for _, s := range d.Stmts {
		o.TrustPolicies = append(o.TrustPolicies, trustpolicy.BlobTrustPolicy{Name: s.Name, SignatureVerification: toSV(s.SV),
			TrustStores: cp(s.Stores), TrustedIdentities: cp(s.Ids), GlobalPolicy: s.Global})
	}
	return o
}

// jsonText writes the document as JSON with the field names of the trust
// policy specification spelled out here (not taken from the struct tags).
// Empty optional members are omitted, written empty or null at random.
func jsonText(kind string, d *hDoc, rng *Rng) []byte {
	if d == nil {
		return []byte("null")
	}
	list := func(m map[string]any, key string, xs []string) {
		if len(xs) == 0 {
			switch rng.Intn(3) {
			case 0:
				return
			case 1:
				m[key] = []string{}
			default:
				m[key] = nil
			}
			return
		}
		m[key] = xs
	}
	var stmts []any
	for _, s := range d.Stmts {
		sv := map[string]any{"level": s.SV.Level}
		if len(s.SV.Ov) > 0 {
			ov := map[string]string{}
			for _, kv := range s.SV.Ov {
				ov[kv[0]] = kv[1]
			}
			sv["override"] = ov
		} else if rng.Chance(1, 4) {
			sv["override"] = map[string]string{}
		}
		if s.SV.TS != "" || rng.Chance(1, 4) {
			sv["verifyTimestamp"] = s.SV.TS
		}
		m := map[string]any{"name": s.Name, "signatureVerification": sv}
		list(m, "trustStores", s.Stores)
		list(m, "trustedIdentities", s.Ids)
		if kind == "oci" {
			list(m, "registryScopes", s.Scopes)
		} else if s.Global || rng.Chance(1, 4) {
			m["globalPolicy"] = s.Global
		}
		stmts = append(stmts, m)
	}
	top := map[string]any{"version": d.Version}
	if len(stmts) > 0 || rng.Bool() {
		if stmts == nil {
			stmts = []any{}
		}
		top["trustPolicies"] = stmts
	}
	b, err := json.Marshal(top)
	if err != nil {
		panic(err)
	}
	if rng.Chance(1, 6) {
		// duplicate members: encoding/json keeps the last one, which is the real one
		b = append([]byte(`{"version":"0.9","trustPolicies":[],`), b[1:]...)
	}
	return b
}

// ---------- canonicalisation ----------

var c09Classes = []struct{ sub, class string }{
	{"trust policy document cannot be nil", "ENil"},
	{"trustStore cannot be nil", "EStoreNil"},
	{"both cannot be nil", "EBothNil"},
	{"has empty version", "EVersionEmpty"},
	{"uses unsupported version", "EVersionUnsupported"},
	{"can not have zero trust policy statements", "ENoStatements"},
	{"use the same name", "EDupName"},
	{"is missing a name", "ENameEmpty"},
	{"signature verification level is empty or missing", "ELevelEmpty"},
	{"invalid signature verification level", "ELevelUnknown"},
	{"can't be used to customize signature verification", "ESkipCustom"},
	{"in custom signature verification is not supported", "EOverride"},
	{"can not be overridden in custom signature verification", "EOverride"},
	{"can not be skipped in custom signature verification", "EOverride"},
	{"verifyTimestamp must be", "ETimestamp"},
	{"is set to skip signature verification but configured with", "ESkipWithStores"},
	{"is either missing trust stores or trusted identities", "EMissingStoresOrIds"},
	{"has malformed trust store value", "EStoreMalformed"},
	{"uses an unsupported trust store type", "EStoreType"},
	{"uses an unsupported trust store name", "EStoreName"},
	{"uses a wildcard trusted identity", "EIdWildcardMixed"},
	{"has an empty trusted identity", "EIdEmpty"},
	{"missing separator", "EIdNoSep"},
	{"without an identity value", "EIdNoValue"},
	{"with invalid identity value", "EIdDN"},
	{"has overlapping x509 trustedIdentities", "EIdOverlap"},
	{"has zero registry scopes", "EScopesZero"},
	{"uses wildcard registry scope", "EScopeWildcardMixed"},
	{"with wild card(s) is not valid", "EScopeWildcardIn"},
	{"is not valid, make sure it is a fully qualified repository", "EScopeInvalid"},
	{"is present in multiple oci trust policy statements", "EScopeDup"},
	{"have globalPolicy set to true", "EGlobalMulti"},
	{"global blob trust policy statement cannot have verification level set to skip", "EGlobalSkip"},
}

// classify maps an error to the rule that raised it. The texts are matched in
// the order of the table; the quoted parts of the messages come from the
// generator's pools, which contain none of these phrases.
func classify(err error) string {
	if err == nil {
		return "EOk"
	}
	msg := err.Error()
	for _, c := range c09Classes {
		if strings.Contains(msg, c.sub) {
			return c.class
		}
	}
	return "EOther"
}

var c09Types = []string{"integrity", "authenticity", "authenticTimestamp", "expiry", "revocation"}

func levelTerm(sv *trustpolicy.SignatureVerification) (string, string) {
	l, err := sv.GetVerificationLevel()
	if err != nil || l == nil {
		return "None", "error"
	}
	code := ""
	for _, t := range c09Types {
		a, ok := l.Enforcement[trustpolicy.ValidationType(t)]
		switch {
		case !ok:
			code += "-"
		case a == "enforce":
			code += "e"
		case a == "log":
			code += "l"
		case a == "skip":
			code += "s"
		default:
			code += "?"
		}
	}
	if len(l.Enforcement) > len(c09Types) {
		code += "+"
	}
	return CSome(CPair(cs(l.Name), cs(code))), l.Name + ":" + code
}

type c09Obs struct {
	Val    string   `json:"validate"`
	JSON   string   `json:"validate_json"`
	New    string   `json:"new_verifier"`
	Levels []string `json:"levels"`
	Panic  string   `json:"panic,omitempty"`
	Frame  string   `json:"frame,omitempty"` // caller-owned object the library changed
}

func guarded(f func() error) (cls string, panicked string) {
	defer func() {
		if r := recover(); r != nil {
			cls, panicked = "EOther", fmt.Sprint(r)
		}
	}()
	return classify(f()), ""
}

// history family: the struct route validates these instances, overwritten in place
var (
	useInst  bool
	instOCI  *trustpolicy.OCIDocument
	instBlob *trustpolicy.BlobDocument
)

// emptyNotNil turns nil slices and maps of a document into empty ones.
func emptyNotNilOCI(doc *trustpolicy.OCIDocument) {
	if doc == nil {
		return
	}
	if doc.TrustPolicies == nil {
		doc.TrustPolicies = []trustpolicy.OCITrustPolicy{}
	}
	for i := range doc.TrustPolicies {
		t := &doc.TrustPolicies[i]
		if t.TrustStores == nil {
			t.TrustStores = []string{}
		}
		if t.TrustedIdentities == nil {
			t.TrustedIdentities = []string{}
		}
		if t.RegistryScopes == nil {
			t.RegistryScopes = []string{}
		}
		if t.SignatureVerification.Override == nil {
			t.SignatureVerification.Override = map[trustpolicy.ValidationType]trustpolicy.ValidationAction{}
		}
	}
}

func emptyNotNilBlob(doc *trustpolicy.BlobDocument) {
	if doc == nil {
		return
	}
	if doc.TrustPolicies == nil {
		doc.TrustPolicies = []trustpolicy.BlobTrustPolicy{}
	}
	for i := range doc.TrustPolicies {
		t := &doc.TrustPolicies[i]
		if t.TrustStores == nil {
			t.TrustStores = []string{}
		}
		if t.TrustedIdentities == nil {
			t.TrustedIdentities = []string{}
		}
		if t.SignatureVerification.Override == nil {
			t.SignatureVerification.Override = map[trustpolicy.ValidationType]trustpolicy.ValidationAction{}
		}
	}
}

// ---------- frame check: the documents handed in are the caller's ----------

func cloneStrs(xs []string) []string {
	if xs == nil {
		return nil
	}
	return append([]string{}, xs...)
}

func cloneSV(sv trustpolicy.SignatureVerification) trustpolicy.SignatureVerification {
	c := sv
	if sv.Override != nil {
		c.Override = make(map[trustpolicy.ValidationType]trustpolicy.ValidationAction, len(sv.Override))
		for k, v := range sv.Override {
			c.Override[k] = v
		}
	}
	return c
}

func snapOCI(doc *trustpolicy.OCIDocument) *trustpolicy.OCIDocument {
	if doc == nil {
		return nil
	}
	c := &trustpolicy.OCIDocument{Version: doc.Version}
	if doc.TrustPolicies != nil {
		c.TrustPolicies = make([]trustpolicy.OCITrustPolicy, len(doc.TrustPolicies))
		for i, t := range doc.TrustPolicies {
			c.TrustPolicies[i] = trustpolicy.OCITrustPolicy{Name: t.Name, SignatureVerification: cloneSV(t.SignatureVerification),
				TrustStores: cloneStrs(t.TrustStores), TrustedIdentities: cloneStrs(t.TrustedIdentities), RegistryScopes: cloneStrs(t.RegistryScopes)}
		}
	}
	return c
}

func snapBlob(doc *trustpolicy.BlobDocument) *trustpolicy.BlobDocument {
	if doc == nil {
		return nil
	}
	c := &trustpolicy.BlobDocument{Version: doc.Version}
	if doc.TrustPolicies != nil {
		c.TrustPolicies = make([]trustpolicy.BlobTrustPolicy, len(doc.TrustPolicies))
		for i, t := range doc.TrustPolicies {
			c.TrustPolicies[i] = trustpolicy.BlobTrustPolicy{Name: t.Name, SignatureVerification: cloneSV(t.SignatureVerification),
				TrustStores: cloneStrs(t.TrustStores), TrustedIdentities: cloneStrs(t.TrustedIdentities), GlobalPolicy: t.GlobalPolicy}
		}
	}
	return c
}

// history family: when set, the struct built by the previous step (same
// content) is handed in again instead of a fresh equal one
var reuseInst bool

// constructors family: which constructor of the verifier package builds the
// verifier ("" = NewVerifierWithOptions with a trust store, "nilstore" =
// NewVerifierWithOptions(nil, ..), "new" = the deprecated New, "withoptions" =
// the deprecated NewWithOptions with ctorDecoy left in opts.OCITrustPolicy)
var (
	ctorKind  string
	ctorDecoy *hDoc
)

func ctorTerm() string {
	switch ctorKind {
	case "nilstore":
		return "CtorNilStore"
	case "new":
		return "CtorNew"
	case "withoptions":
		return "(CtorWithOptions " + docTerm(ctorDecoy) + ")"
	}
	return "CtorOptions"
}

func observe(kind string, d, other *hDoc, jsonRng *Rng) (c09Obs, string, []byte) {
	var o c09Obs
	frame := func(what string, same bool) {
		if !same && o.Frame == "" {
			o.Frame = what
		}
	}
	var ociArg *trustpolicy.OCIDocument
	var blobArg *trustpolicy.BlobDocument
	en := jsonRng.Chance(1, 3) // empty instead of nil on the struct route
	var lv []string
	note := func(p string) {
		if p != "" && o.Panic == "" {
			o.Panic = p
		}
	}
	var p string
	text := jsonText(kind, d, jsonRng)
	if kind == "oci" {
		doc := toOCI(d)
		if en {
			emptyNotNilOCI(doc)
		}
		if useInst && doc != nil {
			if !reuseInst {
				*instOCI = *doc
			}
			doc = instOCI
		}
		snap := snapOCI(doc)
		o.Val, p = guarded(func() error { return doc.Validate() })
		note(p)
		frame("OCIDocument after Validate", reflect.DeepEqual(snap, doc))
		if o.Val == "EOk" {
			for i := range doc.TrustPolicies {
				t, s := levelTerm(&doc.TrustPolicies[i].SignatureVerification)
				lv = append(lv, t)
				o.Levels = append(o.Levels, s)
			}
			frame("OCIDocument after GetVerificationLevel", reflect.DeepEqual(snap, doc))
		}
		if useInst {
			ociArg = doc
		}
		var jd trustpolicy.OCIDocument
		if err := json.Unmarshal(text, &jd); err != nil {
			o.JSON = "EOther"
		} else {
			o.JSON, p = guarded(func() error { return (&jd).Validate() })
			note(p)
		}
	} else {
		doc := toBlob(d)
		if en {
			emptyNotNilBlob(doc)
		}
		if useInst && doc != nil {
			if !reuseInst {
				*instBlob = *doc
			}
			doc = instBlob
		}
		snap := snapBlob(doc)
		o.Val, p = guarded(func() error { return doc.Validate() })
		note(p)
		frame("BlobDocument after Validate", reflect.DeepEqual(snap, doc))
		if o.Val == "EOk" {
			for i := range doc.TrustPolicies {
				t, s := levelTerm(&doc.TrustPolicies[i].SignatureVerification)
				lv = append(lv, t)
				o.Levels = append(o.Levels, s)
			}
			frame("BlobDocument after GetVerificationLevel", reflect.DeepEqual(snap, doc))
		}
		if useInst {
			blobArg = doc
		}
		var jd trustpolicy.BlobDocument
		if err := json.Unmarshal(text, &jd); err != nil {
			o.JSON = "EOther"
		} else {
			o.JSON, p = guarded(func() error { return (&jd).Validate() })
			note(p)
		}
	}
	// construction of a verifier (fresh structs; in the history family the
	// instance just validated)
	opts := verifier.VerifierOptions{}
	if kind == "oci" {
		opts.OCITrustPolicy, opts.BlobTrustPolicy = toOCI(d), toBlob(other)
	} else {
		opts.OCITrustPolicy, opts.BlobTrustPolicy = toOCI(other), toBlob(d)
	}
	if ociArg != nil {
		opts.OCITrustPolicy = ociArg
	}
	if blobArg != nil {
		opts.BlobTrustPolicy = blobArg
	}
	so, sb := snapOCI(opts.OCITrustPolicy), snapBlob(opts.BlobTrustPolicy)
	o.New, p = guarded(func() error {
		var err error
		switch ctorKind {
		case "nilstore":
			_, err = verifier.NewVerifierWithOptions(nil, opts)
		case "new":
			// New has no parameter for a blob document
			_, err = verifier.New(opts.OCITrustPolicy, NewMockStore(), nil)
		case "withoptions":
			// the OCI document is a parameter; the one left in the options must be ignored
			o2 := verifier.VerifierOptions{OCITrustPolicy: toOCI(ctorDecoy), BlobTrustPolicy: opts.BlobTrustPolicy}
			_, err = verifier.NewWithOptions(opts.OCITrustPolicy, NewMockStore(), nil, o2)
		default:
			_, err = verifier.NewVerifierWithOptions(NewMockStore(), opts)
		}
		return err
	})
	note(p)
	frame("OCIDocument after NewVerifierWithOptions", reflect.DeepEqual(so, opts.OCITrustPolicy))
	frame("BlobDocument after NewVerifierWithOptions", reflect.DeepEqual(sb, opts.BlobTrustPolicy))
	return o, CApp("mk_obs", o.Val, o.JSON, o.New, CList(lv)), text
}

// ---------- Gallina printing ----------

// short strings ("", "*", "1.0", names, actions ...) are printed as constants
// defined once in the prelude of the case files (the kit shares only longer
// literals): elaborating string literals dominates the Coq time.
var (
	shortNames = map[string]string{}
	shortOrder []string
)

func cs(s string) string {
	if len(s) > 6 {
		return CStr(s)
	}
	name, ok := shortNames[s]
	if !ok {
		name = fmt.Sprintf("z%d_", len(shortOrder))
		shortNames[s] = name
		shortOrder = append(shortOrder, s)
	}
	return name
}

func csList(xs []string) string {
	items := make([]string, len(xs))
	for i, x := range xs {
		items[i] = cs(x)
	}
	return CList(items)
}

func shortDefs() string {
	var b strings.Builder
	for i, x := range shortOrder {
		fmt.Fprintf(&b, "Definition z%d_ : string := %s%%string.\n", i, CStr(x))
	}
	return b.String()
}

func svTerm(s hSV) string {
	items := make([]string, len(s.Ov))
	for i, kv := range s.Ov {
		items[i] = CPair(cs(kv[0]), cs(kv[1]))
	}
	return CApp("mk_sv", cs(s.Level), CList(items), cs(s.TS))
}

func docTerm(d *hDoc) string {
	if d == nil {
		return "None"
	}
	items := make([]string, len(d.Stmts))
	for i, s := range d.Stmts {
		items[i] = CApp("mk_stmt", cs(s.Name), svTerm(s.SV), csList(s.Stores), csList(s.Ids), csList(s.Scopes), CBool(s.Global))
	}
	return CSome(CApp("mk_doc", cs(d.Version), CList(items)))
}

// ---------- pools ----------

var (
	pNames     = []string{"p0", "p1", "p2", "p3", "wabbit-networks-images", "Policy One", "skip-all", "\xcf\x80", " ", "\t", " p0", "P0", "p0 "}
	pLevels    = []string{"strict", "permissive", "audit"}
	pBadLevels = []string{"Strict", "custom", "skip ", "none", "enforce", "SKIP", "strict\n"}
	pTS        = []string{"", "", "always", "afterCertExpiry"}
	pBadTS     = []string{"Always", "never", "aftercertexpiry", " ", "always ", "afterCertExpiry,always"}
	pStoreTy   = []string{"ca", "signingAuthority", "tsa"}
	pStoreNm   = []string{"valid-ts", "store_1", "a", "A.b-c_d", "...", "-", "_", "0", ".a", "a.", "..a", "acme-rockets"}
	pBadStNm   = []string{".", "..", "", "a/b", "../x", "a b", "a:b", "a\\b", "\xc3\xa9", "a\n", "a*", "/", "./a", "a/..", " a"}
	pBadStTy   = []string{"CA", "", "x509", "signingauthority", "ca ", " ca", "Tsa", "*"}
	pBadStore  = []string{"ca", "", "castore", "ca;x", "tsa/x", "signingAuthority"}
	pOtherIds  = []string{"foo:bar", "x509.Subject:C=US", ":x", "x:", "X509.SUBJECT:zzz", "x509.subject2:C=US", "spiffe://a/b", "x509.subjec:"}
	pBadDN     = []string{
		"C=US,ST=WA", "CN=a", "C=US,ST=WA,O=", "C=US+ST=WA,O=x", "C=US,C=DE,ST=WA,O=x", "O=#0401,C=US,ST=WA",
		",,,", "C=US,ST=WA,O=a\\", "=US", "C=US,ST=WA,O", "ST=WA,O=x", "C=US,O=x", "C=,ST=WA,O=x",
		"C=US,S=WA,ST=WA,O=x", "C=US,ST=WA,O=x,", "C=US,ST=WA,O=x\\zz", "c=US,st=WA,o=x", " ", "C=US;ST=WA;O=x+CN=y",
		"C=US,ST=WA,CN=a:b", "CN=x:y", "C=US:ST=WA:O=x", "C=US,ST=WA,OU=a:O=b",
	}
	pScopes = []string{
		"registry.acme-rockets.io/net", "localhost:5000/a", "a/b", "example.com/a/b_c", "10.0.0.1:80/x",
		"reg.io/a__b", "reg.io/a-b", "reg.io/a.b", "reg.io/a---b", "Reg-1.IO/x/y/z", "r/0", "wabbit-networks.io/sw/un",
		"reg.io/net", "reg.io/web", "ghcr.io/o/r", "local/oci",
	}
	pBadScopes = []string{
		"", "noslash", "/repo", "domain/", "domain.com/Repo", "dom_ain/repo", "reg.io/a:tag", "reg.io/a@sha256:x",
		"reg.io//a", "reg.io/a/", "-dom/a", "dom-/a", "reg.io/a..b", "reg.io/a_.b", "https://reg.io/a", "reg.io:port/a",
		"reg.io:/a", "reg.io/a b", "reg.io/\xc3\xa9", "reg.io/a\n", "reg..io/a", "reg.io/a___b", "reg.io/-a", "reg.io/a-",
	}
	pWildScopes = []string{"reg.io/*", "*/*", "**", "*/a", "reg.io/a*", "* "}
	pOvLegal    = [][2]string{
		{"authenticity", "enforce"}, {"authenticity", "log"}, {"authenticTimestamp", "enforce"}, {"authenticTimestamp", "log"},
		{"expiry", "enforce"}, {"expiry", "log"}, {"revocation", "enforce"}, {"revocation", "log"}, {"revocation", "skip"},
	}
	pOvIntegrity = [][2]string{{"integrity", "log"}, {"integrity", "skip"}, {"integrity", "enforce"}}
	pOvSkip      = [][2]string{{"authenticity", "skip"}, {"authenticTimestamp", "skip"}, {"expiry", "skip"}}
	pOvBadType   = [][2]string{{"Integrity", "log"}, {"", "log"}, {"signature", "enforce"}, {"revocation ", "skip"}, {"authenticitY", "log"}}
	pOvBadAct    = [][2]string{{"expiry", ""}, {"revocation", "Enforce"}, {"authenticity", "warn"}, {"authenticTimestamp", "skip "}, {"expiry", "LOG"}}
)

// ---------- distinguished names ----------

type dnAttr struct{ k, v string }

var (
	dnC  = []string{"US", "DE"}
	dnST = []string{"WA", "CA", "Bayern"}
	dnO  = []string{"wabbit-networks.io", "acme", "Acme Rockets", "a,b"}
	dnX  = []dnAttr{{"CN", "SecureBuilder"}, {"OU", "Finance"}, {"L", "Seattle"}, {"CN", "a+b"}, {"STREET", "1 Main St"}, {"DC", "example"}}
)

func escDN(v string, rng *Rng) string {
	var b strings.Builder
	for i := 0; i < len(v); i++ {
		c := v[i]
		switch {
		case strings.IndexByte(",+;\\\"<>=#", c) >= 0:
			if rng.Bool() {
				b.WriteByte('\\')
				b.WriteByte(c)
			} else {
				fmt.Fprintf(&b, "\\%02x", c)
			}
		case c == ' ' && (i == 0 || i == len(v)-1):
			b.WriteString("\\ ")
		default:
			b.WriteByte(c)
		}
	}
	return b.String()
}

// renderDN spells a DN; at most three spellings are kept per attribute list
// (string literals that repeat are shared in the case files: elaborating
// literals is what the Coq side spends its time on).
var renderMemo = map[string][]string{}

func renderDN(attrs []dnAttr, rng *Rng) string {
	key := fmt.Sprint(attrs)
	l := renderMemo[key]
	v := rng.Intn(3)
	for len(l) <= v {
		l = append(l, renderDN1(attrs, rng))
	}
	renderMemo[key] = l
	return l[v]
}

// poolDN draws one of six well-formed DNs with organisation o.
var dnMemo = map[string][][]dnAttr{}

func poolDN(rng *Rng, o string) string {
	l := dnMemo[o]
	v := rng.Intn(6)
	for len(l) <= v {
		l = append(l, goodDN(rng, o))
	}
	dnMemo[o] = l
	return renderDN(l[v], rng)
}

func renderDN1(attrs []dnAttr, rng *Rng) string {
	parts := make([]string, len(attrs))
	for i, a := range attrs {
		k := a.k
		if k == "ST" && rng.Chance(1, 4) {
			k = "S"
		}
		parts[i] = k + "=" + escDN(a.v, rng)
	}
	sep := ","
	switch rng.Intn(5) {
	case 0:
		sep = ", "
	case 1:
		sep = ";"
	}
	return "x509.subject:" + strings.Join(parts, sep)
}

// goodDN draws a distinguished name with C, ST, O and up to two more
// attributes, in random order.
func goodDN(rng *Rng, o string) []dnAttr {
	attrs := []dnAttr{{"C", Pick(rng, dnC)}, {"ST", Pick(rng, dnST)}, {"O", o}}
	used := map[string]bool{}
	for n := rng.Intn(3); n > 0; n-- {
		x := Pick(rng, dnX)
		if !used[x.k] {
			used[x.k] = true
			attrs = append(attrs, x)
		}
	}
	Shuffle(rng, attrs)
	return attrs
}

// ---------- grammar of valid documents ----------

func genOverride(rng *Rng) [][2]string {
	var ov [][2]string
	if !rng.Chance(1, 3) {
		return nil
	}
	used := map[string]bool{}
	for n := 1 + rng.Intn(2); n > 0; n-- {
		kv := Pick(rng, pOvLegal)
		if !used[kv[0]] {
			used[kv[0]] = true
			ov = append(ov, kv)
		}
	}
	return ov
}

func genIds(rng *Rng) []string {
	switch rng.Intn(6) {
	case 0, 1:
		return []string{"*"}
	case 2:
		return []string{Pick(rng, pOtherIds)}
	}
	os := append([]string{}, dnO...)
	Shuffle(rng, os)
	n := 1 + rng.Intn(2)
	var ids []string
	for i := 0; i < n; i++ {
		ids = append(ids, poolDN(rng, os[i]))
	}
	if rng.Chance(1, 5) {
		ids = append(ids, Pick(rng, pOtherIds))
		Shuffle(rng, ids)
	}
	return ids
}

func genStores(rng *Rng) []string {
	var st []string
	for n := 1 + rng.Intn(2); n > 0; n-- {
		st = append(st, Pick(rng, pStoreTy)+":"+Pick(rng, pStoreNm))
	}
	return st
}

func makeNonSkip(s *hStmt, rng *Rng) {
	if s.SV.Level == "skip" || len(s.Stores) == 0 || len(s.Ids) == 0 {
		s.SV.Level = Pick(rng, pLevels)
		s.Stores = genStores(rng)
		s.Ids = genIds(rng)
	}
}

func genValid(kind string, rng *Rng) *hDoc { return genValidN(kind, rng, 1+rng.Intn(3)) }

func genValidN(kind string, rng *Rng, n int) *hDoc {
	d := &hDoc{Version: "1.0"}
	names := append([]string{}, pNames...)
	Shuffle(rng, names)
	scopes := append([]string{}, pScopes...)
	Shuffle(rng, scopes)
	wildAt := -1
	if rng.Chance(1, 3) {
		wildAt = rng.Intn(n)
	}
	globalAt := -1
	if rng.Chance(1, 2) {
		globalAt = rng.Intn(n)
	}
	for i := 0; i < n; i++ {
		s := hStmt{Name: names[i]}
		if rng.Chance(1, 5) && !(kind == "blob" && i == globalAt) {
			s.SV.Level = "skip"
		} else {
			s.SV.Level = Pick(rng, pLevels)
			s.SV.Ov = genOverride(rng)
			s.Stores = genStores(rng)
			s.Ids = genIds(rng)
		}
		s.SV.TS = Pick(rng, pTS)
		if kind == "oci" {
			if i == wildAt {
				s.Scopes = []string{"*"}
			} else {
				k := 1 + rng.Intn(2)
				s.Scopes, scopes = scopes[:k:k], scopes[k:]
			}
		} else {
			s.Global = i == globalAt
		}
		d.Stmts = append(d.Stmts, s)
	}
	return d
}

// ---------- edit operators: each violates one rule ----------

type edit struct {
	name string
	kind string // "" = both kinds
	f    func(d *hDoc, rng *Rng) bool
}

// ctl makes the choices of an edit operator systematic (single-edit stream):
// which pool item, which statement (first / middle / last) and where in a
// list (front / middle / end) the odd element goes.
type ctl struct{ item, stmt, pos int }

var force *ctl

func pk(rng *Rng, pool []string) string {
	if force != nil {
		return pool[force.item%len(pool)]
	}
	return Pick(rng, pool)
}

func pkKV(rng *Rng, pool [][2]string) [2]string {
	if force != nil {
		return pool[force.item%len(pool)]
	}
	return Pick(rng, pool)
}

func anyStmt(d *hDoc, rng *Rng) *hStmt {
	if len(d.Stmts) == 0 {
		return nil
	}
	if force != nil {
		return &d.Stmts[force.stmt%len(d.Stmts)]
	}
	return &d.Stmts[rng.Intn(len(d.Stmts))]
}

// pair chooses two different statements (ordered): systematically all ordered
// pairs in the single-edit stream.
func pair(d *hDoc, rng *Rng) (int, int) {
	n := len(d.Stmts)
	if force != nil {
		k := force.item % (n * (n - 1))
		i := k / (n - 1)
		j := k % (n - 1)
		if j >= i {
			j++
		}
		return i, j
	}
	i := rng.Intn(n)
	j := (i + 1 + rng.Intn(n-1)) % n
	return i, j
}

func nonSkipStmt(d *hDoc, rng *Rng) *hStmt {
	s := anyStmt(d, rng)
	if s != nil {
		makeNonSkip(s, rng)
	}
	return s
}

func freshName(d *hDoc) string {
	for _, n := range pNames {
		used := false
		for _, s := range d.Stmts {
			used = used || s.Name == n
		}
		if !used {
			return n
		}
	}
	return fmt.Sprintf("extra%d", len(d.Stmts))
}

func freshScope(d *hDoc) string {
	for _, sc := range pScopes {
		used := false
		for _, s := range d.Stmts {
			for _, x := range s.Scopes {
				used = used || x == sc
			}
		}
		if !used {
			return sc
		}
	}
	return fmt.Sprintf("reg.io/extra%d", len(d.Stmts))
}

// addStmt appends a valid statement that conflicts with nothing.
func addStmt(d *hDoc, rng *Rng) *hStmt {
	s := hStmt{Name: freshName(d), Scopes: []string{freshScope(d)}}
	s.SV.Level = Pick(rng, pLevels)
	s.Stores = genStores(rng)
	s.Ids = genIds(rng)
	d.Stmts = append(d.Stmts, s)
	return &d.Stmts[len(d.Stmts)-1]
}

func insertAt(xs []string, x string, rng *Rng) []string {
	i := rng.Intn(len(xs) + 1)
	if force != nil {
		switch force.pos % 3 {
		case 0:
			i = 0
		case 1:
			i = (len(xs) + 1) / 2
		default:
			i = len(xs)
		}
	}
	out := append([]string{}, xs[:i]...)
	out = append(out, x)
	return append(out, xs[i:]...)
}

func setOv(s *hStmt, kv [2]string) {
	for i := range s.SV.Ov {
		if s.SV.Ov[i][0] == kv[0] {
			s.SV.Ov[i] = kv
			return
		}
	}
	s.SV.Ov = append(s.SV.Ov, kv)
}

func ovEdit(name string, pool [][2]string) edit {
	return edit{name, "", func(d *hDoc, rng *Rng) bool {
		s := nonSkipStmt(d, rng)
		if s == nil {
			return false
		}
		setOv(s, pkKV(rng, pool))
		return true
	}}
}

func storeEdit(name string, mk func(rng *Rng) string) edit {
	return edit{name, "", func(d *hDoc, rng *Rng) bool {
		s := nonSkipStmt(d, rng)
		if s == nil {
			return false
		}
		if force != nil {
			for len(s.Stores) < 2 {
				s.Stores = append(s.Stores, Pick(rng, pStoreTy)+":"+Pick(rng, pStoreNm))
			}
			s.Stores = insertAt(s.Stores, mk(rng), rng)
		} else if rng.Bool() {
			s.Stores[rng.Intn(len(s.Stores))] = mk(rng)
		} else {
			s.Stores = insertAt(s.Stores, mk(rng), rng)
		}
		return true
	}}
}

// padIds makes the identities two non-overlapping x509.subject identities.
func padIds(s *hStmt, rng *Rng) {
	if len(s.Ids) >= 2 && s.Ids[0] != "*" {
		return
	}
	s.Ids = []string{poolDN(rng, "pad-one"), poolDN(rng, "pad-two")}
}

// padScopes makes the scopes two valid scopes used nowhere else.
func padScopes(d *hDoc, s *hStmt) {
	if len(s.Scopes) >= 2 {
		return
	}
	if len(s.Scopes) == 1 && s.Scopes[0] == "*" {
		s.Scopes = nil
	}
	for len(s.Scopes) < 2 {
		s.Scopes = append(s.Scopes, freshScope(d))
	}
}

// idEdit puts a bad identity into a statement whose other identities are not the wildcard.
func idEdit(name string, mk func(rng *Rng) string) edit {
	return edit{name, "", func(d *hDoc, rng *Rng) bool {
		s := nonSkipStmt(d, rng)
		if s == nil {
			return false
		}
		if force != nil {
			padIds(s, rng)
			s.Ids = insertAt(s.Ids, mk(rng), rng)
		} else if len(s.Ids) == 1 && (s.Ids[0] == "*" || rng.Bool()) {
			s.Ids = []string{mk(rng)}
		} else {
			s.Ids = insertAt(s.Ids, mk(rng), rng)
		}
		return true
	}}
}

func scopeEdit(name string, mk func(rng *Rng) string) edit {
	return edit{name, "oci", func(d *hDoc, rng *Rng) bool {
		s := anyStmt(d, rng)
		if s == nil {
			return false
		}
		if force != nil {
			padScopes(d, s)
			s.Scopes = insertAt(s.Scopes, mk(rng), rng)
		} else if len(s.Scopes) == 0 || (len(s.Scopes) == 1 && (s.Scopes[0] == "*" || rng.Bool())) {
			s.Scopes = []string{mk(rng)}
		} else {
			s.Scopes = insertAt(s.Scopes, mk(rng), rng)
		}
		return true
	}}
}

var edits = []edit{
	{"version-empty", "", func(d *hDoc, rng *Rng) bool { d.Version = ""; return true }},
	{"version-unsupported", "", func(d *hDoc, rng *Rng) bool {
		d.Version = pk(rng, []string{"1.1", "2.0", "1.0 ", "1", "v1.0", "1.0.0", "0.1", " 1.0", "1.00"})
		return true
	}},
	{"zero-statements", "", func(d *hDoc, rng *Rng) bool { d.Stmts = nil; return true }},
	{"duplicate-name", "", func(d *hDoc, rng *Rng) bool {
		if len(d.Stmts) == 0 {
			return false
		}
		if len(d.Stmts) == 1 {
			addStmt(d, rng)
		}
		i, j := pair(d, rng)
		d.Stmts[i].Name = d.Stmts[j].Name
		return true
	}},
	{"empty-name", "", func(d *hDoc, rng *Rng) bool {
		s := anyStmt(d, rng)
		if s == nil {
			return false
		}
		s.Name = ""
		return true
	}},
	{"level-empty", "", func(d *hDoc, rng *Rng) bool {
		s := anyStmt(d, rng)
		if s == nil {
			return false
		}
		s.SV.Level = ""
		return true
	}},
	{"level-unknown", "", func(d *hDoc, rng *Rng) bool {
		s := anyStmt(d, rng)
		if s == nil {
			return false
		}
		s.SV.Level = pk(rng, pBadLevels)
		return true
	}},
	{"override-on-skip", "", func(d *hDoc, rng *Rng) bool {
		s := anyStmt(d, rng)
		if s == nil {
			return false
		}
		s.SV.Level, s.Stores, s.Ids, s.Global = "skip", nil, nil, false
		s.SV.Ov = [][2]string{pkKV(rng, pOvLegal)}
		return true
	}},
	ovEdit("override-unknown-type", pOvBadType),
	ovEdit("override-unknown-action", pOvBadAct),
	ovEdit("override-integrity", pOvIntegrity),
	ovEdit("override-skip-not-revocation", pOvSkip),
	{"bad-verify-timestamp", "", func(d *hDoc, rng *Rng) bool {
		s := anyStmt(d, rng)
		if s == nil {
			return false
		}
		s.SV.TS = pk(rng, pBadTS)
		return true
	}},
	{"skip-with-stores", "", func(d *hDoc, rng *Rng) bool {
		s := anyStmt(d, rng)
		if s == nil {
			return false
		}
		s.SV.Level, s.SV.Ov, s.Global = "skip", nil, false
		s.Stores, s.Ids = genStores(rng), nil
		return true
	}},
	{"skip-with-identities", "", func(d *hDoc, rng *Rng) bool {
		s := anyStmt(d, rng)
		if s == nil {
			return false
		}
		s.SV.Level, s.SV.Ov, s.Global = "skip", nil, false
		s.Stores, s.Ids = nil, genIds(rng)
		return true
	}},
	{"skip-with-both", "", func(d *hDoc, rng *Rng) bool {
		s := nonSkipStmt(d, rng)
		if s == nil {
			return false
		}
		s.SV.Level, s.SV.Ov, s.Global = "skip", nil, false
		return true
	}},
	{"no-stores", "", func(d *hDoc, rng *Rng) bool {
		s := nonSkipStmt(d, rng)
		if s == nil {
			return false
		}
		s.Stores = nil
		return true
	}},
	{"no-identities", "", func(d *hDoc, rng *Rng) bool {
		s := nonSkipStmt(d, rng)
		if s == nil {
			return false
		}
		s.Ids = nil
		return true
	}},
	{"no-stores-no-identities", "", func(d *hDoc, rng *Rng) bool {
		s := nonSkipStmt(d, rng)
		if s == nil {
			return false
		}
		s.Stores, s.Ids = nil, nil
		return true
	}},
	storeEdit("store-malformed", func(rng *Rng) string { return pk(rng, pBadStore) }),
	storeEdit("store-bad-type", func(rng *Rng) string { return pk(rng, pBadStTy) + ":" + Pick(rng, pStoreNm) }),
	storeEdit("store-bad-name", func(rng *Rng) string { return Pick(rng, pStoreTy) + ":" + pk(rng, pBadStNm) }),
	storeEdit("store-dot-name", func(rng *Rng) string { return Pick(rng, pStoreTy) + ":" + pk(rng, []string{".", ".."}) }),
	{"wildcard-identity-mixed", "", func(d *hDoc, rng *Rng) bool {
		s := nonSkipStmt(d, rng)
		if s == nil {
			return false
		}
		if force != nil {
			padIds(s, rng)
		} else if len(s.Ids) == 1 && s.Ids[0] == "*" {
			s.Ids = []string{poolDN(rng, Pick(rng, dnO))}
		}
		s.Ids = insertAt(s.Ids, "*", rng)
		return true
	}},
	idEdit("identity-empty", func(rng *Rng) string { return "" }),
	idEdit("identity-no-separator", func(rng *Rng) string {
		return pk(rng, []string{"nosep", "x509.subject", "C=US,ST=WA,O=x", "x509.subject;C=US", "**", " "})
	}),
	idEdit("identity-no-value", func(rng *Rng) string { return "x509.subject:" }),
	idEdit("identity-bad-dn", func(rng *Rng) string { return "x509.subject:" + pk(rng, pBadDN) }),
	idEdit("identity-dn-missing-mandatory", func(rng *Rng) string {
		o := Pick(rng, dnO)
		poolDN(rng, o)
		a := dnMemo[o][rng.Intn(len(dnMemo[o]))]
		drop := pk(rng, []string{"C", "ST", "O"})
		var b []dnAttr
		for _, x := range a {
			if x.k != drop {
				b = append(b, x)
			}
		}
		return renderDN(b, rng)
	}),
	{"identities-overlap", "", func(d *hDoc, rng *Rng) bool {
		s := nonSkipStmt(d, rng)
		if s == nil {
			return false
		}
		base := []dnAttr{{"C", Pick(rng, dnC)}, {"ST", Pick(rng, dnST)}, {"O", "overlap-org"}}
		other := append([]dnAttr{}, base...)
		switch rng.Intn(3) {
		case 0: // identical maps, written differently
			Shuffle(rng, other)
		case 1: // proper superset
			other = append(other, Pick(rng, dnX))
			Shuffle(rng, other)
		default:
			other = append(other, dnAttr{"CN", "x"}, dnAttr{"OU", "y"})
		}
		a, b := renderDN(base, rng), renderDN(other, rng)
		if force != nil {
			// narrower / broader identity and an unrelated one in every order
			base = []dnAttr{{"C", "US"}, {"ST", "WA"}, {"O", "overlap-org"}}
			other = append([]dnAttr{}, base...)
			switch (force.item / 6) % 3 {
			case 0:
				Shuffle(rng, other)
			case 1:
				other = append(other, Pick(rng, dnX))
			default:
				other = append([]dnAttr{{"CN", "x"}, {"OU", "y"}}, other...)
			}
			c := poolDN(rng, "unrelated-org")
			three := []string{renderDN(base, rng), renderDN(other, rng), c}
			perms := [][3]int{{0, 1, 2}, {0, 2, 1}, {1, 0, 2}, {1, 2, 0}, {2, 0, 1}, {2, 1, 0}}
			pm := perms[force.item%6]
			s.Ids = []string{three[pm[0]], three[pm[1]], three[pm[2]]}
			return true
		}
		if rng.Bool() {
			a, b = b, a
		}
		if len(s.Ids) == 1 && s.Ids[0] == "*" {
			s.Ids = nil
		}
		s.Ids = insertAt(s.Ids, a, rng)
		s.Ids = insertAt(s.Ids, b, rng)
		return true
	}},
	{"zero-scopes", "oci", func(d *hDoc, rng *Rng) bool {
		s := anyStmt(d, rng)
		if s == nil {
			return false
		}
		s.Scopes = nil
		return true
	}},
	scopeEdit("scope-invalid", func(rng *Rng) string { return pk(rng, pBadScopes) }),
	scopeEdit("scope-with-wildcard", func(rng *Rng) string { return pk(rng, pWildScopes) }),
	{"scope-duplicate-in-statement", "oci", func(d *hDoc, rng *Rng) bool {
		s := anyStmt(d, rng)
		if s == nil || len(s.Scopes) == 0 || s.Scopes[0] == "*" {
			return false
		}
		if force != nil {
			// [x y x], [x x y], [y x x], [x y z x]
			padScopes(d, s)
			if force.item%4 == 3 {
				s.Scopes = append(s.Scopes, freshScope(d))
			}
			switch force.item % 4 {
			case 0, 3:
				s.Scopes = append(s.Scopes, s.Scopes[0])
			case 1:
				s.Scopes = append([]string{s.Scopes[0]}, s.Scopes...)
			default:
				s.Scopes = append(s.Scopes, s.Scopes[len(s.Scopes)-1])
			}
			return true
		}
		s.Scopes = insertAt(s.Scopes, s.Scopes[rng.Intn(len(s.Scopes))], rng)
		return true
	}},
	{"scope-duplicate-across", "oci", func(d *hDoc, rng *Rng) bool {
		if len(d.Stmts) == 0 {
			return false
		}
		if len(d.Stmts) == 1 {
			addStmt(d, rng)
		}
		i, j := pair(d, rng)
		if len(d.Stmts[j].Scopes) == 0 {
			return false
		}
		x := d.Stmts[j].Scopes[rng.Intn(len(d.Stmts[j].Scopes))]
		if x == "*" || len(d.Stmts[i].Scopes) == 0 || d.Stmts[i].Scopes[0] == "*" || rng.Bool() {
			d.Stmts[i].Scopes = []string{x}
		} else {
			d.Stmts[i].Scopes = insertAt(d.Stmts[i].Scopes, x, rng)
		}
		return true
	}},
	{"wildcard-scope-twice", "oci", func(d *hDoc, rng *Rng) bool {
		if len(d.Stmts) == 0 {
			return false
		}
		if len(d.Stmts) == 1 {
			addStmt(d, rng)
		}
		i, j := pair(d, rng)
		d.Stmts[i].Scopes, d.Stmts[j].Scopes = []string{"*"}, []string{"*"}
		return true
	}},
	{"wildcard-scope-mixed", "oci", func(d *hDoc, rng *Rng) bool {
		s := anyStmt(d, rng)
		if s == nil {
			return false
		}
		if len(s.Scopes) == 0 || s.Scopes[0] == "*" {
			s.Scopes = []string{freshScope(d)}
		}
		if force != nil {
			padScopes(d, s)
		}
		for _, t := range d.Stmts { // keep "*" unique in the document
			if len(t.Scopes) == 1 && t.Scopes[0] == "*" {
				return false
			}
		}
		s.Scopes = insertAt(s.Scopes, "*", rng)
		return true
	}},
	{"two-globals", "blob", func(d *hDoc, rng *Rng) bool {
		if len(d.Stmts) == 0 {
			return false
		}
		if len(d.Stmts) == 1 {
			addStmt(d, rng)
		}
		i, j := pair(d, rng)
		for k := range d.Stmts {
			d.Stmts[k].Global = k == i || k == j
		}
		makeNonSkip(&d.Stmts[i], rng)
		makeNonSkip(&d.Stmts[j], rng)
		return true
	}},
	{"global-skip", "blob", func(d *hDoc, rng *Rng) bool {
		s := anyStmt(d, rng)
		if s == nil {
			return false
		}
		for k := range d.Stmts {
			d.Stmts[k].Global = false
		}
		s.SV.Level, s.SV.Ov, s.Stores, s.Ids, s.Global = "skip", nil, nil, nil, true
		return true
	}},
}

// benign edits: the document stays valid; they sit next to a rule boundary
var benign = []edit{
	{"benign-revocation-skip", "", func(d *hDoc, rng *Rng) bool {
		s := nonSkipStmt(d, rng)
		if s == nil {
			return false
		}
		setOv(s, [2]string{"revocation", "skip"})
		return true
	}},
	{"benign-other-identity-prefix", "", func(d *hDoc, rng *Rng) bool {
		s := nonSkipStmt(d, rng)
		if s == nil || (len(s.Ids) == 1 && s.Ids[0] == "*") {
			return false
		}
		s.Ids = insertAt(s.Ids, pk(rng, pOtherIds), rng)
		return true
	}},
	{"benign-dotty-store-name", "", func(d *hDoc, rng *Rng) bool {
		s := nonSkipStmt(d, rng)
		if s == nil {
			return false
		}
		s.Stores = insertAt(s.Stores, Pick(rng, pStoreTy)+":"+pk(rng, []string{"...", ".a", "a.", "..a", "-", "_"}), rng)
		return true
	}},
	{"benign-same-store-twice", "", func(d *hDoc, rng *Rng) bool {
		s := nonSkipStmt(d, rng)
		if s == nil {
			return false
		}
		s.Stores = insertAt(s.Stores, s.Stores[0], rng)
		return true
	}},
	{"benign-near-duplicate-names", "", func(d *hDoc, rng *Rng) bool {
		// names that differ only by case or surrounding white space are different names
		if len(d.Stmts) < 2 {
			addStmt(d, rng)
		}
		i, j := pair(d, rng)
		for k := range d.Stmts {
			if k != i && k != j {
				d.Stmts[k].Name = fmt.Sprintf("other%d", k)
			}
		}
		pr := [][2]string{{"p0", "p0 "}, {"p0", "P0"}, {"p0", " p0"}, {" ", "\t"}, {"a", "a\n"}, {"x", "x."}}
		q := pr[rng.Intn(len(pr))]
		if force != nil {
			q = pr[(force.item/7)%len(pr)]
		}
		d.Stmts[i].Name, d.Stmts[j].Name = q[0], q[1]
		return true
	}},
	{"benign-colon-in-identity-value", "", func(d *hDoc, rng *Rng) bool {
		s := nonSkipStmt(d, rng)
		if s == nil {
			return false
		}
		s.Ids = []string{pk(rng, []string{"x509.subject:C=US,ST=WA,O=a:b", "x509.subject:C=US,ST=WA,O=:", "x509.subject:CN=x:y,C=US,ST=WA,O=z", "other:a:b", "x509.subject:C=US,ST=WA,O=x509.subject:"})}
		return true
	}},
	{"benign-near-duplicate-scopes", "oci", func(d *hDoc, rng *Rng) bool {
		// scopes that differ by case of the host, or of which one is a prefix of the other
		if len(d.Stmts) < 2 {
			addStmt(d, rng)
		}
		i, j := pair(d, rng)
		pr := [][2]string{{"Reg.IO/x", "reg.io/x"}, {"reg.io/x", "reg.io/x/y"}, {"reg.io/x", "reg.io:80/x"}, {"reg.io/x-y", "reg.io/x--y"}, {"a.b/c", "a/b/c"}}
		q := pr[rng.Intn(len(pr))]
		if force != nil {
			q = pr[(force.item/7)%len(pr)]
		}
		for k := range d.Stmts {
			if len(d.Stmts[k].Scopes) == 1 && d.Stmts[k].Scopes[0] == "*" && (k == i || k == j) {
				d.Stmts[k].Scopes = nil
			}
		}
		if rng.Bool() || i == j {
			d.Stmts[i].Scopes = append(d.Stmts[i].Scopes, q[0], q[1])
		} else {
			d.Stmts[i].Scopes = append(d.Stmts[i].Scopes, q[0])
			d.Stmts[j].Scopes = append(d.Stmts[j].Scopes, q[1])
		}
		return true
	}},
	{"benign-all-skip-oci", "oci", func(d *hDoc, rng *Rng) bool {
		for i := range d.Stmts {
			d.Stmts[i].SV = hSV{Level: "skip"}
			d.Stmts[i].Stores, d.Stmts[i].Ids = nil, nil
		}
		return true
	}},
	{"benign-global-after-skip", "blob", func(d *hDoc, rng *Rng) bool {
		// a skip statement that is not global, followed by the global one
		for k := range d.Stmts {
			d.Stmts[k].Global = false
		}
		s0 := hStmt{Name: freshName(d), SV: hSV{Level: "skip"}}
		d.Stmts = append([]hStmt{s0}, d.Stmts...)
		g := addStmt(d, rng)
		g.Global = true
		return true
	}},
	{"benign-disjoint-dns", "", func(d *hDoc, rng *Rng) bool {
		s := nonSkipStmt(d, rng)
		if s == nil {
			return false
		}
		// same C, ST, different O and a shared CN: neither contains the other
		a := []dnAttr{{"C", "US"}, {"ST", "WA"}, {"O", "org-one"}, {"CN", "shared"}}
		b := []dnAttr{{"C", "US"}, {"ST", "WA"}, {"O", "org-two"}, {"CN", "shared"}}
		s.Ids = []string{renderDN(a, rng), renderDN(b, rng)}
		return true
	}},
}

// ---------- randomly assembled documents ----------

func randomDoc(kind string, rng *Rng) (*hDoc, int) {
	bad := 0
	pick := func(good, badPool []string, den int) string {
		if rng.Chance(1, den) {
			bad++
			return Pick(rng, badPool)
		}
		return Pick(rng, good)
	}
	d := &hDoc{Version: pick([]string{"1.0"}, []string{"", "1.1", "2.0"}, 25)}
	n := rng.Intn(4)
	if n == 0 {
		n = rng.Intn(2)
	}
	for i := 0; i < n; i++ {
		s := hStmt{Name: pick(pNames[:5], []string{""}, 30)}
		s.SV.Level = pick([]string{"strict", "permissive", "audit", "skip"}, append([]string{""}, pBadLevels...), 25)
		s.SV.TS = pick(pTS, pBadTS, 25)
		if rng.Chance(1, 3) {
			used := map[string]bool{}
			for m := 1 + rng.Intn(3); m > 0; m-- {
				var kv [2]string
				if rng.Chance(1, 8) {
					bad++
					kv = Pick(rng, [][][2]string{pOvIntegrity, pOvSkip, pOvBadType, pOvBadAct}[rng.Intn(4)])
				} else {
					kv = Pick(rng, pOvLegal)
				}
				if !used[kv[0]] {
					used[kv[0]] = true
					s.SV.Ov = append(s.SV.Ov, kv)
				}
			}
		}
		withStores := s.SV.Level != "skip"
		if rng.Chance(1, 12) {
			withStores = !withStores
			bad++
		}
		if withStores {
			for m := 1 + rng.Intn(2); m > 0; m-- {
				switch {
				case rng.Chance(1, 20):
					bad++
					s.Stores = append(s.Stores, Pick(rng, pBadStore))
				default:
					s.Stores = append(s.Stores, pick(pStoreTy, pBadStTy, 25)+":"+pick(pStoreNm, pBadStNm, 15))
				}
			}
			for m := 1 + rng.Intn(3); m > 0; m-- {
				switch rng.Intn(12) {
				case 0:
					s.Ids = append(s.Ids, "*")
				case 1:
					s.Ids = append(s.Ids, Pick(rng, pOtherIds))
				case 2:
					bad++
					s.Ids = append(s.Ids, Pick(rng, []string{"", "nosep", "x509.subject:", "x509.subject:" + Pick(rng, pBadDN)}))
				default:
					s.Ids = append(s.Ids, poolDN(rng, Pick(rng, dnO)))
				}
			}
		}
		if kind == "oci" {
			for m := rng.Intn(3) + rng.Intn(2); m > 0; m-- {
				switch rng.Intn(10) {
				case 0:
					s.Scopes = append(s.Scopes, "*")
				case 1:
					bad++
					s.Scopes = append(s.Scopes, Pick(rng, append(pBadScopes, pWildScopes...)))
				default:
					s.Scopes = append(s.Scopes, Pick(rng, pScopes))
				}
			}
		} else {
			s.Global = rng.Chance(1, 3)
		}
		d.Stmts = append(d.Stmts, s)
	}
	return d, bad
}

// ---------- regression documents (run first, every tier) ----------

func regressionDocs() []struct {
	kind string
	d    *hDoc
	tag  string
} {
	st := func(name, level string, stores, ids, scopes []string, global bool) hStmt {
		return hStmt{Name: name, SV: hSV{Level: level}, Stores: stores, Ids: ids, Scopes: scopes, Global: global}
	}
	dn := "x509.subject:C=US, ST=WA, O=wabbit-network.io, OU=org1"
	type r = struct {
		kind string
		d    *hDoc
		tag  string
	}
	return []r{
		{"oci", &hDoc{"1.0", []hStmt{st("wabbit-networks-images", "strict", []string{"ca:valid-trust-store", "signingAuthority:valid-trust-store"}, []string{dn}, []string{"registry.acme-rockets.io/software/net-monitor"}, false)}}, "spec-example-oci"},
		{"blob", &hDoc{"1.0", []hStmt{st("wabbit-networks-images", "strict", []string{"ca:valid-trust-store"}, []string{dn}, nil, true)}}, "spec-example-blob"},
		// F1 (fixed by 81abfe4): a global blob statement with level skip
		{"blob", &hDoc{"1.0", []hStmt{st("g", "skip", nil, nil, nil, true)}}, "F1-global-skip"},
		{"blob", &hDoc{"1.0", []hStmt{st("a", "strict", []string{"ca:s"}, []string{"*"}, nil, false), st("g", "skip", nil, nil, nil, true)}}, "F1-global-skip-second"},
		// F11 (fixed by 7fbf478): store names "." and ".."
		{"oci", &hDoc{"1.0", []hStmt{st("a", "strict", []string{"ca:.."}, []string{"*"}, []string{"*"}, false)}}, "F11-dotdot"},
		{"blob", &hDoc{"1.0", []hStmt{st("a", "audit", []string{"tsa:."}, []string{"*"}, nil, false)}}, "F11-dot"},
		// rule boundaries
		{"oci", &hDoc{"1.0", []hStmt{st("a", "skip", nil, nil, []string{"*"}, false)}}, "all-skip"},
		{"oci", &hDoc{"1.0", []hStmt{st("a", "strict", []string{"ca:s"}, []string{"*", "*"}, []string{"*"}, false)}}, "two-wildcard-ids"},
		{"oci", &hDoc{"1.0", []hStmt{st("a", "strict", []string{"ca:s"}, []string{"*"}, []string{"*", "*"}, false)}}, "two-wildcard-scopes"},
		{"oci", &hDoc{"1.0", []hStmt{st("a", "strict", []string{"ca:s:t"}, []string{"*"}, []string{"a/b"}, false)}}, "store-two-colons"},
		{"oci", nil, "nil-oci"},
		{"blob", nil, "nil-blob"},
	}
}

// ---------- driver ----------

type c09Case struct {
	Kind   string   `json:"kind"`
	Stream string   `json:"stream"`
	Edits  []string `json:"edits"`
	Doc    *hDoc    `json:"doc"`
	Other  *hDoc    `json:"other"`
	JSON   string   `json:"json_text"`
	Ctor   string   `json:"constructor,omitempty"`
	Decoy  *hDoc    `json:"decoy,omitempty"`
	Obs    c09Obs   `json:"obs"`
}

func asciiIds(d *hDoc) bool {
	if d == nil {
		return true
	}
	for _, s := range d.Stmts {
		for _, id := range s.Ids {
			for i := 0; i < len(id); i++ {
				if id[i] >= 0x80 {
					return false
				}
			}
		}
	}
	return true
}

func runC09(a *Args) error {
	rng := NewRng(a.Seed)
	prelude := "From NV Require Import Base C09_Model.\nOpen Scope string_scope.\n"
	w := NewCaseWriter(a, "C09", prelude, "case", "run")
	w.Rule = "documents of both kinds drawn from a grammar of valid documents (1-3 statements; levels, legal overrides, verifyTimestamp, type:name stores, wildcard / x509.subject / foreign-prefix identities with varied DN spelling (S alias, spaces, ';', backslash and hex escapes), unique scopes, at most one non-skip global statement). Streams: (1) single-edit, systematic: 39 rule-violating and 10 benign operators x both kinds, three statements with the rule violated in the first / middle / last one, the odd element at the front / middle / end of its list, every item of the operator's pool, all ordered pairs for duplicates, narrower/broader/unrelated DN in every order; (2) history: ONE document instance per kind validated repeatedly while edited in place (valid, broken, repaired), in half of the histories the very same struct handed to two consecutive steps and to NewVerifierWithOptions; (3) grammar with 0, 1 or 2 random edits; (4) randomly assembled documents; (5) regex-roles: fresh strings on which the host and the repository expression disagree (upper case / port vs underscore) used in both roles, after an unobserved Validate or GetApplicableTrustPolicy over the same strings in the other role (both orders) and inside one document; (6) fixed regression documents (F1, F11, spec examples, nil); (7) constructors: the document under test nil / valid / broken, next to a nil / valid / broken document of the other kind, handed to NewVerifierWithOptions with a nil trust store, to the deprecated New (no blob parameter) and to the deprecated NewWithOptions whose options already carry a nil / valid / broken decoy OCI document; (8) witnesses of the audit theorems (a scope listed twice by one statement, distinguished names lacking C / ST / O, one identity within another in both orders). Each document is validated as a Go struct (nil or empty slices/maps at random), validated after decoding JSON text written with literal member names (optional members omitted / empty / null at random, duplicate members sometimes), handed to NewVerifierWithOptions (sometimes together with a document of the other kind), and for accepted documents GetVerificationLevel of every statement is recorded. Frame check on every case: the documents handed to Validate, GetVerificationLevel and NewVerifierWithOptions are deep-snapshotted before and compared after (a change is an implementation violation). non-trivial = at most two edits, or random stream with at most two bad picks; distinct = distinct (kind, document, other document)"
	w.Assumptions = []string{
		"override maps have unique keys (Go map); identity strings are ASCII (limit of the byte-level model of go-ldap ParseDN, C04_DN); all strings are valid UTF-8 (JSON route)",
		"error classes are recognised from stable phrases of the error texts; the four override-entry errors of GetVerificationLevel are one class (Go map iteration order)",
		"supported versions (\"1.0\"), the wildcard \"*\" and the prefix \"x509.subject\" are written by hand in C09_Model.v (not in Generated.v)",
	}
	var id int64
	var pendingPre func()
	emit := func(kind, stream string, edits []string, d, other *hDoc, nontrivial bool) {
		my := id
		id++
		pre := pendingPre
		pendingPre = nil
		if !w.Want(my) {
			return
		}
		if pre != nil {
			pre() // unobserved library calls made before this case (part of the case: a replay repeats them)
		}
		if !asciiIds(d) || !asciiIds(other) {
			panic("c09: generator produced a non-ASCII identity")
		}
		okind := "blob"
		if kind == "blob" {
			okind = "oci"
		}
		normalise(kind, d)
		normalise(okind, other)
		jr := NewRng(a.Seed).Fork(uint64(my))
		obs, obsTerm, text := observe(kind, d, other, jr)
		if ctorKind == "withoptions" {
			normalise("oci", ctorDecoy)
			if !asciiIds(ctorDecoy) {
				panic("c09: generator produced a non-ASCII identity")
			}
		}
		c := &c09Case{Kind: kind, Stream: stream, Edits: edits, Doc: d, Other: other, JSON: string(text), Ctor: ctorKind, Obs: obs}
		k := "OCI"
		if kind == "blob" {
			k = "Blob"
		}
		in := CApp("mk_input", k, docTerm(d), docTerm(other))
		kd, _ := json.Marshal([]any{kind, d, other})
		if ctorKind != "" {
			if ctorKind == "withoptions" {
				c.Decoy = ctorDecoy
			}
			in = CApp("mk_input_c", k, docTerm(d), docTerm(other), ctorTerm())
			kd, _ = json.Marshal([]any{kind, d, other, ctorKind, c.Decoy})
			w.Count("constructor", ctorKind)
		}
		term := CApp("mk_case", CN(my), in, obsTerm)
		w.Add(my, term, c, string(kd), nontrivial)
		if obs.Panic != "" {
			w.ImplViolation(my, "panic: "+obs.Panic, c, "panic")
		}
		if obs.Frame != "" {
			w.ImplViolation(my, "library mutated caller-owned "+obs.Frame, c, "frame")
		}
		w.Count("kind", kind)
		w.Count("stream", stream)
		w.Count("validate", obs.Val)
		w.Count("new_verifier", obs.New)
		w.Count("edits", fmt.Sprint(len(edits)))
		for _, e := range edits {
			w.Count("edit", e)
		}
		if d != nil {
			w.Count("statements", fmt.Sprint(len(d.Stmts)))
		}
	}

	// 0. regression documents
	for _, r := range regressionDocs() {
		emit(r.kind, "regression", []string{r.tag}, r.d, nil, true)
	}

	applicable := func(kind string, pool []edit) []edit {
		var out []edit
		for _, e := range pool {
			if e.kind == "" || e.kind == kind {
				out = append(out, e)
			}
		}
		return out
	}
	kinds := []string{"oci", "blob"}
	apply := func(kind string, d *hDoc, pool []edit) string {
		for try := 0; try < 8; try++ {
			e := Pick(rng, pool)
			if e.f(d, rng) {
				return e.name
			}
		}
		return ""
	}
	otherDoc := func(kind string) *hDoc {
		if !rng.Chance(1, 8) {
			return nil
		}
		okind := "oci"
		if kind == "oci" {
			okind = "blob"
		}
		o := genValid(okind, rng)
		if rng.Bool() {
			apply(okind, o, applicable(okind, edits))
		}
		return o
	}

	// 1. every operator on every kind, several times (quick: the discriminating part)
	// systematic: three statements, the rule violated in the first / middle /
	// last one, the odd element at the front / middle / end of its list, and
	// every item of the operator's pool
	per := 36
	if a.Tier == "thorough" {
		per = 180
	}
	for _, kind := range kinds {
		for _, e := range applicable(kind, append(append([]edit{}, edits...), benign...)) {
			for r := 0; r < per; r++ {
				n := 3
				if r >= per/2 {
					n = 4 // two offenders with two harmless statements between them
				}
				d := genValidN(kind, rng, n)
				force = &ctl{item: r, stmt: r % n, pos: (r / 3) % 3}
				ok := e.f(d, rng)
				force = nil
				if !ok {
					continue
				}
				emit(kind, "single-edit", []string{e.name}, d, otherDoc(kind), true)
			}
		}
	}
	// history: ONE document instance per kind, validated again and again while
	// it is edited in place (valid, broken, repaired, broken differently ...)
	hist := 40
	if a.Tier == "thorough" {
		hist = 400
	}
	for _, kind := range kinds {
		instOCI, instBlob = &trustpolicy.OCIDocument{}, &trustpolicy.BlobDocument{}
		useInst = true
		for h := 0; h < hist; h++ {
			good := genValid(kind, rng)
			same := h%2 == 0 // hand the SAME struct (not an equal fresh one) to the next step
			emit(kind, "history", []string{"valid"}, good.clone(), nil, true)
			if same {
				reuseInst = true
				emit(kind, "history", []string{"valid-same-object"}, good.clone(), nil, true)
				reuseInst = false
			}
			bad := good.clone()
			nm := apply(kind, bad, applicable(kind, edits))
			emit(kind, "history", []string{nm}, bad, nil, true)
			if same {
				reuseInst = true
				emit(kind, "history", []string{nm, "same-object"}, bad.clone(), nil, true)
				reuseInst = false
			}
			emit(kind, "history", []string{"repaired"}, good.clone(), nil, true)
		}
		useInst = false
	}
	// 2. 0, 1 or 2 edits
	n := 800
	if a.Tier == "thorough" {
		n = 40000
	}
	for i := 0; i < n; i++ {
		kind := Pick(rng, kinds)
		d := genValid(kind, rng)
		var names []string
		k := rng.Intn(20)
		switch {
		case k < 4: // valid
		case k < 6:
			if nm := apply(kind, d, applicable(kind, benign)); nm != "" {
				names = append(names, nm)
			}
		case k < 12:
			if nm := apply(kind, d, applicable(kind, edits)); nm != "" {
				names = append(names, nm)
			}
		default:
			for j := 0; j < 2; j++ {
				if nm := apply(kind, d, applicable(kind, edits)); nm != "" {
					names = append(names, nm)
				}
			}
		}
		sort.Strings(names)
		emit(kind, "grammar", names, d, otherDoc(kind), true)
	}
	// 3. randomly assembled documents
	m := 400
	if a.Tier == "thorough" {
		m = 20000
	}
	for i := 0; i < m; i++ {
		kind := Pick(rng, kinds)
		d, bad := randomDoc(kind, rng)
		emit(kind, "random", nil, d, otherDoc(kind), bad <= 2)
	}
	// 3b. strings on which the host and the repository expression DISAGREE, used in
	// both roles: a verdict remembered for a string in one role must not decide the
	// other role. Each case carries its own unobserved prelude (a Validate of another
	// document, or a GetApplicableTrustPolicy look-up) over fresh strings, in both orders;
	// plus both roles inside one document. Every case is judged on its own document.
	{
		oneDoc := func(scopes ...[]string) *hDoc {
			d := &hDoc{Version: "1.0"}
			for i, sc := range scopes {
				d.Stmts = append(d.Stmts, hStmt{Name: fmt.Sprintf("p%d", i), SV: hSV{Level: "strict"}, Stores: []string{"ca:a"}, Ids: []string{"*"}, Scopes: sc})
			}
			return d
		}
		const dg = "@sha256:9834876dcfb05cb167a5c24953eba58c4ac89b1adf57f28f2f9d09af107ee8f0"
		hostForms := []string{"Host%d", "Registry-Host%d:5000", "localhost%d:80", "H%d.IO", "A%d"}
		repoForms := []string{"a__b%d", "x_y%d", "r%d_s", "q%d__0", "z%d_z"}
		rounds := 2
		if a.Tier == "thorough" {
			rounds = 20
		}
		k := 0
		fresh := func() (string, string) {
			k++
			return fmt.Sprintf(hostForms[k%len(hostForms)], k), fmt.Sprintf(repoForms[(k/len(hostForms)+k)%len(repoForms)], k)
		}
		validate := func(d *hDoc) func() {
			return func() { guarded(func() error { return toOCI(d).Validate() }) }
		}
		lookup := func(ref string) func() {
			return func() {
				guarded(func() error {
					_, err := toOCI(oneDoc([]string{"*"})).GetApplicableTrustPolicy(ref)
					return err
				})
			}
		}
		for r := 0; r < rounds*len(hostForms); r++ {
			h, rp := fresh()
			pendingPre = validate(oneDoc([]string{h + "/" + rp}))
			emit("oci", "regex-roles", []string{"valid-then-swapped"}, oneDoc([]string{rp + "/" + h}), nil, true)
			h, rp = fresh()
			pendingPre = validate(oneDoc([]string{rp + "/" + h}))
			emit("oci", "regex-roles", []string{"swapped-then-valid"}, oneDoc([]string{h + "/" + rp}), nil, true)
			h, rp = fresh()
			pendingPre = validate(oneDoc([]string{h + "/x"}, []string{"y.io/" + rp}))
			emit("oci", "regex-roles", []string{"valid-then-host-as-repo"}, oneDoc([]string{"y.io/" + h}), nil, true)
			h, rp = fresh()
			pendingPre = validate(oneDoc([]string{h + "/x"}, []string{"y.io/" + rp}))
			emit("oci", "regex-roles", []string{"valid-then-repo-as-host"}, oneDoc([]string{rp + "/x"}), nil, true)
			h, rp = fresh()
			pendingPre = validate(oneDoc([]string{"y.io/" + h}))
			emit("oci", "regex-roles", []string{"host-as-repo-then-valid"}, oneDoc([]string{h + "/x"}), nil, true)
			h, rp = fresh()
			pendingPre = validate(oneDoc([]string{rp + "/x"}))
			emit("oci", "regex-roles", []string{"repo-as-host-then-valid"}, oneDoc([]string{"y.io/" + rp}), nil, true)
			h, rp = fresh()
			emit("oci", "regex-roles", []string{"one-statement-valid-swapped"}, oneDoc([]string{h + "/" + rp, rp + "/" + h}), nil, true)
			h, rp = fresh()
			emit("oci", "regex-roles", []string{"one-statement-swapped-valid"}, oneDoc([]string{rp + "/" + h, h + "/" + rp}), nil, true)
			h, rp = fresh()
			emit("oci", "regex-roles", []string{"two-statements-valid-swapped"}, oneDoc([]string{h + "/" + rp}, []string{rp + "/" + h}), nil, true)
			h, rp = fresh()
			emit("oci", "regex-roles", []string{"two-statements-swapped-valid"}, oneDoc([]string{rp + "/" + h}, []string{h + "/" + rp}), nil, true)
			h, rp = fresh()
			emit("oci", "regex-roles", []string{"same-string-both-roles"}, oneDoc([]string{h + "/x", "y.io/" + rp}, []string{"z.io/" + h}), nil, true)
			h, rp = fresh()
			pendingPre = lookup(h + "/" + rp + dg)
			emit("oci", "regex-roles", []string{"lookup-valid-then-swapped"}, oneDoc([]string{rp + "/" + h}), nil, true)
			h, rp = fresh()
			pendingPre = lookup(rp + "/" + h + dg)
			emit("oci", "regex-roles", []string{"lookup-swapped-then-valid"}, oneDoc([]string{h + "/" + rp}), nil, true)
			h, rp = fresh()
			pendingPre = lookup("y.io/" + h + dg)
			emit("oci", "regex-roles", []string{"lookup-host-as-repo-then-valid"}, oneDoc([]string{h + "/x"}, []string{"y.io/" + rp}), nil, true)
		}
	}
	// 4. nil documents next to a document of the other kind
	for i := 0; i < 12; i++ {
		kind := kinds[i%2]
		okind := kinds[(i+1)%2]
		o := genValid(okind, rng)
		if i >= 6 {
			apply(okind, o, applicable(okind, edits))
		}
		emit(kind, "nil-with-other", nil, nil, o, true)
	}
	// 5. constructors (appended: earlier case ids are unchanged): every way of
	// building a verifier from documents in memory must validate them. The
	// document under test is valid / broken by one edit / nil, alone or next to a
	// valid or broken document of the other kind; for NewWithOptions the options
	// carry a decoy OCI document (nil / valid / broken) that must not count.
	{
		type cc struct {
			ctor  string
			decoy int // 0 nil, 1 valid, 2 broken
		}
		ctors := []cc{{"nilstore", 0}, {"new", 0}, {"withoptions", 0}, {"withoptions", 1}, {"withoptions", 2}}
		reps := 1
		if a.Tier == "thorough" {
			reps = 12
		}
		mk := func(kind string, shape int) *hDoc {
			switch shape {
			case 0:
				return nil
			case 1:
				return genValid(kind, rng)
			}
			d := genValid(kind, rng)
			apply(kind, d, applicable(kind, edits))
			return d
		}
		for r := 0; r < reps; r++ {
			for _, c := range ctors {
				for _, kind := range kinds {
					okind := "oci"
					if kind == "oci" {
						okind = "blob"
					}
					for shape := 0; shape < 3; shape++ {
						for oshape := 0; oshape < 3; oshape++ {
							d, o := mk(kind, shape), mk(okind, oshape)
							ctorKind, ctorDecoy = c.ctor, nil
							if c.ctor == "withoptions" {
								ctorDecoy = mk("oci", c.decoy)
							}
							emit(kind, "constructors", []string{c.ctor, fmt.Sprintf("doc%d-other%d-decoy%d", shape, oshape, c.decoy)}, d, o, true)
							ctorKind, ctorDecoy = "", nil
						}
					}
				}
			}
		}
	}
	// 6. witnesses of theorems of C09_Audit.v replayed on the real code: a scope
	// listed twice by ONE statement (C09_scope_literal_refuted), an x509.subject
	// identity that parses but lacks O / C / ST (C09_mandatory_required), an
	// identity within another one in both orders (C09_overlap_rejected)
	{
		st := func(ids, scopes []string) *hDoc {
			return &hDoc{"1.0", []hStmt{{Name: "a", SV: hSV{Level: "strict"}, Stores: []string{"ca:s"}, Ids: ids, Scopes: scopes}}}
		}
		emit("oci", "audit-witness", []string{"scope-twice-one-statement"}, st([]string{"*"}, []string{"a/b", "a/b"}), nil, true)
		emit("oci", "audit-witness", []string{"dn-without-O"}, st([]string{"x509.subject:C=US,ST=WA"}, []string{"*"}), nil, true)
		emit("blob", "audit-witness", []string{"dn-without-C"}, st([]string{"x509.subject:ST=WA,O=x"}, nil), nil, true)
		emit("blob", "audit-witness", []string{"dn-without-ST"}, st([]string{"x509.subject:C=US,O=x"}, nil), nil, true)
		emit("oci", "audit-witness", []string{"narrow-then-broad"}, st([]string{"x509.subject:C=US,ST=WA,O=x", "foo:bar", "x509.subject:O=x,CN=y,ST=WA,C=US"}, []string{"*"}), nil, true)
		emit("oci", "audit-witness", []string{"broad-then-narrow"}, st([]string{"x509.subject:O=x,CN=y,ST=WA,C=US", "foo:bar", "x509.subject:C=US,ST=WA,O=x"}, []string{"*"}), nil, true)
	}
	w.Prelude = prelude + shortDefs()
	return w.Close()
}
