package main

// C16 driver: runs the real plugin.CLIManager (Get + GetMetadata, Uninstall,
// Install from file / from directory, List), dir.SysFS.SysPath / path.Join and
// the real verifier.Verify (with the real manager and a signed
// verificationPlugin attribute) on sandbox directory trees under /tmp, with
// sentinel executables planted where traversal names resolve to, and prints
// (input, observation) cases for C16_Model.
//
// Safety: a name is only handed to the manager when every path it can resolve
// to lies inside the sandbox or does not exist (decided here with
// filepath.Join, independently of the code under test).

import (
	"bytes"
	"context"
	"crypto/sha256"
	"encoding/hex"
	"encoding/json"
	"errors"
	"fmt"
	"io/fs"
	"os"
	"path"
	"path/filepath"
	"sort"
	"strconv"
	"strings"
	"syscall"
	"time"
	"unicode/utf8"
	. "vh/kit"

	"github.com/notaryproject/notation-core-go/signature"
	"github.com/notaryproject/notation-go"
	"github.com/notaryproject/notation-go/dir"
	"github.com/notaryproject/notation-go/plugin"
	"github.com/notaryproject/notation-go/verifier"
	"github.com/notaryproject/notation-go/verifier/trustpolicy"
	"github.com/notaryproject/notation-go/verifier/truststore"
	pluginfw "github.com/notaryproject/notation-plugin-framework-go/plugin"
	"github.com/opencontainers/go-digest"
	ocispec "github.com/opencontainers/image-spec/specs-go/v1"
)

func main() { Main("c16", runC16) }

const canonTop = "/tmp"
const canonT = canonTop + "/v" // stands for the sandbox directory /tmp/vh-c16-XXXX
const srcDir = canonT + "/src/c0"

type meta struct {
	Name string `json:"name"`
	Ver  int    `json:"ver"`
}

type node struct {
	Dir  bool  `json:"dir,omitempty"`
	X    bool  `json:"x,omitempty"`
	Meta *meta `json:"meta,omitempty"`
}

func (n node) eq(m node) bool {
	if n.Dir != m.Dir || n.X != m.X || (n.Meta == nil) != (m.Meta == nil) {
		return false
	}
	return n.Meta == nil || *n.Meta == *m.Meta
}

func (n node) term() string {
	if n.Dir {
		return "NDir"
	}
	m := "None"
	if n.Meta != nil {
		m = CSome(CPair(CStr(n.Meta.Name), CN(int64(n.Meta.Ver))))
	}
	return CApp("NFile", CBool(n.X), m)
}

type entry struct {
	Path string `json:"path"` // canonical
	N    node   `json:"node"`
}

func entryTerm(e entry) string { return CPair(CStr(e.Path), e.N.term()) }

func entriesTerm(es []entry) string {
	items := make([]string, len(es))
	for i, e := range es {
		items[i] = entryTerm(e)
	}
	return CList(items)
}

type snapKey struct {
	dev   uint64
	ino   uint64
	size  int64
	mtime int64
}

type world struct {
	cache map[snapKey]*meta // content of files already read, by inode identity
	cur   map[string]node   // snapshot after the last operation (nil = unknown)
	depth int
	T, M  string // real sandbox directory, marker directory
	root  string // canonical clean plugin root
	tmpl  []entry
	dirty bool
	built bool
}

func (w *world) real(p string) string { return w.T + strings.TrimPrefix(p, canonT) }
func (w *world) canon(p string) string {
	if p == w.T || strings.HasPrefix(p, w.T+"/") {
		return canonT + strings.TrimPrefix(p, w.T)
	}
	return p
}
func (w *world) marker() string { return filepath.Join(w.M, "marker") }

// script is the content of a sentinel executable: it appends argv[0] and the
// command to the marker file and prints a metadata document (or garbage).
func (w *world) script(m *meta) []byte {
	var b bytes.Buffer
	b.WriteString("#!/bin/sh\n")
	if m == nil {
		b.WriteString("#VH -\n")
	} else {
		fmt.Fprintf(&b, "#VH %s %d\n", hex.EncodeToString([]byte(m.Name)), m.Ver)
	}
	fmt.Fprintf(&b, "printf '%%s\\0%%s\\0' \"$0\" \"$1\" >> '%s'\n", w.marker())
	if m == nil {
		b.WriteString("echo this is not a metadata document\n")
		return b.Bytes()
	}
	doc, err := json.Marshal(map[string]any{
		"name": m.Name, "description": "sentinel", "version": fmt.Sprintf("1.0.%d", m.Ver), "url": "https://example.invalid",
		"supportedContractVersions": []string{"1.0"}, "capabilities": []string{"SIGNATURE_GENERATOR.RAW"},
	})
	if err != nil {
		panic(err)
	}
	b.WriteString("cat <<'VH_EOF'\n")
	b.Write(doc)
	b.WriteString("\nVH_EOF\n")
	return b.Bytes()
}

func parseScript(content []byte) *meta {
	lines := strings.SplitN(string(content), "\n", 3)
	if len(lines) < 2 || !strings.HasPrefix(lines[1], "#VH ") {
		return nil
	}
	f := strings.Fields(lines[1][4:])
	if len(f) == 1 && f[0] != "-" {
		f = append([]string{""}, f...) // empty name encodes as an empty hex field
	}
	if len(f) != 2 {
		return nil
	}
	nm, err := hex.DecodeString(f[0])
	if err != nil {
		return nil
	}
	v, err := strconv.Atoi(f[1])
	if err != nil {
		return nil
	}
	return &meta{string(nm), v}
}

func (w *world) writeEntry(e entry) error {
	p := w.real(e.Path)
	if e.N.Dir {
		return os.MkdirAll(p, 0o755)
	}
	if err := os.MkdirAll(filepath.Dir(p), 0o755); err != nil {
		return err
	}
	mode := os.FileMode(0o644)
	if e.N.X {
		mode = 0o755
	}
	var content []byte
	if e.N.Meta == nil && !e.N.X {
		content = []byte("plain file\n")
	} else {
		content = w.script(e.N.Meta)
	}
	if err := os.WriteFile(p, content, mode); err != nil {
		return err
	}
	return os.Chmod(p, mode)
}

func file(x bool, name string, ver int) node { return node{X: x, Meta: &meta{name, ver}} }

func newWorld(depth int) *world {
	w := &world{depth: depth}
	t, err := os.MkdirTemp("/tmp", "vh-c16-")
	if err != nil {
		panic(err)
	}
	w.T = t
	w.M = t + "-m"
	if err := os.MkdirAll(w.M, 0o755); err != nil {
		panic(err)
	}
	chain := []string{canonT, canonT + "/a", canonT + "/a/b"}
	for j := 1; j < depth; j++ {
		chain = append(chain, fmt.Sprintf("%s/r%d", chain[len(chain)-1], j))
	}
	root := chain[len(chain)-1] + "/p"
	w.root = root
	es := []entry{{canonTop, node{Dir: true}}}
	for _, d := range chain {
		es = append(es, entry{d, node{Dir: true}},
			entry{d + "/victim", node{Dir: true}},
			entry{d + "/victim/victim", file(true, "../../victim", 9)},
			entry{d + "/victim/notation-..", node{Dir: true}},
			entry{d + "/victim/notation-../victim", file(true, "../victim", 9)},
			entry{d + "/victim/notation-victim", file(true, "victim", 9)},
			entry{d + "/x", file(true, "x", 1)})
	}
	es = append(es,
		entry{chain[len(chain)-1] + "/notation-..", file(true, "..", 2)},
		entry{canonT + "/src", node{Dir: true}},
		entry{root, node{Dir: true}},
		entry{root + "/good", node{Dir: true}},
		entry{root + "/good/notation-good", file(true, "good", 5)},
		entry{root + "/good/lib.so", node{}},
		entry{root + "/good/sub", node{Dir: true}},
		entry{root + "/good/sub/notation-sub", file(true, "sub", 1)},
		entry{root + "/other", node{Dir: true}},
		entry{root + "/other/notation-other", file(true, "other", 3)},
		entry{root + "/other/other", file(true, "good/../other", 1)},
		entry{root + "/notation-", file(true, "", 1)},
		entry{root + "/notation-.", file(true, ".", 1)},
		entry{root + "/broken", node{Dir: true}},
		entry{root + "/broken/notation-broken", node{X: true}},
		entry{root + "/noexec", node{Dir: true}},
		entry{root + "/noexec/notation-noexec", file(false, "noexec", 1)},
		entry{root + "/afile", node{}},
		entry{root + "/mism", node{Dir: true}},
		entry{root + "/mism/notation-mism", file(true, "good", 1)},
		entry{root + "/a\\b", node{Dir: true}},
		entry{root + "/a\\b/notation-a\\b", file(true, "a\\b", 1)},
		entry{root + "/ ", node{Dir: true}},
		entry{root + "/ /notation- ", file(true, " ", 1)},
	)
	sort.Slice(es, func(i, j int) bool { return es[i].Path < es[j].Path })
	w.tmpl = es
	return w
}

func (w *world) build() {
	os.RemoveAll(w.T)
	for _, e := range w.tmpl {
		if e.Path == canonTop {
			continue
		}
		if err := w.writeEntry(e); err != nil {
			panic(fmt.Sprintf("c16: building world: %v", err))
		}
	}
	w.built, w.dirty = true, false
	w.cur = nil
	// the template must describe exactly what is on disk
	snap := w.snapshot()
	if len(snap) != len(w.tmpl)-1 {
		panic(fmt.Sprintf("c16: world template has %d entries, disk has %d", len(w.tmpl)-1, len(snap)))
	}
	for _, e := range w.tmpl {
		if e.Path == canonTop {
			continue
		}
		if n, ok := snap[e.Path]; !ok || !n.eq(e.N) {
			panic(fmt.Sprintf("c16: world template and disk differ at %s", e.Path))
		}
	}
}

func (w *world) destroy() {
	os.RemoveAll(w.T)
	os.RemoveAll(w.M)
}

// snapshot lists everything under the sandbox directory (canonical paths).
func (w *world) snapshot() map[string]node {
	out := map[string]node{}
	filepath.WalkDir(w.T, func(p string, d fs.DirEntry, err error) error {
		if err != nil {
			return nil
		}
		cp := w.canon(p)
		if d.IsDir() {
			out[cp] = node{Dir: true}
			return nil
		}
		info, err := d.Info()
		if err != nil {
			return nil
		}
		if !info.Mode().IsRegular() {
			out[cp] = node{}
			return nil
		}
		var key snapKey
		if st, ok := info.Sys().(*syscall.Stat_t); ok {
			key = snapKey{st.Dev, st.Ino, info.Size(), info.ModTime().UnixNano()}
		}
		m, ok := w.cache[key]
		if !ok || key.ino == 0 {
			content, _ := os.ReadFile(p)
			m = parseScript(content)
			if w.cache == nil {
				w.cache = map[snapKey]*meta{}
			}
			w.cache[key] = m
		}
		out[cp] = node{X: info.Mode().Perm()&0o100 != 0, Meta: m}
		return nil
	})
	return out
}

func (w *world) readMarker() []string {
	b, err := os.ReadFile(w.marker())
	if err != nil {
		return nil
	}
	parts := strings.Split(string(b), "\x00")
	var out []string
	for i := 0; i+1 < len(parts); i += 2 {
		out = append(out, w.canon(parts[i]))
	}
	return out
}

// outside reports the resolved targets of a name that lie outside the sandbox.
func (w *world) targets(rootReal, name string) []string {
	return []string{filepath.Join(rootReal, name), filepath.Join(rootReal, path.Join(name, "notation-"+name))}
}

func (w *world) inside(p string) bool { return p == w.T || strings.HasPrefix(p, w.T+"/") }

// safe: every path the name can resolve to is inside the sandbox or does not exist.
func (w *world) safe(rootReal, name string) bool {
	for _, t := range w.targets(rootReal, name) {
		if !w.inside(t) {
			if _, err := os.Lstat(t); err == nil {
				return false
			}
		}
	}
	return true
}

func classify(err error) string {
	switch {
	case err == nil:
		return "ENone"
	case strings.Contains(err.Error(), "invalid plugin name"):
		return "EInvalid"
	case errors.Is(err, fs.ErrNotExist):
		return "ENotExist"
	}
	return "EOther"
}

type c16Case struct {
	Op        string   `json:"op"`
	Name      string   `json:"name_quoted,omitempty"`
	Depth     int      `json:"depth,omitempty"`
	Root      string   `json:"root,omitempty"`
	Src       string   `json:"src,omitempty"`
	Overwrite bool     `json:"overwrite,omitempty"`
	Extras    []entry  `json:"extras,omitempty"`
	Entries   []string `json:"entries,omitempty"`
	Format    string   `json:"format,omitempty"`
	// observation
	Err     string   `json:"obs_err"`
	Meta    string   `json:"obs_meta,omitempty"`
	Exec    []string `json:"obs_exec,omitempty"`
	Removed []string `json:"obs_removed,omitempty"`
	Written []entry  `json:"obs_written,omitempty"`
	Strs    []string `json:"obs_strs,omitempty"`
	ErrText string   `json:"error_text,omitempty"`
}

type fsObs struct {
	exec    []string
	removed []string
	written []entry
}

func runC16(a *Args) error {
	rng := NewRng(a.Seed)
	w := NewCaseWriter(a, "C16", "", "case", "run")
	w.Rule = "plugin names from a traversal grammar (../ runs of depth 0-8 x tails incl. absolute-looking ones, dot and empty names, inner/trailing separators, backslash, NUL, 255/256/300-byte names, valid and odd single components, random token strings) against plugin roots at depth 1-4 (several spellings) inside a sandbox with sentinel executables planted at the places traversal names resolve to; each name through SysPath/path.Join, Get+GetMetadata, Uninstall, and (subset) end-to-end verifier.Verify with the name in a signed critical verificationPlugin attribute, and (verify-x) with the attribute not critical / not a string, a malformed minimum-version attribute, a verifier without manager, and a signing chain the policy does NOT trust (lookup precedes authenticity); Install from file and from directory with notation-<name> file names (incl. '..', '.', backslash), overwrite on/off, existing plugin present/absent/broken; List over roots with directories, files, symlinks, FIFOs. Observed: error class, executed argv[0] (marker written by the sentinels), full before/after snapshot diff of the sandbox. non-trivial = the name is not a plain single component, or the operation executed/removed/wrote something; distinct = distinct (op, root, name, source layout)"
	w.Assumptions = []string{
		"no symbolic links inside the sandbox for Get/Uninstall/Install (List is exercised with symlinks); a symlinked plugin directory is followed by the OS and is outside the model",
		"what a plugin executable prints is an input of the model (node field m); versions are 1.0.<v>",
		"names that resolve to an existing path outside the sandbox (/, /tmp) are only run through SysPath/path.Join, not through the manager",
		"Verify: the attribute value is what notation-core-go reads back from the signed envelope (invalid UTF-8 does not survive JSON/CBOR); blank = strings.TrimSpace (Unicode white space, modelled byte-wise on UTF-8)",
		"Install: file names are valid UTF-8 (the metadata document must be able to repeat the name)",
	}
	ctx := context.Background()
	thorough := a.Tier == "thorough"

	worlds := map[int]*world{}
	for d := 1; d <= 4; d++ {
		worlds[d] = newWorld(d)
	}
	defer func() {
		for _, wd := range worlds {
			wd.destroy()
		}
	}()

	// prelude: world templates and root spellings
	var pre strings.Builder
	pre.WriteString("From NV Require Import Base C16_Path C16_Model.\nOpen Scope string_scope.\n")
	pre.WriteString("Definition ob (e : err) : obs := mk_obs e MNone [] [] [] [].\n")
	rootSpell := func(wd *world, v int) string { // canonical spelling
		switch v {
		case 1:
			return wd.root + "/"
		case 2:
			return strings.TrimSuffix(wd.root, "/p") + "/./p"
		case 3:
			return strings.TrimSuffix(wd.root, "/p") + "//victim/../p"
		}
		return wd.root
	}
	for d := 1; d <= 4; d++ {
		wd := worlds[d]
		fmt.Fprintf(&pre, "Definition W%d : fs := %s.\n", d, entriesTerm(wd.tmpl))
		for v := 0; v < 4; v++ {
			fmt.Fprintf(&pre, "Definition R%d_%d : string := %s.\n", d, v, CStr(rootSpell(wd, v)))
		}
	}
	w.Prelude = pre.String()

	// ---- running one file-system operation in a world ----
	runFs := func(wd *world, extras []entry, f func()) fsObs {
		if !wd.built || wd.dirty {
			wd.build()
		}
		for _, e := range extras {
			if err := wd.writeEntry(e); err != nil {
				panic(fmt.Sprintf("c16: writing extra %q: %v", e.Path, err))
			}
		}
		os.Remove(wd.marker())
		before := wd.cur
		if before == nil || len(extras) > 0 {
			before = wd.snapshot()
		}
		f()
		after := wd.snapshot()
		wd.cur = after
		var o fsObs
		o.exec = wd.readMarker()
		for p := range before {
			if _, ok := after[p]; !ok {
				o.removed = append(o.removed, p)
			}
		}
		for p, n := range after {
			if b, ok := before[p]; !ok || !b.eq(n) {
				o.written = append(o.written, entry{p, n})
			}
		}
		sort.Strings(o.removed)
		sort.Slice(o.written, func(i, j int) bool { return o.written[i].Path < o.written[j].Path })
		clean := true
		for _, p := range o.removed {
			if !(p == srcDir || strings.HasPrefix(p, srcDir+"/")) {
				clean = false
			}
		}
		for _, e := range o.written {
			if !strings.HasPrefix(e.Path, srcDir+"/") {
				clean = false
			}
		}
		if clean {
			if len(extras) > 0 || len(o.written) > 0 || len(o.removed) > 0 {
				os.RemoveAll(wd.real(srcDir))
				wd.cur = nil
			}
		} else {
			wd.dirty = true
			wd.cur = nil
		}
		return o
	}

	var id int64
	var skippedUnsafe int
	obsTerm := func(errc, metaT string, o fsObs, strs []string) string {
		if metaT == "MNone" && len(o.exec) == 0 && len(o.removed) == 0 && len(o.written) == 0 && len(strs) == 0 {
			return CApp("ob", errc)
		}
		return CApp("mk_obs", errc, metaT, CStrList(o.exec), CStrList(o.removed), entriesTerm(o.written), CStrList(strs))
	}
	emit := func(my int64, c *c16Case, wd *world, wname, rname string, extras []entry, opTerm, errc, metaT string, o fsObs, strs []string, nontrivial bool) {
		c.Err, c.Meta, c.Exec, c.Removed, c.Written, c.Strs = errc, metaT, o.exec, o.removed, o.written, strs
		in := CApp("mk_input", wname, entriesTerm(extras), rname, opTerm)
		term := CApp("mk_case", CN(my), in, obsTerm(errc, metaT, o, strs))
		key := fmt.Sprintf("%s|%s|%s|%s|%v|%v", c.Op, rname, c.Name, c.Src, c.Overwrite, extras)
		w.Add(my, term, c, key, nontrivial)
		w.Count("op", c.Op)
		w.Count("err", errc)
		if len(o.exec) > 0 {
			w.Count("effects", "executed")
		}
		if len(o.removed) > 0 {
			w.Count("effects", "removed")
		}
		if len(o.written) > 0 {
			w.Count("effects", "written")
		}
		if wd != nil {
			w.Count("depth", fmt.Sprint(wd.depth))
		}
	}
	plain := func(name string) bool {
		return name != "" && name != "." && name != ".." && !strings.ContainsAny(name, "/\\\x00")
	}
	// ONE manager per (world, root spelling) for the whole run: every case is a
	// step in a long history of calls on the same instance (valid and refused
	// names, lookups, removals and installs alternating)
	type mgrKey struct{ d, v int }
	mgrs := map[mgrKey]*plugin.CLIManager{}
	mgrFor := func(wd *world, v int) (*plugin.CLIManager, string) {
		rr := wd.real(rootSpell(wd, v))
		k := mgrKey{wd.depth, v}
		if mgrs[k] == nil {
			mgrs[k] = plugin.NewCLIManager(dir.NewSysFS(rr))
		}
		return mgrs[k], rr
	}
	verifiers := map[mgrKey]notation.Verifier{}
	type xKey struct {
		d, v           int
		hasPM, trusted bool
	}
	verifiersX := map[xKey]notation.Verifier{}
	// outside-the-sandbox check after an operation
	checkOutside := func(my int64, wd *world, rr, name string, c *c16Case) {
		for _, t := range wd.targets(rr, name) {
			if !wd.inside(t) {
				if _, err := os.Lstat(t); err == nil {
					w.ImplViolation(my, "a path outside the sandbox came into existence: "+t, c, "")
					if b := filepath.Base(t); strings.HasPrefix(b, "victim") || strings.HasPrefix(b, "vh-c16") {
						os.RemoveAll(t)
					}
				}
			}
		}
	}

	// ---- per-name operations ----
	nameOps := func(name string, d, v int, doVerify bool, vf *verifyKit) {
		wd := worlds[d]
		wname, rname := fmt.Sprintf("W%d", d), fmt.Sprintf("R%d_%d", d, v)
		mgr, rr := mgrFor(wd, v)
		q := strconv.Quote(name)
		// OPath
		if my := id; w.Want(my) {
			sfs := dir.NewSysFS(rr)
			p1, _ := sfs.SysPath(name)
			p2, _ := sfs.SysPath(path.Join(name, "notation-"+name))
			c := &c16Case{Op: "path", Name: q, Depth: d, Root: rootSpell(wd, v)}
			emit(my, c, wd, wname, rname, nil, CApp("OPath", CStr(name)), "ENone", "MNone", fsObs{}, []string{wd.canon(p1), wd.canon(p2)}, !plain(name))
		}
		id++
		safe := wd.safe(rr, name)
		if !safe {
			skippedUnsafe++
		}
		// OGet
		if my := id; w.Want(my) && safe {
			c := &c16Case{Op: "get", Name: q, Depth: d, Root: rootSpell(wd, v)}
			var errc, metaT string
			o := runFs(wd, nil, func() {
				cctx, cancel := context.WithTimeout(ctx, 20*time.Second)
				defer cancel()
				p, err := mgr.Get(cctx, name)
				errc, metaT = classify(err), "MNone"
				if err != nil {
					c.ErrText = Short(err.Error(), 200)
					return
				}
				md, err := p.GetMetadata(cctx, &pluginfw.GetMetadataRequest{})
				if err != nil {
					metaT = "MErr"
					c.ErrText = Short(err.Error(), 200)
					return
				}
				ver, _ := strconv.Atoi(strings.TrimPrefix(md.Version, "1.0."))
				metaT = CApp("MOk", CN(int64(ver)))
			})
			checkOutside(my, wd, rr, name, c)
			emit(my, c, wd, wname, rname, nil, CApp("OGet", CStr(name)), errc, metaT, o, nil, !plain(name) || len(o.exec) > 0)
		}
		id++
		// OUninstall
		if my := id; w.Want(my) && safe {
			c := &c16Case{Op: "uninstall", Name: q, Depth: d, Root: rootSpell(wd, v)}
			var errc string
			o := runFs(wd, nil, func() {
				err := mgr.Uninstall(ctx, name)
				errc = classify(err)
				if err != nil {
					c.ErrText = Short(err.Error(), 200)
				}
			})
			checkOutside(my, wd, rr, name, c)
			emit(my, c, wd, wname, rname, nil, CApp("OUninstall", CStr(name)), errc, "MNone", o, nil, !plain(name) || len(o.removed) > 0)
		}
		id++
		// OVerify
		if my := id; doVerify && w.Want(my) && safe {
			format := MtJWS
			if my%2 == 1 {
				format = MtCOSE
			}
			env, seen, ok := vf.envelope(format, name)
			if ok {
				c := &c16Case{Op: "verify", Name: strconv.Quote(seen), Depth: d, Root: rootSpell(wd, v), Format: format}
				var errc string
				o := runFs(wd, nil, func() {
					vr := verifiers[mgrKey{d, v}]
					if vr == nil {
						var err error
						vr, err = verifier.New(vf.policy, vf.store, mgr)
						if err != nil {
							panic(fmt.Sprintf("c16: verifier: %v", err))
						}
						verifiers[mgrKey{d, v}] = vr
					}
					var err error
					cctx, cancel := context.WithTimeout(ctx, 30*time.Second)
					defer cancel()
					_, err = vr.Verify(cctx, vf.desc, env, notation.VerifierVerifyOptions{ArtifactReference: TestRef, SignatureMediaType: format})
					errc = "ENone"
					if err != nil {
						msg := err.Error()
						c.ErrText = Short(msg, 240)
						switch {
						case strings.Contains(msg, "from extended attribute is an empty string"):
							errc = "EEmpty"
						case strings.Contains(msg, "error while locating the verification plugin"):
							switch {
							case strings.Contains(msg, "invalid plugin name"):
								errc = "EInvalid"
							case strings.Contains(msg, "no such file or directory"):
								errc = "ENotExist"
							default:
								errc = "EOther"
							}
						}
					}
				})
				checkOutside(my, wd, rr, seen, c)
				emit(my, c, wd, wname, rname, nil, CApp("OVerify", CStr(seen)), errc, "MNone", o, nil, !plain(seen) || len(o.exec) > 0)
			}
		}
		id++
		// OVerifyAbsent: the same verifier instance, a signature without the attribute
		if my := id; doVerify && my%7 == 0 && w.Want(my) {
			format := MtJWS
			if (my/7)%2 == 1 {
				format = MtCOSE
			}
			if env, ok := vf.envelopeAbsent(format); ok {
				c := &c16Case{Op: "verify-absent", Depth: d, Root: rootSpell(wd, v), Format: format}
				errc := "ENone"
				o := runFs(wd, nil, func() {
					vr := verifiers[mgrKey{d, v}]
					if vr == nil {
						var err error
						vr, err = verifier.New(vf.policy, vf.store, mgr)
						if err != nil {
							panic(fmt.Sprintf("c16: verifier: %v", err))
						}
						verifiers[mgrKey{d, v}] = vr
					}
					cctx, cancel := context.WithTimeout(ctx, 30*time.Second)
					defer cancel()
					_, err := vr.Verify(cctx, vf.desc, env, notation.VerifierVerifyOptions{ArtifactReference: TestRef, SignatureMediaType: format})
					if err != nil {
						msg := err.Error()
						c.ErrText = Short(msg, 240)
						switch {
						case strings.Contains(msg, "invalid plugin name"):
							errc = "EInvalid"
						case strings.Contains(msg, "plugin"):
							errc = "EOther"
						}
					}
				})
				emit(my, c, wd, wname, rname, nil, "OVerifyAbsent", errc, "MNone", o, nil, true)
			}
		}
		id++
		// OVerifyX: the attribute in every shape the verifier distinguishes before it calls the
		// manager (not critical, not a string, a string), a malformed minimum-version attribute,
		// a verifier without plugin manager, and a signing certificate that is NOT trusted by
		// the policy (the lookup happens before authenticity is evaluated). The shape is read
		// back from notation-core-go, not assumed from construction.
		if my := id; doVerify && w.Want(my) && safe {
			format := MtJWS
			if (my/3)%2 == 1 {
				format = MtCOSE
			}
			variant := int(my % 6)
			attrs := []signature.Attribute{{Key: "io.cncf.notary.verificationPlugin", Critical: true, Value: name}}
			minvBad, hasPM, trusted := false, true, true
			switch variant {
			case 0, 5:
				trusted = false
			case 1:
				attrs[0].Critical = false
			case 2:
				attrs[0].Value = int64(len(name) + 7)
			case 3:
				minvBad = true
				attrs = append(attrs, signature.Attribute{Key: "io.cncf.notary.verificationPluginMinVersion", Critical: true, Value: "not.a.version"})
			case 4:
				hasPM = false
			}
			if env, shape, seen, ok := vf.envelopeX(format, attrs); ok && (shape != "VStr" && shape != "VNotCritical" || wd.safe(rr, seen)) {
				var attrT string
				switch shape {
				case "VStr", "VNotCritical":
					attrT = CApp(shape, CStr(seen))
				default:
					attrT = shape
				}
				c := &c16Case{Op: "verify-x", Name: strconv.Quote(seen), Depth: d, Root: rootSpell(wd, v), Format: fmt.Sprintf("%s attr=%s minvBad=%v pm=%v trusted=%v", format, shape, minvBad, hasPM, trusted)}
				var errc string
				o := runFs(wd, nil, func() {
					key := xKey{d, v, hasPM, trusted}
					vr := verifiersX[key]
					if vr == nil {
						pol := vf.policy
						if !trusted {
							pol = vf.policyU
						}
						var pm plugin.Manager
						if hasPM {
							pm = mgr
						}
						var err error
						vr, err = verifier.New(pol, vf.store, pm)
						if err != nil {
							panic(fmt.Sprintf("c16: verifier: %v", err))
						}
						verifiersX[key] = vr
					}
					cctx, cancel := context.WithTimeout(ctx, 30*time.Second)
					defer cancel()
					_, err := vr.Verify(cctx, vf.desc, env, notation.VerifierVerifyOptions{ArtifactReference: TestRef, SignatureMediaType: format})
					errc = verifyClass(err)
					if err != nil {
						c.ErrText = Short(err.Error(), 240)
					}
				})
				if shape == "VStr" {
					checkOutside(my, wd, rr, seen, c)
				}
				emit(my, c, wd, wname, rname, nil, CApp("OVerifyX", attrT, CBool(minvBad), CBool(hasPM), CBool(trusted)), errc, "MNone", o, nil, true)
				w.Count("verify-x", fmt.Sprintf("%s minvBad=%v pm=%v trusted=%v", shape, minvBad, hasPM, trusted))
			}
		}
		id++
	}

	vf := newVerifyKit()

	// ---- the name grammar ----
	var names []string
	add := func(n string) { names = append(names, n) }
	tails := []string{"victim", "x", "", "victim/victim", "victim/notation-victim", "notation-..", "p/good", "p", "good",
		"/victim", "/tmp/vh-c16-none/victim", "etc/vh-c16-none", ".", "victim/", "victim/."}
	for k := 0; k <= 8; k++ {
		up := strings.Repeat("../", k)
		for _, t := range tails {
			add(up + t)
			if k > 0 && (t == "victim" || t == "x" || t == "") {
				add("./" + up + t)
				add("good/" + up + t)
				add(strings.TrimSuffix(up, "/") + "//" + t)
				add("/" + up + t)
			}
		}
		if k > 0 {
			add(strings.TrimSuffix(up, "/"))
			add(strings.Repeat("..\\", k) + "victim")
			add(up + "victim\x00")
			add(strings.Repeat("..", k))
			add(strings.Repeat(".", k))
		}
	}
	for _, n := range []string{"", ".", "..", "...", "....", ".good", "good.", "..good", "good..", "..x", "x..", ".notation-", ". .", ".. ", " ..", "..\t", "./good", "good/.", "good/", "good//", "/good", "//good", "good/..",
		"good/../other", "good/sub", "good/./sub", "good/sub/..", "good/notation-good", "other/other", "./", "/", "//", "/.", "/..", "../", "..//", "./..", "./.",
		"a\\b", "..\\victim", "good\\", "\\", "\\..", "..\\", "a\\..\\b", "\\good", "good\\sub",
		"good\x00", "\x00", "../\x00", "go\x00od", "\x00good", "good\x00/../x", ".\x00", "..\x00",
		"good", "other", "broken", "noexec", "afile", "mism", "missing", "victim", "x", "p", "a b", " good", "good ", " ", "  ", "\t", "\n", " \t\n", "a\nb", "-", "~", "~root", "$HOME", "`id`",
		"notation-", "notation-good", "a:b", "C:", "C:\\x", "a*b", "a?b", "%2e%2e", "..%2f", "%2e%2e%2fvictim", "..%2fvictim", "..%5cvictim", "g\xc3\xa9", "\xef\xbc\x8e\xef\xbc\x8e", "..\xe2\x88\x95victim",
		"\xe2\x80\xa6", "\xff", "..\xff", "good\r", "\x7f", "con", "nul", "good.exe", "GOOD", "Good",
		strings.Repeat("a", 255), strings.Repeat("a", 256), strings.Repeat("a", 300), "../" + strings.Repeat("a", 300), strings.Repeat("a", 300) + "/..", strings.Repeat("a", 300) + "/../good",
		strings.Repeat("../", 40) + "victim", strings.Repeat("a/", 20) + "b", strings.Repeat("/", 50), strings.Repeat("good/../", 10) + "good",
		// Unicode white space (strings.TrimSpace of the attribute value) and look-alikes that are not
		"\u00a0", "\u0085", "\u1680", "\u2000", "\u2003", "\u200a", "\u2028", "\u2029", "\u202f", "\u205f", "\u3000", " \u00a0\t\u3000", "\u00a0good", "good\u00a0", "\u00a0..", "../\u2003",
		"\u200b", "\u180e", "\ufeff", "\u2060", "\u00a0\u200b", "\xc2", "\xc2\x20", "\xe2\x80", "\xe2\x80\x20", "\xe3\x80", "\xc2\xa1", "\xe2\x80\x8b", "\xe1\x9a\x81", "\x85", "\xa0", "\u00a0\xa0"} {
		add(n)
	}
	// names derived from the installed plugins by one edit each (padding, case, separators,
	// dots, NUL): every one of them must be refused or must stay in its OWN directory
	nDerivedFrom := len(names)
	for _, base := range []string{"good", "other", "broken", "noexec"} {
		up := strings.ToUpper(base)
		for _, n := range []string{" " + base, base + " ", "\t" + base, base + "\n", base + "\r\n", " " + base + " ", up, strings.ToUpper(base[:1]) + base[1:], base[:1] + strings.ToUpper(base[1:]),
			base + "/", base + "//", "./" + base, base + "/.", "/" + base, base + ".", "." + base, base + "..", base + "\x00", base + "\\", base + "/../" + base, "x/../" + base, base + "%00", base + "\xc2\xa0", "\xc2\xa0" + base} {
			add(n)
		}
	}
	nDerivedTo := len(names)
	nFixed := len(names)
	nRandom := 900
	if thorough {
		nRandom = 30000
	}
	tokens := []string{"..", "..", ".", "/", "/", "/", "\\", "\x00", "a", "good", "victim", "x", "other", " ", "p", "notation-", "b", "r1", "sub", "afile", "...", "-"}
	for k := 0; k < nRandom; k++ {
		n := 1 + rng.Intn(7)
		var b strings.Builder
		for j := 0; j < n; j++ {
			b.WriteString(Pick(rng, tokens))
		}
		add(b.String())
	}
	w.Set("names_fixed", nFixed)
	w.Set("names_random", nRandom)

	asciiOnly := func(s string) bool {
		for i := 0; i < len(s); i++ {
			if s[i] >= 0x80 {
				return false
			}
		}
		return true
	}
	// jobs are collected first and then interleaved (names : installs), so that
	// the expensive install cases are spread over all shards
	var nameJobs, installJobs []func()
	for i, n := range names {
		i, n := i, n
		fixed := i < nFixed
		derived := i >= nDerivedFrom && i < nDerivedTo
		doVerify := len(n) < 400 && (derived || fixed && (i%2 == 0 || !asciiOnly(n)) || !fixed && i%6 == 0 || thorough && fixed)
		if thorough && fixed {
			for d := 1; d <= 4; d++ {
				d := d
				nameJobs = append(nameJobs, func() { nameOps(n, d, (i+d)%4, doVerify, vf) })
			}
			continue
		}
		d := 1 + i%4
		v := 0
		if i%5 == 4 {
			v = 1 + (i/5)%3
		}
		nameJobs = append(nameJobs, func() { nameOps(n, d, v, doVerify, vf) })
	}

	// ---- installs ----
	type srcFile struct {
		name string
		n    node
	}
	var instSeq int
	installNow := func(d, v int, fromFile bool, files []srcFile, subdir bool, ow bool) {
		my := id
		id++
		if !w.Want(my) {
			return
		}
		seenName := map[string]bool{}
		for _, f := range files {
			if seenName[f.name] {
				return // the same file name twice: not a directory
			}
			seenName[f.name] = true
		}
		wd := worlds[d]
		wname, rname := fmt.Sprintf("W%d", d), fmt.Sprintf("R%d_%d", d, v)
		mgr, rr := mgrFor(wd, v)
		extras := []entry{{srcDir, node{Dir: true}}}
		for _, f := range files {
			extras = append(extras, entry{srcDir + "/" + f.name, f.n})
		}
		if subdir {
			extras = append(extras, entry{srcDir + "/zsub", node{Dir: true}}, entry{srcDir + "/zsub/notation-zsub", file(true, "zsub", 1)})
		}
		src := srcDir
		if fromFile {
			src = srcDir + "/" + files[0].name
		}
		// safety: the names this source can stand for
		for _, f := range files {
			if nm, ok := strings.CutPrefix(f.name, "notation-"); ok && !wd.safe(rr, nm) {
				skippedUnsafe++
				return
			}
		}
		op := "install-dir"
		if fromFile {
			op = "install-file"
		}
		var fl []string
		for _, f := range files {
			fl = append(fl, strconv.Quote(f.name))
		}
		c := &c16Case{Op: op, Name: strings.Join(fl, ","), Depth: d, Root: rootSpell(wd, v), Src: src, Overwrite: ow, Extras: extras}
		var errc string
		o := runFs(wd, extras, func() {
			cctx, cancel := context.WithTimeout(ctx, 30*time.Second)
			defer cancel()
			_, _, err := mgr.Install(cctx, plugin.CLIInstallOptions{PluginPath: wd.real(src), Overwrite: ow})
			errc = classify(err)
			if err != nil {
				c.ErrText = Short(err.Error(), 240)
			}
		})
		nontriv := len(o.exec) > 0 || len(o.written) > 0 || len(o.removed) > 0
		emit(my, c, wd, wname, rname, extras, CApp("OInstall", CStr(src), CBool(ow)), errc, "MNone", o, nil, nontriv)
	}
	installCase := func(d, v int, fromFile bool, files []srcFile, subdir bool, ow bool) {
		installJobs = append(installJobs, func() { installNow(d, v, fromFile, files, subdir, ow) })
	}
	instNames := []string{"..", ".", "...", "a\\b", "..\\victim", "good", "other", "broken", "noexec", "afile", "mism", "fresh", "victim", "x", " ", "a b", "notation-", "-",
		"good.", ".good", "p", "%2e%2e", "\n", "g\xc3\xa9", strings.Repeat("a", 240), strings.Repeat("a", 246), "C:", "\\", "..\\..", "new\\"}
	for _, n := range instNames {
		if !utf8.ValidString(n) {
			continue
		}
		vers := []int{7}
		if n == "good" || n == "other" {
			vers = []int{3, 5, 7} // around the installed versions 5 and 3
		}
		for _, ow := range []bool{false, true} {
			for _, ver := range vers {
				instSeq++
				d := 1 + instSeq%4
				fn := "notation-" + n
				// from a file
				installCase(d, 0, true, []srcFile{{fn, file(true, n, ver)}}, false, ow)
				// from a directory: the executable alone, with a library and a sub-directory
				installCase(d, instSeq%4, false, []srcFile{{fn, file(true, n, ver)}, {"lib.so", node{}}}, true, ow)
			}
			instSeq++
			d := 1 + instSeq%4
			fn := "notation-" + n
			// not executable: file install refuses, directory install sets the bit on the single candidate
			installCase(d, 0, true, []srcFile{{fn, file(false, n, 7)}}, false, ow)
			installCase(d, 0, false, []srcFile{{fn, file(false, n, 7)}}, false, ow)
			// metadata name differs from the file name
			installCase(d, 0, true, []srcFile{{fn, file(true, "good", 7)}}, false, ow)
			installCase(d, 0, false, []srcFile{{fn, file(true, "..", 7)}}, false, ow)
			// two candidates: one executable, one not; two executables
			installCase(d, 0, false, []srcFile{{fn, file(true, n, 7)}, {"notation-zz", file(false, "zz", 7)}}, false, ow)
			installCase(d, 0, false, []srcFile{{fn, file(false, n, 7)}, {"notation-..", file(true, "..", 7)}}, false, ow)
			installCase(d, 0, false, []srcFile{{fn, file(true, n, 7)}, {"notation-zz", file(true, "zz", 7)}}, false, ow)
			installCase(d, 0, false, []srcFile{{fn, file(false, n, 7)}, {"notation-zz", file(false, "zz", 7)}}, false, ow)
			// garbage output, no candidate at all
			installCase(d, 0, true, []srcFile{{fn, node{X: true}}}, false, ow)
		}
	}
	installCase(1, 0, false, []srcFile{{"readme", node{}}}, true, true)
	installCase(2, 0, true, []srcFile{{"plugin-good", file(true, "good", 7)}}, false, true)
	for _, ow := range []bool{false, true} {
		for d := 1; d <= 4; d++ {
			// the three file names whose derived name is not a component, metadata repeating the name
			for _, n := range []string{"..", ".", ""} {
				fn := "notation-" + n
				installCase(d, 0, true, []srcFile{{fn, file(true, n, 7)}}, false, ow)
				installCase(d, d%4, false, []srcFile{{fn, file(true, n, 7)}}, false, ow)
				installCase(d, 0, false, []srcFile{{fn, file(false, n, 7)}}, false, ow)
				// candidate position: a non-executable candidate before / after the executable
				installCase(d, 0, false, []srcFile{{"notation-!", file(false, "!", 7)}, {fn, file(true, n, 7)}, {"notation-zz", file(false, "zz", 7)}}, false, ow)
			}
		}
		// the prefix twice, and not at the start: the name is everything after the FIRST
		// "notation-" at position 0; the metadata names the tail, the whole rest, or the file
		for d := 1; d <= 2; d++ {
			for _, mn := range []string{"fresh", "notation-fresh", "good"} {
				installCase(d, 0, true, []srcFile{{"notation-notation-" + mn, file(true, mn, 7)}}, false, ow)
				installCase(d, 0, false, []srcFile{{"notation-notation-" + mn, file(true, mn, 7)}}, false, ow)
				installCase(d, 0, true, []srcFile{{"notation-notation-" + mn, file(true, "notation-"+mn, 7)}}, false, ow)
				installCase(d, 0, true, []srcFile{{"xnotation-" + mn, file(true, mn, 7)}}, false, ow)
				installCase(d, 0, false, []srcFile{{"xnotation-" + mn, file(true, mn, 7)}, {"lib.so", node{}}}, false, ow)
				installCase(d, 0, true, []srcFile{{"Notation-" + mn, file(true, mn, 7)}}, false, ow)
				installCase(d, 0, true, []srcFile{{"notation-" + strings.ToUpper(mn), file(true, mn, 7)}}, false, ow)
				installCase(d, 0, true, []srcFile{{"notation-" + mn + " ", file(true, mn, 7)}}, false, ow)
				installCase(d, 0, true, []srcFile{{"notation- " + mn, file(true, mn, 7)}}, false, ow)
			}
		}
		// candidate position with a valid name: before, between, after other files
		installCase(1, 0, false, []srcFile{{"a.txt", node{}}, {"notation-fresh", file(true, "fresh", 7)}, {"z.txt", node{}}}, false, ow)
		installCase(2, 0, false, []srcFile{{"notation-!", file(false, "!", 7)}, {"notation-fresh", file(true, "fresh", 7)}, {"notation-zz", file(false, "zz", 7)}}, true, ow)
		installCase(3, 0, false, []srcFile{{"notation-fresh", file(true, "fresh", 7)}, {"notation-zz", file(false, "zz", 7)}, {"z.txt", node{}}}, false, ow)
		installCase(4, 0, false, []srcFile{{"a.txt", node{}}, {"notation-!", file(false, "!", 7)}, {"notation-fresh", file(true, "fresh", 7)}}, false, ow)
	}

	// ---- histories: Install -> Get -> [source replaced / removed] -> Get -> Uninstall -> Get -> Install -> Get ----
	// Every step is its own case on the world as it is at that moment (the entries that
	// differ from the template are the case's extras); all steps run on the long-lived
	// manager of the world, and the steps always execute (also in replay mode), so that
	// the state a step depends on is there.
	histSeq := 0
	history := func(d, v int, fromFile, ow bool) {
		histSeq++
		name := fmt.Sprintf("h%d", histSeq)
		installJobs = append(installJobs, func() {
			wd := worlds[d]
			wname, rname := fmt.Sprintf("W%d", d), fmt.Sprintf("R%d_%d", d, v)
			mgr, rr := mgrFor(wd, v)
			if !wd.built || wd.dirty {
				wd.build()
			}
			tm := map[string]node{}
			for _, e := range wd.tmpl {
				tm[e.Path] = e.N
			}
			srcFile := srcDir + "/notation-" + name
			src := srcDir
			if fromFile {
				src = srcFile
			}
			putSource := func(ver int) {
				os.RemoveAll(wd.real(srcDir))
				es := []entry{{srcDir, node{Dir: true}}, {srcFile, file(true, name, ver)}}
				if !fromFile {
					es = append(es, entry{srcDir + "/lib.so", node{}})
				}
				for _, e := range es {
					if err := wd.writeEntry(e); err != nil {
						panic(err)
					}
				}
			}
			// one step: returns false when the world no longer extends the template
			step := func(c *c16Case, opTerm string, f func() (string, string)) bool {
				my := id
				id++
				before := wd.snapshot()
				var extras []entry
				for p, n := range before {
					if t, ok := tm[p]; !ok || !t.eq(n) {
						extras = append(extras, entry{p, n})
					}
				}
				for p := range tm {
					if _, ok := before[p]; !ok && p != canonTop {
						return false
					}
				}
				sort.Slice(extras, func(i, j int) bool { return extras[i].Path < extras[j].Path })
				os.Remove(wd.marker())
				errc, metaT := f()
				after := wd.snapshot()
				var o fsObs
				o.exec = wd.readMarker()
				for p := range before {
					if _, ok := after[p]; !ok {
						o.removed = append(o.removed, p)
					}
				}
				for p, n := range after {
					if b, ok := before[p]; !ok || !b.eq(n) {
						o.written = append(o.written, entry{p, n})
					}
				}
				sort.Strings(o.removed)
				sort.Slice(o.written, func(i, j int) bool { return o.written[i].Path < o.written[j].Path })
				if w.Want(my) {
					c.Depth, c.Root, c.Extras = d, rootSpell(wd, v), extras
					c.Op = "history-" + c.Op
					emit(my, c, wd, wname, rname, extras, opTerm, errc, metaT, o, nil, true)
				}
				return true
			}
			getStep := func() bool {
				c := &c16Case{Op: "get", Name: strconv.Quote(name)}
				return step(c, CApp("OGet", CStr(name)), func() (string, string) {
					cctx, cancel := context.WithTimeout(ctx, 20*time.Second)
					defer cancel()
					p, err := mgr.Get(cctx, name)
					if err != nil {
						c.ErrText = Short(err.Error(), 200)
						return classify(err), "MNone"
					}
					md, err := p.GetMetadata(cctx, &pluginfw.GetMetadataRequest{})
					if err != nil {
						c.ErrText = Short(err.Error(), 200)
						return "ENone", "MErr"
					}
					ver, _ := strconv.Atoi(strings.TrimPrefix(md.Version, "1.0."))
					return "ENone", CApp("MOk", CN(int64(ver)))
				})
			}
			installStep := func() bool {
				c := &c16Case{Op: "install", Name: strconv.Quote("notation-" + name), Src: src, Overwrite: ow}
				return step(c, CApp("OInstall", CStr(src), CBool(ow)), func() (string, string) {
					cctx, cancel := context.WithTimeout(ctx, 30*time.Second)
					defer cancel()
					_, _, err := mgr.Install(cctx, plugin.CLIInstallOptions{PluginPath: wd.real(src), Overwrite: ow})
					if err != nil {
						c.ErrText = Short(err.Error(), 200)
					}
					return classify(err), "MNone"
				})
			}
			uninstallStep := func() bool {
				c := &c16Case{Op: "uninstall", Name: strconv.Quote(name)}
				return step(c, CApp("OUninstall", CStr(name)), func() (string, string) {
					err := mgr.Uninstall(ctx, name)
					if err != nil {
						c.ErrText = Short(err.Error(), 200)
					}
					return classify(err), "MNone"
				})
			}
			_ = rr
			verifyStep := func() bool {
				env, seen, okEnv := vf.envelope(MtJWS, name)
				if !okEnv || seen != name {
					id++
					return true
				}
				c := &c16Case{Op: "verify", Name: strconv.Quote(name), Format: MtJWS}
				return step(c, CApp("OVerify", CStr(name)), func() (string, string) {
					vr := verifiers[mgrKey{d, v}]
					if vr == nil {
						var err error
						vr, err = verifier.New(vf.policy, vf.store, mgr)
						if err != nil {
							panic(fmt.Sprintf("c16: verifier: %v", err))
						}
						verifiers[mgrKey{d, v}] = vr
					}
					cctx, cancel := context.WithTimeout(ctx, 30*time.Second)
					defer cancel()
					_, err := vr.Verify(cctx, vf.desc, env, notation.VerifierVerifyOptions{ArtifactReference: TestRef, SignatureMediaType: MtJWS})
					if err != nil {
						msg := err.Error()
						c.ErrText = Short(msg, 240)
						if strings.Contains(msg, "error while locating the verification plugin") {
							switch {
							case strings.Contains(msg, "invalid plugin name"):
								return "EInvalid", "MNone"
							case strings.Contains(msg, "no such file or directory"):
								return "ENotExist", "MNone"
							}
							return "EOther", "MNone"
						}
					}
					return "ENone", "MNone"
				})
			}
			ok := true
			run := func(f func() bool) {
				if ok {
					ok = f()
				} else {
					id++ // keep ids stable
				}
			}
			putSource(5)
			run(getStep)     // not installed yet
			run(installStep) // installs version 5
			run(getStep)     // the installed copy
			putSource(9)     // the source is replaced by another marker-writing script
			run(getStep)     // still the installed copy (version 5)
			run(verifyStep)  // the verifier's lookup: the installed copy
			os.RemoveAll(wd.real(srcDir))
			run(getStep) // source gone: still the installed copy
			putSource(7)
			run(uninstallStep)
			run(getStep) // removed: not found, nothing runs (the source exists)
			run(verifyStep)
			run(installStep) // version 7
			putSource(9)
			run(getStep)     // the installed copy (version 7), not the source
			run(installStep) // upgrade to 9 (or overwrite)
			putSource(3)
			run(getStep)
			os.RemoveAll(wd.real(srcDir))
			wd.dirty, wd.cur = true, nil
		})
	}
	for k := 0; k < 8; k++ {
		history(1+k%4, (k/4)%2, k%2 == 0, (k/2)%2 == 0)
	}

	// ---- near-name siblings: ONE root holding the operated plugin X and, next to it, entries whose
	// names are related to X (X.old, X.new, X.tmp, X.bak, X~, .X, X-1, "X " , X.exe, notation-X, a
	// prefix of X and an extension X-bar), each a real plugin (kind 0), a stray file (kind 1) or a
	// symbolic link (kind 2). Install (fresh, upgrade, refused downgrade / overwrite), Get,
	// Uninstall, List on X; every step is a case on the world as it is (model: the whole sandbox
	// diff), plus a FULL-ROOT frame check on the Go side: kind, mode and content hash of everything
	// under the plugin root outside <root>/X must be the same before and after the step.
	sibSeq := 0
	siblingHistory := func(d, v int, fromFile, ow bool, kind int) {
		sibSeq++
		name := fmt.Sprintf("sx%d", sibSeq)
		installJobs = append(installJobs, func() {
			wd := worlds[d]
			wname, rname := fmt.Sprintf("W%d", d), fmt.Sprintf("R%d_%d", d, v)
			mgr, rr := mgrFor(wd, v)
			if !wd.built || wd.dirty {
				wd.build()
			}
			tm := map[string]node{}
			for _, e := range wd.tmpl {
				tm[e.Path] = e.N
			}
			sibs := []string{name + ".old", name + ".new", name + ".tmp", name + ".bak", name + "~", "." + name, name + "-1",
				name + " ", name + ".exe", "notation-" + name, name[:len(name)-1], name + "-bar", strings.ToUpper(name)}
			for i, sb := range sibs {
				switch {
				case kind == 0 || (kind == 3 && i%3 == 0):
					for _, e := range []entry{{wd.root + "/" + sb, node{Dir: true}}, {wd.root + "/" + sb + "/notation-" + sb, file(true, sb, 4)},
						{wd.root + "/" + sb + "/lib.so", node{}}} {
						if err := wd.writeEntry(e); err != nil {
							panic(err)
						}
					}
				case kind == 1 || (kind == 3 && i%3 == 1):
					if err := wd.writeEntry(entry{wd.root + "/" + sb, node{}}); err != nil {
						panic(err)
					}
				default:
					if err := os.Symlink(wd.real(wd.root+"/other"), wd.real(wd.root+"/"+sb)); err != nil {
						panic(err)
					}
				}
			}
			srcFile := srcDir + "/notation-" + name
			src := srcDir
			if fromFile {
				src = srcFile
			}
			putSource := func(ver int) {
				os.RemoveAll(wd.real(srcDir))
				es := []entry{{srcDir, node{Dir: true}}, {srcFile, file(true, name, ver)}}
				if !fromFile {
					es = append(es, entry{srcDir + "/lib.so", node{}})
				}
				for _, e := range es {
					if err := wd.writeEntry(e); err != nil {
						panic(err)
					}
				}
			}
			// frame: everything under the plugin root except <root>/<name>
			own := wd.real(wd.root + "/" + name)
			frame := func() map[string]string {
				out := map[string]string{}
				filepath.WalkDir(wd.real(wd.root), func(p string, de fs.DirEntry, err error) error {
					if err != nil {
						out[p] = "error"
						return nil
					}
					if p == own {
						return fs.SkipDir
					}
					li, err := os.Lstat(p)
					if err != nil {
						out[p] = "error"
						return nil
					}
					desc := li.Mode().String()
					switch {
					case li.Mode().IsRegular():
						b, _ := os.ReadFile(p)
						desc += " " + fmt.Sprintf("%x", sha256.Sum256(b))
					case li.Mode()&os.ModeSymlink != 0:
						t, _ := os.Readlink(p)
						desc += " -> " + t
					}
					out[wd.canon(p)] = desc
					return nil
				})
				return out
			}
			step := func(c *c16Case, opTerm string, strs func() []string, f func() (string, string)) bool {
				my := id
				id++
				before := wd.snapshot()
				var extras []entry
				for p, n := range before {
					if t, ok := tm[p]; !ok || !t.eq(n) {
						extras = append(extras, entry{p, n})
					}
				}
				for p := range tm {
					if _, ok := before[p]; !ok && p != canonTop {
						return false
					}
				}
				sort.Slice(extras, func(i, j int) bool { return extras[i].Path < extras[j].Path })
				os.Remove(wd.marker())
				fr0 := frame()
				errc, metaT := f()
				fr1 := frame()
				after := wd.snapshot()
				var o fsObs
				o.exec = wd.readMarker()
				for p := range before {
					if _, ok := after[p]; !ok {
						o.removed = append(o.removed, p)
					}
				}
				for p, n := range after {
					if b, ok := before[p]; !ok || !b.eq(n) {
						o.written = append(o.written, entry{p, n})
					}
				}
				sort.Strings(o.removed)
				sort.Slice(o.written, func(i, j int) bool { return o.written[i].Path < o.written[j].Path })
				if w.Want(my) {
					c.Depth, c.Root, c.Extras = d, rootSpell(wd, v), extras
					c.Op = "sibling-" + c.Op
					var diff []string
					for p, a0 := range fr0 {
						if a1, ok := fr1[p]; !ok {
							diff = append(diff, "gone: "+p)
						} else if a1 != a0 {
							diff = append(diff, "changed: "+p)
						}
					}
					for p := range fr1 {
						if _, ok := fr0[p]; !ok {
							diff = append(diff, "new: "+p)
						}
					}
					sort.Strings(diff)
					if len(diff) > 0 {
						w.ImplViolation(my, fmt.Sprintf("operation on plugin %q changed the plugin root outside <root>/%s: %s", name, name, Short(strings.Join(diff, "; "), 400)), c, "")
					}
					var ss []string
					if strs != nil {
						ss = strs()
					}
					emit(my, c, wd, wname, rname, extras, opTerm, errc, metaT, o, ss, true)
				}
				return true
			}
			getStep := func(nm string) func() bool {
				return func() bool {
					c := &c16Case{Op: "get", Name: strconv.Quote(nm)}
					return step(c, CApp("OGet", CStr(nm)), nil, func() (string, string) {
						cctx, cancel := context.WithTimeout(ctx, 20*time.Second)
						defer cancel()
						p, err := mgr.Get(cctx, nm)
						if err != nil {
							c.ErrText = Short(err.Error(), 200)
							return classify(err), "MNone"
						}
						md, err := p.GetMetadata(cctx, &pluginfw.GetMetadataRequest{})
						if err != nil {
							c.ErrText = Short(err.Error(), 200)
							return "ENone", "MErr"
						}
						ver, _ := strconv.Atoi(strings.TrimPrefix(md.Version, "1.0."))
						return "ENone", CApp("MOk", CN(int64(ver)))
					})
				}
			}
			installStep := func() bool {
				c := &c16Case{Op: "install", Name: strconv.Quote("notation-" + name), Src: src, Overwrite: ow}
				return step(c, CApp("OInstall", CStr(src), CBool(ow)), nil, func() (string, string) {
					cctx, cancel := context.WithTimeout(ctx, 30*time.Second)
					defer cancel()
					_, _, err := mgr.Install(cctx, plugin.CLIInstallOptions{PluginPath: wd.real(src), Overwrite: ow})
					if err != nil {
						c.ErrText = Short(err.Error(), 200)
					}
					return classify(err), "MNone"
				})
			}
			uninstallStep := func() bool {
				c := &c16Case{Op: "uninstall", Name: strconv.Quote(name)}
				return step(c, CApp("OUninstall", CStr(name)), nil, func() (string, string) {
					err := mgr.Uninstall(ctx, name)
					if err != nil {
						c.ErrText = Short(err.Error(), 200)
					}
					return classify(err), "MNone"
				})
			}
			listStep := func() bool {
				ents, kinds := readEntries(rr)
				var got []string
				c := &c16Case{Op: "list", Entries: kinds}
				return step(c, CApp("OList", "true", ents), func() []string { return got }, func() (string, string) {
					var err error
					got, err = mgr.List(ctx)
					return classify(err), "MNone"
				})
			}
			ok := true
			run := func(f func() bool) {
				if ok {
					ok = f()
				} else {
					id++ // keep ids stable
				}
			}
			putSource(5)
			run(installStep) // fresh
			run(listStep)
			run(getStep(name))
			putSource(7)
			run(installStep) // upgrade (or overwrite)
			run(getStep(name))
			if kind == 0 {
				run(getStep(name + ".old")) // the neighbour is still a working plugin
			} else {
				id++
			}
			run(listStep)
			putSource(3)
			run(installStep) // downgrade: refused without overwrite
			putSource(7)
			run(installStep) // equal version: refused without overwrite
			run(uninstallStep)
			run(listStep)
			putSource(9)
			run(installStep) // fresh again, neighbours still there
			run(listStep)
			os.RemoveAll(wd.real(srcDir))
			wd.dirty, wd.cur = true, nil
		})
	}
	for k, sh := range []struct {
		kind         int
		fromFile, ow bool
	}{{0, true, false}, {0, false, true}, {1, true, true}, {2, false, false}, {3, true, false}, {0, false, false}} {
		siblingHistory(1+k%4, (k/2)%2, sh.fromFile, sh.ow, sh.kind)
	}

	// interleave
	{
		ni, ii := 0, 0
		for ni < len(nameJobs) || ii < len(installJobs) {
			// keep the two streams in proportion
			if ii >= len(installJobs) || (ni < len(nameJobs) && ni*len(installJobs) <= ii*len(nameJobs)) {
				nameJobs[ni]()
				ni++
			} else {
				installJobs[ii]()
				ii++
			}
		}
	}

	// ---- listings ----
	listCases(a, w, rng, &id, thorough)
	for d := 1; d <= 4; d++ {
		// the listing of the sandbox roots themselves
		my := id
		id++
		if !w.Want(my) {
			continue
		}
		wd := worlds[d]
		if !wd.built || wd.dirty {
			wd.build()
		}
		mgr, rr := mgrFor(wd, 0)
		ents, kinds := readEntries(rr)
		got, err := mgr.List(ctx)
		c := &c16Case{Op: "list", Depth: d, Root: wd.root, Entries: kinds}
		emit(my, c, wd, "[]", fmt.Sprintf("R%d_0", d), nil, CApp("OList", "true", ents), classify(err), "MNone", fsObs{}, got, true)
	}

	w.Set("skipped_unsafe_names", skippedUnsafe)
	return w.Close()
}

// readEntries describes the entries of a directory in ReadDir order.
func readEntries(root string) (string, []string) {
	des, _ := os.ReadDir(root)
	var items, kinds []string
	for _, de := range des {
		p := filepath.Join(root, de.Name())
		li, err := os.Lstat(p)
		k := "KOther"
		if err == nil {
			switch {
			case li.Mode().IsDir():
				k = "KDir"
			case li.Mode().IsRegular():
				k = "KFile"
			case li.Mode()&os.ModeSymlink != 0:
				ti, err := os.Stat(p)
				switch {
				case err != nil:
					k = "KLinkDangling"
				case ti.IsDir():
					k = "KLinkDir"
				default:
					k = "KLinkFile"
				}
			}
		}
		items = append(items, CPair(CStr(de.Name()), k))
		kinds = append(kinds, strconv.Quote(de.Name())+":"+k)
	}
	return CList(items), kinds
}

func listCases(a *Args, w *CaseWriter, rng *Rng, id *int64, thorough bool) {
	base, err := os.MkdirTemp("/tmp", "vh-c16l-")
	if err != nil {
		panic(err)
	}
	defer os.RemoveAll(base)
	tdir := filepath.Join(base, "targets", "d")
	os.MkdirAll(tdir, 0o755)
	os.WriteFile(filepath.Join(tdir, "notation-d"), []byte("x"), 0o755)
	tfile := filepath.Join(base, "targets", "f")
	os.WriteFile(tfile, []byte("x"), 0o644)
	n := 160
	if thorough {
		n = 3000
	}
	pool := []string{"a", "b", "good", "other", ".hidden", "a b", "notation-x", "a\\b", "zz", "link", "..x", "x..", "-", "victim", "0", "Z", "~", "g\xc3\xa9", "q.d", "plugins"}
	ctx := context.Background()
	for k := 0; k < n; k++ {
		my := *id
		*id++
		// draw before Want so that the stream does not depend on replay
		cnt := rng.Intn(7)
		type ent struct {
			name string
			kind int
		}
		var ents []ent
		used := map[string]bool{}
		for j := 0; j < cnt; j++ {
			nm := Pick(rng, pool)
			kind := rng.Intn(7)
			if used[nm] {
				continue
			}
			used[nm] = true
			ents = append(ents, ent{nm, kind})
		}
		if k < 15 {
			// systematic: one odd entry (file, link to dir, link to file, dangling link, FIFO)
			// first / in the middle / last among real directories
			odd, pos := 2+k%5, k/5
			ents = nil
			for j, nm := range []string{"a", "m", "z"} {
				kind := 0
				if j == pos {
					kind = odd
				}
				ents = append(ents, ent{nm, kind})
			}
		}
		exists := !(k%23 == 22)
		if !w.Want(my) {
			continue
		}
		root := filepath.Join(base, "root")
		os.RemoveAll(root)
		if exists {
			os.MkdirAll(root, 0o755)
			for _, e := range ents {
				p := filepath.Join(root, e.name)
				switch e.kind {
				case 0, 1:
					os.MkdirAll(p, 0o755)
					os.WriteFile(filepath.Join(p, "notation-"+e.name), []byte("x"), 0o755)
					if e.kind == 1 {
						os.MkdirAll(filepath.Join(p, "nested"), 0o755)
					}
				case 2:
					os.WriteFile(p, []byte("x"), 0o755)
				case 3:
					os.Symlink(tdir, p)
				case 4:
					os.Symlink(tfile, p)
				case 5:
					os.Symlink(filepath.Join(base, "nowhere"), p)
				case 6:
					syscall.Mkfifo(p, 0o644)
				}
			}
		}
		mgr := plugin.NewCLIManager(dir.NewSysFS(root))
		entT, kinds := readEntries(root)
		got, err, blocked := listWithDeadline(ctx, mgr, root)
		if blocked {
			w.ImplViolation(my, "List did not return within 1.5 s (it opened a FIFO entry of the plugin root)", &c16Case{Op: "list", Root: "/tmp/vh-c16l/root", Entries: kinds}, "")
		}
		_, kinds2 := readEntries(root)
		c := &c16Case{Op: "list", Root: "/tmp/vh-c16l/root", Entries: kinds, Err: classify(err), Strs: got}
		var o fsObs
		if strings.Join(kinds, "|") != strings.Join(kinds2, "|") {
			o.written = []entry{{"/tmp/vh-c16l/root", node{Dir: true}}}
		}
		obs := CApp("mk_obs", classify(err), "MNone", "[]", "[]", entriesTerm(o.written), CStrList(got))
		in := CApp("mk_input", "[]", "[]", CStr("/tmp/vh-c16l/root"), CApp("OList", CBool(exists), entT))
		nontriv := false
		for _, e := range ents {
			if e.kind >= 3 {
				nontriv = true
			}
		}
		w.Add(my, CApp("mk_case", CN(my), in, obs), c, "list|"+strings.Join(kinds, "|")+fmt.Sprint(exists), nontriv)
		w.Count("op", "list")
		w.Count("err", classify(err))
	}
}

// listWithDeadline runs List with a 1.5 s watchdog; when it blocks (on a FIFO
// of the root) the FIFOs are released by opening them for writing.
func listWithDeadline(ctx context.Context, mgr *plugin.CLIManager, root string) ([]string, error, bool) {
	type res struct {
		got []string
		err error
	}
	ch := make(chan res, 1)
	go func() {
		g, e := mgr.List(ctx)
		ch <- res{g, e}
	}()
	select {
	case r := <-ch:
		return r.got, r.err, false
	case <-time.After(1500 * time.Millisecond):
	}
	for tries := 0; tries < 50; tries++ {
		des, _ := os.ReadDir(root)
		for _, de := range des {
			if de.Type()&os.ModeNamedPipe != 0 {
				if f, err := os.OpenFile(filepath.Join(root, de.Name()), os.O_WRONLY|syscall.O_NONBLOCK, 0); err == nil {
					f.Close()
				}
			}
		}
		select {
		case r := <-ch:
			return r.got, r.err, true
		case <-time.After(100 * time.Millisecond):
		}
	}
	return nil, errors.New("List blocked"), true
}

// ---- end-to-end verification ----

type verifyKit struct {
	chain   Chain
	store   *MockStore
	desc    ocispec.Descriptor
	policy  *trustpolicy.OCIDocument
	policyU *trustpolicy.OCIDocument // the signing chain's root is not in its trust store
}

// verifyClass canonicalises the error of an end-to-end verification with respect to the
// plugin lookup: EEmpty / EInvalid / ENotExist / EOther = it stopped at or before the lookup
// for that reason; ENone = it went past the lookup (whatever happened later).
func verifyClass(err error) string {
	if err == nil {
		return "ENone"
	}
	msg := err.Error()
	switch {
	case strings.Contains(msg, "io.cncf.notary.verificationPlugin from extended attribute is an empty string"):
		return "EEmpty"
	case strings.Contains(msg, "error while locating the verification plugin"):
		switch {
		case strings.Contains(msg, "invalid plugin name"):
			return "EInvalid"
		case strings.Contains(msg, "no such file or directory"):
			return "ENotExist"
		}
		return "EOther"
	case strings.Contains(msg, "io.cncf.notary.verificationPlugin is not a critical Extended attribute"),
		strings.Contains(msg, "io.cncf.notary.verificationPlugin from extended attribute is not a string"),
		strings.Contains(msg, "error while getting plugin minimum version"),
		strings.Contains(msg, "plugin unsupported due to nil verifier.pluginManager"):
		return "EOther"
	}
	return "ENone"
}

// envelopeX signs an envelope with the given extended attributes and reports the shape of
// the verificationPlugin attribute as notation-core-go reads it back.
func (k *verifyKit) envelopeX(format string, attrs []signature.Attribute) (env []byte, shape, seen string, ok bool) {
	env, err := SignEnvelope(EnvSpec{Format: format, Chain: k.chain, Payload: PayloadFor(k.desc), Scheme: signature.SigningSchemeX509, ExtAttrs: attrs})
	if err != nil {
		return nil, "", "", false
	}
	content, err := CoreVerify(format, env)
	if err != nil {
		return nil, "", "", false
	}
	at, err := content.SignerInfo.ExtendedAttribute("io.cncf.notary.verificationPlugin")
	if err != nil {
		return env, "VAbsent", "", true
	}
	str, isStr := at.Value.(string)
	switch {
	case !at.Critical:
		return env, "VNotCritical", str, true
	case !isStr:
		return env, "VNotString", "", true
	}
	return env, "VStr", str, true
}

func newVerifyKit() *verifyKit {
	now := time.Now()
	k := &verifyKit{}
	k.chain = NewChain("c16", 2, now.Add(-48*time.Hour), now.Add(48*time.Hour))
	k.desc = ocispec.Descriptor{MediaType: "application/vnd.oci.image.manifest.v1+json", Digest: digest.Digest(strings.TrimPrefix(TestRef, TestScope+"@")), Size: 528}
	k.store = NewMockStore()
	k.store.Put(truststore.TypeCA, "s", k.chain[len(k.chain)-1].C)
	k.policy = OCIPolicy("strict", nil, []string{"ca:s"}, []string{"*"}, "")
	// a policy whose trust store holds another root: the signing chain is not trusted
	other := NewChain("c16-other", 2, now.Add(-48*time.Hour), now.Add(48*time.Hour))
	k.store.Put(truststore.TypeCA, "u", other[len(other)-1].C)
	k.policyU = OCIPolicy("strict", nil, []string{"ca:u"}, []string{"*"}, "")
	return k
}

// envelope signs an envelope whose critical verificationPlugin attribute is
// name and returns it with the value notation-core-go reads back from it.
func (k *verifyKit) envelopeAbsent(format string) ([]byte, bool) {
	env, err := SignEnvelope(EnvSpec{Format: format, Chain: k.chain, Payload: PayloadFor(k.desc), Scheme: signature.SigningSchemeX509})
	if err != nil {
		return nil, false
	}
	content, err := CoreVerify(format, env)
	if err != nil || len(content.SignerInfo.SignedAttributes.ExtendedAttributes) != 0 {
		return nil, false
	}
	return env, true
}

func (k *verifyKit) envelope(format, name string) ([]byte, string, bool) {
	env, err := SignEnvelope(EnvSpec{Format: format, Chain: k.chain, Payload: PayloadFor(k.desc), Scheme: signature.SigningSchemeX509,
		ExtAttrs: []signature.Attribute{{Key: "io.cncf.notary.verificationPlugin", Critical: true, Value: name}}})
	if err != nil {
		return nil, "", false
	}
	content, err := CoreVerify(format, env)
	if err != nil {
		return nil, "", false
	}
	for _, at := range content.SignerInfo.SignedAttributes.ExtendedAttributes {
		if ks, ok := at.Key.(string); ok && ks == "io.cncf.notary.verificationPlugin" {
			if s, ok := at.Value.(string); ok {
				return env, s, true
			}
		}
	}
	return nil, "", false
}
