package main

// C07 driver: feeds the output of the real signing API (notation.SignOCI /
// notation.SignBlob with signer.NewGenericSigner and signer.NewPluginSigner
// over a scripted plugin) into the real verification API (notation.Verify /
// notation.VerifyBlob with verifier.NewVerifierWithOptions) and prints
// (input, observation) cases for C07_Model.

import (
	"bytes"
	"compress/gzip"
	"context"
	"crypto"
	"crypto/ecdsa"
	"crypto/elliptic"
	"crypto/rand"
	"crypto/rsa"
	"crypto/x509"
	"encoding/json"
	"encoding/pem"
	"errors"
	"fmt"
	"io"
	"mime"
	"os"
	"path/filepath"
	"reflect"
	"runtime"
	"sort"
	"strings"
	"testing/iotest"
	"time"
	. "vh/kit"

	"github.com/notaryproject/notation-core-go/signature"
	"github.com/notaryproject/notation-go"
	"github.com/notaryproject/notation-go/signer"
	"github.com/notaryproject/notation-go/verifier"
	"github.com/notaryproject/notation-go/verifier/trustpolicy"
	"github.com/notaryproject/notation-go/verifier/truststore"
	pluginfw "github.com/notaryproject/notation-plugin-framework-go/plugin"
	"github.com/opencontainers/go-digest"
	ocispec "github.com/opencontainers/image-spec/specs-go/v1"
)

func main() { Main("c07", runC07) }

// ---------- keys ----------

type keyInfo struct {
	Name  string // plugin key spec name, e.g. RSA-2048
	Type  string // KRSA | KEC
	Size  int
	Key   crypto.Signer
	Chain []*x509.Certificate // leaf, root
}

var specNames = []string{"RSA-2048", "RSA-3072", "RSA-4096", "EC-256", "EC-384", "EC-521"}

// rsaKey loads the cached RSA key of the given size (RSA-4096 generation takes
// seconds), generating and storing it under $VERIF_ROOT/harness/keys at first use.
func rsaKey(bits int) *rsa.PrivateKey {
	root := os.Getenv("VERIF_ROOT")
	if root == "" {
		root = "/verif"
	}
	p := filepath.Join(root, "harness", "keys", fmt.Sprintf("c07_rsa%d.pem", bits))
	if b, err := os.ReadFile(p); err == nil {
		if blk, _ := pem.Decode(b); blk != nil {
			if k, err := x509.ParsePKCS1PrivateKey(blk.Bytes); err == nil && k.N.BitLen() == bits {
				return k
			}
		}
	}
	k, err := rsa.GenerateKey(rand.Reader, bits)
	if err != nil {
		panic(err)
	}
	if err := os.MkdirAll(filepath.Dir(p), 0o755); err == nil {
		tmp := fmt.Sprintf("%s.%d.tmp", p, os.Getpid())
		if os.WriteFile(tmp, pem.EncodeToMemory(&pem.Block{Type: "RSA PRIVATE KEY", Bytes: x509.MarshalPKCS1PrivateKey(k)}), 0o600) == nil {
			os.Rename(tmp, p)
		}
	}
	return k
}

func makeKeys(root *Cert) []*keyInfo {
	var out []*keyInfo
	for _, n := range specNames {
		ki := &keyInfo{Name: n}
		switch n {
		case "RSA-2048", "RSA-3072", "RSA-4096":
			fmt.Sscanf(n, "RSA-%d", &ki.Size)
			ki.Type = "KRSA"
			ki.Key = rsaKey(ki.Size)
		default:
			fmt.Sscanf(n, "EC-%d", &ki.Size)
			ki.Type = "KEC"
			curve := map[int]elliptic.Curve{256: elliptic.P256(), 384: elliptic.P384(), 521: elliptic.P521()}[ki.Size]
			k, err := ecdsa.GenerateKey(curve, rand.Reader)
			if err != nil {
				panic(err)
			}
			ki.Key = k
		}
		leaf := Mint(CertSpec{Subject: Name("c07 leaf " + n), Leaf: true, Key: ki.Key}, root)
		ki.Chain = []*x509.Certificate{leaf.C, root.C}
		// ground truth about the key is asked from core
		ks, err := signature.ExtractKeySpec(leaf.C)
		if err != nil {
			panic(err)
		}
		if ks.Size != ki.Size || (ks.Type == signature.KeyTypeRSA) != (ki.Type == "KRSA") {
			panic("c07: key spec of minted certificate differs from the requested one")
		}
		out = append(out, ki)
	}
	return out
}

// ---------- scripted plugin ----------

const (
	plugName   = "vh-plugin"
	plugVer    = "1.2.3"
	penvAgent  = "vh-envelope-plugin/9"
	plugKeyID  = "key-7"
	payloadMT  = "application/vnd.cncf.notary.payload.v1+json"
	scopedRepo = TestScope
)

type scriptPlugin struct {
	key      *keyInfo
	caps     []pluginfw.Capability
	describe string
	// recorded
	yield   bool // runtime.Gosched() at the entry of every command (concurrency family)
	sigReq  *pluginfw.GenerateSignatureRequest
	envReq  *pluginfw.GenerateEnvelopeRequest
	envTime time.Time
}

func (p *scriptPlugin) GetMetadata(ctx context.Context, req *pluginfw.GetMetadataRequest) (*pluginfw.GetMetadataResponse, error) {
	if p.yield {
		runtime.Gosched()
	}
	return &pluginfw.GetMetadataResponse{Name: plugName, Description: "scripted", Version: plugVer, URL: "https://example.invalid",
		SupportedContractVersions: []string{pluginfw.ContractVersion}, Capabilities: p.caps}, nil
}

func (p *scriptPlugin) DescribeKey(ctx context.Context, req *pluginfw.DescribeKeyRequest) (*pluginfw.DescribeKeyResponse, error) {
	if p.yield {
		runtime.Gosched()
	}
	return &pluginfw.DescribeKeyResponse{KeyID: req.KeyID, KeySpec: pluginfw.KeySpec(p.describe)}, nil
}

func (p *scriptPlugin) GenerateSignature(ctx context.Context, req *pluginfw.GenerateSignatureRequest) (*pluginfw.GenerateSignatureResponse, error) {
	if p.yield {
		runtime.Gosched()
	}
	p.sigReq = req
	// a faithful plugin: it hashes with the algorithm it is told to use
	h := map[pluginfw.HashAlgorithm]crypto.Hash{pluginfw.HashAlgorithmSHA256: crypto.SHA256, pluginfw.HashAlgorithmSHA384: crypto.SHA384, pluginfw.HashAlgorithmSHA512: crypto.SHA512}[req.Hash]
	if h == 0 {
		return nil, fmt.Errorf("scripted plugin: unknown hash %q", req.Hash)
	}
	hh := h.New()
	hh.Write(req.Payload)
	dg := hh.Sum(nil)
	var sig []byte
	var err error
	switch k := p.key.Key.(type) {
	case *rsa.PrivateKey:
		sig, err = rsa.SignPSS(rand.Reader, k, h, dg, &rsa.PSSOptions{SaltLength: rsa.PSSSaltLengthEqualsHash})
	case *ecdsa.PrivateKey:
		r, s, e := ecdsa.Sign(rand.Reader, k, dg)
		err = e
		if e == nil {
			n := (k.Curve.Params().N.BitLen() + 7) / 8
			sig = make([]byte, 2*n)
			r.FillBytes(sig[:n])
			s.FillBytes(sig[n:])
		}
	}
	if err != nil {
		return nil, err
	}
	var chain [][]byte
	for _, c := range p.key.Chain {
		chain = append(chain, c.Raw)
	}
	return &pluginfw.GenerateSignatureResponse{KeyID: req.KeyID, Signature: sig, CertificateChain: chain}, nil
}

func (p *scriptPlugin) GenerateEnvelope(ctx context.Context, req *pluginfw.GenerateEnvelopeRequest) (*pluginfw.GenerateEnvelopeResponse, error) {
	if p.yield {
		runtime.Gosched()
	}
	p.envReq = req
	ls, err := signature.NewLocalSigner(p.key.Chain, p.key.Key)
	if err != nil {
		return nil, err
	}
	env, err := signature.NewEnvelope(req.SignatureEnvelopeType)
	if err != nil {
		return nil, err
	}
	now := time.Now()
	p.envTime = now
	sr := &signature.SignRequest{
		Payload:       signature.Payload{ContentType: req.PayloadType, Content: req.Payload},
		Signer:        ls,
		SigningTime:   now,
		SigningScheme: signature.SigningSchemeX509,
		SigningAgent:  penvAgent,
	}
	if req.ExpiryDurationInSeconds != 0 {
		sr.Expiry = now.Add(time.Duration(req.ExpiryDurationInSeconds) * time.Second)
	}
	b, err := env.Sign(sr)
	if err != nil {
		return nil, err
	}
	return &pluginfw.GenerateEnvelopeResponse{SignatureEnvelope: b, SignatureEnvelopeType: req.SignatureEnvelopeType}, nil
}

// ---------- shims that record the digest algorithm asked from the generator ----------

type blobSignerShim struct {
	inner notation.BlobSigner
	alg   *string
}

func (s blobSignerShim) SignBlob(ctx context.Context, gen notation.BlobDescriptorGenerator, opts notation.SignerSignOptions) ([]byte, *signature.SignerInfo, error) {
	return s.inner.SignBlob(ctx, func(a digest.Algorithm) (ocispec.Descriptor, error) {
		*s.alg = string(a)
		return gen(a)
	}, opts)
}

type blobVerifierShim struct {
	inner notation.BlobVerifier
	alg   *string
}

func (s blobVerifierShim) VerifyBlob(ctx context.Context, gen notation.BlobDescriptorGenerator, sig []byte, opts notation.BlobVerifierVerifyOptions) (*notation.VerificationOutcome, error) {
	return s.inner.VerifyBlob(ctx, func(a digest.Algorithm) (ocispec.Descriptor, error) {
		*s.alg = string(a)
		return gen(a)
	}, sig, opts)
}

// ---------- mock repository ----------

type sigEntry struct {
	mt   string
	blob []byte
	man  ocispec.Descriptor // the signature manifest descriptor the repository lists (with the manifest annotations)
}

type mockRepo struct {
	desc ocispec.Descriptor // what every reference resolves to
	sigs []sigEntry
}

func (r *mockRepo) Resolve(ctx context.Context, reference string) (ocispec.Descriptor, error) {
	// the repository hands out ITS descriptor (annotation map, url slice and data shared with the
	// caller's object): the harness snapshots it before the call and compares afterwards
	return r.desc, nil
}

// ListSignatures lists, as registry.Repository does over a registry or an OCI layout, the signature
// manifest descriptors WITH the annotations of the manifests (certificate thumbprints, creation time).
func (r *mockRepo) ListSignatures(ctx context.Context, desc ocispec.Descriptor, fn func([]ocispec.Descriptor) error) error {
	var ms []ocispec.Descriptor
	for _, s := range r.sigs {
		m := s.man
		m.Annotations = cpMap(s.man.Annotations)
		ms = append(ms, m)
	}
	return fn(ms)
}

func (r *mockRepo) FetchSignatureBlob(ctx context.Context, desc ocispec.Descriptor) ([]byte, ocispec.Descriptor, error) {
	for _, s := range r.sigs {
		if s.man.Digest == desc.Digest {
			return s.blob, ocispec.Descriptor{MediaType: s.mt, Digest: digest.FromBytes(s.blob), Size: int64(len(s.blob))}, nil
		}
	}
	return nil, ocispec.Descriptor{}, errors.New("mock: no such signature")
}

func (r *mockRepo) PushSignature(ctx context.Context, mediaType string, blob []byte, subject ocispec.Descriptor, annotations map[string]string) (ocispec.Descriptor, ocispec.Descriptor, error) {
	bd := ocispec.Descriptor{MediaType: mediaType, Digest: digest.FromBytes(blob), Size: int64(len(blob))}
	man := ocispec.Descriptor{MediaType: "application/vnd.oci.image.manifest.v1+json", Digest: digest.FromString("m" + string(bd.Digest)), Size: int64(700 + len(r.sigs)),
		ArtifactType: "application/vnd.cncf.notary.signature", Annotations: cpMap(annotations)}
	r.sigs = append(r.sigs, sigEntry{mediaType, append([]byte(nil), blob...), man})
	return bd, man, nil
}

// ---------- case description ----------

type c07Desc struct {
	MT       string            `json:"mediaType"`
	Digest   string            `json:"digest"`
	Size     int64             `json:"size"`
	URLs     []string          `json:"urls,omitempty"`
	Anns     map[string]string `json:"annotations,omitempty"`
	Data     string            `json:"data,omitempty"`
	Platform string            `json:"platform,omitempty"`
	AType    string            `json:"artifactType,omitempty"`
	EmptyAnn bool              `json:"annotations_empty_map,omitempty"` // non-nil empty annotation map
}

type c07Blob struct {
	Seed  uint64 `json:"content_seed"` // content = pseudo-random bytes from this seed
	Size  int    `json:"size"`
	MT    string `json:"media_type"`
	Flip  bool   `json:"one_byte_changed,omitempty"`
	Extra int    `json:"bytes_appended,omitempty"`
	// shape of the io.Reader handed to the API: "" = bytes.Reader (has WriteTo), plain (no WriteTo),
	// dataerr (last bytes together with io.EOF), gzip, onebyte, half, zeronil ((0, nil) now and then),
	// fail / fail-data (a non-EOF error after FailAt bytes, without / together with data)
	Reader string `json:"reader,omitempty"`
	FailAt int    `json:"fail_after_bytes,omitempty"`
}

type c07Case struct {
	Family  string            `json:"family"`
	Kind    string            `json:"kind"`   // oci | blob
	Signer  string            `json:"signer"` // local | plugin
	CapSig  bool              `json:"plugin_cap_signature,omitempty"`
	CapEnv  bool              `json:"plugin_cap_envelope,omitempty"`
	Desc    string            `json:"plugin_describe_key,omitempty"`
	Key     string            `json:"key"`
	Format  string            `json:"format"`
	OCI     *c07Desc          `json:"descriptor,omitempty"`
	Blob    *c07Blob          `json:"blob,omitempty"`
	Meta    map[string]string `json:"user_metadata,omitempty"`
	DurNs   int64             `json:"expiry_duration_ns"`
	Agent   string            `json:"signing_agent,omitempty"`
	Trusted bool              `json:"trusted"`
	VOCI    *c07Desc          `json:"verify_descriptor,omitempty"`
	VBlob   *c07Blob          `json:"verify_blob,omitempty"`
	VMeta   map[string]string `json:"verify_user_metadata,omitempty"`
	// one signer INSTANCE is shared by the cases of a history group, in generation order
	Group string `json:"history_group,omitempty"`
	// the history passes the SAME map objects (user metadata, plugin config, on both sides) at every step
	SharedMaps bool `json:"history_shares_map_objects,omitempty"`
	// other signatures the repository lists with the genuine one at verification
	// (other-desc: trusted signer, other artifact and metadata values; untrusted: same artifact, untrusted signer)
	Decoys   []string `json:"decoy_signatures,omitempty"`
	DecoyPos string   `json:"decoy_position,omitempty"` // before | after | both
	// timed family: the clock read just before verification is an input of the model (C07_Multi.model_at);
	// WaitExpiry: verification starts only after the expiry written into the envelope
	Timed      bool `json:"verification_time_is_an_input,omitempty"`
	WaitExpiry bool `json:"verify_after_expiry,omitempty"`
	// non-nil empty maps instead of nil
	MetaEmpty  bool `json:"user_metadata_empty_map,omitempty"`
	VMetaEmpty bool `json:"verify_user_metadata_empty_map,omitempty"`
	// observation (filled by the run)
	Obs map[string]any `json:"obs,omitempty"`
}

func (d *c07Desc) toOCI() ocispec.Descriptor {
	o := ocispec.Descriptor{MediaType: d.MT, Digest: digest.Digest(d.Digest), Size: d.Size, URLs: d.URLs, ArtifactType: d.AType}
	if d.Anns != nil || d.EmptyAnn {
		o.Annotations = map[string]string{}
		for k, v := range d.Anns {
			o.Annotations[k] = v
		}
	}
	if d.Data != "" {
		o.Data = []byte(d.Data)
	}
	if d.Platform != "" {
		p := strings.SplitN(d.Platform, "/", 2)
		o.Platform = &ocispec.Platform{OS: p[0], Architecture: p[1]}
	}
	return o
}

func descTerm(o ocispec.Descriptor) string {
	plat := ""
	if o.Platform != nil {
		plat = o.Platform.OS + "/" + o.Platform.Architecture
	}
	return CApp("mk_descr", CStr(o.MediaType), CStr(string(o.Digest)), CZ(o.Size), CStrList(o.URLs), CMap(o.Annotations),
		CStr(string(o.Data)), CStr(plat), CStr(o.ArtifactType))
}

func blobBytes(b *c07Blob) []byte {
	r := NewRng(b.Seed)
	out := make([]byte, b.Size, b.Size+b.Extra)
	for i := 0; i < len(out); i += 8 {
		v := r.U64()
		for j := 0; j < 8 && i+j < len(out); j++ {
			out[i+j] = byte(v >> (8 * j))
		}
	}
	if b.Flip && len(out) > 0 {
		out[len(out)/2] ^= 0x40
	}
	for i := 0; i < b.Extra; i++ {
		out = append(out, byte(i))
	}
	return out
}

// blobTerm: the truth about the blob is computed here over the complete content,
// whatever the shape of the reader the API gets.
func blobTerm(content []byte, readErr bool) string {
	return CApp("mk_blob", CZ(int64(len(content))), CStr(string(digest.SHA256.FromBytes(content))),
		CStr(string(digest.SHA384.FromBytes(content))), CStr(string(digest.SHA512.FromBytes(content))), CBool(readErr))
}

var errInjected = errors.New("c07: injected read failure")

type zeroNilReader struct {
	b []byte
	n int
}

func (r *zeroNilReader) Read(p []byte) (int, error) {
	r.n++
	if r.n%3 == 1 {
		return 0, nil
	}
	if len(r.b) == 0 {
		return 0, io.EOF
	}
	k := 1000 + 37*r.n
	if k > len(p) {
		k = len(p)
	}
	if k > len(r.b) {
		k = len(r.b)
	}
	copy(p, r.b[:k])
	r.b = r.b[k:]
	return k, nil
}

type failReader struct {
	b        []byte
	at       int
	withData bool
	pos      int
}

func (r *failReader) Read(p []byte) (int, error) {
	left := r.at - r.pos
	if left <= 0 {
		return 0, errInjected
	}
	k := len(p)
	if k > left {
		k = left
	}
	copy(p, r.b[r.pos:r.pos+k])
	r.pos += k
	if r.withData && r.pos >= r.at {
		return k, errInjected
	}
	return k, nil
}

func readErr(b *c07Blob) bool { return b.Reader == "fail" || b.Reader == "fail-data" }

func mkReader(b *c07Blob, content []byte) io.Reader {
	switch b.Reader {
	case "plain":
		return struct{ io.Reader }{bytes.NewReader(content)}
	case "dataerr":
		return iotest.DataErrReader(bytes.NewReader(content))
	case "gzip":
		var buf bytes.Buffer
		zw := gzip.NewWriter(&buf)
		zw.Write(content)
		zw.Close()
		zr, err := gzip.NewReader(&buf)
		if err != nil {
			panic(err)
		}
		return zr
	case "onebyte":
		return iotest.OneByteReader(bytes.NewReader(content))
	case "half":
		return iotest.HalfReader(bytes.NewReader(content))
	case "zeronil":
		return &zeroNilReader{b: content}
	case "fail", "fail-data":
		at := b.FailAt
		if at > len(content) {
			at = len(content)
		}
		return &failReader{b: content, at: at, withData: b.Reader == "fail-data"}
	}
	return bytes.NewReader(content)
}

func mtOK(mt string) bool {
	_, _, err := mime.ParseMediaType(mt)
	return err == nil
}

func optStr(s string, present bool) string {
	if !present {
		return "None"
	}
	return CSome(CStr(s))
}

func signClass(err error) int64 {
	if err == nil {
		return 0
	}
	m := err.Error()
	for _, s := range []string{"expiry duration cannot be a negative value", "expiry duration supports minimum granularity of seconds",
		"signature media-type cannot be empty", "invalid signature media-type", "content media-type cannot be empty", "invalid content media-type"} {
		if strings.HasPrefix(m, s) {
			return 1
		}
	}
	if strings.HasPrefix(m, "error adding user metadata") {
		return 2
	}
	return 3
}

func verifyClass(err error) int64 {
	if err == nil {
		return 0
	}
	m := err.Error()
	var um notation.ErrorUserMetadataVerificationFailed
	var au *signature.SignatureAuthenticityError
	switch {
	case strings.HasPrefix(m, "invalid content media-type"), strings.HasPrefix(m, "invalid signature media-type"):
		return 4
	case errors.As(err, &um):
		return 3
	case strings.Contains(m, "content descriptor mismatch"), strings.Contains(m, "integrity check failed. signature does not match the given blob"):
		return 2
	case strings.Contains(m, "failed to generate descriptor for given artifact"):
		return 5
	case strings.Contains(m, "digital signature has expired"):
		return 6
	case errors.As(err, &au), strings.Contains(m, "signature is not produced by a trusted signer"):
		return 1
	}
	return 9
}

var algNames = map[signature.Algorithm]string{signature.AlgorithmPS256: "PS256", signature.AlgorithmPS384: "PS384", signature.AlgorithmPS512: "PS512",
	signature.AlgorithmES256: "ES256", signature.AlgorithmES384: "ES384", signature.AlgorithmES512: "ES512"}

func sortedKeys(m map[string]json.RawMessage) []string {
	out := make([]string, 0, len(m))
	for k := range m {
		out = append(out, k)
	}
	sort.Strings(out)
	return out
}

// ---------- the run ----------

type signerBoth interface {
	notation.Signer
	notation.BlobSigner
}

// override: the concurrency family supplies the (shared) signer instance, the per-call scripted
// plugin that records the requests, and the per-call context
type override struct {
	sg   signerBoth
	plug *scriptPlugin
	ctx  context.Context
}

type execResult struct {
	wrap         string // constructor of the case kind: XS (default) | XT
	term, key    string
	signed       bool
	sc, vcode    int64
	shash, vhash string
	payload, ret *ocispec.Descriptor
	meta         map[string]string
	hasMeta      bool
	viol, frame  []string
}

type groupState struct {
	sg   signerBoth
	plug *scriptPlugin
	// histories with shared maps: the SAME map objects are passed at every step
	shared                    bool
	meta, vmeta, pcfg, vpcfg map[string]string
}

func cpMap(m map[string]string) map[string]string {
	if m == nil {
		return nil
	}
	o := make(map[string]string, len(m))
	for k, v := range m {
		o[k] = v
	}
	return o
}

// frameSnap is a deep snapshot of the caller-owned objects handed to the library by reference.
type frameSnap map[string]any

func descSnap(d *ocispec.Descriptor) any {
	if d == nil {
		return nil
	}
	return []any{cpMap(d.Annotations), append([]string(nil), d.URLs...), append([]byte(nil), d.Data...), d.MediaType, d.Digest, d.Size, d.ArtifactType}
}

func (a frameSnap) diff(b frameSnap) []string {
	var out []string
	for k, v := range a {
		if !reflect.DeepEqual(v, b[k]) {
			out = append(out, k)
		}
	}
	sort.Strings(out)
	return out
}

// makeDecoy produces, with the real signing API, another signature the
// repository lists next to the genuine one; it must not verify for the artifact.
func makeDecoy(ctx context.Context, e *env, k *keyInfo, c *c07Case, kind string, n int) sigEntry {
	dk := k
	dd := c.VOCI.toOCI()
	if kind == "untrusted" {
		dk = e.untrusted
	} else {
		dd.Digest = digest.FromString(fmt.Sprint("decoy", n, c.VOCI.Digest))
		dd.Size++
	}
	meta := map[string]string{"decoy": kind}
	for mk, mv := range c.Meta {
		meta[mk] = mv + "-decoy"
	}
	s, err := signer.NewGenericSigner(dk.Key, dk.Chain)
	if err != nil {
		panic(err)
	}
	r := &mockRepo{desc: dd}
	if _, _, err := notation.SignOCI(ctx, s, r, notation.SignOptions{SignerSignOptions: notation.SignerSignOptions{SignatureMediaType: c.Format},
		ArtifactReference: string(dd.Digest), UserMetadata: meta}); err != nil || len(r.sigs) != 1 {
		panic(fmt.Sprintf("c07: decoy signature: %v", err))
	}
	return r.sigs[0]
}

type env struct {
	keys      map[string]*keyInfo
	vTrusted  notation.Verifier
	vUntrust  notation.Verifier
	bvTrusted notation.BlobVerifier
	bvUntrust notation.BlobVerifier
	agent0    string
	untrusted *keyInfo // EC-256 leaf under the root the policies do not trust
	docs      []any    // the trust policy documents handed to the verifiers
	docsSnap  string
}

func (e *env) docsJSON() string {
	b, _ := json.Marshal(e.docs)
	return string(b)
}

func setup() *env {
	root := Mint(CertSpec{Subject: Name("c07 root"), IsCA: true}, nil)
	other := Mint(CertSpec{Subject: Name("c07 other root"), IsCA: true}, nil)
	e := &env{keys: map[string]*keyInfo{}}
	for _, k := range makeKeys(root) {
		e.keys[k.Name] = k
	}
	uk := Mint(CertSpec{Subject: Name("c07 untrusted leaf"), Leaf: true}, other)
	e.untrusted = &keyInfo{Name: "EC-256", Type: "KEC", Size: 256, Key: uk.Key, Chain: []*x509.Certificate{uk.C, other.C}}
	store := NewMockStore()
	store.Put(truststore.TypeCA, "s", root.C)
	store.Put(truststore.TypeCA, "o", other.C)
	mk := func(st string) *verifier.VerifierOptions {
		o := &verifier.VerifierOptions{
			OCITrustPolicy: OCIPolicy("strict", nil, []string{"ca:" + st}, []string{"*"}, ""),
			BlobTrustPolicy: &trustpolicy.BlobDocument{Version: "1.0", TrustPolicies: []trustpolicy.BlobTrustPolicy{{
				Name: "b", SignatureVerification: trustpolicy.SignatureVerification{VerificationLevel: "strict"},
				TrustStores: []string{"ca:" + st}, TrustedIdentities: []string{"*"}, GlobalPolicy: true}}},
		}
		e.docs = append(e.docs, o.OCITrustPolicy, o.BlobTrustPolicy)
		return o
	}
	vt, err := verifier.NewVerifierWithOptions(store, *mk("s"))
	if err != nil {
		panic(err)
	}
	vu, err := verifier.NewVerifierWithOptions(store, *mk("o"))
	if err != nil {
		panic(err)
	}
	e.vTrusted, e.vUntrust, e.bvTrusted, e.bvUntrust = vt, vu, vt, vu
	e.docsSnap = e.docsJSON()
	// the library's default signing agent: read from a signature made with no agent option
	k := e.keys["EC-256"]
	s, err := signer.NewGenericSigner(k.Key, k.Chain)
	if err != nil {
		panic(err)
	}
	sig, _, err := s.Sign(context.Background(), ocispec.Descriptor{MediaType: "a/b", Digest: digest.FromString("x"), Size: 1},
		notation.SignerSignOptions{SignatureMediaType: MtJWS})
	if err != nil {
		panic(err)
	}
	c, err := CoreVerify(MtJWS, sig)
	if err != nil {
		panic(err)
	}
	e.agent0 = c.SignerInfo.UnsignedAttributes.SigningAgent
	return e
}

func runC07(a *Args) error {
	prelude := "From NV Require Import Base C07_Model C07_Multi.\nOpen Scope string_scope.\n"
	w := NewCaseWriter(a, "C07", prelude, "xcase", "xrun")
	w.ShardSize = 600
	w.Rule = "sign->verify pairs on the real API: {RSA-2048/3072/4096, EC-256/384/521} x {JWS, COSE} x {OCI descriptor, blob} x {local signer, plugin signature generator, plugin envelope generator} as a full grid with generated descriptors (urls, data, platform, artifactType, annotations), blob contents of sizes 0..1 MiB (thorough: 4 MiB) handed over as io.Readers of 7 shapes for signing x 7 for verifying (bytes.Reader, no-WriteTo, data together with io.EOF, gzip, one byte at a time, half reads, (0,nil) reads; sizes 0, 1, 32 KiB and 64 KiB -1/0/+1) plus readers failing with a non-EOF error at the start / middle / last byte with and without data, media types, user-metadata maps (quotes, HTML characters, non-ASCII, U+2028, empty values), expiry durations (0, seconds .. 100 years), signing agents; plus streams that violate one rule each: illegal arguments (negative / sub-second duration, bad envelope or content media type), reserved or clashing metadata keys, untrusted signer, changed blob / descriptor / media type at verification, metadata demanded at verification (subset, wrong value, missing, reserved), plugins that describe an unknown or a wrong key spec or have no / both capabilities, strings that are not valid UTF-8, descriptor sizes around 2^53 (JWS float64 finding); systematic families: verification LESS specific than signing (no content media type, nil / empty / one / all metadata), nil vs empty maps and empty keys / values, history (ONE signer instance signs 4 things in sequence with an illegal request in the middle, each step its own case), other signatures (other artifact / untrusted signer) listed before / after / around the genuine one in the repository (the mock repository lists the signature manifests WITH their annotations - certificate thumbprints, creation time - as registry.Repository does); multi-signature histories (C07_Multi.v): ONE artifact signed 2-4 times with notation.SignOCI by the SAME signer instance / certificate chain or by different signers (other trusted keys, an untrusted signer), every call with its own user metadata (stage=prod / dev / absent / other value / no metadata) and expiry (none, 1 h, 24 h, or 1 s = expired when Verify runs), then ONE notation.Verify demanding stage=prod (or nothing) that exactly one signature satisfies, at EVERY listing position (listing order = call order, reversed, rotated) x reason of the others (metadata / expired / mixed with untrusted) x same / different signers x repository (mock, registry.Repository over an oras memory store, OCI layout on disk written through registry.NewOCIRepository and re-opened for Verify); plus two satisfying signatures (first listed wins), none satisfying, MaxSignatureAttempts at / below the position of the satisfying one, exactly the number of failing ones, 0, no signature at all, a refused SignOCI call in the middle, a verification-time descriptor differing in uncovered fields / in the size; observed per history: every SignOCI result, the blobs downloaded and the verifier.Verify calls made (order, result class), whose outcome is returned, returned descriptor, UserMetadata(). non-trivial = signing succeeded and verification was attempted; distinct = distinct input tuples"
	w.Assumptions = []string{
		"the clock value read inside Sign is taken from the signing time found in the envelope (its sub-second part from a clock reading just before the call)",
		"single-signature cases: signatures verify well before their expiry (generated durations are 0 or >= 1 hour); multi-signature histories: the clock read just before notation.Verify is the model's verification time, one-second signatures have expired by then (the verify phase waits for it) and the harness checks that no signature expires while Verify runs",
		"multi-signature histories: a wrapper around the real repository re-orders the listed signature manifest descriptors (taken unchanged, annotations included, from the real repository) into the listing order of the case and records FetchSignatureBlob calls; a wrapper around the real verifier records every verifier.Verify call; all signatures are listed in one page",
		"the scripted plugin is faithful: it signs the bytes it is given with the described key and the requested hash / expiry",
		"trust store content decides trust: the policy names a store holding the root of the signing chain (trusted) or another root (not trusted); revocation passes (no OCSP/CRL pointers)",
		"signatures that the repository lists besides the genuine one (made for another artifact or by an untrusted signer) do not change the observation: the model is evaluated on the genuine one alone",
		"frame check on every case: user-metadata and plugin-config maps of the sign and verify options, the descriptors the repositories resolve to (annotation map, urls, data), the signature bytes, the signer's certificate slice and the trust policy documents are snapshotted before each library call and must be unchanged after it",
		"sign error classes are recognised from the (stable) error texts of notation.go; verification error classes from error types and texts",
	}
	e := setup()
	rng := NewRng(a.Seed)
	groups := map[string]*groupState{}
	// exec runs one sign -> verify round trip on the real API and returns the case term and the raw
	// observations; it does not touch the case writer (the concurrency family calls it from goroutines,
	// with a shared signer instance / per-call context in ov)
	exec := func(c *c07Case, my int64, record bool, ov *override) *execResult {
		res := &execResult{}
		ctx := context.Background()
		k := e.keys[c.Key]
		// ----- signer
		var plug *scriptPlugin
		var sg signerBoth
		var gs0 *groupState
		if c.Group != "" {
			gs0 = groups[c.Group] // (the map is not touched for cases outside a history: they may run in goroutines)
		}
		if ov != nil {
			sg, plug, ctx = ov.sg, ov.plug, ov.ctx
		} else if gs0 != nil {
			gs := gs0
			sg, plug = gs.sg, gs.plug
			if plug != nil {
				plug.sigReq, plug.envReq, plug.envTime = nil, nil, time.Time{}
			}
		} else if c.Signer == "local" {
			s, err := signer.NewGenericSigner(k.Key, k.Chain)
			if err != nil {
				panic(err)
			}
			sg = s
		} else {
			plug = &scriptPlugin{key: k, describe: c.Desc}
			if c.CapSig {
				plug.caps = append(plug.caps, pluginfw.CapabilitySignatureGenerator)
			}
			if c.CapEnv {
				plug.caps = append(plug.caps, pluginfw.CapabilityEnvelopeGenerator)
			}
			s, err := signer.NewPluginSigner(plug, plugKeyID, nil)
			if err != nil {
				panic(err)
			}
			sg = s
		}
		cpMeta := func(m map[string]string, empty bool) map[string]string {
			if m == nil && empty {
				return map[string]string{}
			}
			return cpMap(m)
		}
		meta, vmeta := cpMeta(c.Meta, c.MetaEmpty), cpMeta(c.VMeta, c.VMetaEmpty)
		pcfg, vpcfg := map[string]string{"vh.config": "sign"}, map[string]string{"vh.config": "verify"}
		if c.Group != "" {
			gs, ok := groups[c.Group]
			if !ok {
				gs = &groupState{sg: sg, plug: plug, shared: c.SharedMaps, meta: meta, vmeta: vmeta, pcfg: pcfg, vpcfg: vpcfg}
				groups[c.Group] = gs
			} else if gs.shared {
				meta, vmeta, pcfg, vpcfg = gs.meta, gs.vmeta, gs.pcfg, gs.vpcfg
			}
		}
		// what the library is really given (a shared map may have been changed by an earlier step)
		metaIn, vmetaIn := cpMap(meta), cpMap(vmeta)
		sopts := notation.SignerSignOptions{SignatureMediaType: c.Format, ExpiryDuration: time.Duration(c.DurNs), SigningAgent: c.Agent, PluginConfig: pcfg}
		var signDesc, verifyDesc *ocispec.Descriptor
		var sigSnap []byte
		snapshot := func() frameSnap {
			chain := make([]string, len(k.Chain))
			for i, cert := range k.Chain {
				chain[i] = fmt.Sprintf("%p/%x", cert, cert.Raw[:16])
			}
			return frameSnap{
				"SignOptions.UserMetadata":                      cpMap(meta),
				"SignerSignOptions.PluginConfig":                cpMap(pcfg),
				"VerifyOptions.UserMetadata":                    cpMap(vmeta),
				"VerifyOptions.PluginConfig":                    cpMap(vpcfg),
				"descriptor resolved at signing (annotations, urls, data)":      descSnap(signDesc),
				"descriptor resolved at verification (annotations, urls, data)": descSnap(verifyDesc),
				"signature envelope bytes":                      append([]byte(nil), sigSnap...),
				"certificate chain slice of the signer":         chain,
				"trust policy documents":                        e.docsJSON(),
			}
		}
		frameCheck := func(stage string, before frameSnap) {
			if ch := before.diff(snapshot()); len(ch) > 0 {
				res.frame = append(res.frame, "library mutated caller-owned "+strings.Join(ch, "; ")+" (during "+stage+")")
			}
		}
		// ----- sign
		var sig []byte
		var serr error
		var shash string
		var targetTerm, vtargetTerm, letBlob string
		before := time.Now()
		var repo *mockRepo
		var content, vcontent []byte
		if c.Kind == "oci" {
			d := c.OCI.toOCI()
			repo = &mockRepo{desc: d}
			signDesc = &repo.desc
			targetTerm = CApp("TOCI", descTerm(d))
			fs := snapshot()
			_, _, serr = notation.SignOCI(ctx, sg, repo, notation.SignOptions{SignerSignOptions: sopts, ArtifactReference: c.OCI.Digest, UserMetadata: meta})
			frameCheck("SignOCI", fs)
			if serr == nil && len(repo.sigs) == 1 {
				sig = repo.sigs[0].blob
			}
			vtargetTerm = CApp("TOCI", descTerm(c.VOCI.toOCI()))
		} else {
			content = blobBytes(c.Blob)
			vcontent = blobBytes(c.VBlob)
			targetTerm = CApp("TBlob", blobTerm(content, readErr(c.Blob)), CStr(c.Blob.MT), CBool(mtOK(c.Blob.MT)))
			if bytes.Equal(content, vcontent) && !readErr(c.Blob) && !readErr(c.VBlob) {
				// the same blob at verification: share the term (string literals dominate Coq time)
				letBlob = blobTerm(content, false)
				targetTerm = CApp("TBlob", "b_", CStr(c.Blob.MT), CBool(mtOK(c.Blob.MT)))
				vtargetTerm = CApp("TBlob", "b_", CStr(c.VBlob.MT), CBool(mtOK(c.VBlob.MT)))
			} else {
				vtargetTerm = CApp("TBlob", blobTerm(vcontent, readErr(c.VBlob)), CStr(c.VBlob.MT), CBool(mtOK(c.VBlob.MT)))
			}
			fs := snapshot()
			sig, _, serr = notation.SignBlob(ctx, blobSignerShim{sg, &shash}, mkReader(c.Blob, content),
				notation.SignBlobOptions{SignerSignOptions: sopts, ContentMediaType: c.Blob.MT, UserMetadata: meta})
			frameCheck("SignBlob", fs)
			if serr != nil {
				sig = nil
			}
		}
		obs := map[string]any{}
		sc := signClass(serr)
		obs["sign"] = sc
		if serr != nil {
			obs["sign_error"] = Short(serr.Error(), 200)
		}
		// ----- read the envelope
		envTerm := "None"
		now := before
		var sigExpiry time.Time
		if sig != nil {
			ct, err := CoreVerify(c.Format, sig)
			if err != nil {
				res.viol = append(res.viol, "the signing API returned an envelope that notation-core-go does not verify: "+err.Error())
				return res
			}
			var top map[string]json.RawMessage
			var tgt map[string]json.RawMessage
			var pl struct {
				TargetArtifact ocispec.Descriptor `json:"targetArtifact"`
			}
			payloadTerm := "None"
			if json.Unmarshal(ct.Payload.Content, &top) == nil {
				json.Unmarshal(top["targetArtifact"], &tgt)
				if json.Unmarshal(ct.Payload.Content, &pl) == nil {
					payloadTerm = CSome(descTerm(pl.TargetArtifact))
					pd := pl.TargetArtifact
					res.payload = &pd
				}
			}
			st := ct.SignerInfo.SignedAttributes.SigningTime
			ex := ct.SignerInfo.SignedAttributes.Expiry
			sigExpiry = ex
			exTerm := "None"
			if !ex.IsZero() {
				exTerm = CSome(CZ(ex.Unix()))
				obs["expiry_minus_signing_time_s"] = ex.Unix() - st.Unix()
			}
			an := algNames[ct.SignerInfo.SignatureAlgorithm]
			if an == "" {
				an = "A0"
			}
			envTerm = CSome(CApp("mk_sobs", an, CStr(ct.Payload.ContentType), CStrList(sortedKeys(top)), CStrList(sortedKeys(tgt)),
				payloadTerm, CZ(st.Unix()), exTerm, CStr(ct.SignerInfo.UnsignedAttributes.SigningAgent)))
			obs["alg"], obs["payload"], obs["agent"] = an, string(ct.Payload.Content), ct.SignerInfo.UnsignedAttributes.SigningAgent
			// the clock value read by the signer: in the second found in the envelope
			ref := before
			if plug != nil && !plug.envTime.IsZero() {
				ref = plug.envTime
			}
			if ref.Unix() == st.Unix() {
				now = ref
			} else {
				now = time.Unix(st.Unix(), 0)
			}
		}
		// ----- verify
		vcode := int64(7)
		var vhash string
		retTerm, metaTerm := "None", "None"
		if sig != nil && c.WaitExpiry && !sigExpiry.IsZero() {
			if d := time.Until(sigExpiry.Add(30 * time.Millisecond)); d > 0 {
				time.Sleep(d)
			}
		}
		vnow := time.Now()
		if sig != nil {
			if c.Kind == "oci" {
				vd := c.VOCI.toOCI()
				vrepo := &mockRepo{desc: vd, sigs: repo.sigs}
				if len(c.Decoys) > 0 {
					var ds []sigEntry
					for n, kind := range c.Decoys {
						ds = append(ds, makeDecoy(ctx, e, k, c, kind, n))
					}
					switch c.DecoyPos {
					case "before":
						vrepo.sigs = append(ds, repo.sigs...)
					case "after":
						vrepo.sigs = append(append([]sigEntry(nil), repo.sigs...), ds...)
					default:
						h := (len(ds) + 1) / 2
						vrepo.sigs = append(append(append([]sigEntry(nil), ds[:h]...), repo.sigs...), ds[h:]...)
					}
				}
				v := e.vTrusted
				if !c.Trusted {
					v = e.vUntrust
				}
				verifyDesc, sigSnap = &vrepo.desc, sig
				fs := snapshot()
				ret, outs, err := notation.Verify(ctx, v, vrepo, notation.VerifyOptions{ArtifactReference: scopedRepo + "@" + c.VOCI.Digest, MaxSignatureAttempts: 10, UserMetadata: vmeta, PluginConfig: vpcfg})
				frameCheck("Verify", fs)
				vcode = verifyClass(err)
				if err != nil {
					obs["verify_error"] = Short(err.Error(), 300)
				}
				if err == nil {
					retTerm = CSome(descTerm(ret))
					rd := ret
					res.ret = &rd
					if len(outs) == 1 {
						if m, err := outs[0].UserMetadata(); err == nil {
							metaTerm = CSome(CMap(m))
							obs["user_metadata"] = m
							res.meta, res.hasMeta = m, true
						}
					}
				}
			} else {
				var bv notation.BlobVerifier = e.bvTrusted
				if !c.Trusted {
					bv = e.bvUntrust
				}
				sigSnap = sig
				fs := snapshot()
				ret, out, err := notation.VerifyBlob(ctx, blobVerifierShim{bv, &vhash}, mkReader(c.VBlob, vcontent), sig, notation.VerifyBlobOptions{
					BlobVerifierVerifyOptions: notation.BlobVerifierVerifyOptions{SignatureMediaType: c.Format, UserMetadata: vmeta, PluginConfig: vpcfg},
					ContentMediaType:          c.VBlob.MT})
				frameCheck("VerifyBlob", fs)
				vcode = verifyClass(err)
				if err != nil {
					obs["verify_error"] = Short(err.Error(), 300)
				}
				if err == nil {
					retTerm = CSome(descTerm(ret))
					rd := ret
					res.ret = &rd
					b, _ := json.Marshal(ret)
					obs["returned_descriptor"] = string(b)
					if out != nil {
						if m, err := out.UserMetadata(); err == nil {
							metaTerm = CSome(CMap(m))
							obs["user_metadata"] = m
							res.meta, res.hasMeta = m, true
						}
					}
				}
			}
		}
		obs["verify"] = vcode
		if c.Timed && sig != nil && !sigExpiry.IsZero() && vnow.Before(sigExpiry) != time.Now().Before(sigExpiry) {
			res.viol = append(res.viol, "harness: the signature expired while verification was running (case not decidable)")
		}
		c.Obs = obs
		// ----- terms
		signerTerm := "Local"
		if c.Signer != "local" {
			signerTerm = CApp("Plug", CBool(c.CapSig), CBool(c.CapEnv), CStr(c.Desc))
		}
		plugsig, plugenv := "None", "None"
		if plug != nil && plug.sigReq != nil {
			plugsig = CSome(CPair(CStr(string(plug.sigReq.KeySpec)), CStr(string(plug.sigReq.Hash))))
			obs["plugin_request"] = string(plug.sigReq.KeySpec) + " " + string(plug.sigReq.Hash)
		}
		if plug != nil && plug.envReq != nil {
			plugenv = CSome(CZ(int64(plug.envReq.ExpiryDurationInSeconds)))
		}
		in := CApp("mk_input", targetTerm, signerTerm, CApp("mk_ks", k.Type, CN(int64(k.Size))), CStr(c.Format), CMap(metaIn), CZ(c.DurNs),
			CStr(c.Agent), CZ(now.UnixNano()), CApp("mk_consts", CStr(e.agent0), CStr(plugName), CStr(plugVer), CStr(penvAgent)),
			CBool(c.Trusted), vtargetTerm, CMap(vmetaIn))
		ob := CApp("mk_obs", CN(sc), optStr(shash, shash != ""), plugsig, plugenv, envTerm, CN(vcode), optStr(vhash, vhash != ""), retTerm, metaTerm)
		term := CApp("mk_case", CN(my), in, ob)
		if c.Timed {
			term = CApp("mk_tcase", CN(my), in, CZ(vnow.UnixNano()), ob)
			res.wrap = "XT"
		}
		if letBlob != "" {
			term = "(let b_ := " + letBlob + " in " + term + ")"
		}
		cc := *c
		cc.Obs = nil
		kb, _ := json.Marshal(cc)
		res.term, res.key, res.signed, res.sc, res.vcode, res.shash, res.vhash = term, string(kb), sig != nil, sc, vcode, shash, vhash
		return res
	}

	var id int64
	add := func(my int64, c *c07Case, res *execResult) {
		for _, v := range res.viol {
			w.ImplViolation(my, v, c, "")
		}
		for _, v := range res.frame {
			w.ImplViolation(my, v, c, "frame")
		}
		if res.term == "" {
			return
		}
		sc, vcode := res.sc, res.vcode
		wrap := res.wrap
		if wrap == "" {
			wrap = "XS"
		}
		w.Add(my, "("+wrap+" "+res.term+")", c, res.key, res.signed)
		w.Count("family", c.Family)
		w.Count("key", c.Key)
		w.Count("format", c.Format)
		w.Count("kind", c.Kind)
		sk := c.Signer
		if sk != "local" {
			sk = fmt.Sprintf("plugin(sig=%v,env=%v)", c.CapSig, c.CapEnv)
		}
		w.Count("signer", sk)
		w.Count("sign_class", fmt.Sprint(sc))
		w.Count("verify_class", fmt.Sprint(vcode))
		if c.Blob != nil {
			w.Count("reader_sign/verify", "sign="+shapeName(c.Blob.Reader)+" verify="+shapeName(c.VBlob.Reader))
			w.Count("blob_size", sizeBucket(c.Blob.Size))
		}
	}
	runCase := func(c *c07Case) {
		my := id
		id++
		record := w.Want(my)
		if !record && c.Group == "" {
			return // (the steps of a history group always run: later steps depend on the instance's past)
		}
		res := exec(c, my, record, nil)
		if record {
			add(my, c, res)
		}
	}

	// the concurrency family runs in a child process (this same binary)
	if out := os.Getenv("VH_C07_CONC_CHILD"); out != "" {
		return concChild(a, e, exec, out)
	}
	multiRuns := multiSign(a, e, w)
	timedJoin := timedStart(a, w, exec)
	gen := &generator{rng: rng, tier: a.Tier}
	if a.Only < timedBase {
		gen.all(runCase)
	}
	concParent(a, w, add)
	timedJoin(add)
	multiVerify(multiRuns, e, w)
	// regression inputs
	if a.Corpus != "" {
		files, _ := filepath.Glob(filepath.Join(a.Corpus, "*.json"))
		sort.Strings(files)
		for _, f := range files {
			b, err := os.ReadFile(f)
			if err != nil {
				continue
			}
			var c c07Case
			if json.Unmarshal(b, &c) == nil && c.Key != "" {
				c.Family = "corpus"
				c.Obs = nil
				runCase(&c)
			}
		}
	}
	return w.Close()
}

func shapeName(s string) string {
	if s == "" {
		return "bytes"
	}
	return s
}

func sizeBucket(n int) string {
	switch {
	case n == 0:
		return "0"
	case n < 64:
		return "<64"
	case n < 4096:
		return "<4Ki"
	case n < 65536:
		return "<64Ki"
	case n < 1<<20:
		return "<1Mi"
	}
	return ">=1Mi"
}
