package main

// Concurrency family (HOWTO lesson 7): K goroutines share ONE trusted verifier,
// ONE GenericSigner per key and ONE PluginSigner (signature generator) over one
// plugin object, in one process; every goroutine signs and verifies ITS OWN
// blobs / descriptors (distinct content, metadata, media type per call), with
// runtime.Gosched() at every log line of the library (context logger) and at
// every plugin command. Every round trip is judged against its own input: all of
// them by a direct Go-side comparison, a sample of them additionally as ordinary
// cases evaluated in Coq. The family runs in a re-executed child process, so a
// fatal runtime error (concurrent map writes ...) is recorded as a violation.

import (
	"bufio"
	"context"
	"encoding/json"
	"fmt"
	"os"
	"os/exec"
	"reflect"
	"runtime"
	"strings"
	"sync"
	"time"
	. "vh/kit"

	"github.com/notaryproject/notation-go/log"
	"github.com/notaryproject/notation-go/signer"
	pluginfw "github.com/notaryproject/notation-plugin-framework-go/plugin"
	"github.com/opencontainers/go-digest"
)

const (
	concBase       = 700000
	concGoroutines = 8
)

func concCalls(tier string) int {
	if tier == "thorough" {
		return 600
	}
	return 150
}

// ---- yield points ----

type yieldLogger struct{}

func (yieldLogger) Debug(args ...interface{})                 { runtime.Gosched() }
func (yieldLogger) Debugf(format string, args ...interface{}) { runtime.Gosched() }
func (yieldLogger) Debugln(args ...interface{})               { runtime.Gosched() }
func (yieldLogger) Info(args ...interface{})                  { runtime.Gosched() }
func (yieldLogger) Infof(format string, args ...interface{})  { runtime.Gosched() }
func (yieldLogger) Infoln(args ...interface{})                { runtime.Gosched() }
func (yieldLogger) Warn(args ...interface{})                  { runtime.Gosched() }
func (yieldLogger) Warnf(format string, args ...interface{})  { runtime.Gosched() }
func (yieldLogger) Warnln(args ...interface{})                { runtime.Gosched() }
func (yieldLogger) Error(args ...interface{})                 { runtime.Gosched() }
func (yieldLogger) Errorf(format string, args ...interface{}) { runtime.Gosched() }
func (yieldLogger) Errorln(args ...interface{})               { runtime.Gosched() }

// ctxPlugin is the ONE plugin object of the shared PluginSigner: it hands every
// command to the scripted plugin of the call, found in the context.
type ctxPlugin struct{}
type callKey struct{}

func callPlugin(ctx context.Context) *scriptPlugin { return ctx.Value(callKey{}).(*scriptPlugin) }

func (ctxPlugin) GetMetadata(ctx context.Context, req *pluginfw.GetMetadataRequest) (*pluginfw.GetMetadataResponse, error) {
	return callPlugin(ctx).GetMetadata(ctx, req)
}
func (ctxPlugin) DescribeKey(ctx context.Context, req *pluginfw.DescribeKeyRequest) (*pluginfw.DescribeKeyResponse, error) {
	return callPlugin(ctx).DescribeKey(ctx, req)
}
func (ctxPlugin) GenerateSignature(ctx context.Context, req *pluginfw.GenerateSignatureRequest) (*pluginfw.GenerateSignatureResponse, error) {
	return callPlugin(ctx).GenerateSignature(ctx, req)
}
func (ctxPlugin) GenerateEnvelope(ctx context.Context, req *pluginfw.GenerateEnvelopeRequest) (*pluginfw.GenerateEnvelopeResponse, error) {
	return callPlugin(ctx).GenerateEnvelope(ctx, req)
}

// ---- the inputs of goroutine g, call n: all distinct ----

var concKeys = []string{"EC-256", "EC-384", "EC-521", "RSA-2048"}

func concCase(g, n int) *c07Case {
	key := concKeys[(g+n)%len(concKeys)]
	c := &c07Case{Family: "concurrency", Key: key, Format: formats[(g/2+n)%2], Trusted: true, DurNs: int64(3600+g*100+n) * int64(time.Second)}
	switch (g + n) % 3 {
	case 0:
		c.Signer = "local"
	case 1:
		c.Signer, c.CapSig, c.Desc = "plugin", true, key
	default:
		c.Signer, c.CapEnv, c.Desc = "plugin", true, key
	}
	c.Meta = map[string]string{"owner": fmt.Sprintf("g%02d", g), "n": fmt.Sprintf("%04d", n)}
	if n%5 == 0 {
		c.Meta[fmt.Sprintf("extra-%d", g)] = strings.Repeat("x", n%17)
	}
	c.VMeta = map[string]string{"owner": fmt.Sprintf("g%02d", g)}
	mt := mediaTypes[(g+2*n)%len(mediaTypes)]
	if n%2 == 0 {
		c.Kind = "blob"
		if (g+2*n)%len(mediaTypes) < 3 {
			mt = "application/x-g" + fmt.Sprint(g)
		}
		c.Blob = &c07Blob{Seed: uint64(g)<<32 | uint64(n), Size: 1 + (g*131+n*17)%3000, MT: mt, Reader: []string{"", "plain", "dataerr", "half"}[(g+n/2)%4]}
		vb := *c.Blob
		if n%4 == 0 {
			vb.MT = ""
		}
		c.VBlob = &vb
	} else {
		c.Kind = "oci"
		c.OCI = &c07Desc{MT: mt, Digest: string(digest.FromString(fmt.Sprintf("artifact of goroutine %d call %d", g, n))), Size: int64(g*100000 + n),
			Anns: map[string]string{"org.opencontainers.image.title": fmt.Sprintf("app-%d-%d", g, n)}, URLs: []string{fmt.Sprintf("https://example.com/%d/%d", g, n)}}
		c.VOCI = cloneDesc(c.OCI)
	}
	return c
}

// judge compares, on the Go side, what one round trip produced with what its OWN
// input demands (all inputs of this family are legal and must verify).
func concJudge(c *c07Case, r *execResult) []string {
	var bad []string
	if len(r.viol) > 0 {
		return r.viol
	}
	if r.sc != 0 || !r.signed {
		return []string{fmt.Sprintf("signing failed (class %d)", r.sc)}
	}
	wantAnns := map[string]string{}
	for k, v := range c.Meta {
		wantAnns[k] = v
	}
	var mt, dg string
	var size int64
	if c.Kind == "oci" {
		for k, v := range c.OCI.Anns {
			wantAnns[k] = v
		}
		mt, dg, size = c.OCI.MT, c.OCI.Digest, c.OCI.Size
	} else {
		content := blobBytes(c.Blob)
		alg := map[string]digest.Algorithm{"EC-256": digest.SHA256, "RSA-2048": digest.SHA256, "EC-384": digest.SHA384, "RSA-3072": digest.SHA384, "EC-521": digest.SHA512, "RSA-4096": digest.SHA512}[c.Key]
		mt, dg, size = c.Blob.MT, string(alg.FromBytes(content)), int64(len(content))
	}
	if r.payload == nil || r.payload.MediaType != mt || string(r.payload.Digest) != dg || r.payload.Size != size || !reflect.DeepEqual(r.payload.Annotations, wantAnns) ||
		len(r.payload.URLs) != 0 || r.payload.Platform != nil || r.payload.ArtifactType != "" || len(r.payload.Data) != 0 {
		bad = append(bad, fmt.Sprintf("the signed payload is not this call's descriptor: %+v", r.payload))
	}
	if r.vcode != 0 {
		bad = append(bad, fmt.Sprintf("verification of this call's own signature failed (class %d)", r.vcode))
		return bad
	}
	if r.ret == nil || string(r.ret.Digest) != dg || r.ret.Size != size || r.ret.MediaType != mt {
		bad = append(bad, fmt.Sprintf("the returned descriptor is not this call's: %+v", r.ret))
	} else if c.Kind == "blob" && !reflect.DeepEqual(r.ret.Annotations, wantAnns) {
		bad = append(bad, fmt.Sprintf("the returned descriptor carries other annotations: %v", r.ret.Annotations))
	}
	if !r.hasMeta || !reflect.DeepEqual(r.meta, wantAnns) {
		bad = append(bad, fmt.Sprintf("UserMetadata() is not this call's metadata: %v", r.meta))
	}
	return bad
}

type concLine struct {
	ID    int64    `json:"id"`
	Term  string   `json:"term,omitempty"`
	Key   string   `json:"key,omitempty"`
	Case  *c07Case `json:"case,omitempty"`
	NT    bool     `json:"nt,omitempty"`
	Viol  []string `json:"viol,omitempty"`
	Frame []string `json:"frame,omitempty"`
	Calls int      `json:"calls,omitempty"` // trailer: round trips made
}

func concChild(a *Args, e *env, execFn func(*c07Case, int64, bool, *override) *execResult, outPath string) error {
	f, err := os.Create(outPath)
	if err != nil {
		return err
	}
	defer f.Close()
	bw := bufio.NewWriterSize(f, 1<<20)
	var mu sync.Mutex
	put := func(l concLine) {
		b, _ := json.Marshal(l)
		mu.Lock()
		bw.Write(b)
		bw.WriteByte('\n')
		mu.Unlock()
	}
	// the shared instances
	local := map[string]signerBoth{}
	for _, kn := range concKeys {
		k := e.keys[kn]
		s, err := signer.NewGenericSigner(k.Key, k.Chain)
		if err != nil {
			return err
		}
		local[kn] = s
	}
	sharedPlugin, err := signer.NewPluginSigner(ctxPlugin{}, plugKeyID, map[string]string{"shared": "1"})
	if err != nil {
		return err
	}
	calls := concCalls(a.Tier)
	var wg sync.WaitGroup
	total := 0
	for g := 0; g < concGoroutines; g++ {
		wg.Add(1)
		go func(g int) {
			defer wg.Done()
			for n := 0; n < calls; n++ {
				id := int64(concBase + g*10000 + n)
				c := concCase(g, n)
				plug := &scriptPlugin{key: e.keys[c.Key], describe: c.Desc, yield: true}
				if c.CapSig {
					plug.caps = append(plug.caps, pluginfw.CapabilitySignatureGenerator)
				}
				if c.CapEnv {
					plug.caps = append(plug.caps, pluginfw.CapabilityEnvelopeGenerator)
				}
				ctx := log.WithLogger(context.WithValue(context.Background(), callKey{}, plug), yieldLogger{})
				ov := &override{ctx: ctx}
				if c.Signer == "local" {
					ov.sg = local[c.Key]
				} else if c.CapSig {
					ov.sg, ov.plug = sharedPlugin, plug
				} else {
					// an envelope-generating PluginSigner keeps the plugin's annotations of its last call
					// in the instance (PluginAnnotations()): one instance per goroutine
					s, err := signer.NewPluginSigner(plug, plugKeyID, nil)
					if err != nil {
						panic(err)
					}
					ov.sg, ov.plug = s, plug
				}
				r := execFn(c, id, true, ov)
				bad := concJudge(c, r)
				mu.Lock()
				total++
				mu.Unlock()
				wanted := a.Only < 0 || a.Only == id
				if !wanted {
					continue
				}
				if len(bad) > 0 || len(r.frame) > 0 {
					put(concLine{ID: id, Case: c, Viol: bad, Frame: r.frame})
				}
				// a sample goes through the model and the oracle in Coq as an ordinary case
				if r.term != "" && (n%25 == g%25 || a.Only == id) {
					put(concLine{ID: id, Term: r.term, Key: r.key, Case: c, NT: r.signed})
				}
			}
		}(g)
	}
	wg.Wait()
	put(concLine{Calls: total})
	return bw.Flush()
}

func concParent(a *Args, w *CaseWriter, add func(int64, *c07Case, *execResult)) {
	if a.Only >= 0 && a.Only < concBase {
		return
	}
	self, err := os.Executable()
	if err != nil {
		panic(err)
	}
	out := a.Out + "/conc_child.jsonl"
	args := []string{"--tier", a.Tier, "--seed", fmt.Sprint(a.Seed), "--out", a.Out + "/conc_child", "--only", fmt.Sprint(a.Only), "--repo", a.Repo}
	ctx, cancel := context.WithTimeout(context.Background(), 240*time.Second)
	defer cancel()
	cmd := exec.CommandContext(ctx, self, args...)
	cmd.Env = append(os.Environ(), "VH_C07_CONC_CHILD="+out)
	var stderr strings.Builder
	cmd.Stderr = &stderr
	cmd.Stdout = &stderr
	runErr := cmd.Run()
	calls := -1
	if f, err := os.Open(out); err == nil {
		sc := bufio.NewScanner(f)
		sc.Buffer(make([]byte, 1<<20), 64<<20)
		for sc.Scan() {
			var l concLine
			if json.Unmarshal(sc.Bytes(), &l) != nil {
				continue
			}
			switch {
			case l.Calls > 0:
				calls = l.Calls
			case l.Term != "":
				add(l.ID, l.Case, &execResult{term: l.Term, key: l.Key, signed: l.NT, sc: caseObsInt(l.Case, "sign"), vcode: caseObsInt(l.Case, "verify")})
			default:
				for _, v := range l.Viol {
					w.ImplViolation(l.ID, "concurrent use of shared signer / verifier instances: "+v, l.Case, "conc")
				}
				for _, v := range l.Frame {
					w.ImplViolation(l.ID, v, l.Case, "frame")
				}
			}
		}
		f.Close()
		os.Remove(out)
	}
	os.RemoveAll(a.Out + "/conc_child")
	if runErr != nil || calls < 0 {
		tail := stderr.String()
		if len(tail) > 1500 {
			tail = tail[:1500]
		}
		w.ImplViolation(concBase, fmt.Sprintf("the process running %d goroutines over shared signer / verifier instances died (%v): %s", concGoroutines, runErr, tail),
			map[string]any{"family": "concurrency", "goroutines": concGoroutines, "calls_each": concCalls(a.Tier)}, "conc")
		return
	}
	w.Set("concurrency_round_trips", calls)
	w.Set("concurrency_goroutines", concGoroutines)
}

func caseObsInt(c *c07Case, k string) int64 {
	if c == nil || c.Obs == nil {
		return 0
	}
	switch v := c.Obs[k].(type) {
	case float64:
		return int64(v)
	case int64:
		return v
	}
	return 0
}
